package main

import (
	"verifharness/lib"
	"verifharness/props/c01"
)

func main() { lib.Main(c01.Prop{}) }
