package main

import (
	"verifharness/lib"
	"verifharness/props/c02"
)

func main() { lib.Main(c02.Prop{}) }
