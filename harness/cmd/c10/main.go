package main

import (
	"verifharness/lib"
	"verifharness/props/c10"
)

func main() { lib.Main(c10.Prop{}) }
