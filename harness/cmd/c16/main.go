package main

import (
	"verifharness/lib"
	"verifharness/props/c16"
)

func main() { lib.Main(c16.Prop{}) }
