package main

import (
	"verifharness/lib"
	"verifharness/props/c14"
)

func main() { lib.Main(c14.Prop{}) }
