package main

import (
	"verifharness/lib"
	"verifharness/props/c15"
)

func main() { lib.Main(c15.Prop{}) }
