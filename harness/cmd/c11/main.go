package main

import (
	"verifharness/lib"
	"verifharness/props/c11"
)

func main() { lib.Main(c11.Prop{}) }
