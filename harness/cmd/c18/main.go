package main

import (
	"verifharness/lib"
	"verifharness/props/c18"
)

func main() { lib.Main(c18.Prop{}) }
