package main

import (
	"verifharness/lib"
	"verifharness/props/c04"
)

func main() { lib.Main(c04.Prop{}) }
