package main

import (
	"verifharness/lib"
	"verifharness/props/c07"
)

func main() { lib.Main(c07.Prop{}) }
