package main

import (
	"verifharness/lib"
	"verifharness/props/c13"
)

func main() { lib.Main(c13.Prop{}) }
