package main

import (
	"verifharness/lib"
	"verifharness/props/c12"
)

func main() { lib.Main(c12.Prop{}) }
