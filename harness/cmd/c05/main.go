package main

import (
	"verifharness/lib"
	"verifharness/props/c05"
)

func main() { lib.Main(c05.Prop{}) }
