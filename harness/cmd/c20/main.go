package main

import (
	"verifharness/lib"
	"verifharness/props/c20"
)

func main() { lib.Main(c20.Prop{}) }
