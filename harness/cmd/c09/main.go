package main

import (
	"verifharness/lib"
	"verifharness/props/c09"
)

func main() { lib.Main(c09.Prop{}) }
