package main

import (
	"verifharness/lib"
	"verifharness/props/c06"
)

func main() { lib.Main(c06.Prop{}) }
