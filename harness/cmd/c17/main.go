package main

import (
	"verifharness/lib"
	"verifharness/props/c17"
)

func main() { lib.Main(c17.Prop{}) }
