package main

import (
	"verifharness/lib"
	"verifharness/props/c03"
)

func main() { lib.Main(c03.Prop{}) }
