package main

import (
	"verifharness/lib"
	"verifharness/props/c19"
)

func main() { lib.Main(c19.Prop{}) }
