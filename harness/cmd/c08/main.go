package main

import (
	"verifharness/lib"
	"verifharness/props/c08"
)

func main() { lib.Main(c08.Prop{}) }
