// Package faultstore wraps an anystore.DB so that every storage-call boundary
// of a write (begin, insert, upsert, update, delete, commit, rollback) is
// numbered and can be turned into an injected error or a crash image (copy of
// the database files as a dying process would leave them). DESIGN.md 2.3.
package faultstore

import (
	"context"
	"errors"
	"fmt"
	"os"
	"path/filepath"
	"strings"
	"sync"

	anystore "github.com/anyproto/any-store"
	"github.com/anyproto/any-store/anyenc"
	"github.com/anyproto/any-store/query"
)

// ErrInjected is the error returned at an injected fault.
var ErrInjected = errors.New("verif: injected storage fault")

type Mode int

const (
	// Pass: count and name boundaries only.
	Pass Mode = iota
	// ErrorAt: the boundary with index K returns ErrInjected (once).
	ErrorAt
	// ImageAt: before the boundary with index K executes, the database files are copied to ImageDir.
	ImageAt
)

// Ctl controls one wrapped database.
type Ctl struct {
	mu       sync.Mutex
	Mode     Mode
	K        int
	ImageDir string
	DBPath   string
	// observed
	N         int      // boundaries seen since Reset
	Names     []string // their names
	Fired     bool
	ImageErr  error
	Armed     bool // only count / inject while armed
	// OnFire, when set (after Reset), is called when the ErrorAt fault fires; the injected error then also wraps
	// context.Canceled: the fault is "the caller's context is cancelled at this boundary", OnFire being its cancel func.
	OnFire func()
}

// Reset re-arms the controller for one operation.
func (c *Ctl) Reset(mode Mode, k int, imageDir string) {
	c.mu.Lock()
	defer c.mu.Unlock()
	c.Mode, c.K, c.ImageDir = mode, k, imageDir
	c.N, c.Names, c.Fired, c.ImageErr, c.Armed = 0, nil, false, nil, true
	c.OnFire = nil
}

// Disarm stops counting (observation code may use the database freely).
func (c *Ctl) Disarm() {
	c.mu.Lock()
	c.Armed = false
	c.mu.Unlock()
}

// boundary is called before a storage call executes. It returns an error when
// the call must fail instead.
func (c *Ctl) boundary(name string) error {
	c.mu.Lock()
	defer c.mu.Unlock()
	if !c.Armed {
		return nil
	}
	idx := c.N
	c.N++
	c.Names = append(c.Names, name)
	if c.Fired || idx != c.K {
		return nil
	}
	switch c.Mode {
	case ErrorAt:
		c.Fired = true
		if c.OnFire != nil {
			c.OnFire()
			return fmt.Errorf("%w at boundary %d (%s): %w", ErrInjected, idx, name, context.Canceled)
		}
		return fmt.Errorf("%w at boundary %d (%s)", ErrInjected, idx, name)
	case ImageAt:
		c.Fired = true
		c.ImageErr = CopyImage(c.DBPath, c.ImageDir)
	}
	return nil
}

// CopyImage copies the database file and its write-ahead log (not the -shm
// wal-index, which recovery rebuilds) the way a dead process leaves them.
func CopyImage(dbPath, dstDir string) error {
	if err := os.MkdirAll(dstDir, 0o755); err != nil {
		return err
	}
	dir := filepath.Dir(dbPath)
	base := filepath.Base(dbPath)
	ents, err := os.ReadDir(dir)
	if err != nil {
		return err
	}
	for _, e := range ents {
		n := e.Name()
		if e.IsDir() || !strings.HasPrefix(n, base) || strings.HasSuffix(n, "-shm") {
			continue
		}
		b, err := os.ReadFile(filepath.Join(dir, n))
		if err != nil {
			return err
		}
		if err := os.WriteFile(filepath.Join(dstDir, n), b, 0o644); err != nil {
			return err
		}
	}
	return nil
}

// Wrap returns the fault-injecting view of db.
func Wrap(db anystore.DB, ctl *Ctl) anystore.DB { return &fdb{DB: db, ctl: ctl} }

type fdb struct {
	anystore.DB
	ctl *Ctl
}

func (d *fdb) wrapColl(c anystore.Collection, err error) (anystore.Collection, error) {
	if err != nil {
		return nil, err
	}
	return &fcoll{Collection: c, ctl: d.ctl}, nil
}

func (d *fdb) CreateCollection(ctx context.Context, name string) (anystore.Collection, error) {
	if err := d.ctl.boundary("createCollection:" + name); err != nil {
		return nil, err
	}
	return d.wrapColl(d.DB.CreateCollection(ctx, name))
}
func (d *fdb) OpenCollection(ctx context.Context, name string) (anystore.Collection, error) {
	return d.wrapColl(d.DB.OpenCollection(ctx, name))
}
func (d *fdb) Collection(ctx context.Context, name string) (anystore.Collection, error) {
	// may create: a boundary only when it does not exist yet
	if _, err := d.DB.OpenCollection(ctx, name); err != nil {
		if berr := d.ctl.boundary("createCollection:" + name); berr != nil {
			return nil, berr
		}
	}
	return d.wrapColl(d.DB.Collection(ctx, name))
}

func (d *fdb) WriteTx(ctx context.Context) (anystore.WriteTx, error) {
	if err := d.ctl.boundary("begin"); err != nil {
		return nil, err
	}
	tx, err := d.DB.WriteTx(ctx)
	if err != nil {
		return nil, err
	}
	return &ftx{WriteTx: tx, ctl: d.ctl}, nil
}

// Unwrap returns the real database.
func Unwrap(db anystore.DB) anystore.DB {
	if f, ok := db.(*fdb); ok {
		return f.DB
	}
	return db
}

// ftx embeds the real transaction value, which promotes its unexported
// methods, so the wrapper still satisfies anystore.WriteTx.
type ftx struct {
	anystore.WriteTx
	ctl *Ctl
}

func (t *ftx) Commit() error {
	if err := t.ctl.boundary("commit"); err != nil {
		// a failed commit leaves nothing applied
		_ = t.WriteTx.Rollback()
		return err
	}
	return t.WriteTx.Commit()
}

func (t *ftx) Rollback() error {
	// rollback cannot meaningfully fail into a different durable state; count it only
	_ = t.ctl.boundary("rollback")
	return t.WriteTx.Rollback()
}

type fcoll struct {
	anystore.Collection
	ctl *Ctl
}

func (c *fcoll) n(op string) string { return op + ":" + c.Collection.Name() }

func (c *fcoll) Insert(ctx context.Context, docs ...*anyenc.Value) error {
	if err := c.ctl.boundary(c.n("insert")); err != nil {
		return err
	}
	return c.Collection.Insert(ctx, docs...)
}
func (c *fcoll) UpdateOne(ctx context.Context, doc *anyenc.Value) error {
	if err := c.ctl.boundary(c.n("updateOne")); err != nil {
		return err
	}
	return c.Collection.UpdateOne(ctx, doc)
}
func (c *fcoll) UpdateId(ctx context.Context, id any, mod query.Modifier) (anystore.ModifyResult, error) {
	if err := c.ctl.boundary(c.n("updateId")); err != nil {
		return anystore.ModifyResult{}, err
	}
	return c.Collection.UpdateId(ctx, id, mod)
}
func (c *fcoll) UpsertOne(ctx context.Context, doc *anyenc.Value) error {
	if err := c.ctl.boundary(c.n("upsertOne")); err != nil {
		return err
	}
	return c.Collection.UpsertOne(ctx, doc)
}
func (c *fcoll) UpsertId(ctx context.Context, id any, mod query.Modifier) (anystore.ModifyResult, error) {
	if err := c.ctl.boundary(c.n("upsertId")); err != nil {
		return anystore.ModifyResult{}, err
	}
	return c.Collection.UpsertId(ctx, id, mod)
}
func (c *fcoll) DeleteId(ctx context.Context, id any) error {
	if err := c.ctl.boundary(c.n("deleteId")); err != nil {
		return err
	}
	return c.Collection.DeleteId(ctx, id)
}
func (c *fcoll) EnsureIndex(ctx context.Context, info ...anystore.IndexInfo) error {
	// creates the index only when missing
	have := map[string]bool{}
	for _, ix := range c.Collection.GetIndexes() {
		have[ix.Info().Name] = true
	}
	missing := false
	for _, i := range info {
		name := i.Name
		if name == "" {
			name = strings.Join(i.Fields, ",")
		}
		if !have[name] {
			missing = true
		}
	}
	if missing {
		if err := c.ctl.boundary(c.n("ensureIndex")); err != nil {
			return err
		}
	}
	return c.Collection.EnsureIndex(ctx, info...)
}
func (c *fcoll) WriteTx(ctx context.Context) (anystore.WriteTx, error) {
	if err := c.ctl.boundary("begin"); err != nil {
		return nil, err
	}
	tx, err := c.Collection.WriteTx(ctx)
	if err != nil {
		return nil, err
	}
	return &ftx{WriteTx: tx, ctl: c.ctl}, nil
}
func (c *fcoll) Find(filter any) anystore.Query {
	// the repository passes a Query back into Find (any-store recognises its own query type)
	if fq, ok := filter.(*fquery); ok {
		filter = fq.Query
	}
	return &fquery{Query: c.Collection.Find(filter), c: c}
}

type fquery struct {
	anystore.Query
	c *fcoll
}

func (q *fquery) Limit(l uint) anystore.Query   { return &fquery{Query: q.Query.Limit(l), c: q.c} }
func (q *fquery) Offset(o uint) anystore.Query  { return &fquery{Query: q.Query.Offset(o), c: q.c} }
func (q *fquery) Sort(s ...any) anystore.Query  { return &fquery{Query: q.Query.Sort(s...), c: q.c} }
func (q *fquery) IndexHint(h ...anystore.IndexHint) anystore.Query {
	return &fquery{Query: q.Query.IndexHint(h...), c: q.c}
}
func (q *fquery) Update(ctx context.Context, modifier any) (anystore.ModifyResult, error) {
	if err := q.c.ctl.boundary(q.c.n("queryUpdate")); err != nil {
		return anystore.ModifyResult{}, err
	}
	return q.Query.Update(ctx, modifier)
}
func (q *fquery) Delete(ctx context.Context) (anystore.ModifyResult, error) {
	if err := q.c.ctl.boundary(q.c.n("queryDelete")); err != nil {
		return anystore.ModifyResult{}, err
	}
	return q.Query.Delete(ctx)
}
