// Package gates is a gate scheduler for harness-owned blocking points
// (DESIGN 2.5). Code under test calls harness-owned callbacks (a LoadFunc, an
// Object.Close, a fake stream's MsgSend …); each callback calls Sched.Gate,
// which parks the calling goroutine until the scheduler releases that gate.
// A schedule is the order in which gates are released.
//
// The scheduler has to know when the program has "settled" after a release:
// every task goroutine is finished, parked at a gate, or blocked inside the
// code under test. The first two are exact (the goroutines report them).
// "Blocked inside the code under test" is decided from a goroutine dump: a
// task that is neither parked nor finished counts as blocked only when the
// runtime reports it in a waiting state (chan receive, select, semacquire …).
// A short quiet period is only used to decide *when to look*; it is never a
// verdict, and a wrong guess only changes which gate is released next (every
// release order is a legal execution of the program).
package gates

import (
	"fmt"
	"runtime"
	"sort"
	"strings"
	"sync"
	"sync/atomic"
	"time"
)

const (
	stNew int32 = iota
	stRunning
	stParked
	stDone
)

// Task is one goroutine started through Sched.Go.
type Task struct {
	Idx   int
	Name  string
	goid  int64
	state atomic.Int32
}

func (t *Task) Done() bool   { return t.state.Load() == stDone }
func (t *Task) Parked() bool { return t.state.Load() == stParked }
func (t *Task) Goid() int64  { return t.goid }

type waiter struct {
	ch   chan struct{}
	task *Task
}

// Sched owns the gates of one execution.
type Sched struct {
	mu     sync.Mutex
	parked map[string]*waiter
	free   bool
	wake   chan struct{}
	tasks  map[int64]*Task
	list   []*Task
	seq    map[string]int

	// statistics
	Dumps        int64
	SettleLoops  int64
	SettleLimit  int64 // settle gave up waiting (never a verdict)
	GatesParked  int64
	GatesPassed  int64 // passed in free mode
	Unattributed int64 // gate reached from a goroutine that is not a task
}

func New() *Sched {
	return &Sched{parked: map[string]*waiter{}, wake: make(chan struct{}, 1), tasks: map[int64]*Task{}, seq: map[string]int{}}
}

func (s *Sched) signal() {
	select {
	case s.wake <- struct{}{}:
	default:
	}
}

// Goid returns the id of the calling goroutine (parsed from its stack header).
func Goid() int64 {
	var buf [40]byte
	n := runtime.Stack(buf[:], false)
	// "goroutine 123 [running]:"
	var id int64
	for i := len("goroutine "); i < n; i++ {
		c := buf[i]
		if c < '0' || c > '9' {
			break
		}
		id = id*10 + int64(c-'0')
	}
	return id
}

// Go starts fn as task idx. The goroutine first parks at gate "start:<idx>".
func (s *Sched) Go(idx int, name string, fn func()) *Task {
	t := &Task{Idx: idx, Name: name}
	ready := make(chan struct{})
	go func() {
		t.goid = Goid()
		s.mu.Lock()
		s.tasks[t.goid] = t
		s.mu.Unlock()
		close(ready)
		defer func() {
			t.state.Store(stDone)
			s.signal()
		}()
		s.Gate(fmt.Sprintf("start:%d", idx))
		fn()
	}()
	<-ready
	s.mu.Lock()
	s.list = append(s.list, t)
	s.mu.Unlock()
	return t
}

// TaskOfCaller returns the task the calling goroutine belongs to, or nil.
func (s *Sched) TaskOfCaller() *Task {
	g := Goid()
	s.mu.Lock()
	t := s.tasks[g]
	s.mu.Unlock()
	return t
}

// Gate parks the caller until the gate is released (or passes through at once
// in free mode). name should be canonical for the blocking point; if a gate of
// that name is already parked a numeric suffix is added.
func (s *Sched) Gate(name string) {
	g := Goid()
	s.mu.Lock()
	if s.free {
		s.GatesPassed++
		s.mu.Unlock()
		return
	}
	t := s.tasks[g]
	if t == nil {
		s.Unattributed++
	}
	base := name
	for i := 2; s.parked[name] != nil; i++ {
		name = fmt.Sprintf("%s~%d", base, i)
	}
	w := &waiter{ch: make(chan struct{}), task: t}
	s.parked[name] = w
	s.GatesParked++
	if t != nil {
		t.state.Store(stParked)
	}
	s.mu.Unlock()
	s.signal()
	<-w.ch
}

// Parked returns the sorted names of the gates that currently hold a goroutine.
func (s *Sched) Parked() []string {
	s.mu.Lock()
	out := make([]string, 0, len(s.parked))
	for n := range s.parked {
		out = append(out, n)
	}
	s.mu.Unlock()
	sort.Strings(out)
	return out
}

// Release lets the goroutine parked at name continue.
func (s *Sched) Release(name string) bool {
	s.mu.Lock()
	w := s.parked[name]
	if w == nil {
		s.mu.Unlock()
		return false
	}
	delete(s.parked, name)
	if w.task != nil {
		w.task.state.Store(stRunning)
	}
	s.mu.Unlock()
	close(w.ch)
	return true
}

// SetFree releases everything and makes all future gates pass through.
func (s *Sched) SetFree() {
	s.mu.Lock()
	s.free = true
	ws := s.parked
	s.parked = map[string]*waiter{}
	for _, w := range ws {
		if w.task != nil {
			w.task.state.Store(stRunning)
		}
	}
	s.mu.Unlock()
	for _, w := range ws {
		close(w.ch)
	}
}

// SetGated turns free mode off again.
func (s *Sched) SetGated() {
	s.mu.Lock()
	s.free = false
	s.mu.Unlock()
}

// WaitFor waits (event driven) until gate name is parked.
func (s *Sched) WaitFor(name string, limit time.Duration) bool {
	deadline := time.Now().Add(limit)
	tm := time.NewTimer(limit)
	defer tm.Stop()
	for {
		s.mu.Lock()
		_, ok := s.parked[name]
		s.mu.Unlock()
		if ok {
			return true
		}
		select {
		case <-s.wake:
		case <-tm.C:
			return false
		}
		if time.Now().After(deadline) {
			return false
		}
	}
}

func (s *Sched) running() []*Task {
	s.mu.Lock()
	var out []*Task
	for _, t := range s.list {
		if st := t.state.Load(); st == stRunning || st == stNew {
			out = append(out, t)
		}
	}
	s.mu.Unlock()
	return out
}

// AllDone reports whether every task has finished.
func (s *Sched) AllDone() bool {
	s.mu.Lock()
	defer s.mu.Unlock()
	for _, t := range s.list {
		if t.state.Load() != stDone {
			return false
		}
	}
	return true
}

// G describes one goroutine of a dump.
type G struct {
	ID        int64
	State     string
	Blocked   bool
	RepoFrame string // first frame inside github.com/anyproto/any-sync
	TopFrame  string // innermost frame outside runtime/sync/time
	InRepo    bool   // TopFrame is repository code: the goroutine is parked directly in it
	Text      string
}

// Dump takes a consistent snapshot of all goroutines.
func Dump() map[int64]*G {
	buf := make([]byte, 256<<10)
	for {
		n := runtime.Stack(buf, true)
		if n < len(buf) {
			buf = buf[:n]
			break
		}
		buf = make([]byte, 2*len(buf))
	}
	out := map[int64]*G{}
	for _, blk := range strings.Split(string(buf), "\n\n") {
		if !strings.HasPrefix(blk, "goroutine ") {
			continue
		}
		nl := strings.IndexByte(blk, '\n')
		hdr := blk
		if nl >= 0 {
			hdr = blk[:nl]
		}
		var id int64
		i := len("goroutine ")
		for ; i < len(hdr) && hdr[i] >= '0' && hdr[i] <= '9'; i++ {
			id = id*10 + int64(hdr[i]-'0')
		}
		g := &G{ID: id, Text: blk}
		if a := strings.IndexByte(hdr, '['); a >= 0 {
			st := hdr[a+1:]
			if b := strings.IndexAny(st, ",]"); b >= 0 {
				st = st[:b]
			}
			g.State = st
		}
		switch g.State {
		case "running", "runnable", "syscall", "":
		default:
			g.Blocked = true
		}
		if nl >= 0 {
			for _, ln := range strings.Split(blk[nl+1:], "\n") {
				if strings.HasPrefix(ln, "\t") || ln == "" || strings.HasPrefix(ln, "created by") {
					continue
				}
				fn := ln
				if k := strings.LastIndex(fn, "("); k > 0 {
					fn = fn[:k]
				}
				if g.TopFrame == "" && !strings.HasPrefix(fn, "runtime.") && !strings.HasPrefix(fn, "runtime/") && !strings.HasPrefix(fn, "sync.") &&
					!strings.HasPrefix(fn, "sync/") && !strings.HasPrefix(fn, "internal/") && !strings.HasPrefix(fn, "time.") {
					g.TopFrame = fn
					g.InRepo = strings.HasPrefix(fn, "github.com/anyproto/any-sync/")
				}
				if strings.HasPrefix(fn, "github.com/anyproto/any-sync/") {
					g.RepoFrame = fn
					break
				}
			}
		}
		out[id] = g
	}
	return out
}

// Settle waits until every task is finished, parked at a gate, or blocked
// (runtime waiting state) somewhere else. It returns the tasks of the last
// kind together with their dump entries. exact=false means the limit was hit
// while some task was still runnable (the caller just goes on; not a verdict).
func (s *Sched) Settle(quiet, limit time.Duration) (blocked []*Task, dump map[int64]*G, exact bool) {
	deadline := time.Now().Add(limit)
	tm := time.NewTimer(quiet)
	defer tm.Stop()
	for {
		s.SettleLoops++
		run := s.running()
		if len(run) == 0 {
			return nil, nil, true
		}
		if !tm.Stop() {
			select {
			case <-tm.C:
			default:
			}
		}
		tm.Reset(quiet)
		select {
		case <-s.wake:
			continue
		case <-tm.C:
		}
		// nothing reported a state change for `quiet`: look at the goroutines
		d := Dump()
		s.Dumps++
		all := true
		for _, t := range run {
			st := t.state.Load()
			if st != stRunning {
				all = false
				break
			}
			g := d[t.goid]
			if g == nil || !g.Blocked {
				all = false
				break
			}
		}
		if all {
			// re-validate: no task changed state while the dump was taken
			run2 := s.running()
			if len(run2) == len(run) {
				return run, d, true
			}
			continue
		}
		if time.Now().After(deadline) {
			s.SettleLimit++
			return run, d, false
		}
		runtime.Gosched()
	}
}
