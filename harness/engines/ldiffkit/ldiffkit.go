// Package ldiffkit holds the pieces shared by the C07 and C08 checks of the
// range-hash index (app/ldiff): id construction with a chosen position in the
// hash space, a recording/counting Remote, wire clients that marshal every
// request and response through the real server-side handlers, and the harness'
// own copy of the canonical range subdivision (used only to *choose* queries;
// no oracle depends on it).
package ldiffkit

import (
	"context"
	"encoding/binary"
	"errors"
	"fmt"
	"hash/fnv"
	"math"
	"math/bits"
	"math/rand"
	"sort"

	"github.com/cespare/xxhash"

	"github.com/anyproto/any-sync/app/ldiff"
	"github.com/anyproto/any-sync/commonspace/headsync"
	"github.com/anyproto/any-sync/commonspace/object/keyvalue"
	"github.com/anyproto/any-sync/commonspace/spacesyncproto"
)

// ---------------------------------------------------------------- ids with a chosen hash

const (
	prime1 uint64 = 11400714785074694791
	prime2 uint64 = 14029467366897019727
	prime3 uint64 = 1609587929392839161
	prime4 uint64 = 9650029242287828579
	prime5 uint64 = 2870177450012600261
)

func inv64(a uint64) uint64 { // a odd
	x := a
	for i := 0; i < 6; i++ {
		x *= 2 - a*x
	}
	return x
}

var (
	inv1 = inv64(prime1)
	inv2 = inv64(prime2)
	inv3 = inv64(prime3)
)

func unxorshift(x uint64, s uint) uint64 {
	y := x
	for i := uint(0); i < 64/s+1; i++ {
		y = x ^ (y >> s)
	}
	return y
}

func round0(in uint64) uint64 {
	return bits.RotateLeft64(in*prime2, 31) * prime1
}

// IdWithHash returns a 16-byte printable ASCII id whose xxhash64 equals
// target. salt selects among the many ids with that hash. The ids of the index
// are positioned by xxhash64(id) (that is the wire contract of the range
// protocol); the generator uses this only to build skewed sets. The result is
// verified with the real hash function; ok=false if the construction failed.
func IdWithHash(target uint64, salt uint64) (string, bool) {
	// undo the avalanche
	h := unxorshift(target, 32)
	h *= inv3
	h = unxorshift(h, 29)
	h *= inv2
	h = unxorshift(h, 33)
	// h = rol27(h1 ^ round0(B))*prime1 + prime4
	x := bits.RotateLeft64((h-prime4)*inv1, -27)
	var a [16]byte
	const alphabet = "abcdefghijklmnopqrstuvwxyz0123456789ABCDEFGHIJKLMNOPQRSTUVWXYZ._"
	for try := uint64(0); try < 1<<24; try++ {
		v := salt*0x9e3779b97f4a7c15 + try
		for i := 0; i < 8; i++ {
			a[i] = alphabet[(v>>(6*uint(i)))&63]
		}
		h1 := bits.RotateLeft64((prime5+16)^round0(binary.LittleEndian.Uint64(a[:8])), 27)*prime1 + prime4
		kb := x ^ h1
		b := bits.RotateLeft64(kb*inv1, -31) * inv2
		ok := true
		for i := 0; i < 8; i++ {
			ch := byte(b >> (8 * uint(i)))
			if ch < 0x23 || ch > 0x7e || ch == '\\' || ch == ':' {
				ok = false
				break
			}
		}
		if !ok {
			continue
		}
		binary.LittleEndian.PutUint64(a[8:], b)
		id := string(a[:])
		if xxhash.Sum64([]byte(id)) != target {
			return "", false
		}
		return id, true
	}
	return "", false
}

// HashOf is the position of an id in the hash space (diagnostics only).
func HashOf(id string) uint64 { return xxhash.Sum64([]byte(id)) }

// ---------------------------------------------------------------- canonical subdivision (query selection only)

type Rng struct{ From, To uint64 }

// Split is the harness' own statement of the protocol's range subdivision:
// divideFactor consecutive parts of equal size, the last one taking the
// remainder. It is used only to choose which ranges to ask both indexes about;
// if it disagreed with the implementation the queries would merely be
// answered by scanning on both sides.
func Split(r Rng, df int) []Rng {
	d := uint64(df)
	// size = To-From+1 (may be 2^64 for the top range)
	span := r.To - r.From // size-1
	var per, rem uint64
	if span == math.MaxUint64 {
		// 2^64 / d
		per = math.MaxUint64 / d
		rem = math.MaxUint64%d + 1
		if rem == d {
			per++
			rem = 0
		}
	} else {
		per = (span + 1) / d
		rem = (span + 1) % d
	}
	if per == 0 {
		return nil
	}
	out := make([]Rng, 0, df)
	j := r.From
	for i := 0; i < df; i++ {
		sz := per
		if i == df-1 {
			sz += rem
		}
		out = append(out, Rng{j, j + sz - 1})
		j += sz
	}
	return out
}

func (r Rng) Contains(h uint64) bool { return h >= r.From && h <= r.To }

var Top = Rng{0, math.MaxUint64}

// ---------------------------------------------------------------- classification of an answer (API-visible only)

// Classify names what a range answer looks like at the API: this is what the
// violation keys use as the "branch signature".
func Classify(rr ldiff.RangeResult) string {
	switch {
	case len(rr.Hash) == 0 && rr.Count == 0 && len(rr.Elements) == 0:
		return "empty"
	case len(rr.Hash) == 0 && len(rr.Elements) == rr.Count:
		return "scan" // no hash, elements inline: a range the answering side has not subdivided
	case len(rr.Hash) == 0:
		return "nohash-count-mismatch"
	case len(rr.Elements) == 0:
		return "hash"
	case len(rr.Elements) == rr.Count:
		return "hash+elements"
	}
	return "hash+partial-elements"
}

// ---------------------------------------------------------------- recording remote

var ErrWatchdog = errors.New("harness: step watchdog of the Ranges round trips fired")

type Round struct {
	Ranges  []ldiff.Range
	Results []ldiff.RangeResult
}

// Recorder is the counting Remote wrapper: it bounds the number of round
// trips, detects an exact repetition of a request list (with static indexes
// the next request list is a function of the current one, so a repetition
// proves non-termination) and optionally keeps the exchange.
type Recorder struct {
	Inner   ldiff.Remote
	Limit   int
	Keep    bool
	Rounds  int
	NRanges int
	Log     []Round
	seen    map[uint64]struct{}
	Repeat  bool
	Tripped bool
}

func NewRecorder(inner ldiff.Remote, limit int, keep bool) *Recorder {
	return &Recorder{Inner: inner, Limit: limit, Keep: keep, seen: map[uint64]struct{}{}}
}

// Ranges implements ldiff.Remote.
func (r *Recorder) Ranges(ctx context.Context, ranges []ldiff.Range, resBuf []ldiff.RangeResult) ([]ldiff.RangeResult, error) {
	r.Rounds++
	r.NRanges += len(ranges)
	h := fnv.New64a()
	var b [17]byte
	for _, rg := range ranges {
		binary.LittleEndian.PutUint64(b[:8], rg.From)
		binary.LittleEndian.PutUint64(b[8:16], rg.To)
		b[16] = 0
		if rg.Elements {
			b[16] = 1
		}
		h.Write(b[:])
	}
	k := h.Sum64()
	if _, ok := r.seen[k]; ok {
		// the same request list again: with static indexes the exchange has entered a cycle
		r.Repeat = true
		r.Tripped = true
		return nil, ErrWatchdog
	}
	r.seen[k] = struct{}{}
	if r.Rounds > r.Limit {
		r.Tripped = true
		return nil, ErrWatchdog
	}
	res, err := r.Inner.Ranges(ctx, ranges, resBuf)
	if err == nil && r.Keep {
		rd := Round{Ranges: append([]ldiff.Range(nil), ranges...), Results: make([]ldiff.RangeResult, len(res))}
		for i, x := range res {
			rd.Results[i] = ldiff.RangeResult{Hash: append([]byte(nil), x.Hash...), Count: x.Count, Elements: append([]ldiff.Element(nil), x.Elements...)}
		}
		r.Log = append(r.Log, rd)
	}
	return res, err
}

// LastRangeFor returns the last requested range that contains h together with
// the remote's recorded answer.
func (r *Recorder) LastRangeFor(h uint64) (ldiff.Range, ldiff.RangeResult, bool) {
	for i := len(r.Log) - 1; i >= 0; i-- {
		rd := r.Log[i]
		for j, rg := range rd.Ranges {
			if h >= rg.From && h <= rg.To && j < len(rd.Results) {
				return rg, rd.Results[j], true
			}
		}
	}
	return ldiff.Range{}, ldiff.RangeResult{}, false
}

// ---------------------------------------------------------------- wire clients

// HSClient is a headsync.Client that sends every request through the wire
// encoding to the real server-side handler and the response back.
type HSClient struct {
	Serve    func(ctx context.Context, req *spacesyncproto.HeadSyncRequest) (*spacesyncproto.HeadSyncResponse, error)
	Calls    int
	BytesOut int
	BytesIn  int
	// MismatchedLen counts responses whose number of results differs from the number of requested ranges.
	MismatchedLen int
}

func NewHSClient(remote ldiff.Diff) *HSClient {
	return &HSClient{Serve: func(ctx context.Context, req *spacesyncproto.HeadSyncRequest) (*spacesyncproto.HeadSyncResponse, error) {
		return headsync.HandleRangeRequest(ctx, remote, req)
	}}
}

func (c *HSClient) HeadSync(ctx context.Context, in *spacesyncproto.HeadSyncRequest) (*spacesyncproto.HeadSyncResponse, error) {
	c.Calls++
	b, err := in.MarshalVT()
	if err != nil {
		return nil, fmt.Errorf("marshal request: %w", err)
	}
	c.BytesOut += len(b)
	req := &spacesyncproto.HeadSyncRequest{}
	if err = req.UnmarshalVT(b); err != nil {
		return nil, fmt.Errorf("unmarshal request: %w", err)
	}
	resp, err := c.Serve(ctx, req)
	if err != nil {
		return nil, err
	}
	rb, err := resp.MarshalVT()
	if err != nil {
		return nil, fmt.Errorf("marshal response: %w", err)
	}
	c.BytesIn += len(rb)
	out := &spacesyncproto.HeadSyncResponse{}
	if err = out.UnmarshalVT(rb); err != nil {
		return nil, fmt.Errorf("unmarshal response: %w", err)
	}
	if len(out.Results) != len(in.Ranges) {
		c.MismatchedLen++
	}
	return out, nil
}

// KVClient is the key-value store flavour (StoreDiff).
type KVClient struct {
	Remote        ldiff.Diff
	Calls         int
	MismatchedLen int
}

func (c *KVClient) StoreDiff(ctx context.Context, in *spacesyncproto.StoreDiffRequest) (*spacesyncproto.StoreDiffResponse, error) {
	c.Calls++
	b, err := in.MarshalVT()
	if err != nil {
		return nil, fmt.Errorf("marshal request: %w", err)
	}
	req := &spacesyncproto.StoreDiffRequest{}
	if err = req.UnmarshalVT(b); err != nil {
		return nil, fmt.Errorf("unmarshal request: %w", err)
	}
	resp, err := keyvalue.HandleRangeRequest(ctx, c.Remote, req)
	if err != nil {
		return nil, err
	}
	rb, err := resp.MarshalVT()
	if err != nil {
		return nil, fmt.Errorf("marshal response: %w", err)
	}
	out := &spacesyncproto.StoreDiffResponse{}
	if err = out.UnmarshalVT(rb); err != nil {
		return nil, fmt.Errorf("unmarshal response: %w", err)
	}
	if len(out.Results) != len(in.Ranges) {
		c.MismatchedLen++
	}
	return out, nil
}

// ---------------------------------------------------------------- generators

// RandomId returns a random id in one of several realistic formats.
func RandomId(rng *rand.Rand) string {
	switch rng.Intn(4) {
	case 0:
		return fmt.Sprintf("%d", rng.Int63n(1_000_000_000))
	case 1:
		const b32 = "abcdefghijklmnopqrstuvwxyz234567"
		buf := make([]byte, 59)
		copy(buf, "bafyrei")
		for i := 7; i < len(buf); i++ {
			buf[i] = b32[rng.Intn(32)]
		}
		return string(buf)
	case 2:
		return fmt.Sprintf("%016x", rng.Uint64())
	default:
		return fmt.Sprintf("key%d-peer%d", rng.Intn(100000), rng.Intn(50))
	}
}

// RandomHead returns a random opaque head string. Every head starts with ':'
// and no generated id contains ':', so that id+head is an unambiguous encoding
// of the pair (the index hashes the plain concatenation; in the repository
// heads are fixed-length hashes, which gives the same guarantee).
func RandomHead(rng *rand.Rand) string {
	switch rng.Intn(3) {
	case 0:
		return fmt.Sprintf(":%016x%016x%016x%016x", rng.Uint64(), rng.Uint64(), rng.Uint64(), rng.Uint64())
	case 1:
		return fmt.Sprintf(":h%d", rng.Intn(1000))
	default:
		return fmt.Sprintf(":%x", rng.Uint32())
	}
}

// ClusterHashes returns n distinct hash values that share their `shared`
// leading bits with base and keep a distance of at least 2^minGapBits from
// each other (so that range subdivision never reaches ranges smaller than the
// divide factor).
func ClusterHashes(rng *rand.Rand, base uint64, shared uint, n int, minGapBits uint) []uint64 {
	if shared > 64-minGapBits-1 {
		shared = 64 - minGapBits - 1
	}
	free := 64 - shared // low bits that vary
	var mask uint64 = math.MaxUint64
	if shared > 0 {
		mask = (uint64(1) << free) - 1
	}
	prefix := base &^ mask
	seen := map[uint64]bool{}
	out := make([]uint64, 0, n)
	slots := uint64(1) << (free - minGapBits)
	if free-minGapBits >= 63 {
		slots = math.MaxInt64
	}
	for len(out) < n && uint64(len(out)) < slots {
		s := uint64(rng.Int63n(int64(slots)))
		if seen[s] {
			continue
		}
		seen[s] = true
		low := s<<minGapBits | uint64(rng.Int63n(int64(1)<<minGapBits))&((1<<minGapBits)-1)
		out = append(out, prefix|low)
	}
	return out
}

// SortedIds returns the keys of m in sorted order.
func SortedIds(m map[string]string) []string {
	out := make([]string, 0, len(m))
	for k := range m {
		out = append(out, k)
	}
	sort.Strings(out)
	return out
}

// Elements turns a map into a sorted element list.
func Elements(m map[string]string) []ldiff.Element {
	ids := SortedIds(m)
	out := make([]ldiff.Element, 0, len(ids))
	for _, id := range ids {
		out = append(out, ldiff.Element{Id: id, Head: m[id]})
	}
	return out
}
