package ldiffkit

import (
	"math"
	"math/rand"
	"testing"
)

func TestIdWithHashAndSplit(t *testing.T) {
	rng := rand.New(rand.NewSource(1))
	for i := 0; i < 2000; i++ {
		tg := rng.Uint64()
		if i == 0 {
			tg = 0
		}
		if i == 1 {
			tg = math.MaxUint64
		}
		id, ok := IdWithHash(tg, uint64(i))
		if !ok || HashOf(id) != tg {
			t.Fatalf("fail %d %x %q", i, tg, id)
		}
		if i < 3 {
			t.Log(id)
		}
	}
	for _, df := range []int{2, 3, 4, 5, 7, 16, 32} {
		s := Split(Top, df)
		if s[0].From != 0 || s[len(s)-1].To != math.MaxUint64 {
			t.Fatal("split")
		}
		for i := 1; i < len(s); i++ {
			if s[i].From != s[i-1].To+1 {
				t.Fatal("gap")
			}
		}
		t.Log(df, s[0], s[len(s)-1])
		s2 := Split(s[1], df)
		if s2[0].From != s[1].From || s2[len(s2)-1].To != s[1].To {
			t.Fatal("split2")
		}
	}
}
