// Package aclgen is the shared ACL engine of the harness (DESIGN 2.2): it
// builds ACL histories through the REAL client-side record builders of
// commonspace/object/acl/list, keeps several kinds of views of the same log
// (validating, keep-identity partial decode, any-store backed with restarts,
// caught-up through RecordsAfter, batch applied), offers an observation
// function Observe(list) that reads only the exported API, and has a second
// path that hand-assembles raw records (any content, any author, any prev id)
// bypassing the client-side builder.
//
// Nothing in this package judges the code under test; oracles live in the
// property packages (props/c03, props/c04). The guidance model in gen.go is
// only used to draw operations that have a chance of being accepted.
package aclgen

import (
	"fmt"
	"math/rand"
	"sync"

	"github.com/anyproto/any-sync/app/logger"

	"github.com/anyproto/any-sync/commonspace/object/accountdata"
	"github.com/anyproto/any-sync/commonspace/object/acl/aclrecordproto"
	"github.com/anyproto/any-sync/commonspace/object/acl/list"
	"github.com/anyproto/any-sync/commonspace/object/acl/recordverifier"
	"github.com/anyproto/any-sync/consensus/consensusproto"
	"github.com/anyproto/any-sync/util/cidutil"
	"github.com/anyproto/any-sync/util/crypto"
)

// Account is one principal of a generated world.
type Account struct {
	Name     string
	Keys     *accountdata.AccountKeys
	Pub      crypto.PubKey
	PubProto []byte // Pub.Marshall(), the form identities take inside records
	PubRaw   []byte // Pub.Raw(), what an invite key signs
	mapKey   string
}

// Standard account names. "node" never becomes a member: it models a
// consensus / sync node that only validates. "outsider" never joins unless a
// generated operation makes it.
var StandardAccounts = []string{"owner", "admin1", "admin2", "writer", "writer2", "reader", "guest", "removed", "joiner", "outsider", "node"}

// InviteInfo is the harness's own record of an invite that was ever created.
type InviteInfo struct {
	Id     string
	Key    crypto.PrivKey // nil when the key is not known to the harness
	Anyone bool
	Perm   list.AclPermissions
}

// RequestInfo is the harness's own record of a join / remove request ever made.
type RequestInfo struct {
	Id     string
	Who    string
	Remove bool
}

// World is one generated space ACL with its accounts, log and views.
type World struct {
	Rng      *rand.Rand
	SpaceId  string
	Accounts []*Account
	byName   map[string]*Account
	byKey    map[string]*Account

	NetKey crypto.PrivKey // network (acceptor) key; every committed record is counter-signed with it
	NetPub crypto.PubKey

	Root *consensusproto.RawRecordWithId
	// Log is the accepted record sequence, root first.
	Log []*consensusproto.RawRecordWithId
	// Kinds[i] is the content-kind label of Log[i] ("root", "invite", "batch[..]", …).
	Kinds []string

	// Canon is the reference view: identity "node", fully validating, in-memory.
	Canon *View
	// Main holds one fully validating in-memory view per account; builder
	// calls of an account run on its own view.
	Main map[string]*View

	Invites  []*InviteInfo
	Requests []*RequestInfo
	inviteBy map[string]*InviteInfo

	ts int64
	// Stats are engine-level counters (builder panics, refusals, …); property
	// packages copy them into the evidence.
	Stats map[string]int64
}

// detRand adapts *rand.Rand to io.Reader so that account keys are a function of the seed.
type detRand struct{ r *rand.Rand }

func (d detRand) Read(p []byte) (int, error) {
	for i := range p {
		p[i] = byte(d.r.Intn(256))
	}
	return len(p), nil
}

func newAccount(name string, rng *rand.Rand) (*Account, error) {
	peerKey, _, err := crypto.GenerateEd25519Key(detRand{rng})
	if err != nil {
		return nil, err
	}
	signKey, _, err := crypto.GenerateEd25519Key(detRand{rng})
	if err != nil {
		return nil, err
	}
	keys := accountdata.New(peerKey, signKey)
	pub := signKey.GetPublic()
	pp, err := pub.Marshall()
	if err != nil {
		return nil, err
	}
	raw, err := pub.Raw()
	if err != nil {
		return nil, err
	}
	return &Account{Name: name, Keys: keys, Pub: pub, PubProto: pp, PubRaw: raw, mapKey: string(pub.Storage())}, nil
}

var quietOnce sync.Once

// Quiet raises every named logger of the repository to "fatal": the ACL code
// logs one line per rejected record, which would dominate the run time of the
// alphabet enumeration.
func Quiet() {
	quietOnce.Do(func() { logger.SetNamedLevels([]logger.NamedLevel{{Name: "*", Level: "fatal"}}) })
}

// NewWorld creates the accounts, a root record owned by "owner" (through the
// real BuildRoot), the canonical node view and one validating view per account.
func NewWorld(rng *rand.Rand, names []string) (*World, error) {
	Quiet()
	if len(names) == 0 {
		names = StandardAccounts
	}
	w := &World{Rng: rng, SpaceId: fmt.Sprintf("space-%08x", rng.Uint32()), byName: map[string]*Account{}, byKey: map[string]*Account{},
		Main: map[string]*View{}, inviteBy: map[string]*InviteInfo{}, Stats: map[string]int64{}, ts: 1_700_000_000}
	for _, n := range names {
		a, err := newAccount(n, rng)
		if err != nil {
			return nil, err
		}
		w.Accounts = append(w.Accounts, a)
		w.byName[n] = a
		w.byKey[a.mapKey] = a
	}
	if w.byName["owner"] == nil || w.byName["node"] == nil {
		return nil, fmt.Errorf("aclgen: accounts must include owner and node")
	}
	var err error
	w.NetKey, w.NetPub, err = crypto.GenerateEd25519Key(detRand{rng})
	if err != nil {
		return nil, err
	}
	owner := w.byName["owner"]
	masterKey, _, err := crypto.GenerateEd25519Key(detRand{rng})
	if err != nil {
		return nil, err
	}
	metaKey, _, err := crypto.GenerateEd25519Key(detRand{rng})
	if err != nil {
		return nil, err
	}
	rb := list.NewAclRecordBuilder("", crypto.NewKeyStorage(), owner.Keys, recordverifier.NewValidateFull())
	var opts *aclrecordproto.AclSpaceOptions
	if rng.Intn(3) == 0 {
		opts = &aclrecordproto.AclSpaceOptions{DeleteRestricted: rng.Intn(2) == 0}
	}
	w.Root, err = rb.BuildRoot(list.RootContent{
		PrivKey:   owner.Keys.SignKey,
		MasterKey: masterKey,
		SpaceId:   w.SpaceId,
		Change:    list.ReadKeyChangePayload{MetadataKey: metaKey, ReadKey: crypto.NewAES()},
		Metadata:  []byte("owner-meta"),
		Options:   opts,
	})
	if err != nil {
		return nil, err
	}
	w.Log = []*consensusproto.RawRecordWithId{w.Root}
	w.Kinds = []string{"root"}
	for _, a := range w.Accounts {
		v, err := w.NewMemView(a, KindValidating, len(w.Log))
		if err != nil {
			return nil, fmt.Errorf("aclgen: view of %s: %w", a.Name, err)
		}
		v.Name = "main:" + a.Name
		w.Main[a.Name] = v
	}
	w.Canon = w.Main["node"]
	return w, nil
}

// Acc returns the account with the given name (nil if absent).
func (w *World) Acc(name string) *Account { return w.byName[name] }

// NameOf maps a public key to the account name, or "?xxxxxxxx" for keys the
// world does not know.
func (w *World) NameOf(pk crypto.PubKey) string {
	if pk == nil {
		return "?nil"
	}
	if a, ok := w.byKey[string(pk.Storage())]; ok {
		return a.Name
	}
	s := pk.Storage()
	if len(s) > 4 {
		s = s[:4]
	}
	return fmt.Sprintf("?%x", s)
}

// Head is the id of the last committed record.
func (w *World) Head() string { return w.Log[len(w.Log)-1].Id }

// NextTs returns a deterministic, increasing record timestamp.
func (w *World) NextTs() int64 { w.ts++; return w.ts }

// Wrap marshals a raw record and attaches its CID (no acceptor signature).
func Wrap(raw *consensusproto.RawRecord) *consensusproto.RawRecordWithId {
	payload, err := raw.MarshalVT()
	if err != nil {
		panic(err)
	}
	id, err := cidutil.NewCidFromBytes(payload)
	if err != nil {
		panic(err)
	}
	return &consensusproto.RawRecordWithId{Payload: payload, Id: id}
}

// Seal does what the consensus node does: counter-signs the author-signed
// payload with the network key, then marshals and attaches the CID.
func (w *World) Seal(raw *consensusproto.RawRecord) *consensusproto.RawRecordWithId {
	cp := &consensusproto.RawRecord{Payload: raw.Payload, Signature: raw.Signature}
	id, err := w.NetPub.Marshall()
	if err != nil {
		panic(err)
	}
	sig, err := w.NetKey.Sign(cp.Payload)
	if err != nil {
		panic(err)
	}
	cp.AcceptorIdentity = id
	cp.AcceptorSignature = sig
	cp.AcceptorTimestamp = w.NextTs()
	return Wrap(cp)
}

// Commit appends an accepted record to the log, registers the invites and
// requests it creates in the harness's own bookkeeping and feeds it to every
// Main view that is still in sync. It returns the names of Main views that
// refused it (they are marked Wedged and no longer used as builder views).
func (w *World) Commit(rec *consensusproto.RawRecordWithId, inviteKeys []crypto.PrivKey) (refusedBy []string) {
	w.Log = append(w.Log, rec)
	kind, contents, author := DescribeRecord(rec)
	w.Kinds = append(w.Kinds, kind)
	ik := 0
	for _, c := range contents {
		switch {
		case c.GetInvite() != nil:
			inv := &InviteInfo{Id: rec.Id, Anyone: c.GetInvite().InviteType == aclrecordproto.AclInviteType_AnyoneCanJoin, Perm: list.AclPermissions(c.GetInvite().Permissions)}
			if ik < len(inviteKeys) {
				inv.Key = inviteKeys[ik]
				ik++
			}
			// several invites in one record share the record id; the state keeps the last one
			w.Invites = append(w.Invites, inv)
			w.inviteBy[rec.Id] = inv
		case c.GetRequestJoin() != nil:
			w.Requests = append(w.Requests, &RequestInfo{Id: rec.Id, Who: w.nameOfProto(author)})
		case c.GetAccountRequestRemove() != nil:
			w.Requests = append(w.Requests, &RequestInfo{Id: rec.Id, Who: w.nameOfProto(author), Remove: true})
		}
	}
	for _, a := range w.Accounts {
		v := w.Main[a.Name]
		if v == nil || v.Wedged || v.N != len(w.Log)-1 {
			continue
		}
		if err := v.Add(rec); err != nil {
			v.Wedged = true
			v.WedgeErr = err.Error()
			refusedBy = append(refusedBy, a.Name)
			w.Stats["main_view_refused_committed_record"]++
		}
	}
	return
}

func (w *World) nameOfProto(identity []byte) string {
	pk, err := crypto.NewKeyStorage().PubKeyFromProto(identity)
	if err != nil {
		return "?bad"
	}
	return w.NameOf(pk)
}

// InviteById returns the harness's record of an invite.
func (w *World) InviteById(id string) *InviteInfo { return w.inviteBy[id] }

// DescribeRecord decodes a record with the generated protobuf decoder only
// (no ACL logic) and returns a content-kind label, the contents and the
// author's identity bytes. Root records are labelled "root".
func DescribeRecord(rec *consensusproto.RawRecordWithId) (kind string, contents []*aclrecordproto.AclContentValue, identity []byte) {
	raw := &consensusproto.RawRecord{}
	if err := raw.UnmarshalVT(rec.Payload); err != nil {
		return "undecodable", nil, nil
	}
	r := &consensusproto.Record{}
	if err := r.UnmarshalVT(raw.Payload); err != nil {
		return "undecodable", nil, nil
	}
	data := &aclrecordproto.AclData{}
	if err := data.UnmarshalVT(r.Data); err != nil {
		return "undecodable", nil, r.Identity
	}
	return KindOfContents(data.AclContent), data.AclContent, r.Identity
}

// KindOf names the content kind of one content value.
func KindOf(c *aclrecordproto.AclContentValue) string {
	switch {
	case c.GetInvite() != nil:
		if c.GetInvite().InviteType == aclrecordproto.AclInviteType_AnyoneCanJoin {
			return "invite_anyone"
		}
		return "invite"
	case c.GetInviteRevoke() != nil:
		return "invite_revoke"
	case c.GetRequestJoin() != nil:
		return "request_join"
	case c.GetRequestAccept() != nil:
		return "request_accept"
	case c.GetPermissionChange() != nil:
		return "permission_change"
	case c.GetAccountRemove() != nil:
		return "account_remove"
	case c.GetReadKeyChange() != nil:
		return "read_key_change"
	case c.GetRequestDecline() != nil:
		return "request_decline"
	case c.GetAccountRequestRemove() != nil:
		return "request_remove"
	case c.GetPermissionChanges() != nil:
		return "permission_changes"
	case c.GetAccountsAdd() != nil:
		return "accounts_add"
	case c.GetRequestCancel() != nil:
		return "request_cancel"
	case c.GetInviteJoin() != nil:
		return "invite_join"
	case c.GetInviteChange() != nil:
		return "invite_change"
	case c.GetOwnershipChange() != nil:
		return "ownership_change"
	case c.GetSpaceOptionsChange() != nil:
		return "options_change"
	}
	return "empty"
}

// KindOfContents labels a content list: the kind for one content, "batch[a+b+…]" otherwise.
func KindOfContents(cs []*aclrecordproto.AclContentValue) string {
	if len(cs) == 0 {
		return "no_content"
	}
	if len(cs) == 1 {
		return KindOf(cs[0])
	}
	s := "batch["
	for i, c := range cs {
		if i > 0 {
			s += "+"
		}
		s += KindOf(c)
	}
	return s + "]"
}
