package aclgen

import (
	"github.com/anyproto/any-sync/commonspace/object/acl/aclrecordproto"
	"github.com/anyproto/any-sync/commonspace/object/acl/list"
	"github.com/anyproto/any-sync/consensus/consensusproto"
	"github.com/anyproto/any-sync/util/crypto"
)

// This file is the builder-bypassing path: contents are assembled by hand
// from the protobuf types and the record is signed by a chosen author with a
// chosen prev id. Nothing here consults the ACL state.

type CV = aclrecordproto.AclContentValue

func perm(p list.AclPermissions) aclrecordproto.AclUserPermissions {
	return aclrecordproto.AclUserPermissions(p)
}

// SignRaw assembles Record{prevId, author identity, AclData{contents}} and
// signs it with the author's key.
func (w *World) SignRaw(author *Account, prevId string, contents []*CV) *consensusproto.RawRecord {
	data, err := (&aclrecordproto.AclData{AclContent: contents}).MarshalVT()
	if err != nil {
		panic(err)
	}
	return w.SignRawData(author, prevId, data)
}

// SignRawData is SignRaw with pre-marshalled AclData bytes (for mutated data).
func (w *World) SignRawData(author *Account, prevId string, data []byte) *consensusproto.RawRecord {
	rec := &consensusproto.Record{PrevId: prevId, Identity: author.PubProto, Data: data, Timestamp: w.NextTs()}
	payload, err := rec.MarshalVT()
	if err != nil {
		panic(err)
	}
	sig, err := author.Keys.SignKey.Sign(payload)
	if err != nil {
		panic(err)
	}
	return &consensusproto.RawRecord{Payload: payload, Signature: sig}
}

func CPermChange(identity []byte, p list.AclPermissions) *CV {
	return &CV{Value: &aclrecordproto.AclContentValue_PermissionChange{PermissionChange: &aclrecordproto.AclAccountPermissionChange{Identity: identity, Permissions: perm(p)}}}
}

type PermPair struct {
	Identity []byte
	Perm     list.AclPermissions
}

func CPermChanges(ps ...PermPair) *CV {
	var chs []*aclrecordproto.AclAccountPermissionChange
	for _, p := range ps {
		chs = append(chs, &aclrecordproto.AclAccountPermissionChange{Identity: p.Identity, Permissions: perm(p.Perm)})
	}
	return &CV{Value: &aclrecordproto.AclContentValue_PermissionChanges{PermissionChanges: &aclrecordproto.AclAccountPermissionChanges{Changes: chs}}}
}

type AddEntry struct {
	Identity []byte
	Perm     list.AclPermissions
	EncKey   []byte
}

func CAccountsAdd(adds ...AddEntry) *CV {
	var as []*aclrecordproto.AclAccountAdd
	for _, a := range adds {
		as = append(as, &aclrecordproto.AclAccountAdd{Identity: a.Identity, Permissions: perm(a.Perm), Metadata: []byte("m"), EncryptedReadKey: a.EncKey})
	}
	return &CV{Value: &aclrecordproto.AclContentValue_AccountsAdd{AccountsAdd: &aclrecordproto.AclAccountsAdd{Additions: as}}}
}

func CAccountRemove(identities [][]byte, rkc *aclrecordproto.AclReadKeyChange) *CV {
	return &CV{Value: &aclrecordproto.AclContentValue_AccountRemove{AccountRemove: &aclrecordproto.AclAccountRemove{Identities: identities, ReadKeyChange: rkc}}}
}

func CReadKeyChange(rkc *aclrecordproto.AclReadKeyChange) *CV {
	return &CV{Value: &aclrecordproto.AclContentValue_ReadKeyChange{ReadKeyChange: rkc}}
}

func CInvite(invitePub []byte, anyone bool, p list.AclPermissions, encKey []byte) *CV {
	t := aclrecordproto.AclInviteType_RequestToJoin
	if anyone {
		t = aclrecordproto.AclInviteType_AnyoneCanJoin
	}
	return &CV{Value: &aclrecordproto.AclContentValue_Invite{Invite: &aclrecordproto.AclAccountInvite{InviteKey: invitePub, InviteType: t, Permissions: perm(p), EncryptedReadKey: encKey}}}
}

func CInviteChange(inviteId string, p list.AclPermissions) *CV {
	return &CV{Value: &aclrecordproto.AclContentValue_InviteChange{InviteChange: &aclrecordproto.AclAccountInviteChange{InviteRecordId: inviteId, Permissions: perm(p)}}}
}

func CInviteRevoke(inviteId string) *CV {
	return &CV{Value: &aclrecordproto.AclContentValue_InviteRevoke{InviteRevoke: &aclrecordproto.AclAccountInviteRevoke{InviteRecordId: inviteId}}}
}

func CRequestJoin(identity []byte, inviteId string, sig []byte) *CV {
	return &CV{Value: &aclrecordproto.AclContentValue_RequestJoin{RequestJoin: &aclrecordproto.AclAccountRequestJoin{InviteIdentity: identity, InviteRecordId: inviteId, InviteIdentitySignature: sig, Metadata: []byte("m")}}}
}

func CInviteJoin(identity []byte, inviteId string, sig []byte, p list.AclPermissions, encKey []byte) *CV {
	return &CV{Value: &aclrecordproto.AclContentValue_InviteJoin{InviteJoin: &aclrecordproto.AclAccountInviteJoin{Identity: identity, InviteRecordId: inviteId, InviteIdentitySignature: sig, Metadata: []byte("m"), EncryptedReadKey: encKey, Permissions: perm(p)}}}
}

func CRequestAccept(identity []byte, requestId string, p list.AclPermissions, encKey []byte) *CV {
	return &CV{Value: &aclrecordproto.AclContentValue_RequestAccept{RequestAccept: &aclrecordproto.AclAccountRequestAccept{Identity: identity, RequestRecordId: requestId, EncryptedReadKey: encKey, Permissions: perm(p)}}}
}

func CRequestDecline(requestId string) *CV {
	return &CV{Value: &aclrecordproto.AclContentValue_RequestDecline{RequestDecline: &aclrecordproto.AclAccountRequestDecline{RequestRecordId: requestId}}}
}

func CRequestCancel(requestId string) *CV {
	return &CV{Value: &aclrecordproto.AclContentValue_RequestCancel{RequestCancel: &aclrecordproto.AclAccountRequestCancel{RecordId: requestId}}}
}

func CRequestRemove() *CV {
	return &CV{Value: &aclrecordproto.AclContentValue_AccountRequestRemove{AccountRequestRemove: &aclrecordproto.AclAccountRequestRemove{}}}
}

func COwnership(newOwner []byte, oldOwnerPerm list.AclPermissions) *CV {
	return &CV{Value: &aclrecordproto.AclContentValue_OwnershipChange{OwnershipChange: &aclrecordproto.AclOwnershipChange{NewOwnerIdentity: newOwner, OldOwnerPermissions: perm(oldOwnerPerm)}}}
}

func COptions(deleteRestricted bool) *CV {
	return &CV{Value: &aclrecordproto.AclContentValue_SpaceOptionsChange{SpaceOptionsChange: &aclrecordproto.AclSpaceOptionsChange{Options: &aclrecordproto.AclSpaceOptions{DeleteRestricted: deleteRestricted}}}}
}

// CEmpty is a content value with no oneof member set.
func CEmpty() *CV { return &CV{} }

// KeyKit is a freshly generated read-key generation with the ciphertexts a
// hand-built record needs; all encryption is real so that every account's own
// view can apply an accepted hand-built record.
type KeyKit struct {
	ReadKey   crypto.SymKey
	readProto []byte
	MetaKey   crypto.PrivKey
	MetaPub   []byte
	EncMeta   []byte
	EncOld    []byte
	encFor    map[string][]byte
	invEncFor map[string][]byte
}

// NewKeyKit generates a new read key / metadata key pair; oldKey (may be nil)
// is wrapped as EncryptedOldReadKey.
func (w *World) NewKeyKit(oldKey crypto.SymKey) *KeyKit {
	k := &KeyKit{ReadKey: crypto.NewAES(), encFor: map[string][]byte{}, invEncFor: map[string][]byte{}}
	var err error
	if k.readProto, err = k.ReadKey.Marshall(); err != nil {
		panic(err)
	}
	k.MetaKey, _, err = crypto.GenerateEd25519Key(detRand{w.Rng})
	if err != nil {
		panic(err)
	}
	if k.MetaPub, err = k.MetaKey.GetPublic().Marshall(); err != nil {
		panic(err)
	}
	mp, err := k.MetaKey.Marshall()
	if err != nil {
		panic(err)
	}
	if k.EncMeta, err = k.ReadKey.Encrypt(mp); err != nil {
		panic(err)
	}
	old := []byte("no-old-key")
	if oldKey != nil {
		if old, err = oldKey.Marshall(); err != nil {
			panic(err)
		}
	}
	if k.EncOld, err = k.ReadKey.Encrypt(old); err != nil {
		panic(err)
	}
	return k
}

// EncFor returns the kit's read key encrypted to a public key (cached).
func (k *KeyKit) EncFor(pk crypto.PubKey) []byte {
	key := string(pk.Storage())
	if e, ok := k.encFor[key]; ok {
		return e
	}
	e, err := pk.Encrypt(k.readProto)
	if err != nil {
		panic(err)
	}
	k.encFor[key] = e
	return e
}

// ReadKeyChange assembles an AclReadKeyChange listing exactly the given
// account and invite public keys.
func (k *KeyKit) ReadKeyChange(accounts []crypto.PubKey, invites []crypto.PubKey) *aclrecordproto.AclReadKeyChange {
	r := &aclrecordproto.AclReadKeyChange{MetadataPubKey: k.MetaPub, EncryptedMetadataPrivKey: k.EncMeta, EncryptedOldReadKey: k.EncOld}
	for _, pk := range accounts {
		id, _ := pk.Marshall()
		r.AccountKeys = append(r.AccountKeys, &aclrecordproto.AclEncryptedReadKey{Identity: id, EncryptedReadKey: k.EncFor(pk)})
	}
	for _, pk := range invites {
		id, _ := pk.Marshall()
		r.InviteKeys = append(r.InviteKeys, &aclrecordproto.AclEncryptedReadKey{Identity: id, EncryptedReadKey: k.EncFor(pk)})
	}
	return r
}

// CurrentKeyFor returns the current read key as account `name`'s own view
// holds it (nil when that view has no key).
func (w *World) CurrentKeyFor(name string) crypto.SymKey {
	v := w.Main[name]
	if v == nil || v.Wedged {
		return nil
	}
	k, err := v.List.AclState().CurrentReadKey()
	if err != nil || k == nil {
		return nil
	}
	return k
}

// EncCurrentKeyFor encrypts the current read key (as the owner's, else any
// member's, view knows it) to pk; a harmless placeholder ciphertext of a
// random key when nobody's view has it.
func (w *World) EncCurrentKeyFor(pk crypto.PubKey) []byte {
	var key crypto.SymKey
	for _, a := range w.Accounts {
		if key = w.CurrentKeyFor(a.Name); key != nil {
			break
		}
	}
	if key == nil {
		key = crypto.NewAES()
	}
	p, err := key.Marshall()
	if err != nil {
		panic(err)
	}
	e, err := pk.Encrypt(p)
	if err != nil {
		panic(err)
	}
	return e
}
