package aclgen

import (
	"context"
	"crypto/sha256"
	"encoding/hex"
	"fmt"
	"sort"
	"strings"

	"github.com/anyproto/any-sync/commonspace/object/acl/list"
)

// AccountObs is what is observable about one account entry.
type AccountObs struct {
	Perm   list.AclPermissions `json:"perm"`
	Status list.AclStatus      `json:"status"`
}

// InviteObs is what is observable about one live invite.
type InviteObs struct {
	Type int                 `json:"type"` // 0 request-to-join, 1 anyone-can-join
	Perm list.AclPermissions `json:"perm"`
	Key  string              `json:"key"` // short hex of the invite public key
	// Wrapped: short hash of the read key wrapped under the invite key as the state holds it
	// ("" for approval invites). Read through the verif hook VerifInviteWrappedKeys: otherwise
	// only observable by attempting a join through the invite.
	Wrapped string `json:"wrapped"`
}

// Observation is obs(list) of DESIGN 2.2: everything below is read through
// exported methods of AclList / AclState.
type Observation struct {
	Head      string                `json:"head"`
	Accounts  map[string]AccountObs `json:"accounts"` // account name (or ?hex) -> entry
	Invites   map[string]InviteObs  `json:"invites"`  // invite record id -> invite
	JoinReq   map[string]string     `json:"join_req"` // pending join request id -> requester
	RemoveReq map[string]string     `json:"rem_req"`  // pending remove request id -> requester
	ReqIds    []string              `json:"req_ids"`  // all request record ids the state holds
	KeyIds    []string              `json:"key_ids"`  // read-key generation ids
	CurKey    string                `json:"cur_key"`  // current read-key id
	Owner     string                `json:"owner"`    // owner name, "" when OwnerPubKey fails
	Owners    int                   `json:"owners"`   // number of entries with Owner permission
	Options   string                `json:"options"`  // "nil" | "deleteRestricted=<bool>"
}

// PermName renders a permission level.
func PermName(p list.AclPermissions) string {
	switch p {
	case list.AclPermissionsNone:
		return "none"
	case list.AclPermissionsOwner:
		return "owner"
	case list.AclPermissionsAdmin:
		return "admin"
	case list.AclPermissionsWriter:
		return "writer"
	case list.AclPermissionsReader:
		return "reader"
	case list.AclPermissionsGuest:
		return "guest"
	}
	return fmt.Sprintf("perm%d", int(p))
}

// StatusName renders an account status.
func StatusName(s list.AclStatus) string {
	switch s {
	case list.StatusNone:
		return "none"
	case list.StatusJoining:
		return "joining"
	case list.StatusActive:
		return "active"
	case list.StatusRemoved:
		return "removed"
	case list.StatusDeclined:
		return "declined"
	case list.StatusRemoving:
		return "removing"
	case list.StatusCanceled:
		return "canceled"
	}
	return fmt.Sprintf("status%d", int(s))
}

// ObserveState computes the observation of a state; head is supplied by the
// caller (AclList.Head().Id, or AclState.LastRecordId() for a state handed to
// a ValidateRawRecord callback).
func (w *World) ObserveState(st *list.AclState, head string) Observation {
	o := Observation{Head: head, Accounts: map[string]AccountObs{}, Invites: map[string]InviteObs{}, JoinReq: map[string]string{}, RemoveReq: map[string]string{}}
	for _, a := range st.CurrentAccounts() {
		o.Accounts[w.NameOf(a.PubKey)] = AccountObs{Perm: a.Permissions, Status: a.Status}
		if a.Permissions.IsOwner() {
			o.Owners++
		}
	}
	wrapped := list.VerifInviteWrappedKeys(st)
	for _, inv := range st.Invites() {
		k := ""
		if inv.Key != nil {
			s := inv.Key.Storage()
			if len(s) > 4 {
				s = s[:4]
			}
			k = hex.EncodeToString(s)
		}
		wk := ""
		if b := wrapped[inv.Id]; len(b) > 0 {
			h := sha256.Sum256(b)
			wk = hex.EncodeToString(h[:4])
		}
		o.Invites[inv.Id] = InviteObs{Type: int(inv.Type), Perm: inv.Permissions, Key: k, Wrapped: wk}
	}
	if jr, err := st.JoinRecords(false); err == nil {
		for _, r := range jr {
			o.JoinReq[r.RecordId] = w.NameOf(r.RequestIdentity)
		}
	}
	for _, r := range st.RemoveRecords() {
		o.RemoveReq[r.RecordId] = w.NameOf(r.RequestIdentity)
	}
	o.ReqIds = st.RequestIds()
	sort.Strings(o.ReqIds)
	for id := range st.Keys() {
		o.KeyIds = append(o.KeyIds, id)
	}
	sort.Strings(o.KeyIds)
	o.CurKey = st.CurrentReadKeyId()
	if pk, err := st.OwnerPubKey(); err == nil {
		o.Owner = w.NameOf(pk)
	}
	if opt := st.CurrentOptions(); opt == nil {
		o.Options = "nil"
	} else {
		o.Options = fmt.Sprintf("deleteRestricted=%v", opt.DeleteRestricted)
	}
	return o
}

// Observe is obs(list).
func (w *World) Observe(l list.AclList) Observation {
	return w.ObserveState(l.AclState(), l.Head().Id)
}

// Canon renders the observation canonically (sorted), for equality and hashing.
func (o Observation) Canon() string {
	var sb strings.Builder
	sb.WriteString("head=" + o.Head + ";acc{")
	for _, k := range sortedKeys(o.Accounts) {
		a := o.Accounts[k]
		fmt.Fprintf(&sb, "%s:%s/%s,", k, PermName(a.Perm), StatusName(a.Status))
	}
	sb.WriteString("}inv{")
	for _, k := range sortedKeys(o.Invites) {
		i := o.Invites[k]
		fmt.Fprintf(&sb, "%s:%d/%s/%s/%s,", k, i.Type, PermName(i.Perm), i.Key, i.Wrapped)
	}
	sb.WriteString("}join{")
	for _, k := range sortedKeys(o.JoinReq) {
		fmt.Fprintf(&sb, "%s:%s,", k, o.JoinReq[k])
	}
	sb.WriteString("}rem{")
	for _, k := range sortedKeys(o.RemoveReq) {
		fmt.Fprintf(&sb, "%s:%s,", k, o.RemoveReq[k])
	}
	fmt.Fprintf(&sb, "}req%v;keys%v;cur=%s;owner=%s/%d;opt=%s", o.ReqIds, o.KeyIds, o.CurKey, o.Owner, o.Owners, o.Options)
	return sb.String()
}

// Shape is Canon without record ids: two histories that reach "the same
// kind of state" have the same shape. Used to count distinct observed states.
func (o Observation) Shape() string {
	var sb strings.Builder
	sb.WriteString("acc{")
	for _, k := range sortedKeys(o.Accounts) {
		a := o.Accounts[k]
		fmt.Fprintf(&sb, "%s:%s/%s,", k, PermName(a.Perm), StatusName(a.Status))
	}
	sb.WriteString("}inv{")
	var inv []string
	for _, i := range o.Invites {
		inv = append(inv, fmt.Sprintf("%d/%s", i.Type, PermName(i.Perm)))
	}
	sort.Strings(inv)
	sb.WriteString(strings.Join(inv, ","))
	sb.WriteString("}join{")
	var rq []string
	for _, n := range o.JoinReq {
		rq = append(rq, n)
	}
	sort.Strings(rq)
	sb.WriteString(strings.Join(rq, ","))
	sb.WriteString("}rem{")
	rq = rq[:0]
	for _, n := range o.RemoveReq {
		rq = append(rq, n)
	}
	sort.Strings(rq)
	sb.WriteString(strings.Join(rq, ","))
	fmt.Fprintf(&sb, "}keys=%d;owner=%s/%d;opt=%s", len(o.KeyIds), o.Owner, o.Owners, o.Options)
	return sb.String()
}

// Perm returns the permission of a named account (None when it has no entry).
func (o Observation) Perm(name string) list.AclPermissions {
	return o.Accounts[name].Perm
}

// ReplaceId returns a copy in which every occurrence of record id `from`
// (head, invite ids, request ids, key ids) is replaced by `to`. It is used to
// compare the state ValidateRawRecord hands to its callback (the new record
// has no id there, so it appears as "") with the state after AddRawRecord.
func (o Observation) ReplaceId(from, to string) Observation {
	r := func(s string) string {
		if s == from {
			return to
		}
		return s
	}
	n := Observation{Head: r(o.Head), Accounts: o.Accounts, Invites: map[string]InviteObs{}, JoinReq: map[string]string{}, RemoveReq: map[string]string{},
		CurKey: r(o.CurKey), Owner: o.Owner, Owners: o.Owners, Options: o.Options}
	for k, v := range o.Invites {
		n.Invites[r(k)] = v
	}
	for k, v := range o.JoinReq {
		n.JoinReq[r(k)] = v
	}
	for k, v := range o.RemoveReq {
		n.RemoveReq[r(k)] = v
	}
	for _, k := range o.ReqIds {
		n.ReqIds = append(n.ReqIds, r(k))
	}
	sort.Strings(n.ReqIds)
	for _, k := range o.KeyIds {
		n.KeyIds = append(n.KeyIds, r(k))
	}
	sort.Strings(n.KeyIds)
	return n
}

func sortedKeys[V any](m map[string]V) []string {
	out := make([]string, 0, len(m))
	for k := range m {
		out = append(out, k)
	}
	sort.Strings(out)
	return out
}

// StorageSnap is the observable content of a list.Storage.
type StorageSnap struct {
	Head    string   `json:"head"`
	Records []string `json:"records"` // "order|id|prevId|sha256(raw)[:8]" in scan order
	Err     string   `json:"err,omitempty"`
}

// SnapStorage reads the whole storage through its exported interface.
func SnapStorage(st list.Storage) StorageSnap {
	ctx := context.Background()
	var s StorageSnap
	h, err := st.Head(ctx)
	if err != nil {
		s.Err = "head: " + err.Error()
	}
	s.Head = h
	err = st.GetAfterOrder(ctx, 1, func(ctx context.Context, r list.StorageRecord) (bool, error) {
		sum := sha256.Sum256(r.RawRecord)
		s.Records = append(s.Records, fmt.Sprintf("%d|%s|%s|%x", r.Order, r.Id, r.PrevId, sum[:8]))
		return true, nil
	})
	if err != nil {
		s.Err += " scan: " + err.Error()
	}
	return s
}

// Equal compares two storage snapshots.
func (s StorageSnap) Equal(o StorageSnap) bool {
	if s.Head != o.Head || s.Err != o.Err || len(s.Records) != len(o.Records) {
		return false
	}
	for i := range s.Records {
		if s.Records[i] != o.Records[i] {
			return false
		}
	}
	return true
}
