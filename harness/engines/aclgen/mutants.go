package aclgen

import (
	"bytes"
	"math/rand"

	"github.com/anyproto/any-sync/consensus/consensusproto"
	"github.com/anyproto/any-sync/util/cidutil"
	"github.com/anyproto/any-sync/util/crypto"
)

// Mutant is a tampered version of a sealed record.
type Mutant struct {
	Class string // mutation class, e.g. "outer-flip", "sig-flip+reid"
	Rec   *consensusproto.RawRecordWithId
	// TouchesAcceptorOnly: only the acceptor fields were changed (and the id
	// recomputed), so views that do not require the acceptor may accept it.
	TouchesAcceptorOnly bool
	// Resigned: the author's key re-signed the edited payload (the record is
	// authentic but different).
	Resigned bool
}

// MutantClasses lists every class Mutants can produce.
var MutantClasses = []string{"outer-flip", "outer-flip+reid", "outer-truncate", "outer-extend+reid", "id-edit", "id-random", "id-of-older",
	"prev-edit", "prev-edit-resigned", "sig-flip", "sig-other-author", "identity-swap", "data-flip", "data-flip-resigned",
	"acceptor-sig-flip", "acceptor-foreign-key", "acceptor-stripped", "stale-replay"}

func reid(payload []byte) *consensusproto.RawRecordWithId {
	id, err := cidutil.NewCidFromBytes(payload)
	if err != nil {
		panic(err)
	}
	return &consensusproto.RawRecordWithId{Payload: payload, Id: id}
}

func flipByte(b []byte, rng *rand.Rand) []byte {
	out := append([]byte(nil), b...)
	if len(out) == 0 {
		return []byte{1}
	}
	i := rng.Intn(len(out))
	out[i] ^= byte(1 << uint(rng.Intn(8)))
	return out
}

func mustMarshalRaw(r *consensusproto.RawRecord) []byte {
	b, err := r.MarshalVT()
	if err != nil {
		panic(err)
	}
	return b
}

// Mutants returns one mutant of every class that applies to rec (a sealed,
// non-root record authored by author). other is another account whose key is
// used for the foreign-signature classes.
func (w *World) Mutants(rec *consensusproto.RawRecordWithId, author, other *Account, rng *rand.Rand) []Mutant {
	var out []Mutant
	raw := &consensusproto.RawRecord{}
	if err := raw.UnmarshalVT(rec.Payload); err != nil {
		return nil
	}
	inner := &consensusproto.Record{}
	if err := inner.UnmarshalVT(raw.Payload); err != nil {
		return nil
	}
	cloneRaw := func() *consensusproto.RawRecord {
		return &consensusproto.RawRecord{Payload: raw.Payload, Signature: raw.Signature, AcceptorIdentity: raw.AcceptorIdentity,
			AcceptorSignature: raw.AcceptorSignature, AcceptorTimestamp: raw.AcceptorTimestamp}
	}
	cloneInner := func() *consensusproto.Record {
		return &consensusproto.Record{PrevId: inner.PrevId, Identity: inner.Identity, Data: inner.Data, Timestamp: inner.Timestamp}
	}
	withInner := func(in *consensusproto.Record, resignWith *Account) *consensusproto.RawRecordWithId {
		p, err := in.MarshalVT()
		if err != nil {
			panic(err)
		}
		r := cloneRaw()
		r.Payload = p
		if resignWith != nil {
			sig, err := resignWith.Keys.SignKey.Sign(p)
			if err != nil {
				panic(err)
			}
			r.Signature = sig
			// the consensus node would counter-sign whatever it accepted
			as, _ := w.NetKey.Sign(p)
			r.AcceptorSignature = as
		}
		return reid(mustMarshalRaw(r))
	}

	// --- outer bytes
	out = append(out, Mutant{Class: "outer-flip", Rec: &consensusproto.RawRecordWithId{Payload: flipByte(rec.Payload, rng), Id: rec.Id}})
	out = append(out, Mutant{Class: "outer-flip+reid", Rec: reid(flipByte(rec.Payload, rng))})
	if len(rec.Payload) > 2 {
		out = append(out, Mutant{Class: "outer-truncate", Rec: &consensusproto.RawRecordWithId{Payload: rec.Payload[:1+rng.Intn(len(rec.Payload)-1)], Id: rec.Id}})
	}
	out = append(out, Mutant{Class: "outer-extend+reid", Rec: reid(append(append([]byte(nil), rec.Payload...), byte(rng.Intn(256)), byte(rng.Intn(256))))})

	// --- id
	idb := []byte(rec.Id)
	pos := 4 + rng.Intn(len(idb)-4)
	const alphabet = "abcdefghijklmnopqrstuvwxyz234567"
	for {
		ch := alphabet[rng.Intn(len(alphabet))]
		if ch != idb[pos] {
			idb[pos] = ch
			break
		}
	}
	out = append(out, Mutant{Class: "id-edit", Rec: &consensusproto.RawRecordWithId{Payload: rec.Payload, Id: string(idb)}})
	rnd := make([]byte, 32)
	rng.Read(rnd)
	out = append(out, Mutant{Class: "id-random", Rec: &consensusproto.RawRecordWithId{Payload: rec.Payload, Id: reid(rnd).Id}})
	if len(w.Log) > 0 {
		older := w.Log[rng.Intn(len(w.Log))]
		out = append(out, Mutant{Class: "id-of-older", Rec: &consensusproto.RawRecordWithId{Payload: rec.Payload, Id: older.Id}})
		out = append(out, Mutant{Class: "stale-replay", Rec: &consensusproto.RawRecordWithId{Payload: older.Payload, Id: older.Id}})
	}

	// --- prev id
	wrongPrev := "bafyreibogusbogusbogusbogusbogusbogusbogusbogusbogusbogusbogu"
	if len(w.Log) > 1 && rng.Intn(2) == 0 {
		// an older record (never the current head): the record would fork the chain
		wrongPrev = w.Log[rng.Intn(len(w.Log)-1)].Id
	}
	if wrongPrev != inner.PrevId {
		in := cloneInner()
		in.PrevId = wrongPrev
		out = append(out, Mutant{Class: "prev-edit", Rec: withInner(in, nil)})
		in2 := cloneInner()
		in2.PrevId = wrongPrev
		out = append(out, Mutant{Class: "prev-edit-resigned", Rec: withInner(in2, author), Resigned: true})
	}

	// --- author signature / identity
	{
		r := cloneRaw()
		r.Signature = flipByte(raw.Signature, rng)
		out = append(out, Mutant{Class: "sig-flip", Rec: reid(mustMarshalRaw(r))})
	}
	if other != nil && other != author {
		r := cloneRaw()
		sig, _ := other.Keys.SignKey.Sign(raw.Payload)
		r.Signature = sig
		out = append(out, Mutant{Class: "sig-other-author", Rec: reid(mustMarshalRaw(r))})
		in := cloneInner()
		in.Identity = other.PubProto
		out = append(out, Mutant{Class: "identity-swap", Rec: withInner(in, nil)})
	}

	// --- signed data
	if len(inner.Data) > 0 {
		in := cloneInner()
		in.Data = flipByte(inner.Data, rng)
		out = append(out, Mutant{Class: "data-flip", Rec: withInner(in, nil)})
		in2 := cloneInner()
		in2.Data = flipByte(inner.Data, rng)
		out = append(out, Mutant{Class: "data-flip-resigned", Rec: withInner(in2, author), Resigned: true})
	}

	// --- acceptor
	if len(raw.AcceptorSignature) > 0 {
		r := cloneRaw()
		r.AcceptorSignature = flipByte(raw.AcceptorSignature, rng)
		out = append(out, Mutant{Class: "acceptor-sig-flip", Rec: reid(mustMarshalRaw(r)), TouchesAcceptorOnly: true})
		fk, fp, _ := crypto.GenerateEd25519Key(detRand{rng})
		r2 := cloneRaw()
		r2.AcceptorIdentity, _ = fp.Marshall()
		r2.AcceptorSignature, _ = fk.Sign(raw.Payload)
		out = append(out, Mutant{Class: "acceptor-foreign-key", Rec: reid(mustMarshalRaw(r2)), TouchesAcceptorOnly: true})
		r3 := cloneRaw()
		r3.AcceptorIdentity, r3.AcceptorSignature = nil, nil
		out = append(out, Mutant{Class: "acceptor-stripped", Rec: reid(mustMarshalRaw(r3)), TouchesAcceptorOnly: true})
	}
	return out
}

// Authenticity is the harness's independent reading of the acceptance
// conditions the C03 statement lists.
type Authenticity struct {
	Decodes     bool
	CidOK       bool // id is the hash of the bytes
	SigOK       bool // author signature verifies over the signed payload under the named identity
	ExtendsHead bool // prev id == the view's head
	AcceptorOK  bool // acceptor identity is the network key and its signature verifies
	PrevId      string
}

// OK reports whether the record meets every condition (acceptor only when required).
func (a Authenticity) OK(requireAcceptor bool) bool {
	return a.Decodes && a.CidOK && a.SigOK && a.ExtendsHead && (!requireAcceptor || a.AcceptorOK)
}

// CheckAuthentic evaluates the acceptance conditions for rec against a head,
// using only the protobuf decoders, the CID utility and the key primitives.
func (w *World) CheckAuthentic(rec *consensusproto.RawRecordWithId, head string) (a Authenticity) {
	if id, err := cidutil.NewCidFromBytes(rec.Payload); err == nil && id == rec.Id {
		a.CidOK = true
	}
	raw := &consensusproto.RawRecord{}
	if err := raw.UnmarshalVT(rec.Payload); err != nil {
		return
	}
	inner := &consensusproto.Record{}
	if err := inner.UnmarshalVT(raw.Payload); err != nil {
		return
	}
	pk, err := crypto.UnmarshalEd25519PublicKeyProto(inner.Identity)
	if err != nil {
		return
	}
	a.Decodes = true
	a.PrevId = inner.PrevId
	a.ExtendsHead = inner.PrevId == head
	if ok, err := pk.Verify(raw.Payload, raw.Signature); err == nil && ok {
		a.SigOK = true
	}
	if ak, err := crypto.UnmarshalEd25519PublicKeyProto(raw.AcceptorIdentity); err == nil {
		np, _ := w.NetPub.Raw()
		ap, _ := ak.Raw()
		if bytes.Equal(np, ap) {
			if ok, err := ak.Verify(raw.Payload, raw.AcceptorSignature); err == nil && ok {
				a.AcceptorOK = true
			}
		}
	}
	return
}
