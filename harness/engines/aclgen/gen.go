package aclgen

import (
	"fmt"
	"runtime/debug"
	"sort"
	"strings"

	"github.com/anyproto/any-sync/commonspace/object/acl/aclrecordproto"
	"github.com/anyproto/any-sync/commonspace/object/acl/list"
	"github.com/anyproto/any-sync/consensus/consensusproto"
	"github.com/anyproto/any-sync/util/crypto"
)

// Guided generation through the real client-side builders. The legality
// model below is the harness's own reading of who may do what; it is used
// only to choose operations that have a chance of being accepted and never
// to judge the code under test.

// Op is one generated operation.
type Op struct {
	Kind    string `json:"kind"`
	Actor   string `json:"actor"`
	Detail  string `json:"detail,omitempty"`
	Illegal bool   `json:"illegal,omitempty"` // drawn without consulting the legality model
}

func (o Op) String() string {
	s := o.Actor + "." + o.Kind
	if o.Detail != "" {
		s += "(" + o.Detail + ")"
	}
	if o.Illegal {
		s += "!"
	}
	return s
}

// StepResult is what a builder call produced.
type StepResult struct {
	Op         Op
	Raw        *consensusproto.RawRecord // nil when the builder refused or panicked
	Err        error
	Panicked   bool
	PanicMsg   string
	InviteKeys []crypto.PrivKey // private keys of the invites the record creates, in content order
}

// OpKinds lists every operation kind the guided generator can draw.
var OpKinds = []string{"invite", "invite_anyone", "invite_change", "invite_revoke", "request_join", "invite_join",
	"request_accept", "request_decline", "request_cancel", "request_remove", "permission_change", "permission_changes",
	"accounts_add", "account_remove", "read_key_change", "ownership_change", "options_change", "batch", "batch_rotate"}

// default weights of the guided generator
var defaultWeights = map[string]int{"invite": 7, "invite_anyone": 7, "invite_change": 3, "invite_revoke": 3, "request_join": 9, "invite_join": 7,
	"request_accept": 9, "request_decline": 3, "request_cancel": 3, "request_remove": 6, "permission_change": 7, "permission_changes": 3,
	"accounts_add": 9, "account_remove": 6, "read_key_change": 3, "ownership_change": 1, "options_change": 2, "batch": 6, "batch_rotate": 2}

type model struct {
	o        Observation
	w        *World
	managers []string
	owner    string
}

func (w *World) model() *model {
	m := &model{o: w.Canon.Obs(), w: w}
	for _, a := range w.Accounts {
		p := m.o.Perm(a.Name)
		if p == list.AclPermissionsOwner {
			m.owner = a.Name
		}
		if p == list.AclPermissionsOwner || p == list.AclPermissionsAdmin {
			m.managers = append(m.managers, a.Name)
		}
	}
	return m
}

func (m *model) pick(xs []string) string {
	if len(xs) == 0 {
		return ""
	}
	return xs[m.w.Rng.Intn(len(xs))]
}

func (m *model) usable(name string) bool {
	v := m.w.Main[name]
	return v != nil && !v.Wedged && v.N == len(m.w.Log)
}

func (m *model) names(pred func(name string, a AccountObs, has bool) bool) []string {
	var out []string
	for _, a := range m.w.Accounts {
		if a.Name == "node" {
			continue
		}
		e, has := m.o.Accounts[a.Name]
		if pred(a.Name, e, has) && m.usable(a.Name) {
			out = append(out, a.Name)
		}
	}
	return out
}

func (m *model) pendingOf(name string) string {
	for id, n := range m.o.JoinReq {
		if n == name {
			return id
		}
	}
	for id, n := range m.o.RemoveReq {
		if n == name {
			return id
		}
	}
	return ""
}

func (m *model) grantable(actor string, allowGuest bool) list.AclPermissions {
	ps := []list.AclPermissions{list.AclPermissionsReader, list.AclPermissionsWriter, list.AclPermissionsWriter}
	if actor == m.owner {
		ps = append(ps, list.AclPermissionsAdmin, list.AclPermissionsAdmin)
	}
	if allowGuest {
		ps = append(ps, list.AclPermissionsGuest)
	}
	return ps[m.w.Rng.Intn(len(ps))]
}

var allPerms = []list.AclPermissions{list.AclPermissionsNone, list.AclPermissionsOwner, list.AclPermissionsAdmin, list.AclPermissionsWriter, list.AclPermissionsReader, list.AclPermissionsGuest}

// AllPerms returns every value of the permission enum.
func AllPerms() []list.AclPermissions { return append([]list.AclPermissions(nil), allPerms...) }

func (m *model) liveInvites(anyone bool) []string {
	var out []string
	for _, id := range sortedKeys(m.o.Invites) {
		if (m.o.Invites[id].Type == 1) == anyone {
			if inf := m.w.inviteBy[id]; inf != nil && inf.Key != nil {
				out = append(out, id)
			}
		}
	}
	return out
}

// GenStep draws one operation (legal by the harness model, or with probability
// illegalFrac an unchecked one), and calls the real builder of the acting
// account's own validating view under recover. It applies nothing.
func (w *World) GenStep(illegalFrac float64, weights map[string]int) StepResult {
	if weights == nil {
		weights = defaultWeights
	}
	m := w.model()
	illegal := w.Rng.Float64() < illegalFrac
	for try := 0; try < 40; try++ {
		kind := w.drawKind(weights)
		if op, call := w.plan(m, kind, illegal); call != nil {
			op.Illegal = illegal
			return w.callBuilder(op, call)
		}
	}
	return StepResult{Op: Op{Kind: "none"}, Err: fmt.Errorf("no applicable operation")}
}

func (w *World) drawKind(weights map[string]int) string {
	total := 0
	for _, k := range OpKinds {
		total += weights[k]
	}
	if total == 0 {
		return OpKinds[w.Rng.Intn(len(OpKinds))]
	}
	x := w.Rng.Intn(total)
	for _, k := range OpKinds {
		if x < weights[k] {
			return k
		}
		x -= weights[k]
	}
	return OpKinds[0]
}

type builderCall func(rb list.AclRecordBuilder) (*consensusproto.RawRecord, []crypto.PrivKey, error)

func (w *World) callBuilder(op Op, call builderCall) (res StepResult) {
	res.Op = op
	v := w.Main[op.Actor]
	if v == nil || v.Wedged || v.N != len(w.Log) {
		res.Err = fmt.Errorf("actor view unusable")
		w.Stats["builder_actor_view_unusable"]++
		return
	}
	defer func() {
		if r := recover(); r != nil {
			res.Raw = nil
			res.Panicked = true
			res.PanicMsg = fmt.Sprint(r)
			st := string(debug.Stack())
			fr := ""
			for _, ln := range strings.Split(st, "\n") {
				if strings.HasPrefix(ln, "github.com/anyproto/any-sync/commonspace/object/acl/list.") {
					fr = ln
					if i := strings.LastIndex(fr, "("); i > 0 {
						fr = fr[:i]
					}
					break
				}
			}
			res.PanicMsg += " @ " + fr
			w.Stats["builder_panic:"+op.Kind]++
		}
	}()
	raw, keys, err := call(v.List.RecordBuilder())
	if err != nil {
		res.Err = err
		w.Stats["builder_refused:"+op.Kind]++
		return
	}
	res.Raw, res.InviteKeys = raw, keys
	w.Stats["builder_built:"+op.Kind]++
	return
}

func (w *World) newKeyPayload() list.ReadKeyChangePayload {
	mk, _, err := crypto.GenerateEd25519Key(detRand{w.Rng})
	if err != nil {
		panic(err)
	}
	return list.ReadKeyChangePayload{MetadataKey: mk, ReadKey: crypto.NewAES()}
}

func (w *World) anyName() string {
	// every account except the validating node
	for {
		a := w.Accounts[w.Rng.Intn(len(w.Accounts))]
		if a.Name != "node" {
			return a.Name
		}
	}
}

// plan chooses actor and parameters for a kind; returns call == nil when the
// kind is not applicable in the current state.
func (w *World) plan(m *model, kind string, illegal bool) (Op, builderCall) {
	rng := w.Rng
	op := Op{Kind: kind}
	manager := func() string {
		if illegal {
			return w.anyName()
		}
		var us []string
		for _, n := range m.managers {
			if m.usable(n) {
				us = append(us, n)
			}
		}
		return m.pick(us)
	}
	anyPerm := func() list.AclPermissions { return allPerms[rng.Intn(len(allPerms))] }
	switch kind {
	case "invite":
		op.Actor = manager()
		if op.Actor == "" {
			return op, nil
		}
		return op, func(rb list.AclRecordBuilder) (*consensusproto.RawRecord, []crypto.PrivKey, error) {
			r, err := rb.BuildInvite()
			return r.InviteRec, []crypto.PrivKey{r.InviteKey}, err
		}
	case "invite_anyone":
		op.Actor = manager()
		if op.Actor == "" {
			return op, nil
		}
		p := m.grantable(op.Actor, false)
		if illegal {
			p = anyPerm()
		}
		op.Detail = PermName(p)
		return op, func(rb list.AclRecordBuilder) (*consensusproto.RawRecord, []crypto.PrivKey, error) {
			r, err := rb.BuildInviteAnyone(p)
			return r.InviteRec, []crypto.PrivKey{r.InviteKey}, err
		}
	case "invite_change":
		op.Actor = manager()
		ids := m.liveInvites(true)
		if illegal {
			ids = sortedKeys(m.o.Invites)
		}
		if op.Actor == "" || len(ids) == 0 {
			return op, nil
		}
		id := m.pick(ids)
		p := m.grantable(op.Actor, false)
		if illegal {
			p = anyPerm()
		} else if p == m.o.Invites[id].Perm {
			if p == list.AclPermissionsReader {
				p = list.AclPermissionsWriter
			} else {
				p = list.AclPermissionsReader
			}
		}
		op.Detail = PermName(p)
		return op, func(rb list.AclRecordBuilder) (*consensusproto.RawRecord, []crypto.PrivKey, error) {
			r, err := rb.BuildInviteChange(list.InviteChangePayload{IniviteRecordId: id, Permissions: p})
			return r, nil, err
		}
	case "invite_revoke":
		op.Actor = manager()
		ids := sortedKeys(m.o.Invites)
		if illegal && len(w.Invites) > 0 {
			ids = append(ids, w.Invites[rng.Intn(len(w.Invites))].Id)
		}
		if op.Actor == "" || len(ids) == 0 {
			return op, nil
		}
		id := m.pick(ids)
		return op, func(rb list.AclRecordBuilder) (*consensusproto.RawRecord, []crypto.PrivKey, error) {
			r, err := rb.BuildInviteRevoke(id)
			return r, nil, err
		}
	case "request_join", "invite_join":
		anyone := kind == "invite_join"
		var ids []string
		if illegal {
			for _, inv := range w.Invites {
				if inv.Key != nil {
					ids = append(ids, inv.Id)
				}
			}
		} else {
			ids = m.liveInvites(anyone)
		}
		var actors []string
		if illegal {
			actors = []string{w.anyName()}
		} else {
			actors = m.names(func(n string, a AccountObs, has bool) bool {
				// an account whose join request is still pending may join through an open invite
				// (the request is superseded); request_join itself needs an account without one
				return a.Perm == list.AclPermissionsNone && (anyone || m.pendingOf(n) == "")
			})
		}
		if len(ids) == 0 || len(actors) == 0 {
			return op, nil
		}
		op.Actor = m.pick(actors)
		inv := w.inviteBy[m.pick(ids)]
		if !anyone {
			return op, func(rb list.AclRecordBuilder) (*consensusproto.RawRecord, []crypto.PrivKey, error) {
				r, err := rb.BuildRequestJoin(list.RequestJoinPayload{InviteKey: inv.Key, Metadata: []byte("join-meta")})
				return r, nil, err
			}
		}
		p := list.AclPermissionsNone
		if rng.Intn(2) == 0 {
			p = list.AclPermissionsReader
		}
		if illegal {
			p = anyPerm()
		}
		op.Detail = PermName(p)
		return op, func(rb list.AclRecordBuilder) (*consensusproto.RawRecord, []crypto.PrivKey, error) {
			r, err := rb.BuildInviteJoinWithoutApprove(list.InviteJoinPayload{InviteKey: inv.Key, Permissions: p, Metadata: []byte("join-meta")})
			return r, nil, err
		}
	case "request_accept", "request_decline":
		op.Actor = manager()
		ids := sortedKeys(m.o.JoinReq)
		if kind == "request_accept" && (illegal || rng.Intn(4) == 0) {
			// the client-side builder does not look at the request type
			ids = append(ids, sortedKeys(m.o.RemoveReq)...)
		}
		if illegal && len(w.Requests) > 0 {
			ids = append(ids, w.Requests[rng.Intn(len(w.Requests))].Id)
		}
		if op.Actor == "" || len(ids) == 0 {
			return op, nil
		}
		id := m.pick(ids)
		if kind == "request_decline" {
			return op, func(rb list.AclRecordBuilder) (*consensusproto.RawRecord, []crypto.PrivKey, error) {
				r, err := rb.BuildRequestDecline(id)
				return r, nil, err
			}
		}
		p := m.grantable(op.Actor, rng.Intn(6) == 0)
		if illegal {
			p = anyPerm()
		}
		op.Detail = PermName(p)
		return op, func(rb list.AclRecordBuilder) (*consensusproto.RawRecord, []crypto.PrivKey, error) {
			r, err := rb.BuildRequestAccept(list.RequestAcceptPayload{RequestRecordId: id, Permissions: p})
			return r, nil, err
		}
	case "request_cancel":
		var cands [][2]string
		for id, n := range m.o.JoinReq {
			cands = append(cands, [2]string{n, id})
		}
		for id, n := range m.o.RemoveReq {
			cands = append(cands, [2]string{n, id})
		}
		sort.Slice(cands, func(i, j int) bool { return cands[i][1] < cands[j][1] })
		if len(cands) == 0 {
			return op, nil
		}
		c := cands[rng.Intn(len(cands))]
		op.Actor = c[0]
		if illegal {
			op.Actor = w.anyName()
		}
		if w.Main[op.Actor] == nil {
			return op, nil
		}
		return op, func(rb list.AclRecordBuilder) (*consensusproto.RawRecord, []crypto.PrivKey, error) {
			r, err := rb.BuildRequestCancel(c[1])
			return r, nil, err
		}
	case "request_remove":
		actors := m.names(func(n string, a AccountObs, has bool) bool {
			return a.Perm != list.AclPermissionsNone && a.Perm != list.AclPermissionsOwner && a.Perm != list.AclPermissionsGuest && m.pendingOf(n) == ""
		})
		if illegal {
			actors = []string{w.anyName()}
		}
		if len(actors) == 0 {
			return op, nil
		}
		op.Actor = m.pick(actors)
		return op, func(rb list.AclRecordBuilder) (*consensusproto.RawRecord, []crypto.PrivKey, error) {
			r, err := rb.BuildRequestRemove()
			return r, nil, err
		}
	case "permission_change", "permission_changes":
		op.Actor = manager()
		if op.Actor == "" {
			return op, nil
		}
		targets := m.names(func(n string, a AccountObs, has bool) bool {
			if !has || n == op.Actor || a.Perm == list.AclPermissionsOwner || a.Perm == list.AclPermissionsGuest {
				return false
			}
			if a.Perm == list.AclPermissionsNone && rng.Intn(20) != 0 {
				return false
			}
			return a.Perm != list.AclPermissionsAdmin || op.Actor == m.owner
		})
		if illegal {
			targets = []string{w.anyName(), w.anyName()}
		}
		n := 1
		if kind == "permission_changes" {
			n = 2
		}
		if len(targets) < n {
			return op, nil
		}
		rng.Shuffle(len(targets), func(i, j int) { targets[i], targets[j] = targets[j], targets[i] })
		var chs []list.PermissionChangePayload
		for _, t := range targets[:n] {
			p := m.grantable(op.Actor, m.o.Perm(t) == list.AclPermissionsReader && rng.Intn(4) == 0)
			if illegal {
				p = anyPerm()
			}
			op.Detail += t + "->" + PermName(p) + " "
			chs = append(chs, list.PermissionChangePayload{Identity: w.byName[t].Pub, Permissions: p})
		}
		if kind == "permission_changes" && !illegal && rng.Intn(3) == 0 {
			// one record that changes the SAME account twice: what counts afterwards (and "at this record")
			// is the last value. First a writing permission, then reader, or the other way round.
			t := targets[0]
			first, second := list.AclPermissionsWriter, list.AclPermissionsReader
			if rng.Intn(3) == 0 {
				first, second = second, first
			}
			op.Detail = t + "->" + PermName(first) + " " + t + "->" + PermName(second) + " (same account twice)"
			chs = []list.PermissionChangePayload{{Identity: w.byName[t].Pub, Permissions: first}, {Identity: w.byName[t].Pub, Permissions: second}}
		}
		if kind == "permission_change" {
			return op, func(rb list.AclRecordBuilder) (*consensusproto.RawRecord, []crypto.PrivKey, error) {
				r, err := rb.BuildPermissionChange(chs[0])
				return r, nil, err
			}
		}
		return op, func(rb list.AclRecordBuilder) (*consensusproto.RawRecord, []crypto.PrivKey, error) {
			r, err := rb.BuildPermissionChanges(list.PermissionChangesPayload{Changes: chs})
			return r, nil, err
		}
	case "accounts_add":
		op.Actor = manager()
		if op.Actor == "" {
			return op, nil
		}
		targets := m.names(func(n string, a AccountObs, has bool) bool { return a.Perm == list.AclPermissionsNone })
		if illegal {
			targets = []string{w.anyName()}
		}
		if len(targets) == 0 {
			return op, nil
		}
		rng.Shuffle(len(targets), func(i, j int) { targets[i], targets[j] = targets[j], targets[i] })
		n := 1
		if len(targets) > 1 && rng.Intn(3) == 0 {
			n = 2
		}
		var adds []list.AccountAdd
		for _, t := range targets[:n] {
			p := m.grantable(op.Actor, true)
			if t == "guest" && !illegal {
				p = list.AclPermissionsGuest
			}
			if illegal {
				p = anyPerm()
			}
			op.Detail += t + ":" + PermName(p) + " "
			adds = append(adds, list.AccountAdd{Identity: w.byName[t].Pub, Permissions: p, Metadata: []byte("add-meta")})
		}
		return op, func(rb list.AclRecordBuilder) (*consensusproto.RawRecord, []crypto.PrivKey, error) {
			r, err := rb.BuildAccountsAdd(list.AccountsAddPayload{Additions: adds})
			return r, nil, err
		}
	case "account_remove":
		op.Actor = manager()
		if op.Actor == "" {
			return op, nil
		}
		targets := m.names(func(n string, a AccountObs, has bool) bool {
			if n == op.Actor || a.Perm == list.AclPermissionsNone || a.Perm == list.AclPermissionsOwner {
				return false
			}
			return a.Perm != list.AclPermissionsAdmin || op.Actor == m.owner
		})
		if illegal {
			targets = []string{w.anyName()}
		}
		if len(targets) == 0 {
			return op, nil
		}
		// prefer the account that is meant to be removed and pending leavers
		t := m.pick(targets)
		for _, c := range targets {
			if (c == "removed" || m.o.Accounts[c].Status == list.StatusRemoving) && rng.Intn(2) == 0 {
				t = c
			}
		}
		ids := []crypto.PubKey{w.byName[t].Pub}
		op.Detail = t
		if len(targets) > 1 && rng.Intn(5) == 0 {
			for _, c := range targets {
				if c != t {
					ids = append(ids, w.byName[c].Pub)
					op.Detail += "," + c
					break
				}
			}
		}
		ch := w.newKeyPayload()
		return op, func(rb list.AclRecordBuilder) (*consensusproto.RawRecord, []crypto.PrivKey, error) {
			r, err := rb.BuildAccountRemove(list.AccountRemovePayload{Identities: ids, Change: ch})
			return r, nil, err
		}
	case "read_key_change":
		op.Actor = manager()
		if op.Actor == "" {
			return op, nil
		}
		ch := w.newKeyPayload()
		return op, func(rb list.AclRecordBuilder) (*consensusproto.RawRecord, []crypto.PrivKey, error) {
			r, err := rb.BuildReadKeyChange(ch)
			return r, nil, err
		}
	case "ownership_change":
		op.Actor = m.owner
		if illegal {
			op.Actor = w.anyName()
		}
		targets := m.names(func(n string, a AccountObs, has bool) bool {
			return n != op.Actor && a.Perm != list.AclPermissionsNone && a.Perm != list.AclPermissionsGuest && a.Status == list.StatusActive
		})
		if illegal {
			targets = []string{w.anyName()}
		}
		if op.Actor == "" || !m.usable(op.Actor) || len(targets) == 0 {
			return op, nil
		}
		t := m.pick(targets)
		old := []list.AclPermissions{list.AclPermissionsAdmin, list.AclPermissionsWriter, list.AclPermissionsReader}[rng.Intn(3)]
		if illegal {
			old = anyPerm()
		}
		op.Detail = t + ",old->" + PermName(old)
		return op, func(rb list.AclRecordBuilder) (*consensusproto.RawRecord, []crypto.PrivKey, error) {
			r, err := rb.BuildOwnershipChange(list.OwnershipChangePayload{NewOwner: w.byName[t].Pub, OldOwnerPermissions: old})
			return r, nil, err
		}
	case "options_change":
		op.Actor = m.owner
		if illegal {
			op.Actor = w.anyName()
		}
		if op.Actor == "" || !m.usable(op.Actor) {
			return op, nil
		}
		v := rng.Intn(2) == 0
		op.Detail = fmt.Sprint(v)
		return op, func(rb list.AclRecordBuilder) (*consensusproto.RawRecord, []crypto.PrivKey, error) {
			r, err := rb.BuildSpaceOptionsChange(&aclrecordproto.AclSpaceOptions{DeleteRestricted: v})
			return r, nil, err
		}
	case "batch_rotate":
		op.Actor = manager()
		if op.Actor == "" {
			return op, nil
		}
		var p list.BatchRequestPayload
		for _, id := range sortedKeys(m.o.Invites) {
			if rng.Intn(2) == 0 {
				p.InviteRevokes = append(p.InviteRevokes, id)
			}
		}
		for _, id := range sortedKeys(m.o.JoinReq) {
			if rng.Intn(2) == 0 {
				p.Declines = append(p.Declines, id)
			}
		}
		ch := w.newKeyPayload()
		p.ReadKeyChange = &ch
		op.Detail = fmt.Sprintf("revokes=%d declines=%d", len(p.InviteRevokes), len(p.Declines))
		return op, func(rb list.AclRecordBuilder) (*consensusproto.RawRecord, []crypto.PrivKey, error) {
			r, err := rb.BuildBatchRequest(p)
			return r.Rec, r.Invites, err
		}
	case "batch":
		op.Actor = manager()
		if op.Actor == "" {
			return op, nil
		}
		var p list.BatchRequestPayload
		isOwner := op.Actor == m.owner
		used := map[string]bool{op.Actor: true}
		var parts []string
		// removals
		if rng.Intn(3) == 0 {
			ts := m.names(func(n string, a AccountObs, has bool) bool {
				return n != op.Actor && a.Perm != list.AclPermissionsNone && a.Perm != list.AclPermissionsOwner && (a.Perm != list.AclPermissionsAdmin || isOwner)
			})
			if len(ts) > 0 {
				t := m.pick(ts)
				used[t] = true
				p.Removals = list.AccountRemovePayload{Identities: []crypto.PubKey{w.byName[t].Pub}, Change: w.newKeyPayload()}
				parts = append(parts, "remove:"+t)
			}
		}
		// BuildBatchRequest encrypts additions with Removals.Change's keys; without a
		// removal those are nil and the builder panics (client misuse, counted) — try that rarely
		if (len(p.Removals.Identities) > 0 && rng.Intn(2) == 0) || rng.Intn(12) == 0 {
			ts := m.names(func(n string, a AccountObs, has bool) bool { return a.Perm == list.AclPermissionsNone && !used[n] })
			if len(ts) > 0 {
				t := m.pick(ts)
				used[t] = true
				pp := m.grantable(op.Actor, true)
				p.Additions = append(p.Additions, list.AccountAdd{Identity: w.byName[t].Pub, Permissions: pp, Metadata: []byte("batch-add")})
				parts = append(parts, "add:"+t+":"+PermName(pp))
			}
		}
		if rng.Intn(2) == 0 {
			ts := m.names(func(n string, a AccountObs, has bool) bool {
				return has && !used[n] && a.Perm != list.AclPermissionsNone && a.Perm != list.AclPermissionsOwner && a.Perm != list.AclPermissionsGuest && (a.Perm != list.AclPermissionsAdmin || isOwner)
			})
			if len(ts) > 0 {
				t := m.pick(ts)
				used[t] = true
				pp := m.grantable(op.Actor, false)
				p.Changes = append(p.Changes, list.PermissionChangePayload{Identity: w.byName[t].Pub, Permissions: pp})
				parts = append(parts, "change:"+t+"->"+PermName(pp))
			}
		}
		for _, id := range sortedKeys(m.o.JoinReq) {
			if used[m.o.JoinReq[id]] {
				continue
			}
			switch rng.Intn(3) {
			case 0:
				pp := m.grantable(op.Actor, false)
				p.Approvals = append(p.Approvals, list.RequestAcceptPayload{RequestRecordId: id, Permissions: pp})
				parts = append(parts, "approve:"+m.o.JoinReq[id])
			case 1:
				p.Declines = append(p.Declines, id)
				parts = append(parts, "decline:"+m.o.JoinReq[id])
			}
		}
		for _, id := range sortedKeys(m.o.Invites) {
			switch rng.Intn(4) {
			case 0:
				p.InviteRevokes = append(p.InviteRevokes, id)
				parts = append(parts, "revoke")
			case 1:
				if m.o.Invites[id].Type == 1 {
					pp := list.AclPermissionsReader
					if m.o.Invites[id].Perm == pp {
						pp = list.AclPermissionsWriter
					}
					p.InviteChanges = append(p.InviteChanges, list.InviteChangePayload{IniviteRecordId: id, Permissions: pp})
					parts = append(parts, "invchange")
				}
			}
		}
		if rng.Intn(3) == 0 {
			// at most one new invite per record: invites are keyed by record id
			if rng.Intn(2) == 0 {
				p.NewInvites = append(p.NewInvites, list.AclPermissionsNone)
			} else {
				p.NewInvites = append(p.NewInvites, m.grantable(op.Actor, false))
			}
			parts = append(parts, "newinvite")
		}
		if illegal {
			p.Changes = append(p.Changes, list.PermissionChangePayload{Identity: w.byName[w.anyName()].Pub, Permissions: anyPerm()})
			parts = append(parts, "change:random")
		}
		if len(parts) == 0 {
			return op, nil
		}
		op.Detail = strings.Join(parts, " ")
		return op, func(rb list.AclRecordBuilder) (*consensusproto.RawRecord, []crypto.PrivKey, error) {
			r, err := rb.BuildBatchRequest(p)
			return r.Rec, r.Invites, err
		}
	}
	return op, nil
}

// BuilderCall is a call of one Build* method of the acting account's record builder.
type BuilderCall = builderCall

// Build runs a scripted builder call on the acting account's own validating
// view under recover (same accounting as GenStep). It applies nothing.
func (w *World) Build(op Op, call BuilderCall) StepResult { return w.callBuilder(op, call) }

// Apply seals a built record, offers it to the reference view and, when that
// accepts, commits it to the log and to every account's view.
func (w *World) Apply(res StepResult) (*consensusproto.RawRecordWithId, error) {
	if res.Raw == nil {
		if res.Err != nil {
			return nil, res.Err
		}
		return nil, fmt.Errorf("nothing built: %s", res.PanicMsg)
	}
	return w.ApplyRaw(res.Raw, res.InviteKeys)
}

// ApplyRaw is Apply for a hand-assembled record.
func (w *World) ApplyRaw(raw *consensusproto.RawRecord, inviteKeys []crypto.PrivKey) (*consensusproto.RawRecordWithId, error) {
	rec := w.Seal(raw)
	if err := w.Canon.Add(rec); err != nil {
		return nil, err
	}
	w.Commit(rec, inviteKeys)
	return rec, nil
}
