package aclgen

import (
	"context"
	"fmt"
	"path/filepath"

	anystore "github.com/anyproto/any-store"
	"github.com/anyproto/any-store/anyenc"

	"github.com/anyproto/any-sync/commonspace/headsync/headstorage"
	"github.com/anyproto/any-sync/commonspace/object/acl/list"
	"github.com/anyproto/any-sync/commonspace/object/acl/recordverifier"
	"github.com/anyproto/any-sync/consensus/consensusproto"
)

// VerifierKind selects how a view verifies / decodes records.
type VerifierKind string

const (
	// KindValidating: recordverifier.NewValidateFull — full decode, every content validated.
	KindValidating VerifierKind = "validating"
	// KindPartial: a harness verifier with ShouldValidate()==false and no
	// acceptor check — the keep-identity partial decode path.
	KindPartial VerifierKind = "partial"
	// KindPartialNet: recordverifier.New(networkKey) — partial decode plus the
	// network acceptor signature is required.
	KindPartialNet VerifierKind = "partial-net"
)

type noValidate struct{}

func (noValidate) VerifyAcceptor(*consensusproto.RawRecord) error { return nil }
func (noValidate) ShouldValidate() bool                           { return false }

// Verifier returns the AcceptorVerifier of a kind.
func (w *World) Verifier(k VerifierKind) recordverifier.AcceptorVerifier {
	switch k {
	case KindPartial:
		return noValidate{}
	case KindPartialNet:
		return recordverifier.New(w.NetPub)
	}
	return recordverifier.NewValidateFull()
}

// storeConfig keeps an any-store database cheap to open in the harness: one
// read connection instead of one per CPU, no fsync (process death is not part
// of the ACL workloads).
func storeConfig() *anystore.Config {
	return &anystore.Config{ReadConnections: 1, SQLiteConnectionOptions: map[string]string{"synchronous": "off"}}
}

// View is one AclList over its own storage.
type View struct {
	Name   string
	Kind   VerifierKind
	Store  string // "mem" | "anystore"
	Acc    *Account
	List   list.AclList
	St     list.Storage
	N      int // number of log records applied, root included
	Wedged bool
	// WedgeErr is the error with which the view refused a committed record.
	WedgeErr string

	w    *World
	path string
	db   anystore.DB
}

// NewMemView builds a list for acc from the first `prefix` records of the log
// on a fresh in-memory storage (this is also the "rebuilt from the raw log" path).
func (w *World) NewMemView(acc *Account, kind VerifierKind, prefix int) (*View, error) {
	if prefix < 1 || prefix > len(w.Log) {
		return nil, fmt.Errorf("prefix %d out of range", prefix)
	}
	st, err := list.NewInMemoryStorage(w.Root.Id, w.Log[:prefix])
	if err != nil {
		return nil, err
	}
	l, err := list.BuildAclListWithIdentity(acc.Keys, st, w.Verifier(kind))
	if err != nil {
		return nil, err
	}
	return &View{Name: fmt.Sprintf("mem:%s:%s", kind, acc.Name), Kind: kind, Store: "mem", Acc: acc, List: l, St: st, N: prefix, w: w}, nil
}

// NewShuffledMemView builds a list for acc from the first `prefix` records of the log held by an
// in-memory storage in a layout other than chain order (root first, head last, the inner records
// permuted): the storage's own order / prev-id bookkeeping then disagrees with the signed chain and
// the builder has to follow the signed prev ids.
func (w *World) NewShuffledMemView(acc *Account, kind VerifierKind, prefix int, perm func(n int, swap func(i, j int))) (*View, error) {
	if prefix < 4 || prefix > len(w.Log) {
		return nil, fmt.Errorf("prefix %d out of range", prefix)
	}
	recs := append([]*consensusproto.RawRecordWithId{}, w.Log[:prefix]...)
	inner := recs[1 : len(recs)-1]
	perm(len(inner), func(i, j int) { inner[i], inner[j] = inner[j], inner[i] })
	st, err := list.NewInMemoryStorage(w.Root.Id, recs)
	if err != nil {
		return nil, err
	}
	l, err := list.BuildAclListWithIdentity(acc.Keys, st, w.Verifier(kind))
	if err != nil {
		return nil, err
	}
	return &View{Name: fmt.Sprintf("mem-shuffled:%s:%s", kind, acc.Name), Kind: kind, Store: "mem", Acc: acc, List: l, St: st, N: prefix, w: w}, nil
}

// CloneMem builds a new list of the same account / kind on a copy of this
// view's in-memory storage (throw-away view for trial additions).
func (v *View) CloneMem() (*View, error) {
	cp, ok := v.St.(interface{ Copy() list.Storage })
	if !ok {
		return nil, fmt.Errorf("storage of %s cannot be copied", v.Name)
	}
	st := cp.Copy()
	l, err := list.BuildAclListWithIdentity(v.Acc.Keys, st, v.w.Verifier(v.Kind))
	if err != nil {
		return nil, err
	}
	return &View{Name: v.Name + ":clone", Kind: v.Kind, Store: "mem", Acc: v.Acc, List: l, St: st, N: v.N, w: v.w}, nil
}

// NewAnyStoreView creates an any-store database under dir holding the root
// only and builds a list on it.
func (w *World) NewAnyStoreView(acc *Account, kind VerifierKind, dir, name string) (*View, error) {
	ctx := context.Background()
	v := &View{Name: fmt.Sprintf("anystore:%s:%s", kind, acc.Name), Kind: kind, Store: "anystore", Acc: acc, N: 1, w: w,
		path: filepath.Join(dir, name+".db")}
	db, err := anystore.Open(ctx, v.path, storeConfig())
	if err != nil {
		return nil, err
	}
	v.db = db
	hs, err := headstorage.New(ctx, db)
	if err != nil {
		return nil, err
	}
	st, err := list.CreateStorage(ctx, w.Root, hs, db)
	if err != nil {
		return nil, err
	}
	v.St = st
	v.List, err = list.BuildAclListWithIdentity(acc.Keys, st, w.Verifier(kind))
	if err != nil {
		return nil, err
	}
	return v, nil
}

// Reopen closes the database and rebuilds storage and list from disk
// (a restart). Only for any-store views.
func (v *View) Reopen() error {
	if v.Store != "anystore" {
		return fmt.Errorf("not an any-store view")
	}
	ctx := context.Background()
	_ = v.List.Close(ctx)
	if err := v.db.Close(); err != nil {
		return err
	}
	db, err := anystore.Open(ctx, v.path, storeConfig())
	if err != nil {
		return err
	}
	v.db = db
	hs, err := headstorage.New(ctx, db)
	if err != nil {
		return err
	}
	st, err := list.NewStorage(ctx, v.w.Root.Id, hs, db)
	if err != nil {
		return err
	}
	v.St = st
	v.List, err = list.BuildAclListWithIdentity(v.Acc.Keys, st, v.w.Verifier(v.Kind))
	return err
}

// ScrambleOrder swaps the stored order index ("o") of the records at log
// positions i and j directly in the database (i, j >= 1; the root keeps
// order 1), modelling a migrated database whose order index does not follow
// the PrevId chain. The caller reopens the view afterwards.
func (v *View) ScrambleOrder(idI, idJ string) error {
	if v.Store != "anystore" {
		return fmt.Errorf("not an any-store view")
	}
	ctx := context.Background()
	coll, err := v.db.Collection(ctx, v.w.Root.Id)
	if err != nil {
		return err
	}
	di, err := coll.FindId(ctx, idI)
	if err != nil {
		return err
	}
	dj, err := coll.FindId(ctx, idJ)
	if err != nil {
		return err
	}
	oi, oj := di.Value().GetInt("o"), dj.Value().GetInt("o")
	arena := &anyenc.Arena{}
	set := func(doc anystore.Doc, order int) *anyenc.Value {
		nv := arena.NewObject()
		nv.Set("o", arena.NewNumberInt(order))
		nv.Set("r", arena.NewBinary(doc.Value().GetBytes("r")))
		nv.Set("sz", arena.NewNumberInt(doc.Value().GetInt("sz")))
		nv.Set("id", arena.NewString(doc.Value().GetString("id")))
		nv.Set("p", arena.NewString(doc.Value().GetString("p")))
		return nv
	}
	vi, vj := set(di, oj), set(dj, oi)
	// the order index is unique: park one record on a free order first
	park := set(di, 1<<30)
	tx, err := v.db.WriteTx(ctx)
	if err != nil {
		return err
	}
	if err = coll.UpdateOne(tx.Context(), park); err == nil {
		if err = coll.UpdateOne(tx.Context(), vj); err == nil {
			err = coll.UpdateOne(tx.Context(), vi)
		}
	}
	if err != nil {
		_ = tx.Rollback()
		return err
	}
	return tx.Commit()
}

// Close releases the database of an any-store view.
func (v *View) Close() {
	if v.db != nil {
		_ = v.db.Close()
		v.db = nil
	}
}

// Add offers one record; on success the view's prefix counter advances. It is
// the caller's business whether rec is the next log record.
func (v *View) Add(rec *consensusproto.RawRecordWithId) error {
	err := v.List.AddRawRecord(rec)
	if err == nil {
		v.N++
	}
	return err
}

// Obs is obs(view).
func (v *View) Obs() Observation { return v.w.Observe(v.List) }

// Snap is the storage snapshot plus the list's own record count / head.
type Snap struct {
	Obs      string      `json:"obs"`
	Storage  StorageSnap `json:"storage"`
	NRecords int         `json:"n_records"`
	ListHead string      `json:"list_head"`
}

// Snapshot captures everything the C03 "rejected => unchanged" oracle compares.
func (v *View) Snapshot() Snap {
	return Snap{Obs: v.Obs().Canon(), Storage: SnapStorage(v.St), NRecords: len(v.List.Records()), ListHead: v.List.Head().Id}
}

// Diff describes the first difference between two snapshots ("" when equal).
func (s Snap) Diff(o Snap) string {
	switch {
	case s.Obs != o.Obs:
		return "obs"
	case !s.Storage.Equal(o.Storage):
		return "storage"
	case s.NRecords != o.NRecords:
		return "record-count"
	case s.ListHead != o.ListHead:
		return "list-head"
	}
	return ""
}

// CatchUp feeds the view only with what `from` serves through
// RecordsAfter(view's head) and applies it with AddRawRecords (the sync
// handler's path). It returns how many log records the view advanced.
func (v *View) CatchUp(from *View) (int, error) {
	recs, err := from.List.RecordsAfter(context.Background(), v.List.Head().Id)
	if err != nil {
		return 0, err
	}
	before := len(v.List.Records())
	err = v.List.AddRawRecords(recs)
	adv := len(v.List.Records()) - before
	v.N += adv
	return adv, err
}

// AddBatch applies a slice of records through AddRawRecords.
func (v *View) AddBatch(recs []*consensusproto.RawRecordWithId) error {
	before := len(v.List.Records())
	err := v.List.AddRawRecords(recs)
	v.N += len(v.List.Records()) - before
	return err
}
