// Package mutate produces labelled hostile variants of valid wire messages:
// byte-level mutators (flip, truncate, extend, splice, random) and
// protobuf-structure-aware mutators that walk the message with protowire
// (drop / duplicate / reorder a field, edit a varint, edit a length prefix
// without moving bytes, replace a bytes field with empty / 1 byte / a
// ciphertext shorter than its fixed header, swap equal-typed fields, change a
// tag's wire type or number, deep nesting). Every mutant carries the class of
// the mutation and the field path it touched, so monitors can count
// accepted / rejected per class. All randomness comes from the caller's
// *rand.Rand. See DESIGN.md 2.4.
package mutate

import (
	"fmt"
	"math"
	"math/rand"
	"strings"

	"google.golang.org/protobuf/encoding/protowire"
)

// Mutant is one generated input.
type Mutant struct {
	Data  []byte
	Class string // mutation class, e.g. "pb.bytes-short", "byte.truncate", "valid"
	Path  string // dotted field numbers of the mutated node ("" for byte-level)
}

func (m Mutant) Label() string {
	if m.Path == "" {
		return m.Class
	}
	return m.Class + "@" + m.Path
}

// ShortLens are the lengths used for "shorter than header" ciphertexts: around
// the AES-GCM nonce (12) / tag (16, 28 = nonce+tag) and the X25519 sealed-box
// header (32 ephemeral key, 48 = key + poly1305 tag).
var ShortLens = []int{0, 1, 2, 11, 12, 13, 15, 16, 17, 27, 28, 29, 31, 32, 33, 47, 48, 49}

// ByteClasses / ProtoClasses list every class the engine can emit.
var ByteClasses = []string{"byte.flip", "byte.set", "byte.truncate", "byte.extend", "byte.splice", "byte.delete", "byte.insert", "byte.dup-chunk"}
var ProtoClasses = []string{"pb.drop-field", "pb.dup-field", "pb.reorder", "pb.varint-edit", "pb.fixed-edit", "pb.len-edit",
	"pb.bytes-empty", "pb.bytes-1", "pb.bytes-short", "pb.bytes-garbage", "pb.bytes-grow", "pb.swap-fields", "pb.swap-donor",
	"pb.wiretype", "pb.fieldnum", "pb.nest-deep", "pb.trunc-field", "pb.msg-empty"}

// Random returns a pure random byte string of length 0..maxLen (biased to short).
func Random(r *rand.Rand, maxLen int) Mutant {
	var n int
	switch r.Intn(4) {
	case 0:
		n = r.Intn(17)
	case 1:
		n = r.Intn(129)
	default:
		n = r.Intn(maxLen + 1)
	}
	b := make([]byte, n)
	r.Read(b)
	// a third of them get a plausible protobuf start so that they survive the first tag
	if n > 2 && r.Intn(3) == 0 {
		b[0] = byte((1+r.Intn(8))<<3 | []int{0, 2, 2, 2, 5, 1}[r.Intn(6)])
	}
	return Mutant{Data: b, Class: "random"}
}

// Bytes applies one byte-level mutation.
func Bytes(r *rand.Rand, in []byte, donor []byte) Mutant {
	out := append([]byte(nil), in...)
	cls := ByteClasses[r.Intn(len(ByteClasses))]
	if len(out) == 0 && cls != "byte.extend" && cls != "byte.insert" {
		cls = "byte.extend"
	}
	switch cls {
	case "byte.flip":
		n := 1 + r.Intn(3)
		for i := 0; i < n; i++ {
			p := r.Intn(len(out))
			out[p] ^= 1 << uint(r.Intn(8))
		}
	case "byte.set":
		p := r.Intn(len(out))
		out[p] = []byte{0, 1, 0x7f, 0x80, 0xff, byte(r.Intn(256))}[r.Intn(6)]
	case "byte.truncate":
		out = out[:r.Intn(len(out))]
	case "byte.extend":
		ext := make([]byte, 1+r.Intn(64))
		r.Read(ext)
		out = append(out, ext...)
	case "byte.splice":
		if len(donor) == 0 {
			donor = in
		}
		p := r.Intn(len(out))
		q := r.Intn(len(donor))
		out = append(out[:p:p], donor[q:]...)
	case "byte.delete":
		p := r.Intn(len(out))
		n := 1 + r.Intn(min(8, len(out)-p))
		out = append(out[:p], out[p+n:]...)
	case "byte.insert":
		p := r.Intn(len(out) + 1)
		ins := make([]byte, 1+r.Intn(8))
		r.Read(ins)
		out = append(out[:p:p], append(ins, out[p:]...)...)
	case "byte.dup-chunk":
		p := r.Intn(len(out))
		n := 1 + r.Intn(min(32, len(out)-p))
		chunk := append([]byte(nil), out[p:p+n]...)
		out = append(out[:p+n:p+n], append(chunk, out[p+n:]...)...)
	}
	return Mutant{Data: out, Class: cls}
}

// ---------------------------------------------------------------- proto tree

// Node is one field occurrence of a parsed message.
type Node struct {
	Num      protowire.Number
	Typ      protowire.Type
	Varint   uint64
	Fixed    uint64
	Bytes    []byte  // BytesType payload
	Children []*Node // non-nil when Bytes parses completely as a plausible message
	IsMsg    bool
	// forced encodings
	rawLen  int64  // >= 0: write this length prefix instead of the real one (len-edit)
	rawOver []byte // when set the field is emitted as these raw bytes (tag included)
}

const maxParseDepth = 12

// Parse decodes b as a protobuf message; ok=false when it does not parse completely.
func Parse(b []byte) ([]*Node, bool) { return parse(b, 0) }

func parse(b []byte, depth int) ([]*Node, bool) {
	var out []*Node
	for len(b) > 0 {
		num, typ, n := protowire.ConsumeTag(b)
		if n < 0 || num <= 0 || num > 1<<20 {
			return nil, false
		}
		b = b[n:]
		nd := &Node{Num: num, Typ: typ, rawLen: -1}
		switch typ {
		case protowire.VarintType:
			v, m := protowire.ConsumeVarint(b)
			if m < 0 {
				return nil, false
			}
			nd.Varint = v
			b = b[m:]
		case protowire.Fixed32Type:
			v, m := protowire.ConsumeFixed32(b)
			if m < 0 {
				return nil, false
			}
			nd.Fixed = uint64(v)
			b = b[m:]
		case protowire.Fixed64Type:
			v, m := protowire.ConsumeFixed64(b)
			if m < 0 {
				return nil, false
			}
			nd.Fixed = v
			b = b[m:]
		case protowire.BytesType:
			v, m := protowire.ConsumeBytes(b)
			if m < 0 {
				return nil, false
			}
			nd.Bytes = append([]byte(nil), v...)
			b = b[m:]
			if len(v) >= 2 && depth < maxParseDepth && plausibleMessage(v) {
				if ch, ok := parse(v, depth+1); ok && len(ch) > 0 {
					nd.Children = ch
					nd.IsMsg = true
				}
			}
		default:
			return nil, false
		}
		out = append(out, nd)
	}
	return out, true
}

// plausibleMessage: all field numbers small; avoids treating text (ids, cids) as messages most of the time.
func plausibleMessage(b []byte) bool {
	cnt := 0
	for len(b) > 0 {
		num, typ, n := protowire.ConsumeTag(b)
		if n < 0 || num <= 0 || num > 40 {
			return false
		}
		m := protowire.ConsumeFieldValue(num, typ, b[n:])
		if m < 0 {
			return false
		}
		if typ == protowire.StartGroupType || typ == protowire.EndGroupType {
			return false
		}
		b = b[n+m:]
		cnt++
	}
	return cnt > 0
}

// Encode serialises a node list.
func Encode(nodes []*Node) []byte {
	var out []byte
	for _, n := range nodes {
		out = appendNode(out, n)
	}
	return out
}

func appendNode(out []byte, n *Node) []byte {
	if n.rawOver != nil {
		return append(out, n.rawOver...)
	}
	out = protowire.AppendTag(out, n.Num, n.Typ)
	switch n.Typ {
	case protowire.VarintType:
		out = protowire.AppendVarint(out, n.Varint)
	case protowire.Fixed32Type:
		out = protowire.AppendFixed32(out, uint32(n.Fixed))
	case protowire.Fixed64Type:
		out = protowire.AppendFixed64(out, n.Fixed)
	case protowire.BytesType:
		payload := n.Bytes
		if n.IsMsg {
			payload = Encode(n.Children)
		}
		if n.rawLen >= 0 {
			out = protowire.AppendVarint(out, uint64(n.rawLen))
			out = append(out, payload...)
		} else {
			out = protowire.AppendBytes(out, payload)
		}
	}
	return out
}

type slot struct {
	list *[]*Node // the slice that holds the node
	idx  int
	path string
	node *Node
}

func collect(list *[]*Node, prefix string, out *[]slot) {
	for i, n := range *list {
		p := fmt.Sprintf("%s%d", prefix, n.Num)
		*out = append(*out, slot{list: list, idx: i, path: p, node: n})
		if n.IsMsg {
			collect(&n.Children, p+".", out)
		}
	}
}

func filter(slots []slot, f func(slot) bool) []slot {
	var out []slot
	for _, s := range slots {
		if f(s) {
			out = append(out, s)
		}
	}
	return out
}

// Proto applies one structure-aware mutation of class cls ("" = random class)
// to in. donor (may be nil) is a second valid message used by swap-donor.
// ok=false when in is not a parseable message or the class has no applicable
// node (the caller then falls back to Bytes).
func Proto(r *rand.Rand, in []byte, donor []byte, cls string) (Mutant, bool) {
	nodes, ok := Parse(in)
	if !ok || len(nodes) == 0 {
		return Mutant{}, false
	}
	if cls == "" {
		cls = ProtoClasses[r.Intn(len(ProtoClasses))]
	}
	var slots []slot
	collect(&nodes, "", &slots)
	pick := func(cands []slot) (slot, bool) {
		if len(cands) == 0 {
			return slot{}, false
		}
		return cands[r.Intn(len(cands))], true
	}
	isLeafBytes := func(s slot) bool { return s.node.Typ == protowire.BytesType && !s.node.IsMsg }
	isBytes := func(s slot) bool { return s.node.Typ == protowire.BytesType }
	path := ""
	switch cls {
	case "pb.drop-field":
		s, ok := pick(slots)
		if !ok {
			return Mutant{}, false
		}
		*s.list = append((*s.list)[:s.idx:s.idx], (*s.list)[s.idx+1:]...)
		path = s.path
	case "pb.dup-field":
		s, ok := pick(slots)
		if !ok {
			return Mutant{}, false
		}
		times := 1
		if r.Intn(4) == 0 {
			times = 2 + r.Intn(30)
		}
		l := *s.list
		nl := append([]*Node(nil), l[:s.idx+1]...)
		for i := 0; i < times; i++ {
			nl = append(nl, s.node)
		}
		nl = append(nl, l[s.idx+1:]...)
		*s.list = nl
		path = s.path
	case "pb.reorder":
		cands := filter(slots, func(s slot) bool { return len(*s.list) > 1 })
		s, ok := pick(cands)
		if !ok {
			return Mutant{}, false
		}
		l := *s.list
		j := r.Intn(len(l))
		l[s.idx], l[j] = l[j], l[s.idx]
		path = s.path
	case "pb.varint-edit":
		s, ok := pick(filter(slots, func(s slot) bool { return s.node.Typ == protowire.VarintType }))
		if !ok {
			return Mutant{}, false
		}
		vals := []uint64{0, 1, 2, s.node.Varint + 1, s.node.Varint - 1, math.MaxInt32, math.MaxUint32, math.MaxInt64, math.MaxUint64,
			1 << 31, 1 << 63, uint64(r.Int63()), uint64(r.Intn(64)), ^s.node.Varint}
		s.node.Varint = vals[r.Intn(len(vals))]
		if r.Intn(8) == 0 {
			// over-long (non-canonical) varint encoding
			raw := protowire.AppendTag(nil, s.node.Num, s.node.Typ)
			v := s.node.Varint
			for i := 0; i < 9; i++ {
				raw = append(raw, byte(v)|0x80)
				v >>= 7
			}
			raw = append(raw, byte(v)&0x01)
			s.node.rawOver = raw
		}
		path = s.path
	case "pb.fixed-edit":
		s, ok := pick(filter(slots, func(s slot) bool {
			return s.node.Typ == protowire.Fixed32Type || s.node.Typ == protowire.Fixed64Type
		}))
		if !ok {
			return Mutant{}, false
		}
		s.node.Fixed = []uint64{0, 1, math.MaxUint64, 1 << 63, uint64(r.Int63())}[r.Intn(5)]
		path = s.path
	case "pb.len-edit":
		s, ok := pick(filter(slots, isBytes))
		if !ok {
			return Mutant{}, false
		}
		real := int64(len(s.node.Bytes))
		if s.node.IsMsg {
			real = int64(len(Encode(s.node.Children)))
		}
		vals := []int64{0, 1, real - 1, real + 1, real + int64(1+r.Intn(64)), real / 2, 1 << 20, 1 << 31, math.MaxInt32, math.MaxUint32, 1<<62 - 1, math.MaxInt64}
		v := vals[r.Intn(len(vals))]
		if v < 0 {
			v = 0
		}
		s.node.rawLen = v
		path = s.path
	case "pb.bytes-empty", "pb.bytes-1", "pb.bytes-short", "pb.bytes-garbage", "pb.bytes-grow":
		cands := filter(slots, isLeafBytes)
		if len(cands) == 0 || r.Intn(6) == 0 {
			cands = filter(slots, isBytes)
		}
		s, ok := pick(cands)
		if !ok {
			return Mutant{}, false
		}
		var nb []byte
		switch cls {
		case "pb.bytes-empty":
			nb = []byte{}
		case "pb.bytes-1":
			nb = []byte{byte(r.Intn(256))}
		case "pb.bytes-short":
			nb = make([]byte, ShortLens[r.Intn(len(ShortLens))])
			r.Read(nb)
			if len(s.node.Bytes) >= len(nb) && r.Intn(2) == 0 {
				copy(nb, s.node.Bytes) // keep the valid prefix (e.g. the ephemeral key / nonce)
			}
		case "pb.bytes-garbage":
			nb = make([]byte, len(s.node.Bytes))
			r.Read(nb)
		case "pb.bytes-grow":
			nb = make([]byte, len(s.node.Bytes)+1+r.Intn(2048))
			r.Read(nb)
			copy(nb, s.node.Bytes)
		}
		s.node.Bytes, s.node.IsMsg, s.node.Children = nb, false, nil
		path = s.path
	case "pb.msg-empty":
		// a sub-message that is present but empty: every optional field inside it is missing
		s, ok := pick(filter(slots, func(s slot) bool { return s.node.IsMsg }))
		if !ok {
			return Mutant{}, false
		}
		s.node.Bytes, s.node.IsMsg, s.node.Children = []byte{}, false, nil
		path = s.path
	case "pb.trunc-field":
		s, ok := pick(filter(slots, func(s slot) bool { return isLeafBytes(s) && len(s.node.Bytes) > 0 }))
		if !ok {
			return Mutant{}, false
		}
		s.node.Bytes = s.node.Bytes[:r.Intn(len(s.node.Bytes))]
		path = s.path
	case "pb.swap-fields":
		a, ok := pick(slots)
		if !ok {
			return Mutant{}, false
		}
		b, ok := pick(filter(slots, func(s slot) bool { return s.node != a.node && s.node.Typ == a.node.Typ }))
		if !ok {
			return Mutant{}, false
		}
		swapValues(a.node, b.node)
		path = a.path + "<>" + b.path
	case "pb.swap-donor":
		dn, ok := Parse(donor)
		if !ok || len(dn) == 0 {
			return Mutant{}, false
		}
		var ds []slot
		collect(&dn, "", &ds)
		a, ok := pick(slots)
		if !ok {
			return Mutant{}, false
		}
		// prefer the donor's field at the same path, else any equal-typed one
		b, ok := pick(filter(ds, func(s slot) bool { return s.path == a.path && s.node.Typ == a.node.Typ }))
		if !ok || r.Intn(3) == 0 {
			b, ok = pick(filter(ds, func(s slot) bool { return s.node.Typ == a.node.Typ }))
		}
		if !ok {
			return Mutant{}, false
		}
		cp := *b.node
		a.node.Varint, a.node.Fixed, a.node.Bytes, a.node.Children, a.node.IsMsg = cp.Varint, cp.Fixed, cp.Bytes, cp.Children, cp.IsMsg
		path = a.path + "<-" + b.path
	case "pb.wiretype":
		s, ok := pick(slots)
		if !ok {
			return Mutant{}, false
		}
		full := appendNode(nil, s.node)
		_, _, tl := protowire.ConsumeTag(full)
		nt := protowire.Type(r.Intn(8))
		raw := protowire.AppendTag(nil, s.node.Num, nt)
		s.node.rawOver = append(raw, full[tl:]...)
		path = s.path
	case "pb.fieldnum":
		s, ok := pick(slots)
		if !ok {
			return Mutant{}, false
		}
		nums := []protowire.Number{1, 2, 3, 4, 5, 6, 7, 8, 9, 10, 11, 12, 15, 16, 100, 1 << 28, protowire.Number(1 + r.Intn(20))}
		s.node.Num = nums[r.Intn(len(nums))]
		path = s.path
	case "pb.nest-deep":
		s, ok := pick(filter(slots, isBytes))
		if !ok {
			return Mutant{}, false
		}
		depth := []int{2, 10, 100, 1000, 5000}[r.Intn(5)]
		inner := s.node.Bytes
		if s.node.IsMsg {
			inner = Encode(s.node.Children)
		}
		// wrap `depth` times without re-copying the payload at every level:
		// compute the length prefixes inside-out, then emit them outside-in
		tag := protowire.AppendTag(nil, s.node.Num, protowire.BytesType)
		lens := make([]int, depth)
		cur := len(inner)
		for i := 0; i < depth; i++ {
			lens[i] = cur
			cur += len(tag) + protowire.SizeVarint(uint64(cur))
		}
		wrapped := make([]byte, 0, cur)
		for i := depth - 1; i >= 0; i-- {
			wrapped = append(wrapped, tag...)
			wrapped = protowire.AppendVarint(wrapped, uint64(lens[i]))
		}
		wrapped = append(wrapped, inner...)
		s.node.Bytes, s.node.IsMsg, s.node.Children = wrapped, false, nil
		path = s.path
	default:
		return Mutant{}, false
	}
	return Mutant{Data: Encode(nodes), Class: cls, Path: path}, true
}

func swapValues(a, b *Node) {
	a.Varint, b.Varint = b.Varint, a.Varint
	a.Fixed, b.Fixed = b.Fixed, a.Fixed
	a.Bytes, b.Bytes = b.Bytes, a.Bytes
	a.Children, b.Children = b.Children, a.Children
	a.IsMsg, b.IsMsg = b.IsMsg, a.IsMsg
}

// Any applies one mutation: structure-aware with probability 3/4 when in
// parses as a message, else byte-level.
func Any(r *rand.Rand, in []byte, donor []byte) Mutant {
	if r.Intn(4) != 0 {
		for try := 0; try < 4; try++ {
			if m, ok := Proto(r, in, donor, ""); ok {
				return m
			}
		}
	}
	return Bytes(r, in, donor)
}

// OfClass applies the given class (byte.* or pb.*); falls back to Any when not applicable.
func OfClass(r *rand.Rand, in []byte, donor []byte, cls string) Mutant {
	if strings.HasPrefix(cls, "pb.") {
		for try := 0; try < 3; try++ {
			if m, ok := Proto(r, in, donor, cls); ok {
				return m
			}
		}
	}
	return Any(r, in, donor)
}

// AllClasses returns byte + proto classes.
func AllClasses() []string {
	return append(append([]string{}, ByteClasses...), ProtoClasses...)
}

// Fields lists the dotted paths of all leaf bytes fields of a message (used by
// targeted ciphertext replacement).
func Fields(in []byte) (paths []string) {
	nodes, ok := Parse(in)
	if !ok {
		return nil
	}
	var slots []slot
	collect(&nodes, "", &slots)
	for _, s := range slots {
		if s.node.Typ == protowire.BytesType && !s.node.IsMsg {
			paths = append(paths, s.path)
		}
	}
	return
}

// ReplaceAt replaces the idx-th occurrence (in walk order) of the bytes field
// at the dotted path with nb. ok=false when the path does not exist.
func ReplaceAt(in []byte, path string, occurrence int, nb []byte) ([]byte, bool) {
	nodes, ok := Parse(in)
	if !ok {
		return nil, false
	}
	var slots []slot
	collect(&nodes, "", &slots)
	k := 0
	for _, s := range slots {
		if s.path == path && s.node.Typ == protowire.BytesType {
			if k == occurrence {
				s.node.Bytes, s.node.IsMsg, s.node.Children = nb, false, nil
				return Encode(nodes), true
			}
			k++
		}
	}
	return nil, false
}
