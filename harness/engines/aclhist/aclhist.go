// Package aclhist builds ACL histories through the REAL client-side record
// builders of any-sync (list.AclRecordBuilder) and keeps, next to the raw
// record log, the harness's own small model of the history: who holds which
// permission after every record, which read-key generations exist (the key
// material is supplied by the harness, so it is ground truth), which invites
// are live. It is shared by the C05 and C02 checks and deliberately does not
// depend on any other engine.
//
// Acceptance of a record is decided by the real code (a fully validating list
// of a non-member observer); the model only records the *intended* effect of
// an accepted record. The model never reads AclState to learn permissions
// (CheckModel offers a sanity cross-check that callers turn into
// "inconclusive", never into a violation).
package aclhist

import (
	"crypto/ed25519"
	"fmt"
	"math/rand"
	"sort"
	"strings"

	"github.com/anyproto/any-sync/commonspace/object/accountdata"
	"github.com/anyproto/any-sync/commonspace/object/acl/list"
	"github.com/anyproto/any-sync/commonspace/object/acl/recordverifier"
	"github.com/anyproto/any-sync/consensus/consensusproto"
	"github.com/anyproto/any-sync/util/cidutil"
	"github.com/anyproto/any-sync/util/crypto"
)

type Perm = list.AclPermissions

const (
	None   = list.AclPermissionsNone
	Reader = list.AclPermissionsReader
	Writer = list.AclPermissionsWriter
	Admin  = list.AclPermissionsAdmin
	Owner  = list.AclPermissionsOwner
	Guest  = list.AclPermissionsGuest
)

func PermName(p Perm) string {
	switch p {
	case None:
		return "none"
	case Reader:
		return "reader"
	case Writer:
		return "writer"
	case Admin:
		return "admin"
	case Owner:
		return "owner"
	case Guest:
		return "guest"
	}
	return fmt.Sprintf("perm%d", int(p))
}

func CanWrite(p Perm) bool  { return p == Writer || p == Admin || p == Owner }
func CanManage(p Perm) bool { return p == Admin || p == Owner }

// Account is one principal with an account key.
type Account struct {
	Name    string
	Keys    *accountdata.AccountKeys
	Pub     crypto.PubKey
	IdProto []byte // marshalled public key as it appears in records
}

// PermEvent: after record RecIdx the account holds Perm.
type PermEvent struct {
	RecIdx int
	Perm   Perm
	Cause  string // op kind that produced it
}

// Invite is an invite key known to the harness.
type Invite struct {
	Name      string
	Key       crypto.PrivKey
	Pub       crypto.PubKey
	IdProto   []byte
	RecordId  string
	RecIdx    int
	Open      bool // anyone-can-join
	Perm      Perm
	Live      bool
	RevokedAt int // record index of the revoke, -1 while live
}

// Gen is one read-key generation; Key is the material the harness supplied.
type Gen struct {
	RecordId string
	RecIdx   int
	Key      crypto.SymKey
	Raw      []byte
	Kind     string // root | remove | rotate | revoke_rotate | batch_remove_add
}

// Intent is one operation to attempt.
type Intent struct {
	Kind    string
	Actor   string
	Target  string
	Target2 string // batch_remove_add: account to add
	Perm    Perm
	Perm2   Perm   // perm_change_twice: the second (final) permission given to Target inside the same record
	Invite  string // invite name
}

func (in Intent) String() string {
	s := in.Actor + "." + in.Kind
	var a []string
	if in.Target != "" {
		a = append(a, in.Target)
	}
	if in.Target2 != "" {
		a = append(a, "+"+in.Target2)
	}
	if in.Invite != "" {
		a = append(a, in.Invite)
	}
	if in.Perm != None || in.Kind == "perm_change" {
		a = append(a, PermName(in.Perm))
	}
	if in.Kind == "perm_change_twice" {
		a = append(a, "then:"+PermName(in.Perm2))
	}
	return s + "(" + strings.Join(a, ",") + ")"
}

// OpLog is the witness entry of one attempt.
type OpLog struct {
	Op       string `json:"op"`
	Accepted bool   `json:"accepted"`
	RecIdx   int    `json:"rec_idx,omitempty"`
	Err      string `json:"err,omitempty"`
	Legal    bool   `json:"model_legal"`
}

// RecInfo is what the model remembers about an accepted record.
type RecInfo struct {
	Id     string
	Kind   string
	Intent Intent
	// snapshot of the model BEFORE the record (used by recipient checks)
	MembersBefore     []string
	OpenInvitesBefore []string
	Removed           []string
	Revoked           []string
	NewGen            *Gen
}

type World struct {
	Rng      *rand.Rand
	SpaceId  string
	Accounts []*Account
	ByName   map[string]*Account
	Owner    *Account
	Observer *Account // never a member; its validating list decides acceptance

	Root  *consensusproto.RawRecordWithId
	Log   []*consensusproto.RawRecordWithId // raw log, root first
	Recs  []*RecInfo                        // parallel to Log
	Canon list.AclList

	Gens    []*Gen
	Invites []*Invite

	perm         map[string]Perm
	Hist         map[string][]PermEvent
	AdmitCause   map[string]string // how the account came to its present membership
	AdmitAt      map[string]int
	LostAt       map[string]int    // record index at which it last dropped to None (0 = never held one)
	LostCause    map[string]string // never-member | removed | demoted-to-none
	PendingJoin  map[string]string
	PendingLeave map[string]string
	ReAddedByAdd map[string]bool // removed and later re-admitted through AccountsAdd (observation O-1)

	Ops           []OpLog
	BuilderPanics map[string]int
	views         map[string]list.AclList
	viewErrs      map[string]error
	inviteSeq     int
}

type rngReader struct{ r *rand.Rand }

func (r rngReader) Read(p []byte) (int, error) {
	for i := range p {
		p[i] = byte(r.r.Intn(256))
	}
	return len(p), nil
}

// NewKeys derives an account key pair from the case PRNG.
func NewKeys(rng *rand.Rand) *accountdata.AccountKeys {
	mk := func() crypto.PrivKey {
		seed := make([]byte, ed25519.SeedSize)
		rngReader{rng}.Read(seed)
		return crypto.NewEd25519PrivKey(ed25519.NewKeyFromSeed(seed))
	}
	return accountdata.New(mk(), mk())
}

func newAccount(rng *rand.Rand, name string) *Account {
	k := NewKeys(rng)
	pub := k.SignKey.GetPublic()
	idp, _ := pub.Marshall()
	return &Account{Name: name, Keys: k, Pub: pub, IdProto: idp}
}

func (w *World) newSymKey() (crypto.SymKey, []byte) {
	raw := make([]byte, 32)
	rngReader{w.Rng}.Read(raw)
	k, err := crypto.UnmarshallAESKey(raw)
	if err != nil {
		panic(err)
	}
	return k, raw
}

func (w *World) newMetaKey() crypto.PrivKey {
	seed := make([]byte, ed25519.SeedSize)
	rngReader{w.Rng}.Read(seed)
	return crypto.NewEd25519PrivKey(ed25519.NewKeyFromSeed(seed))
}

// NonValidating is a harness verifier: no acceptor check, content validation
// off — a list built with it takes the keep-identity partial decode path that
// production clients use.
type NonValidating struct{}

func (NonValidating) VerifyAcceptor(rec *consensusproto.RawRecord) error { return nil }
func (NonValidating) ShouldValidate() bool                               { return false }

// Wrap attaches the CID to a raw record.
func Wrap(raw *consensusproto.RawRecord) (*consensusproto.RawRecordWithId, error) {
	payload, err := raw.MarshalVT()
	if err != nil {
		return nil, err
	}
	id, err := cidutil.NewCidFromBytes(payload)
	if err != nil {
		return nil, err
	}
	return &consensusproto.RawRecordWithId{Payload: payload, Id: id}, nil
}

// New creates a shareable space ACL (root with an explicit read key) owned by
// "owner" plus the named further accounts (none of them a member yet).
func New(rng *rand.Rand, names []string) (*World, error) {
	w := &World{Rng: rng, ByName: map[string]*Account{}, perm: map[string]Perm{}, Hist: map[string][]PermEvent{},
		AdmitCause: map[string]string{}, AdmitAt: map[string]int{}, LostAt: map[string]int{}, LostCause: map[string]string{},
		PendingJoin: map[string]string{}, PendingLeave: map[string]string{}, ReAddedByAdd: map[string]bool{},
		BuilderPanics: map[string]int{}, views: map[string]list.AclList{}, viewErrs: map[string]error{}}
	w.SpaceId = fmt.Sprintf("space-%08x", rng.Uint32())
	w.Owner = newAccount(rng, "owner")
	w.Accounts = append(w.Accounts, w.Owner)
	for _, n := range names {
		w.Accounts = append(w.Accounts, newAccount(rng, n))
	}
	for _, a := range w.Accounts {
		w.ByName[a.Name] = a
		w.perm[a.Name] = None
		w.LostCause[a.Name] = "never-member"
	}
	w.Observer = newAccount(rng, "observer")
	key, raw := w.newSymKey()
	builder := list.NewAclRecordBuilder("", crypto.NewKeyStorage(), w.Owner.Keys, recordverifier.NewValidateFull())
	root, err := builder.BuildRoot(list.RootContent{
		PrivKey:   w.Owner.Keys.SignKey,
		MasterKey: w.newMetaKey(),
		SpaceId:   w.SpaceId,
		Change:    list.ReadKeyChangePayload{MetadataKey: w.newMetaKey(), ReadKey: key},
		Metadata:  []byte("owner"),
	})
	if err != nil {
		return nil, fmt.Errorf("build root: %w", err)
	}
	w.Root = root
	w.Log = []*consensusproto.RawRecordWithId{root}
	g := &Gen{RecordId: root.Id, RecIdx: 0, Key: key, Raw: raw, Kind: "root"}
	w.Gens = []*Gen{g}
	w.Recs = []*RecInfo{{Id: root.Id, Kind: "root", NewGen: g}}
	w.setPerm("owner", Owner, 0, "root")
	st, err := list.NewInMemoryStorage(root.Id, []*consensusproto.RawRecordWithId{root})
	if err != nil {
		return nil, err
	}
	w.Canon, err = list.BuildAclListWithIdentity(w.Observer.Keys, st, recordverifier.NewValidateFull())
	if err != nil {
		return nil, fmt.Errorf("build canonical list: %w", err)
	}
	return w, nil
}

func (w *World) setPerm(name string, p Perm, idx int, cause string) {
	old := w.perm[name]
	w.perm[name] = p
	w.Hist[name] = append(w.Hist[name], PermEvent{RecIdx: idx, Perm: p, Cause: cause})
	if old == None && p != None {
		w.AdmitCause[name] = cause
		w.AdmitAt[name] = idx
	}
	if old != None && p == None {
		w.LostAt[name] = idx
		if cause == "perm_change" {
			w.LostCause[name] = "demoted-to-none"
		} else {
			w.LostCause[name] = "removed"
		}
	}
}

// Perm is the model's current permission of the account.
func (w *World) Perm(name string) Perm { return w.perm[name] }

// PermAt is the model's permission of the account after record idx.
func (w *World) PermAt(name string, idx int) Perm {
	p := None
	for _, e := range w.Hist[name] {
		if e.RecIdx <= idx {
			p = e.Perm
		}
	}
	return p
}

func (w *World) Head() int { return len(w.Log) - 1 }

func (w *World) Members() []string {
	var out []string
	for _, a := range w.Accounts {
		if w.perm[a.Name] != None {
			out = append(out, a.Name)
		}
	}
	return out
}

func (w *World) LiveOpenInvites() []string {
	var out []string
	for _, iv := range w.Invites {
		if iv.Live && iv.Open {
			out = append(out, iv.Name)
		}
	}
	return out
}

func (w *World) InviteByName(n string) *Invite {
	for _, iv := range w.Invites {
		if iv.Name == n {
			return iv
		}
	}
	return nil
}

func (w *World) CurrentGen() *Gen { return w.Gens[len(w.Gens)-1] }

// GenAt returns the generation that is current after record idx.
func (w *World) GenAt(idx int) *Gen {
	var g *Gen
	for _, x := range w.Gens {
		if x.RecIdx <= idx {
			g = x
		}
	}
	return g
}

// storageFor builds an in-memory ACL storage holding the first n records of the log.
func (w *World) storageFor(n int) (list.Storage, error) {
	cp := make([]*consensusproto.RawRecordWithId, n)
	for i := 0; i < n; i++ {
		r := w.Log[i]
		cp[i] = &consensusproto.RawRecordWithId{Payload: append([]byte(nil), r.Payload...), Id: r.Id}
	}
	return list.NewInMemoryStorage(w.Root.Id, cp)
}

// FreshView builds a private view of the first n records of the raw log for
// the given key only. validating=false takes the keep-identity decode path.
func (w *World) FreshView(keys *accountdata.AccountKeys, n int, validating bool) (l list.AclList, err error) {
	defer func() {
		if r := recover(); r != nil {
			err = fmt.Errorf("panic while building view: %v", r)
		}
	}()
	st, err := w.storageFor(n)
	if err != nil {
		return nil, err
	}
	var v recordverifier.AcceptorVerifier = recordverifier.NewValidateFull()
	if !validating {
		v = NonValidating{}
	}
	return list.BuildAclListWithIdentity(keys, st, v)
}

// View returns the (cached) fresh validating view of the account at the
// current head; builder calls of that account are made on it.
func (w *World) View(name string) (list.AclList, error) {
	key := fmt.Sprintf("%s@%d", name, len(w.Log))
	if v, ok := w.views[key]; ok {
		return v, nil
	}
	if e, ok := w.viewErrs[key]; ok {
		return nil, e
	}
	a := w.ByName[name]
	if a == nil {
		return nil, fmt.Errorf("no account %s", name)
	}
	v, err := w.FreshView(a.Keys, len(w.Log), true)
	if err != nil {
		w.viewErrs[key] = err
		return nil, err
	}
	// drop views of older heads
	for k := range w.views {
		if !strings.HasSuffix(k, fmt.Sprintf("@%d", len(w.Log))) {
			delete(w.views, k)
		}
	}
	w.views[key] = v
	return v, nil
}

func (w *World) isManager(name string) bool { return CanManage(w.perm[name]) }

// Legal is the model's guess whether the real validator accepts the intent
// (used only to guide generation and to label attempts).
func (w *World) Legal(in Intent) bool {
	ap := w.perm[in.Actor]
	tp := w.perm[in.Target]
	switch in.Kind {
	case "invite_req":
		return CanManage(ap)
	case "invite_open":
		return CanManage(ap) && (in.Perm == Reader || in.Perm == Writer || (in.Perm == Admin && ap == Owner))
	case "request_join":
		iv := w.InviteByName(in.Invite)
		_, pend := w.PendingJoin[in.Actor]
		_, pendL := w.PendingLeave[in.Actor]
		return ap == None && iv != nil && iv.Live && !iv.Open && !pend && !pendL
	case "accept":
		_, ok := w.PendingJoin[in.Target]
		// (approving the stale request of an account that became a member meanwhile is refused since fix 4f5c38e)
		return CanManage(ap) && ok && tp == None && in.Perm != Owner && in.Perm != None && (in.Perm != Admin || ap == Owner)
	case "decline":
		_, ok := w.PendingJoin[in.Target]
		return CanManage(ap) && ok
	case "cancel":
		_, ok := w.PendingJoin[in.Actor]
		_, ok2 := w.PendingLeave[in.Actor]
		return ok || ok2
	case "invite_join":
		iv := w.InviteByName(in.Invite)
		return ap == None && iv != nil && iv.Live && iv.Open
	case "add":
		return CanManage(ap) && tp == None && in.Target != in.Actor && in.Perm != Owner && in.Perm != None && (in.Perm != Admin || ap == Owner)
	case "remove":
		return CanManage(ap) && tp != None && tp != Owner && in.Target != in.Actor && (tp != Admin || ap == Owner)
	case "batch_remove_add":
		return CanManage(ap) && tp != None && tp != Owner && in.Target != in.Actor && (tp != Admin || ap == Owner) &&
			w.perm[in.Target2] == None && in.Target2 != in.Actor && in.Perm != Owner && in.Perm != None && (in.Perm != Admin || ap == Owner)
	case "leave_request":
		_, pend := w.PendingJoin[in.Actor]
		_, pendL := w.PendingLeave[in.Actor]
		return ap != None && ap != Owner && ap != Guest && !pend && !pendL
	case "revoke", "revoke_rotate":
		iv := w.InviteByName(in.Invite)
		return CanManage(ap) && iv != nil && iv.Live
	case "rotate":
		return CanManage(ap)
	case "perm_change":
		// as the code stands (F-C05-1) a target without permissions is accepted as long as it has an account entry
		if !CanManage(ap) || in.Target == in.Actor || in.Perm == Owner {
			return false
		}
		if len(w.Hist[in.Target]) == 0 && w.PendingJoin[in.Target] == "" && !w.everRequested(in.Target) {
			return false
		}
		if tp == Guest || tp == Owner {
			return false
		}
		if tp == Admin && ap != Owner {
			return false
		}
		if in.Perm == Admin && ap != Owner {
			return false
		}
		if in.Perm == Guest && tp != Reader {
			return false
		}
		return true
	case "perm_change_twice":
		// one record changing the same member twice (writer <-> reader); the last value counts
		if !CanManage(ap) || in.Target == in.Actor {
			return false
		}
		if tp != Reader && tp != Writer {
			return false
		}
		return (in.Perm == Reader || in.Perm == Writer) && (in.Perm2 == Reader || in.Perm2 == Writer)
	}
	return false
}

func (w *World) everRequested(name string) bool {
	for _, r := range w.Recs {
		if r.Kind == "request_join" && r.Intent.Actor == name {
			return true
		}
	}
	return false
}

// Do attempts one operation through the real builder of the actor's own fresh
// view and offers the result to the canonical validating list.
func (w *World) Do(in Intent) (accepted bool) {
	legal := w.Legal(in)
	ol := OpLog{Op: in.String(), Legal: legal}
	defer func() { w.Ops = append(w.Ops, ol) }()
	view, err := w.View(in.Actor)
	if err != nil {
		ol.Err = "actor view: " + err.Error()
		return false
	}
	var (
		raw    *consensusproto.RawRecord
		newGen *Gen
		invKey crypto.PrivKey
	)
	mkGen := func(kind string) list.ReadKeyChangePayload {
		k, r := w.newSymKey()
		newGen = &Gen{Key: k, Raw: r, Kind: kind}
		return list.ReadKeyChangePayload{MetadataKey: w.newMetaKey(), ReadKey: k}
	}
	func() {
		defer func() {
			if r := recover(); r != nil {
				err = fmt.Errorf("builder panic: %v", r)
				w.BuilderPanics[in.Kind]++
			}
		}()
		b := view.RecordBuilder()
		switch in.Kind {
		case "invite_req":
			var res list.InviteResult
			res, err = b.BuildInvite()
			raw, invKey = res.InviteRec, res.InviteKey
		case "invite_open":
			var res list.InviteResult
			res, err = b.BuildInviteAnyone(in.Perm)
			raw, invKey = res.InviteRec, res.InviteKey
		case "request_join":
			iv := w.InviteByName(in.Invite)
			if iv == nil {
				err = fmt.Errorf("no invite")
				return
			}
			raw, err = b.BuildRequestJoin(list.RequestJoinPayload{InviteKey: iv.Key, Metadata: []byte(in.Actor)})
		case "accept":
			raw, err = b.BuildRequestAccept(list.RequestAcceptPayload{RequestRecordId: w.PendingJoin[in.Target], Permissions: in.Perm})
		case "decline":
			raw, err = b.BuildRequestDecline(w.PendingJoin[in.Target])
		case "cancel":
			id := w.PendingJoin[in.Actor]
			if id == "" {
				id = w.PendingLeave[in.Actor]
			}
			raw, err = b.BuildRequestCancel(id)
		case "invite_join":
			iv := w.InviteByName(in.Invite)
			if iv == nil {
				err = fmt.Errorf("no invite")
				return
			}
			raw, err = b.BuildInviteJoinWithoutApprove(list.InviteJoinPayload{InviteKey: iv.Key, Permissions: in.Perm, Metadata: []byte(in.Actor)})
		case "add":
			raw, err = b.BuildAccountsAdd(list.AccountsAddPayload{Additions: []list.AccountAdd{{Identity: w.ByName[in.Target].Pub, Permissions: in.Perm, Metadata: []byte(in.Target)}}})
		case "remove":
			raw, err = b.BuildAccountRemove(list.AccountRemovePayload{Identities: []crypto.PubKey{w.ByName[in.Target].Pub}, Change: mkGen("remove")})
		case "batch_remove_add":
			var res list.BatchResult
			res, err = b.BuildBatchRequest(list.BatchRequestPayload{
				Removals:  list.AccountRemovePayload{Identities: []crypto.PubKey{w.ByName[in.Target].Pub}, Change: mkGen("batch_remove_add")},
				Additions: []list.AccountAdd{{Identity: w.ByName[in.Target2].Pub, Permissions: in.Perm, Metadata: []byte(in.Target2)}},
			})
			raw = res.Rec
		case "leave_request":
			raw, err = b.BuildRequestRemove()
		case "revoke":
			iv := w.InviteByName(in.Invite)
			if iv == nil {
				err = fmt.Errorf("no invite")
				return
			}
			raw, err = b.BuildInviteRevoke(iv.RecordId)
		case "revoke_rotate":
			iv := w.InviteByName(in.Invite)
			if iv == nil {
				err = fmt.Errorf("no invite")
				return
			}
			p := mkGen("revoke_rotate")
			var res list.BatchResult
			res, err = b.BuildBatchRequest(list.BatchRequestPayload{InviteRevokes: []string{iv.RecordId}, ReadKeyChange: &p})
			raw = res.Rec
		case "rotate":
			raw, err = b.BuildReadKeyChange(mkGen("rotate"))
		case "perm_change":
			raw, err = b.BuildPermissionChange(list.PermissionChangePayload{Identity: w.ByName[in.Target].Pub, Permissions: in.Perm})
		case "perm_change_twice":
			raw, err = b.BuildPermissionChanges(list.PermissionChangesPayload{Changes: []list.PermissionChangePayload{
				{Identity: w.ByName[in.Target].Pub, Permissions: in.Perm}, {Identity: w.ByName[in.Target].Pub, Permissions: in.Perm2}}})
		default:
			err = fmt.Errorf("unknown op %s", in.Kind)
		}
	}()
	if err != nil || raw == nil {
		if err == nil {
			err = fmt.Errorf("builder returned nothing")
		}
		ol.Err = "build: " + err.Error()
		return false
	}
	rec, err := Wrap(raw)
	if err != nil {
		ol.Err = "wrap: " + err.Error()
		return false
	}
	if err = w.Canon.AddRawRecord(rec); err != nil {
		ol.Err = "canon: " + err.Error()
		return false
	}
	idx := len(w.Log)
	w.Log = append(w.Log, rec)
	info := &RecInfo{Id: rec.Id, Kind: in.Kind, Intent: in, MembersBefore: w.Members(), OpenInvitesBefore: w.LiveOpenInvites()}
	w.Recs = append(w.Recs, info)
	ol.Accepted, ol.RecIdx = true, idx
	// ---- model effects
	switch in.Kind {
	case "invite_req", "invite_open":
		w.inviteSeq++
		pub := invKey.GetPublic()
		idp, _ := pub.Marshall()
		iv := &Invite{Name: fmt.Sprintf("inv%d", w.inviteSeq), Key: invKey, Pub: pub, IdProto: idp, RecordId: rec.Id, RecIdx: idx,
			Open: in.Kind == "invite_open", Perm: in.Perm, Live: true, RevokedAt: -1}
		w.Invites = append(w.Invites, iv)
	case "request_join":
		w.PendingJoin[in.Actor] = rec.Id
	case "accept":
		delete(w.PendingJoin, in.Target)
		w.setPerm(in.Target, in.Perm, idx, "request_accept")
	case "decline":
		delete(w.PendingJoin, in.Target)
	case "cancel":
		if _, ok := w.PendingJoin[in.Actor]; ok {
			delete(w.PendingJoin, in.Actor)
		} else {
			delete(w.PendingLeave, in.Actor)
		}
	case "invite_join":
		p := in.Perm
		if p == None {
			p = w.InviteByName(in.Invite).Perm
		}
		delete(w.PendingJoin, in.Actor)
		w.setPerm(in.Actor, p, idx, "invite_join")
	case "add":
		if len(w.Hist[in.Target]) > 0 {
			w.ReAddedByAdd[in.Target] = true
		}
		w.setPerm(in.Target, in.Perm, idx, "accounts_add")
	case "remove", "batch_remove_add":
		info.Removed = []string{in.Target}
		delete(w.PendingJoin, in.Target)
		delete(w.PendingLeave, in.Target)
		w.setPerm(in.Target, None, idx, "remove")
		if in.Kind == "batch_remove_add" {
			if len(w.Hist[in.Target2]) > 0 {
				w.ReAddedByAdd[in.Target2] = true
			}
			w.setPerm(in.Target2, in.Perm, idx, "accounts_add")
		}
	case "leave_request":
		w.PendingLeave[in.Actor] = rec.Id
	case "revoke", "revoke_rotate":
		iv := w.InviteByName(in.Invite)
		iv.Live, iv.RevokedAt = false, idx
		info.Revoked = []string{iv.Name}
	case "perm_change":
		cause := "perm_change"
		if w.perm[in.Target] == None && in.Perm != None {
			cause = "permission-change-on-none-account"
		}
		w.setPerm(in.Target, in.Perm, idx, cause)
	case "perm_change_twice":
		w.setPerm(in.Target, in.Perm2, idx, "perm_change")
	}
	if newGen != nil {
		newGen.RecordId, newGen.RecIdx = rec.Id, idx
		w.Gens = append(w.Gens, newGen)
		info.NewGen = newGen
	}
	return true
}

// CheckModel compares the model's current permissions with the canonical
// list's state (sanity only). Returns a description of the first mismatch.
func (w *World) CheckModel() string {
	st := w.Canon.AclState()
	for _, a := range w.Accounts {
		if got := st.Permissions(a.Pub); got != w.perm[a.Name] {
			return fmt.Sprintf("%s: model %s, list %s", a.Name, PermName(w.perm[a.Name]), PermName(got))
		}
	}
	return ""
}

var perms3 = []Perm{Reader, Writer, Writer, Admin}

// Candidates enumerates intents the model considers legal right now.
func (w *World) Candidates() []Intent {
	var out []Intent
	var managers, nonMembers, members []string
	for _, a := range w.Accounts {
		p := w.perm[a.Name]
		if CanManage(p) {
			managers = append(managers, a.Name)
		}
		if p == None {
			nonMembers = append(nonMembers, a.Name)
		} else {
			members = append(members, a.Name)
		}
	}
	add := func(in Intent) {
		if w.Legal(in) {
			out = append(out, in)
		}
	}
	for _, m := range managers {
		add(Intent{Kind: "invite_req", Actor: m})
		for _, p := range []Perm{Reader, Writer, Admin} {
			add(Intent{Kind: "invite_open", Actor: m, Perm: p})
		}
		add(Intent{Kind: "rotate", Actor: m})
		for _, iv := range w.Invites {
			add(Intent{Kind: "revoke", Actor: m, Invite: iv.Name})
			add(Intent{Kind: "revoke_rotate", Actor: m, Invite: iv.Name})
		}
		for _, a := range w.Accounts {
			for _, p := range []Perm{Reader, Writer, Admin, Guest} {
				add(Intent{Kind: "add", Actor: m, Target: a.Name, Perm: p})
				add(Intent{Kind: "accept", Actor: m, Target: a.Name, Perm: p})
			}
			add(Intent{Kind: "decline", Actor: m, Target: a.Name})
			add(Intent{Kind: "remove", Actor: m, Target: a.Name})
			for _, p := range []Perm{Reader, Writer, Admin, None} {
				if p != w.perm[a.Name] {
					add(Intent{Kind: "perm_change", Actor: m, Target: a.Name, Perm: p})
				}
			}
			for _, b := range nonMembers {
				add(Intent{Kind: "batch_remove_add", Actor: m, Target: a.Name, Target2: b, Perm: Writer})
			}
		}
	}
	for _, n := range nonMembers {
		for _, iv := range w.Invites {
			add(Intent{Kind: "request_join", Actor: n, Invite: iv.Name})
			add(Intent{Kind: "invite_join", Actor: n, Invite: iv.Name})
		}
		add(Intent{Kind: "cancel", Actor: n})
	}
	for _, m := range members {
		add(Intent{Kind: "leave_request", Actor: m})
		add(Intent{Kind: "cancel", Actor: m})
	}
	return out
}

// Weights steer the random walk towards the scenarios the properties quantify over.
var Weights = map[string]int{
	"invite_req": 6, "invite_open": 8, "request_join": 14, "accept": 16, "decline": 4, "cancel": 3, "invite_join": 14,
	"add": 12, "remove": 16, "batch_remove_add": 4, "leave_request": 8, "revoke": 4, "revoke_rotate": 8, "rotate": 8, "perm_change": 10,
}

// RandomIntent draws a model-legal intent (kind first, by weight, then a
// uniformly random instance of that kind). ok=false if nothing is possible.
func (w *World) RandomIntent(exclude map[string]bool) (Intent, bool) {
	cands := w.Candidates()
	byKind := map[string][]Intent{}
	for _, c := range cands {
		if exclude[c.Kind] {
			continue
		}
		if c.Kind == "perm_change" && c.Perm == None && w.Rng.Intn(4) != 0 {
			continue // demotion to none: keep it rare
		}
		byKind[c.Kind] = append(byKind[c.Kind], c)
	}
	if len(byKind) == 0 {
		return Intent{}, false
	}
	kinds := make([]string, 0, len(byKind))
	for k := range byKind {
		kinds = append(kinds, k)
	}
	sort.Strings(kinds)
	total := 0
	for _, k := range kinds {
		total += Weights[k]
	}
	x := w.Rng.Intn(total)
	for _, k := range kinds {
		x -= Weights[k]
		if x < 0 {
			l := byKind[k]
			// leave requests pending → prefer removing those accounts (approval of a leave by removal)
			if k == "remove" && len(w.PendingLeave) > 0 && w.Rng.Intn(3) != 0 {
				var pl []Intent
				for _, c := range l {
					if _, ok := w.PendingLeave[c.Target]; ok {
						pl = append(pl, c)
					}
				}
				if len(pl) > 0 {
					l = pl
				}
			}
			return l[w.Rng.Intn(len(l))], true
		}
	}
	return Intent{}, false
}

// IllegalIntent draws an attempt the model expects to be refused.
func (w *World) IllegalIntent() Intent {
	kinds := []string{"add", "remove", "rotate", "perm_change", "invite_open", "accept", "revoke_rotate", "invite_join", "request_join", "leave_request"}
	for try := 0; try < 30; try++ {
		in := Intent{Kind: kinds[w.Rng.Intn(len(kinds))], Actor: w.Accounts[w.Rng.Intn(len(w.Accounts))].Name,
			Target: w.Accounts[w.Rng.Intn(len(w.Accounts))].Name, Perm: []Perm{Reader, Writer, Admin, Owner}[w.Rng.Intn(4)]}
		if len(w.Invites) > 0 {
			in.Invite = w.Invites[w.Rng.Intn(len(w.Invites))].Name
		}
		if !w.Legal(in) {
			return in
		}
	}
	return Intent{Kind: "rotate", Actor: w.Accounts[len(w.Accounts)-1].Name}
}

// OpsWitness returns the attempted operations for a violation witness.
func (w *World) OpsWitness() []OpLog { return w.Ops }

// AcceptedOps lists only the accepted operations (the minimal history).
func (w *World) AcceptedOps() []string {
	var out []string
	for _, o := range w.Ops {
		if o.Accepted {
			out = append(out, o.Op)
		}
	}
	return out
}
