package aclhist

import (
	"context"
	"fmt"
	"os"
	"path/filepath"
	"sync/atomic"

	anystore "github.com/anyproto/any-store"

	"github.com/anyproto/any-sync/commonspace/headsync/headstorage"
	"github.com/anyproto/any-sync/commonspace/object/acl/aclrecordproto"
	"github.com/anyproto/any-sync/commonspace/object/tree/objecttree"
	"github.com/anyproto/any-sync/commonspace/object/tree/treechangeproto"
	"github.com/anyproto/any-sync/consensus/consensusproto"
)

// Parsed is a fully decoded raw ACL record (generated decoder, no filtering).
type Parsed struct {
	Root     *aclrecordproto.AclRoot
	Data     *aclrecordproto.AclData
	Identity []byte
}

// ParseRaw fully decodes a raw record of the log (index 0 is the root).
func ParseRaw(rec *consensusproto.RawRecordWithId, isRoot bool) (*Parsed, error) {
	raw := &consensusproto.RawRecord{}
	if err := raw.UnmarshalVT(rec.Payload); err != nil {
		return nil, err
	}
	if isRoot {
		root := &aclrecordproto.AclRoot{}
		if err := root.UnmarshalVT(raw.Payload); err != nil {
			return nil, err
		}
		return &Parsed{Root: root, Identity: root.Identity}, nil
	}
	r := &consensusproto.Record{}
	if err := r.UnmarshalVT(raw.Payload); err != nil {
		return nil, err
	}
	d := &aclrecordproto.AclData{}
	if err := d.UnmarshalVT(r.Data); err != nil {
		return nil, err
	}
	return &Parsed{Data: d, Identity: r.Identity}, nil
}

// ReadKeyChanges returns every read key change carried by the record
// (stand-alone, inside an account removal, inside a batch).
func (p *Parsed) ReadKeyChanges() []*aclrecordproto.AclReadKeyChange {
	var out []*aclrecordproto.AclReadKeyChange
	if p.Data == nil {
		return nil
	}
	for _, c := range p.Data.AclContent {
		if rk := c.GetReadKeyChange(); rk != nil {
			out = append(out, rk)
		}
		if rm := c.GetAccountRemove(); rm != nil && rm.ReadKeyChange != nil {
			out = append(out, rm.ReadKeyChange)
		}
	}
	return out
}

// TreeDB is a real any-store database holding tree storages.
type TreeDB struct {
	Dir   string
	DB    anystore.DB
	Heads headstorage.HeadStorage
	seq   atomic.Uint64
}

func OpenTreeDB(dir string) (*TreeDB, error) {
	if err := os.MkdirAll(dir, 0o755); err != nil {
		return nil, err
	}
	db, err := anystore.Open(context.Background(), filepath.Join(dir, "store.db"), nil)
	if err != nil {
		return nil, err
	}
	hs, err := headstorage.New(context.Background(), db)
	if err != nil {
		db.Close()
		return nil, err
	}
	return &TreeDB{Dir: dir, DB: db, Heads: hs}, nil
}

func (t *TreeDB) Close() { t.DB.Close() }

type addSeqSetter interface{ SetAddSeq(seq *atomic.Uint64) }

// CreateTreeStorage creates the real any-store backed storage for the root.
func (t *TreeDB) CreateTreeStorage(root *treechangeproto.RawTreeChangeWithId) (objecttree.Storage, error) {
	st, err := objecttree.CreateStorage(context.Background(), root, t.Heads, t.DB)
	if err != nil {
		return nil, err
	}
	s, ok := st.(addSeqSetter)
	if !ok {
		return nil, fmt.Errorf("storage has no SetAddSeq")
	}
	s.SetAddSeq(&t.seq)
	return st, nil
}

// OpenTreeStorage reopens an existing tree storage.
func (t *TreeDB) OpenTreeStorage(id string) (objecttree.Storage, error) {
	st, err := objecttree.NewStorage(context.Background(), id, t.Heads, t.DB)
	if err != nil {
		return nil, err
	}
	if s, ok := st.(addSeqSetter); ok {
		s.SetAddSeq(&t.seq)
	}
	return st, nil
}

// StoredChanges returns the stored changes of the tree in storage order.
func StoredChanges(st objecttree.Storage) ([]objecttree.StorageChange, error) {
	var out []objecttree.StorageChange
	err := st.GetAfterOrder(context.Background(), "", func(ctx context.Context, ch objecttree.StorageChange) (bool, error) {
		ch.RawChange = append([]byte(nil), ch.RawChange...)
		out = append(out, ch)
		return true, nil
	})
	return out, err
}

// IterIds returns the id sequence IterateRoot presents.
func IterIds(t objecttree.ObjectTree) ([]string, error) {
	var ids []string
	err := t.IterateRoot(nil, func(c *objecttree.Change) bool {
		ids = append(ids, c.Id)
		return true
	})
	return ids, err
}
