// Package netsim runs real sync trees (any-store database, head storage,
// object-tree storage, ACL list, synctree.SyncTree) as replicas of one object
// connected by a simulated, scheduler-controlled lossy network. The only fake
// is the SyncClient: messages are marshalled exactly like the transport does
// and put into an in-flight multiset; delivering one decodes it and calls the
// replica's real handler. See DESIGN.md 2.1.
package netsim

import (
	"context"
	"errors"
	"fmt"
	"math/rand"
	"os"
	"path/filepath"
	"sort"
	"strings"
	"time"

	anystore "github.com/anyproto/any-store"
	"google.golang.org/protobuf/proto"
	"storj.io/drpc"

	"github.com/anyproto/any-sync/commonspace/object/accountdata"
	"github.com/anyproto/any-sync/commonspace/object/acl/list"
	"github.com/anyproto/any-sync/commonspace/object/acl/recordverifier"
	"github.com/anyproto/any-sync/commonspace/object/tree/objecttree"
	"github.com/anyproto/any-sync/commonspace/object/tree/synctree"
	"github.com/anyproto/any-sync/commonspace/object/tree/synctree/response"
	"github.com/anyproto/any-sync/commonspace/object/tree/treechangeproto"
	"github.com/anyproto/any-sync/commonspace/object/tree/treestorage"
	"github.com/anyproto/any-sync/commonspace/spacepayloads"
	"github.com/anyproto/any-sync/commonspace/spacestorage"
	"github.com/anyproto/any-sync/commonspace/spacesyncproto"
	"github.com/anyproto/any-sync/commonspace/sync/objectsync/objectmessages"
	"github.com/anyproto/any-sync/commonspace/sync/syncdeps"
	"github.com/anyproto/any-sync/commonspace/syncstatus"
	"github.com/anyproto/any-sync/consensus/consensusproto"
	"github.com/anyproto/any-sync/net/peer"
	"github.com/anyproto/any-sync/util/cidutil"
	"github.com/anyproto/any-sync/util/crypto"
)

var ctx = context.Background()

// Kind of in-flight message.
const (
	KHeadUpdate = "head_update"
	KRequest    = "request"
	KResponse   = "response_stream"
)

// Msg is one in-flight message (marshalled bytes).
type Msg struct {
	Id      int
	Kind    string
	From    int
	To      int
	Payload []byte   // head update / request: marshalled ObjectSyncMessage
	Batches [][]byte // response stream: marshalled ObjectSyncMessage per batch, in stream order
	// what the sender advertised (parsed back from the bytes at send time)
	AdvHeads []string
	AdvPath  []string
	NChanges int
	Born     int // step at which it was sent
}

// Event is one recorded step of the simulation.
type Event struct {
	Step   int    `json:"step"`
	Kind   string `json:"kind"`
	Actor  int    `json:"actor"`
	Msg    int    `json:"msg,omitempty"`
	Detail string `json:"detail,omitempty"`
}

// Config of one simulated space/tree.
type Config struct {
	Dir       string
	Replicas  int
	Rng       *rand.Rand
	Encrypted bool
	// LateJoiner: the last replica starts without the tree and fetches it.
	LateJoiner bool
	// BuildTree: defaults to objecttree.BuildObjectTree
	BuildTree objecttree.BuildObjectTreeFunc
	// WrapDB lets a property wrap the any-store database (fault injection).
	WrapDB func(replica int, db anystore.DB) anystore.DB
}

// Replica is one participant.
type Replica struct {
	Idx     int
	PeerId  string
	Keys    *accountdata.AccountKeys
	DBPath  string
	DB      anystore.DB
	Space   spacestorage.SpaceStorage
	Acl     list.AclList
	Tree    synctree.SyncTree
	HasTree bool
	// Detached replicas (clones, fresh receivers) discard their outgoing messages.
	Detached bool
	sim     *Sim
	client  *fakeClient
	// listener observations
	Updates  int
	Rebuilds int
	// head notifications from the sync tree (HeadNotifiable)
	LastNotified []string
}

// Sim is the simulation.
type Sim struct {
	Cfg       Config
	SpaceId   string
	TreeId    string
	Root      *treechangeproto.RawTreeChangeWithId
	Payload   spacestorage.SpaceStorageCreatePayload
	AclRecs   []*consensusproto.RawRecordWithId // records after the root, shared by all replicas
	Replicas  []*Replica
	InFlight  []*Msg
	Events    []Event
	Step      int
	nextMsg   int
	Created   map[string]int // change id -> author replica (successful local AddContent)
	Counters  map[string]int64
	Problems  []Problem // monitor findings
	Delivered int
	// OnSend lets a property observe every outgoing message at send time.
	OnSend func(s *Sim, m *Msg)
	// Reliable: drops/duplicates disabled (anti-entropy phase).
	clock int64
}

// Problem is a monitor finding (turned into a violation by the property).
type Problem struct {
	Key    string
	What   string
	Step   int
	Detail any
}

func (s *Sim) problem(key, what string, detail any) {
	s.Problems = append(s.Problems, Problem{Key: key, What: what, Step: s.Step, Detail: detail})
}

func (s *Sim) count(k string, n int64) { s.Counters[k] += n }

func (s *Sim) event(kind string, actor int, msg int, detail string) {
	s.Events = append(s.Events, Event{Step: s.Step, Kind: kind, Actor: actor, Msg: msg, Detail: detail})
}

// New creates the space, the shared ACL (owner + every replica as writer) and
// the replicas, and puts the tree root on every replica except a late joiner.
func New(cfg Config) (*Sim, error) {
	s := &Sim{Cfg: cfg, Created: map[string]int{}, Counters: map[string]int64{}}
	if cfg.BuildTree == nil {
		s.Cfg.BuildTree = objecttree.BuildObjectTree
	}
	var keys []*accountdata.AccountKeys
	for i := 0; i < cfg.Replicas; i++ {
		k, err := accountdata.NewRandom()
		if err != nil {
			return nil, err
		}
		keys = append(keys, k)
	}
	owner := keys[0]
	masterKey, _, err := crypto.GenerateRandomEd25519KeyPair()
	if err != nil {
		return nil, err
	}
	metaKey, _, err := crypto.GenerateRandomEd25519KeyPair()
	if err != nil {
		return nil, err
	}
	readKey := crypto.NewAES()
	payload, err := spacepayloads.StoragePayloadForSpaceCreate(spacepayloads.SpaceCreatePayload{
		SigningKey:     owner.SignKey,
		SpaceType:      "verif.space",
		ReplicationKey: 10,
		SpacePayload:   []byte("payload"),
		MasterKey:      masterKey,
		ReadKey:        readKey,
		MetadataKey:    metaKey,
		Metadata:       []byte("owner-meta"),
	})
	if err != nil {
		return nil, fmt.Errorf("space payload: %w", err)
	}
	s.Payload = payload
	s.SpaceId = payload.SpaceHeaderWithId.Id
	for i := 0; i < cfg.Replicas; i++ {
		r := &Replica{Idx: i, PeerId: fmt.Sprintf("peer-%d", i), Keys: keys[i], sim: s,
			DBPath: filepath.Join(cfg.Dir, fmt.Sprintf("replica-%d", i), "space.db")}
		os.MkdirAll(filepath.Dir(r.DBPath), 0o755)
		if err := r.open(true); err != nil {
			return nil, fmt.Errorf("open replica %d: %w", i, err)
		}
		s.Replicas = append(s.Replicas, r)
	}
	// the owner admits every other replica's account as a writer (one record)
	if cfg.Replicas > 1 {
		var adds []list.AccountAdd
		for i := 1; i < cfg.Replicas; i++ {
			adds = append(adds, list.AccountAdd{Identity: keys[i].SignKey.GetPublic(), Permissions: list.AclPermissionsWriter, Metadata: []byte(fmt.Sprintf("meta-%d", i))})
		}
		oa := s.Replicas[0].Acl
		oa.Lock()
		rec, err := oa.RecordBuilder().BuildAccountsAdd(list.AccountsAddPayload{Additions: adds})
		oa.Unlock()
		if err != nil {
			return nil, fmt.Errorf("build accounts add: %w", err)
		}
		raw, err := rec.MarshalVT()
		if err != nil {
			return nil, err
		}
		id, err := cidOf(raw)
		if err != nil {
			return nil, err
		}
		rw := &consensusproto.RawRecordWithId{Payload: raw, Id: id}
		s.AclRecs = append(s.AclRecs, rw)
		for _, r := range s.Replicas {
			r.Acl.Lock()
			err := r.Acl.AddRawRecord(rw)
			r.Acl.Unlock()
			if err != nil {
				return nil, fmt.Errorf("replica %d add acl record: %w", r.Idx, err)
			}
		}
	}
	// tree root, created by the owner
	root, err := objecttree.CreateObjectTreeRoot(objecttree.ObjectTreeCreatePayload{
		PrivKey:       owner.SignKey,
		ChangeType:    "verif.tree",
		ChangePayload: []byte("root-payload"),
		SpaceId:       s.SpaceId,
		IsEncrypted:   cfg.Encrypted,
		Seed:          []byte(fmt.Sprintf("seed-%d", cfg.Rng.Int63())),
		Timestamp:     1700000000,
	}, s.Replicas[0].Acl)
	if err != nil {
		return nil, fmt.Errorf("create root: %w", err)
	}
	s.Root = root
	s.TreeId = root.Id
	for _, r := range s.Replicas {
		if cfg.LateJoiner && r.Idx == cfg.Replicas-1 {
			continue
		}
		if err := r.putTree(); err != nil {
			return nil, fmt.Errorf("put tree on replica %d: %w", r.Idx, err)
		}
	}
	// the broadcasts caused by PutSyncTree carry only the root; drop them
	s.InFlight = nil
	return s, nil
}

func cidOf(b []byte) (string, error) { return cidutil.NewCidFromBytes(b) }

func (r *Replica) deps() synctree.BuildDeps {
	return synctree.BuildDeps{
		SpaceId:         r.sim.SpaceId,
		SyncClient:      r.client,
		HeadNotifiable:  r,
		Listener:        r,
		AclList:         r.Acl,
		SpaceStorage:    r.Space,
		OnClose:         func(id string) {},
		SyncStatus:      syncstatus.NewNoOpSyncStatus(),
		PeerGetter:      r,
		BuildObjectTree: r.sim.Cfg.BuildTree,
	}
}

// UpdateHeads implements synctree.HeadNotifiable.
func (r *Replica) UpdateHeads(id string, heads []string) { r.LastNotified = append([]string{}, heads...) }

// Update / Rebuild implement updatelistener.UpdateListener.
func (r *Replica) Update(tree objecttree.ObjectTree) error  { r.Updates++; return nil }
func (r *Replica) Rebuild(tree objecttree.ObjectTree) error { r.Rebuilds++; return nil }

// GetResponsiblePeers implements synctree.ResponsiblePeersGetter.
func (r *Replica) GetResponsiblePeers(ctx context.Context) ([]peer.Peer, error) {
	var out []peer.Peer
	for _, o := range r.sim.Replicas {
		if o.Idx != r.Idx && o.HasTree {
			out = append(out, fakePeer{id: o.PeerId})
		}
	}
	return out, nil
}

func (r *Replica) open(create bool) error {
	db, err := anystore.Open(ctx, r.DBPath, &anystore.Config{SQLiteConnectionOptions: map[string]string{"synchronous": "off"}})
	if err != nil {
		return err
	}
	if r.sim.Cfg.WrapDB != nil {
		db = r.sim.Cfg.WrapDB(r.Idx, db)
	}
	r.DB = db
	if create {
		r.Space, err = spacestorage.Create(ctx, db, r.sim.Payload)
	} else {
		r.Space, err = spacestorage.New(ctx, r.sim.SpaceId, db)
	}
	if err != nil {
		return err
	}
	aclSt, err := r.Space.AclStorage()
	if err != nil {
		return err
	}
	r.Acl, err = list.BuildAclListWithIdentity(r.Keys, aclSt, recordverifier.NewValidateFull())
	if err != nil {
		return err
	}
	r.client = &fakeClient{RequestFactory: synctree.NewRequestFactory(r.sim.SpaceId), r: r}
	return nil
}

// PutTree creates the tree from its root on this replica (PutSyncTree).
func (r *Replica) PutTree() error { return r.putTree() }

func (r *Replica) putTree() error {
	t, err := synctree.PutSyncTree(ctx, treestorage.TreeStorageCreatePayload{
		RootRawChange: r.sim.Root,
		Changes:       []*treechangeproto.RawTreeChangeWithId{r.sim.Root},
		Heads:         []string{r.sim.Root.Id},
	}, r.deps())
	if err != nil {
		return err
	}
	r.Tree = t
	r.HasTree = true
	return nil
}

// Restart closes the tree and the database and reopens everything from disk.
func (r *Replica) Restart() error {
	if r.HasTree {
		if err := r.Tree.Close(); err != nil {
			return fmt.Errorf("tree close: %w", err)
		}
	}
	if err := r.DB.Close(); err != nil {
		return fmt.Errorf("db close: %w", err)
	}
	if err := r.open(false); err != nil {
		return err
	}
	if r.HasTree {
		t, err := synctree.BuildSyncTreeOrGetRemote(ctx, r.sim.TreeId, r.deps())
		if err != nil {
			return fmt.Errorf("rebuild sync tree: %w", err)
		}
		r.Tree = t
	}
	return nil
}

// Join fetches the tree from replica `from` (BuildSyncTreeOrGetRemote with a
// peer id in the context: the empty-heads request path).
func (r *Replica) Join(from int) error {
	c := peer.CtxWithPeerId(ctx, r.sim.Replicas[from].PeerId)
	t, err := synctree.BuildSyncTreeOrGetRemote(c, r.sim.TreeId, r.deps())
	if err != nil {
		return err
	}
	r.Tree = t
	r.HasTree = true
	return nil
}

// Close releases the replica's database.
func (s *Sim) Close() {
	for _, r := range s.Replicas {
		if r.DB != nil {
			r.DB.Close()
		}
	}
}

// ---------------------------------------------------------------- client

type fakeClient struct {
	synctree.RequestFactory
	r *Replica
}

func (f *fakeClient) Broadcast(c context.Context, hu *objectmessages.HeadUpdate) error {
	s := f.r.sim
	if f.r.Detached {
		return nil
	}
	for _, o := range s.Replicas {
		if o.Idx == f.r.Idx {
			continue
		}
		cp := hu.Copy().(*objectmessages.HeadUpdate)
		cp.SetPeerId(o.PeerId)
		pm, err := cp.ProtoMessage()
		if err != nil {
			return err
		}
		b, err := pm.(*spacesyncproto.ObjectSyncMessage).MarshalVT()
		if err != nil {
			return err
		}
		m := &Msg{Kind: KHeadUpdate, From: f.r.Idx, To: o.Idx, Payload: b}
		if err := s.parseAdvertised(m); err != nil {
			return err
		}
		s.send(m)
	}
	return nil
}

func (f *fakeClient) QueueRequest(c context.Context, req syncdeps.Request) error {
	s := f.r.sim
	if f.r.Detached {
		return nil
	}
	to := s.byPeer(req.PeerId())
	if to < 0 {
		return fmt.Errorf("unknown peer %s", req.PeerId())
	}
	pm, err := req.Proto()
	if err != nil {
		return err
	}
	b, err := pm.(*spacesyncproto.ObjectSyncMessage).MarshalVT()
	if err != nil {
		return err
	}
	m := &Msg{Kind: KRequest, From: f.r.Idx, To: to, Payload: b}
	if err := s.parseAdvertised(m); err != nil {
		return err
	}
	s.send(m)
	return nil
}

// SendTreeRequest is the synchronous new-tree request of a joining replica.
func (f *fakeClient) SendTreeRequest(c context.Context, req syncdeps.Request, collector syncdeps.ResponseCollector) error {
	s := f.r.sim
	to := s.byPeer(req.PeerId())
	if to < 0 || !s.Replicas[to].HasTree {
		return fmt.Errorf("peer %s has no tree", req.PeerId())
	}
	pm, err := req.Proto()
	if err != nil {
		return err
	}
	b, err := pm.(*spacesyncproto.ObjectSyncMessage).MarshalVT()
	if err != nil {
		return err
	}
	m := &Msg{Kind: KRequest, From: f.r.Idx, To: to, Payload: b, Id: -1}
	batches, counter, err := s.serveRequest(s.Replicas[to], m)
	_ = counter // a new-tree request has no heads, so no counter-request is produced
	if err != nil {
		return err
	}
	s.count("join.batches", int64(len(batches)))
	for _, bb := range batches {
		osm := &spacesyncproto.ObjectSyncMessage{}
		if err := osm.UnmarshalVT(bb); err != nil {
			return err
		}
		resp := collector.NewResponse().(*response.Response)
		if err := resp.SetProtoMessage(osm); err != nil {
			return err
		}
		if err := collector.CollectResponse(c, req.PeerId(), req.ObjectId(), resp); err != nil {
			return err
		}
	}
	if len(batches) == 0 {
		return errors.New("empty response stream")
	}
	return nil
}

func (s *Sim) byPeer(id string) int {
	for _, r := range s.Replicas {
		if r.PeerId == id {
			return r.Idx
		}
	}
	return -1
}

func (s *Sim) send(m *Msg) {
	s.nextMsg++
	m.Id = s.nextMsg
	m.Born = s.Step
	s.InFlight = append(s.InFlight, m)
	s.count("sent."+m.Kind, 1)
	if s.OnSend != nil {
		s.OnSend(s, m)
	}
}

// parseAdvertised decodes what the marshalled message advertises.
func (s *Sim) parseAdvertised(m *Msg) error {
	osm := &spacesyncproto.ObjectSyncMessage{}
	if err := osm.UnmarshalVT(m.Payload); err != nil {
		return err
	}
	tm := &treechangeproto.TreeSyncMessage{}
	if err := tm.UnmarshalVT(osm.Payload); err != nil {
		return err
	}
	switch {
	case tm.GetContent().GetHeadUpdate() != nil:
		hu := tm.GetContent().GetHeadUpdate()
		m.AdvHeads, m.AdvPath, m.NChanges = hu.Heads, hu.SnapshotPath, len(hu.Changes)
	case tm.GetContent().GetFullSyncRequest() != nil:
		rq := tm.GetContent().GetFullSyncRequest()
		m.AdvHeads, m.AdvPath = rq.Heads, rq.SnapshotPath
	}
	return nil
}

// ---------------------------------------------------------------- delivery

type noopUpdater struct{}

func (noopUpdater) UpdateQueueSize(size uint64, msgType int, add bool) {}

// serveRequest runs the real HandleStreamRequest of `at` on the marshalled request.
func (s *Sim) serveRequest(at *Replica, m *Msg) (batches [][]byte, counter syncdeps.Request, err error) {
	osm := &spacesyncproto.ObjectSyncMessage{}
	if err = osm.UnmarshalVT(m.Payload); err != nil {
		return
	}
	rq := objectmessages.NewByteRequest(s.Replicas[m.From].PeerId, osm.SpaceId, osm.ObjectId, osm.Payload)
	c := peer.CtxWithPeerId(ctx, s.Replicas[m.From].PeerId)
	counter, err = at.Tree.HandleStreamRequest(c, rq, noopUpdater{}, func(resp proto.Message) error {
		b, merr := resp.(*spacesyncproto.ObjectSyncMessage).MarshalVT()
		if merr != nil {
			return merr
		}
		batches = append(batches, b)
		return nil
	})
	return
}

// Deliver hands in-flight message number idx (position in InFlight) to its
// recipient. prefix < 0 delivers a whole response stream, otherwise only the
// first `prefix` batches (the stream broke). keep leaves a copy in flight.
func (s *Sim) Deliver(pos int, prefix int, keep bool) {
	m := s.InFlight[pos]
	if !keep {
		s.InFlight = append(s.InFlight[:pos], s.InFlight[pos+1:]...)
	}
	to := s.Replicas[m.To]
	from := s.Replicas[m.From]
	s.Delivered++
	s.count("delivered."+m.Kind, 1)
	c := peer.CtxWithPeerId(ctx, from.PeerId)
	if !to.HasTree {
		// objectsync: a head update (or a request with heads) for an unknown
		// object makes the receiver fetch the tree from the sender
		if m.Kind == KHeadUpdate || (m.Kind == KRequest && len(m.AdvHeads) > 0) {
			if from.HasTree {
				err := to.Join(m.From)
				s.event("join-on-message", m.To, m.Id, errStr(err))
				s.count("join.on_message", 1)
				if err != nil {
					s.count("join.errors", 1)
				}
			}
		}
		return
	}
	switch m.Kind {
	case KHeadUpdate:
		osm := &spacesyncproto.ObjectSyncMessage{}
		if err := osm.UnmarshalVT(m.Payload); err != nil {
			s.problem("harness:decode", "cannot decode own head update", err.Error())
			return
		}
		hu := &objectmessages.HeadUpdate{}
		if err := hu.SetProtoMessage(osm); err != nil {
			s.problem("harness:decode", "cannot decode own head update", err.Error())
			return
		}
		req, err := to.Tree.HandleHeadUpdate(c, syncstatus.NewNoOpSyncStatus(), drpc.Message(hu))
		s.event("deliver-head-update", m.To, m.Id, fmt.Sprintf("from=%d changes=%d err=%s req=%v", m.From, m.NChanges, errStr(err), req != nil))
		if err != nil {
			s.count("head_update.errors", 1)
			s.count("head_update.err:"+shortErr(err), 1)
		}
		if req != nil {
			if qerr := to.client.QueueRequest(c, req); qerr != nil {
				s.problem("harness:queue", "cannot queue request", qerr.Error())
			}
		}
	case KRequest:
		batches, counter, err := s.serveRequest(to, m)
		s.event("serve-request", m.To, m.Id, fmt.Sprintf("from=%d batches=%d err=%s counter=%v", m.From, len(batches), errStr(err), counter != nil))
		if err != nil {
			s.count("request.errors", 1)
			s.count("request.err:"+shortErr(err), 1)
		}
		if counter != nil {
			if qerr := to.client.QueueRequest(c, counter); qerr != nil {
				s.problem("harness:queue", "cannot queue counter request", qerr.Error())
			}
		}
		if len(batches) > 0 {
			rm := &Msg{Kind: KResponse, From: m.To, To: m.From, Batches: batches}
			s.send(rm)
		}
	case KResponse:
		n := len(m.Batches)
		if prefix >= 0 && prefix < n {
			n = prefix
			s.count("response.truncated", 1)
		}
		for i := 0; i < n; i++ {
			osm := &spacesyncproto.ObjectSyncMessage{}
			if err := osm.UnmarshalVT(m.Batches[i]); err != nil {
				s.problem("harness:decode", "cannot decode own response", err.Error())
				return
			}
			collector := to.Tree.ResponseCollector()
			resp := collector.NewResponse().(*response.Response)
			if err := resp.SetProtoMessage(osm); err != nil {
				s.problem("harness:decode", "cannot decode own response", err.Error())
				return
			}
			err := collector.CollectResponse(c, from.PeerId, s.TreeId, resp)
			s.event("deliver-response-batch", m.To, m.Id, fmt.Sprintf("from=%d batch=%d/%d changes=%d err=%s", m.From, i+1, len(m.Batches), len(resp.Changes), errStr(err)))
			s.count("response.batches_applied", 1)
			if err != nil {
				s.count("response.errors", 1)
				s.count("response.err:"+shortErr(err), 1)
				break // the request manager stops reading the stream on the first error
			}
		}
	}
}

// Drop removes an in-flight message.
func (s *Sim) Drop(pos int) {
	m := s.InFlight[pos]
	s.InFlight = append(s.InFlight[:pos], s.InFlight[pos+1:]...)
	s.count("dropped."+m.Kind, 1)
	s.event("drop", m.To, m.Id, "")
}

// LocalAdd performs a local edit on replica i.
func (s *Sim) LocalAdd(i int, snapshot bool, size int) (string, error) {
	r := s.Replicas[i]
	if !r.HasTree {
		return "", errors.New("no tree")
	}
	s.clock++
	data := make([]byte, size)
	s.Cfg.Rng.Read(data)
	r.Tree.Lock()
	res, err := r.Tree.AddContent(ctx, objecttree.SignableChangeContent{
		Data:              data,
		Key:               r.Keys.SignKey,
		IsSnapshot:        snapshot,
		ShouldBeEncrypted: s.Cfg.Encrypted,
		Timestamp:         1700000000 + s.clock,
		DataType:          "verif",
	})
	r.Tree.Unlock()
	kind := "local-add"
	if snapshot {
		kind = "local-snapshot"
	}
	if err != nil {
		s.event(kind, i, 0, "err="+err.Error())
		s.count("local.errors", 1)
		return "", err
	}
	id := res.Added[0].Id
	s.Created[id] = i
	s.event(kind, i, 0, id)
	s.count(kind, 1)
	return id, nil
}

// SyncWithPeer queues replica i's full-sync request to replica j (anti-entropy).
func (s *Sim) SyncWithPeer(i, j int) error {
	r := s.Replicas[i]
	if !r.HasTree {
		if s.Replicas[j].HasTree {
			return r.Join(j)
		}
		return nil
	}
	return r.Tree.SyncWithPeer(ctx, fakePeer{id: s.Replicas[j].PeerId})
}

func errStr(err error) string {
	if err == nil {
		return "nil"
	}
	return err.Error()
}

func shortErr(err error) string {
	s := err.Error()
	// strip ids
	fields := strings.Fields(s)
	var out []string
	for _, f := range fields {
		if len(f) > 40 {
			f = "<id>"
		}
		out = append(out, f)
	}
	s = strings.Join(out, " ")
	if len(s) > 70 {
		s = s[:70]
	}
	return s
}

// ---------------------------------------------------------------- views

// StoredChange is the harness's view of a stored change.
type StoredChange struct {
	Id         string
	PrevIds    []string
	SnapshotId string
	OrderId    string
	Size       int
	IsSnapshot bool
	Raw        []byte
}

// Stored returns every stored change of the replica's tree in storage order.
func (r *Replica) Stored() ([]StoredChange, error) {
	var out []StoredChange
	st := r.Tree.Storage()
	err := st.GetAfterOrder(ctx, "", func(c context.Context, ch objecttree.StorageChange) (bool, error) {
		raw := append([]byte{}, ch.RawChange...)
		out = append(out, StoredChange{Id: ch.Id, PrevIds: append([]string{}, ch.PrevIds...), SnapshotId: ch.SnapshotId, OrderId: ch.OrderId, Size: len(ch.RawChange), Raw: raw})
		return true, nil
	})
	return out, err
}

// StoredIds returns the sorted set of stored change ids.
func (r *Replica) StoredIds() ([]string, error) {
	st, err := r.Stored()
	if err != nil {
		return nil, err
	}
	ids := make([]string, 0, len(st))
	for _, c := range st {
		ids = append(ids, c.Id)
	}
	sort.Strings(ids)
	return ids, nil
}

// Heads returns the sorted in-memory heads.
func (r *Replica) Heads() []string {
	r.Tree.Lock()
	h := append([]string{}, r.Tree.Heads()...)
	r.Tree.Unlock()
	sort.Strings(h)
	return h
}

// Presented returns the id sequence IterateRoot presents.
func (r *Replica) Presented() ([]string, error) {
	var ids []string
	r.Tree.Lock()
	defer r.Tree.Unlock()
	err := r.Tree.IterateRoot(nil, func(ch *objecttree.Change) bool {
		ids = append(ids, ch.Id)
		return true
	})
	return ids, err
}

type fakePeer struct{ id string }

func (p fakePeer) Id() string                                                  { return p.id }
func (p fakePeer) Context() context.Context                                    { return ctx }
func (p fakePeer) AcquireDrpcConn(ctx context.Context) (drpc.Conn, error)      { return nil, errors.New("fake peer") }
func (p fakePeer) ReleaseDrpcConn(ctx context.Context, conn drpc.Conn)         {}
func (p fakePeer) DoDrpc(ctx context.Context, do func(conn drpc.Conn) error) error { return errors.New("fake peer") }
func (p fakePeer) IsClosed() bool                                              { return false }
func (p fakePeer) CloseChan() <-chan struct{}                                  { return nil }
func (p fakePeer) SetTTL(ttl time.Duration)                                    {}
func (p fakePeer) TryClose(objectTTL time.Duration) (bool, error)              { return true, nil }
func (p fakePeer) Close() error                                                { return nil }

// ---------------------------------------------------------------- clones / detached receivers

func copyDir(src, dst string) error {
	if err := os.MkdirAll(dst, 0o755); err != nil {
		return err
	}
	ents, err := os.ReadDir(src)
	if err != nil {
		return err
	}
	for _, e := range ents {
		if e.IsDir() {
			if err := copyDir(filepath.Join(src, e.Name()), filepath.Join(dst, e.Name())); err != nil {
				return err
			}
			continue
		}
		b, err := os.ReadFile(filepath.Join(src, e.Name()))
		if err != nil {
			return err
		}
		if err := os.WriteFile(filepath.Join(dst, e.Name()), b, 0o644); err != nil {
			return err
		}
	}
	return nil
}

// Clone copies the replica's database directory, reopens it as a detached
// replica (its outgoing messages are discarded) with the same identity.
func (r *Replica) Clone(dir string) (*Replica, error) {
	if err := copyDir(filepath.Dir(r.DBPath), dir); err != nil {
		return nil, err
	}
	c := &Replica{Idx: r.Idx, PeerId: r.PeerId, Keys: r.Keys, sim: r.sim, DBPath: filepath.Join(dir, filepath.Base(r.DBPath)), HasTree: r.HasTree, Detached: true}
	if err := c.open(false); err != nil {
		return nil, err
	}
	if c.HasTree {
		t, err := synctree.BuildSyncTreeOrGetRemote(ctx, r.sim.TreeId, c.deps())
		if err != nil {
			c.DB.Close()
			return nil, err
		}
		c.Tree = t
	}
	return c, nil
}

// NewDetached creates a fresh replica (space, shared ACL records, tree root only)
// that is not connected to the simulated network. keysOf selects whose identity it uses.
func (s *Sim) NewDetached(dir string, keysOf int) (*Replica, error) {
	r := &Replica{Idx: keysOf, PeerId: s.Replicas[keysOf].PeerId, Keys: s.Replicas[keysOf].Keys, sim: s, Detached: true,
		DBPath: filepath.Join(dir, "space.db")}
	os.MkdirAll(dir, 0o755)
	if err := r.open(true); err != nil {
		return nil, err
	}
	for _, rw := range s.AclRecs {
		r.Acl.Lock()
		err := r.Acl.AddRawRecord(rw)
		r.Acl.Unlock()
		if err != nil {
			return nil, err
		}
	}
	if err := r.putTree(); err != nil {
		return nil, err
	}
	return r, nil
}

// CloseDetached closes a clone / detached replica.
func (r *Replica) CloseDetached() {
	if r.DB != nil {
		r.DB.Close()
		r.DB = nil
	}
}

// ApplyResponse pushes one response batch through the wire encoding into the
// replica's real response collector (HandleResponse).
func (s *Sim) ApplyResponse(to *Replica, fromPeer string, resp *response.Response) error {
	pm, err := resp.ProtoMessage()
	if err != nil {
		return err
	}
	b, err := pm.(*spacesyncproto.ObjectSyncMessage).MarshalVT()
	if err != nil {
		return err
	}
	osm := &spacesyncproto.ObjectSyncMessage{}
	if err := osm.UnmarshalVT(b); err != nil {
		return err
	}
	collector := to.Tree.ResponseCollector()
	r2 := collector.NewResponse().(*response.Response)
	if err := r2.SetProtoMessage(osm); err != nil {
		return err
	}
	return collector.CollectResponse(peer.CtxWithPeerId(ctx, fromPeer), fromPeer, s.TreeId, r2)
}

// SnapshotPath returns the replica's current snapshot path.
func (r *Replica) SnapshotPath() ([]string, error) {
	r.Tree.Lock()
	defer r.Tree.Unlock()
	p, err := r.Tree.SnapshotPath()
	return append([]string{}, p...), err
}
