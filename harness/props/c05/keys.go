package c05

import (
	"bytes"
	"fmt"
	"sort"
	"strings"

	"github.com/anyproto/any-sync/commonspace/object/accountdata"
	"github.com/anyproto/any-sync/commonspace/object/acl/list"
	"github.com/anyproto/any-sync/util/crypto"

	"verifharness/engines/aclhist"
	"verifharness/lib"
)

// ctext is one ciphertext found in the raw log.
type ctext struct {
	rec   int
	where string
	asym  bool
	data  []byte
}

type keyMonitor struct {
	c *lib.Case
	w *aclhist.World

	parsed int
	cts    []ctext
	// asym decrypt cache: principal -> ciphertext index -> recovered raw key ("" = nothing)
	asym map[string]map[int]string

	reported     map[string]bool
	maxMembers   int
	sawNonMember bool
}

func newKeyMonitor(c *lib.Case, w *aclhist.World) *keyMonitor {
	return &keyMonitor{c: c, w: w, asym: map[string]map[int]string{}, reported: map[string]bool{}}
}

func (m *keyMonitor) violation(key, what string, detail map[string]any) {
	if m.reported[key] {
		m.c.Count("keys.violation_repeats_in_case", 1)
		return
	}
	m.reported[key] = true
	detail["accepted_history"] = m.w.AcceptedOps()
	detail["record_index"] = m.w.Head()
	m.c.Violation(key, what, detail)
}

// sync parses the records that are new since the last call and inventories
// every ciphertext they carry.
func (m *keyMonitor) syncCiphertexts() {
	for ; m.parsed < len(m.w.Log); m.parsed++ {
		i := m.parsed
		p, err := aclhist.ParseRaw(m.w.Log[i], i == 0)
		if err != nil {
			m.c.Inconclusive(fmt.Sprintf("cannot parse accepted record %d: %v", i, err))
			continue
		}
		add := func(where string, asym bool, data []byte) {
			if len(data) > 0 {
				m.cts = append(m.cts, ctext{rec: i, where: where, asym: asym, data: data})
			}
		}
		if p.Root != nil {
			add("root.encryptedReadKey", true, p.Root.EncryptedReadKey)
			add("root.encryptedMetadataPrivKey", false, p.Root.EncryptedMetadataPrivKey)
			continue
		}
		for ci, cv := range p.Data.AclContent {
			pre := fmt.Sprintf("content[%d].", ci)
			if v := cv.GetInvite(); v != nil {
				add(pre+"invite.encryptedReadKey", true, v.EncryptedReadKey)
			}
			if v := cv.GetInviteJoin(); v != nil {
				add(pre+"inviteJoin.encryptedReadKey", true, v.EncryptedReadKey)
			}
			if v := cv.GetRequestAccept(); v != nil {
				add(pre+"requestAccept.encryptedReadKey", true, v.EncryptedReadKey)
			}
			if v := cv.GetAccountsAdd(); v != nil {
				for ai, a := range v.Additions {
					add(fmt.Sprintf("%saccountsAdd[%d].encryptedReadKey", pre, ai), true, a.EncryptedReadKey)
				}
			}
		}
		for ri, rk := range p.ReadKeyChanges() {
			pre := fmt.Sprintf("readKeyChange[%d].", ri)
			for ai, a := range rk.AccountKeys {
				add(fmt.Sprintf("%saccountKeys[%d]", pre, ai), true, a.EncryptedReadKey)
			}
			for ai, a := range rk.InviteKeys {
				add(fmt.Sprintf("%sinviteKeys[%d]", pre, ai), true, a.EncryptedReadKey)
			}
			add(pre+"encryptedOldReadKey", false, rk.EncryptedOldReadKey)
			add(pre+"encryptedMetadataPrivKey", false, rk.EncryptedMetadataPrivKey)
		}
	}
}

func tryAsym(priv crypto.PrivKey, data []byte) (raw string) {
	defer func() {
		if r := recover(); r != nil {
			raw = ""
		}
	}()
	dec, err := priv.Decrypt(data)
	if err != nil {
		return ""
	}
	k, err := crypto.UnmarshallAESKeyProto(dec)
	if err != nil {
		return ""
	}
	b, _ := k.Raw()
	return string(b)
}

func trySym(rawKey string, data []byte) (raw string) {
	defer func() {
		if r := recover(); r != nil {
			raw = ""
		}
	}()
	k, err := crypto.UnmarshallAESKey([]byte(rawKey))
	if err != nil {
		return ""
	}
	dec, err := k.Decrypt(data)
	if err != nil {
		return ""
	}
	nk, err := crypto.UnmarshallAESKeyProto(dec)
	if err != nil {
		return ""
	}
	b, _ := nk.Raw()
	return string(b)
}

// derive is the explicit derivation attempt of one principal: decrypt every
// ciphertext of the log with the private key, then with every symmetric key
// known or recovered so far, until nothing new is learnt. Returns raw key ->
// where it was recovered ("seed" for keys the principal legitimately held).
func (m *keyMonitor) derive(pname string, priv crypto.PrivKey, seeds []*aclhist.Gen) map[string]string {
	known := map[string]string{}
	for _, g := range seeds {
		known[string(g.Raw)] = "seed"
	}
	cache := m.asym[pname]
	if cache == nil {
		cache = map[int]string{}
		m.asym[pname] = cache
	}
	for i, ct := range m.cts {
		if !ct.asym {
			continue
		}
		r, ok := cache[i]
		if !ok {
			r = tryAsym(priv, ct.data)
			cache[i] = r
			m.c.Count("keys.derivation.asym_decrypt_attempts", 1)
		}
		if r != "" {
			if _, have := known[r]; !have {
				known[r] = fmt.Sprintf("record %d %s with own private key", ct.rec, ct.where)
			}
		}
	}
	tried := map[[2]string]bool{}
	for grew := true; grew; {
		grew = false
		keys := make([]string, 0, len(known))
		for k := range known {
			keys = append(keys, k)
		}
		sort.Strings(keys)
		for i, ct := range m.cts {
			if ct.asym {
				continue
			}
			for _, k := range keys {
				id := [2]string{k, fmt.Sprint(i)}
				if tried[id] {
					continue
				}
				tried[id] = true
				m.c.Count("keys.derivation.sym_decrypt_attempts", 1)
				if r := trySym(k, ct.data); r != "" {
					if _, have := known[r]; !have {
						known[r] = fmt.Sprintf("record %d %s unwrapped with a key from: %s", ct.rec, ct.where, known[k])
						grew = true
					}
				}
			}
		}
	}
	return known
}

// forbiddenFrom: generations introduced at record index >= the result must
// not be available to the account. -1 = nothing is forbidden (member).
func (m *keyMonitor) forbiddenFrom(name string) int {
	if m.w.Perm(name) != aclhist.None {
		return -1
	}
	if len(m.w.Hist[name]) == 0 {
		return 0
	}
	return m.w.LostAt[name]
}

func heldKey(keys map[string]list.AclKeys, g *aclhist.Gen) (held bool, right bool) {
	k, ok := keys[g.RecordId]
	if !ok || k.ReadKey == nil {
		return false, false
	}
	raw, err := k.ReadKey.Raw()
	if err != nil {
		return true, false
	}
	return true, bytes.Equal(raw, g.Raw)
}

func errClass(err error) string {
	s := err.Error()
	for _, k := range []string{"failed to decrypt", "incorrect read key", "no read key", "panic", "insufficient permissions", "incorrect number of accounts", "signature"} {
		if strings.Contains(s, k) {
			return strings.ReplaceAll(k, " ", "-")
		}
	}
	if len(s) > 40 {
		s = s[:40]
	}
	return strings.ReplaceAll(s, " ", "-")
}

func (m *keyMonitor) afterRecord() {
	w := m.w
	m.syncCiphertexts()
	m.checkRecipients()
	n := len(w.Log)
	members := w.Members()
	if len(members) > m.maxMembers {
		m.maxMembers = len(members)
	}
	for _, a := range w.Accounts {
		isMember := w.Perm(a.Name) != aclhist.None
		if !isMember {
			m.sawNonMember = true
		}
		forb := m.forbiddenFrom(a.Name)
		// ---- the account's own fresh views
		memberMissing := map[string][]int{} // mode -> generation indexes lacking
		for _, mode := range []string{"validating", "keep-identity"} {
			view, err := w.FreshView(a.Keys, n, mode == "validating")
			m.c.Count("keys.views_built."+mode, 1)
			if err != nil {
				if isMember {
					m.violation("member-view-build-fails:after-"+w.AdmitCause[a.Name]+":"+errClass(err)+":"+mode,
						"a current member cannot build its own view from the raw log", map[string]any{"account": a.Name, "permission": aclhist.PermName(w.Perm(a.Name)), "mode": mode, "error": err.Error()})
				} else {
					m.c.Count("keys.nonmember_view_build_error."+mode, 1)
				}
				continue
			}
			keys := view.AclState().Keys()
			for gi, g := range w.Gens {
				held, right := heldKey(keys, g)
				if isMember {
					m.c.Count("keys.checks.member_generation", 1)
					if !held || !right {
						memberMissing[mode] = append(memberMissing[mode], gi)
					}
					continue
				}
				m.c.Count("keys.checks.nonmember_generation", 1)
				if g.RecIdx >= forb {
					m.c.Count("keys.checks.nonmember_forbidden_generation", 1)
					if held && right {
						m.violation("nonmember-holds-key:"+w.LostCause[a.Name]+":generation-from-"+g.Kind,
							"the view of an account without permission holds a key generation introduced since it last held permission",
							map[string]any{"account": a.Name, "mode": mode, "generation": gi, "generation_record": g.RecIdx, "lost_permission_at_record": forb})
					}
				} else if held && right {
					m.c.Count("keys.observed.ex_member_still_holds_old_generation", 1)
				}
			}
		}
		// ---- explicit derivation
		var seeds []*aclhist.Gen
		if !isMember {
			for _, g := range w.Gens {
				if g.RecIdx < forb {
					seeds = append(seeds, g)
				}
			}
		}
		known := m.derive("acc:"+a.Name, a.Keys.SignKey, seeds)
		m.c.Count("keys.derivation.attempts", 1)
		derivable := func(g *aclhist.Gen) (string, bool) { v, ok := known[string(g.Raw)]; return v, ok }
		if isMember {
			if miss := memberMissing["validating"]; len(miss) > 0 {
				m.reportMemberLacks(a, miss, "", derivable)
			} else if miss := memberMissing["keep-identity"]; len(miss) > 0 {
				m.reportMemberLacks(a, miss, ":keep-identity-view-only", derivable)
			}
			for _, g := range w.Gens {
				if _, ok := derivable(g); ok {
					m.c.Count("keys.observed.member_generation_derivable_by_harness", 1)
				} else {
					m.c.Count("keys.observed.member_generation_not_derivable_by_harness", 1)
				}
			}
		} else {
			for gi, g := range w.Gens {
				if g.RecIdx < forb {
					continue
				}
				m.c.Count("keys.checks.nonmember_derivation_of_forbidden_generation", 1)
				if via, ok := derivable(g); ok {
					m.violation("nonmember-derives-key:"+w.LostCause[a.Name]+":generation-from-"+g.Kind,
						"an account without permission recovers a key generation introduced since it last held permission by decrypting the log's ciphertexts",
						map[string]any{"account": a.Name, "generation": gi, "generation_record": g.RecIdx, "lost_permission_at_record": forb, "recovered_via": via})
				}
			}
		}
	}
	// ---- invite-key holders
	for _, iv := range w.Invites {
		forb := -1
		cls := "live-open-invite"
		switch {
		case !iv.Open:
			forb, cls = 0, "request-invite"
		case !iv.Live:
			forb, cls = iv.RevokedAt, "revoked-invite"
		}
		known := m.derive("inv:"+iv.Name, iv.Key, nil)
		m.c.Count("keys.derivation.attempts", 1)
		if forb < 0 {
			cur := w.CurrentGen()
			if _, ok := known[string(cur.Raw)]; ok {
				m.c.Count("keys.observed.live_open_invite_derives_current_key", 1)
			} else {
				m.c.Count("keys.observed.live_open_invite_cannot_derive_current_key", 1)
			}
			continue
		}
		m.sawNonMember = true
		// a view built with the invite key only must not hold anything either
		view, err := w.FreshView(accountdata.New(iv.Key, iv.Key), n, true)
		m.c.Count("keys.views_built.invite_holder", 1)
		var keys map[string]list.AclKeys
		if err == nil {
			keys = view.AclState().Keys()
		}
		for gi, g := range w.Gens {
			if g.RecIdx < forb {
				continue
			}
			m.c.Count("keys.checks.invite_forbidden_generation", 1)
			if via, ok := known[string(g.Raw)]; ok {
				m.violation("nonmember-derives-key:"+cls+":generation-from-"+g.Kind,
					"the holder of a dead / request-only invite key recovers a key generation it must not have",
					map[string]any{"invite": iv.Name, "generation": gi, "generation_record": g.RecIdx, "forbidden_from_record": forb, "recovered_via": via})
			}
			if keys != nil {
				if held, right := heldKey(keys, g); held && right {
					m.violation("nonmember-holds-key:"+cls+":generation-from-"+g.Kind,
						"a view built with a dead / request-only invite key holds a key generation",
						map[string]any{"invite": iv.Name, "generation": gi})
				}
			}
		}
	}
}

func (m *keyMonitor) reportMemberLacks(a *aclhist.Account, miss []int, suffix string, derivable func(*aclhist.Gen) (string, bool)) {
	w := m.w
	g := w.Gens[miss[0]]
	var key string
	if g.RecIdx <= w.AdmitAt[a.Name] {
		key = "member-lacks-key:after-" + w.AdmitCause[a.Name]
	} else {
		key = "member-lacks-key:generation-from-" + g.Kind + "-not-delivered-to-member"
	}
	var hd []bool
	for _, gi := range miss {
		_, ok := derivable(w.Gens[gi])
		hd = append(hd, ok)
	}
	m.violation(key+suffix, "a current member's own view lacks (or holds a wrong) read key of some generation",
		map[string]any{"account": a.Name, "permission": aclhist.PermName(w.Perm(a.Name)), "admitted_by": w.AdmitCause[a.Name], "admitted_at_record": w.AdmitAt[a.Name],
			"missing_generations": miss, "missing_generation_records": genRecs(w, miss), "derivable_by_harness_from_log_and_own_key": hd, "total_generations": len(w.Gens)})
}

func genRecs(w *aclhist.World, idx []int) []int {
	var out []int
	for _, i := range idx {
		out = append(out, w.Gens[i].RecIdx)
	}
	return out
}

// checkRecipients: a record carrying a read key change must list ciphertexts
// for exactly the active accounts and live open invites (per the harness
// model), each decrypting to the new key under the recipient's private key.
func (m *keyMonitor) checkRecipients() {
	w := m.w
	idx := w.Head()
	if idx == 0 {
		return
	}
	info := w.Recs[idx]
	p, err := aclhist.ParseRaw(w.Log[idx], false)
	if err != nil {
		return
	}
	rks := p.ReadKeyChanges()
	if len(rks) == 0 {
		if info.NewGen != nil {
			m.violation("rotation-recipients:"+info.Kind+":no-read-key-change-in-record", "a record the harness built as a rotation carries no read key change", map[string]any{})
		}
		return
	}
	if info.NewGen == nil || len(rks) != 1 {
		m.c.Inconclusive(fmt.Sprintf("record %d (%s) carries %d read key changes, model expected %v", idx, info.Kind, len(rks), info.NewGen != nil))
		return
	}
	rk := rks[0]
	m.c.Count("keys.checks.rotation_records", 1)
	wantAcc := map[string]*aclhist.Account{}
	for _, n := range info.MembersBefore {
		wantAcc[n] = w.ByName[n]
	}
	for _, n := range info.Removed {
		delete(wantAcc, n)
	}
	wantInv := map[string]*aclhist.Invite{}
	for _, n := range info.OpenInvitesBefore {
		wantInv[n] = w.InviteByName(n)
	}
	for _, n := range info.Revoked {
		delete(wantInv, n)
	}
	bad := func(kind string, d map[string]any) {
		d["record_kind"] = info.Kind
		d["expected_accounts"] = sortedNames(wantAcc)
		d["expected_invites"] = sortedNames(wantInv)
		m.violation("rotation-recipients:"+info.Kind+":"+kind, "a read key change does not address exactly the active accounts and live open invites with the new key", d)
	}
	seenAcc := map[string]bool{}
	for _, ak := range rk.AccountKeys {
		m.c.Count("keys.checks.rotation_account_ciphertexts", 1)
		name := ""
		for _, a := range w.Accounts {
			if bytes.Equal(a.IdProto, ak.Identity) {
				name = a.Name
			}
		}
		if name == "" {
			if pk, err := crypto.UnmarshalEd25519PublicKeyProto(ak.Identity); err == nil {
				for _, a := range w.Accounts {
					if a.Pub.Equals(pk) {
						name = a.Name
					}
				}
			}
		}
		if name == "" || wantAcc[name] == nil {
			who := name
			if who == "" {
				who = "unknown identity"
			}
			cls := "extra-account"
			if contains(info.Removed, name) {
				cls = "removed-account-addressed"
			}
			bad(cls, map[string]any{"identity": who})
			continue
		}
		if seenAcc[name] {
			bad("duplicate-account", map[string]any{"identity": name})
		}
		seenAcc[name] = true
		if tryAsym(w.ByName[name].Keys.SignKey, ak.EncryptedReadKey) != string(info.NewGen.Raw) {
			bad("wrong-key-for-account", map[string]any{"identity": name})
		}
	}
	for n := range wantAcc {
		if !seenAcc[n] {
			bad("missing-account", map[string]any{"identity": n, "permission": aclhist.PermName(w.PermAt(n, idx-1))})
		}
	}
	seenInv := map[string]bool{}
	for _, ik := range rk.InviteKeys {
		m.c.Count("keys.checks.rotation_invite_ciphertexts", 1)
		name := ""
		for _, iv := range w.Invites {
			if bytes.Equal(iv.IdProto, ik.Identity) {
				name = iv.Name
			}
		}
		if name == "" || wantInv[name] == nil {
			cls := "extra-invite"
			if contains(info.Revoked, name) {
				cls = "revoked-invite-addressed"
			}
			bad(cls, map[string]any{"invite": name})
			continue
		}
		seenInv[name] = true
		if tryAsym(w.InviteByName(name).Key, ik.EncryptedReadKey) != string(info.NewGen.Raw) {
			bad("wrong-key-for-invite", map[string]any{"invite": name})
		}
	}
	for n := range wantInv {
		if !seenInv[n] {
			bad("missing-invite", map[string]any{"invite": n})
		}
	}
	// the old key must be recoverable from the new one (backward chain), never the other way round
	prev := w.Gens[len(w.Gens)-2]
	// (counted, not judged: the statement is about what principals can derive; a broken chain shows up there)
	if trySym(string(info.NewGen.Raw), rk.EncryptedOldReadKey) == string(prev.Raw) {
		m.c.Count("keys.observed.old_key_wrapped_under_new_key", 1)
	} else {
		m.c.Count("keys.observed.old_key_NOT_recoverable_from_new_key", 1)
	}
}

func sortedNames[V any](m map[string]V) []string {
	out := make([]string, 0, len(m))
	for k := range m {
		out = append(out, k)
	}
	sort.Strings(out)
	return out
}

func contains(l []string, s string) bool {
	for _, x := range l {
		if x == s {
			return true
		}
	}
	return false
}
