// Package c05: read keys — members can always decrypt, removed accounts never
// can. ACL histories are built through the real client-side builders; after
// every accepted record every principal's fresh private view is compared with
// the key generations the harness supplied itself (ground truth), an explicit
// derivation attempt is made for every principal, rotation records are checked
// for their exact recipients, and encrypted tree content is checked to exist
// only as ciphertext and to decrypt for every current member.
package c05

import (
	"fmt"
	"strings"

	"verifharness/engines/aclhist"
	"verifharness/lib"
)

type Prop struct{}

func (Prop) ID() string    { return "C05" }
func (Prop) Level() string { return "exploration" }
func (Prop) Rule() string {
	return "keys: guided random ACL histories of 4-25 accepted records over owner + 6 accounts + invite-key holders, built only through the real AclRecordBuilder (join by request, open-invite join, direct add, remove, leave request + removal, invite revoke with/without rotation, stand-alone rotation, re-add by add / request / batch, permission changes incl. on accounts without permissions, 12% deliberately illegal attempts); 10 of every 14 cases start with a scripted scenario prefix. After every accepted record: fresh validating AND keep-identity views of every principal from the raw log, key material vs harness ground truth, explicit derivation closure over every ciphertext of the log, exact-recipient check of every read-key change. A history is non-trivial when it contains >= 1 accepted removal (so an ex-member was observed against a later generation) and >= 2 members were observed at some point; distinct = accepted-operation sequence. trees: same generator (permission changes on accounts without permissions excluded, reported by the keys workload) with encrypted content written by current writers under each generation into a real any-store backed verifying tree; non-trivial = >= 2 generations carry content and >= 2 members read it back; distinct = accepted ops + write positions. sessions: same generator with 4 of 6 cases starting with a remove-and-come-back prefix; owner, a, b, c each keep ONE live validating ACL list (fed every accepted record by AddRawRecord) and ONE live tree object on an own database (fed every change by AddRawChanges) from first admission to the end, also while removed; current writers write encrypted content through these objects (re-admitted accounts preferred); judged: ciphertext under the tree key of the generation the read-key id names, no plaintext marker in the raw change, every current member's living tree presents the original content of every change; non-trivial = >= 2 generations carry content and >= 2 sessions."
}
func (Prop) Assumptions() []string {
	return []string{
		"an account principal derives with its own account key and read keys it legitimately held; invite keys are separate principals (a bearer of a live open invite is entitled to the current key)",
		"key material is compared for AclState.Keys()[id].ReadKey only (metadata keys are outside the statement)",
		"the trees workload reads through freshly built trees on freshly built ACL views; long-lived ACL lists and tree objects (fed incrementally, written through after a removal and re-admission) are the sessions workload",
		"tree read-back is skipped (counted) once an author of the tree was re-admitted through AccountsAdd — observation O-1 (over-rejection) is outside the statement",
	}
}

func (Prop) Plan(tier string) []lib.Workload {
	if tier == "thorough" {
		return []lib.Workload{
			{Name: "keys", Cases: 9000, MinNontrivial: 4000},
			{Name: "trees", Cases: 3000, MinNontrivial: 1000},
			{Name: "nokey", Cases: 400, MinNontrivial: 100},
			{Name: "sessions", Cases: 3000, MinNontrivial: 800},
		}
	}
	return []lib.Workload{
		{Name: "keys", Cases: 256, MinNontrivial: 100},
		{Name: "trees", Cases: 96, MinNontrivial: 24},
		{Name: "nokey", Cases: 32, MinNontrivial: 16},
		{Name: "sessions", Cases: 96, MinNontrivial: 24},
	}
}

func (Prop) RunCase(c *lib.Case) {
	switch c.Workload {
	case "keys":
		runKeys(c)
	case "trees":
		runTrees(c)
	case "nokey":
		runNoKey(c)
	case "sessions":
		runSessions(c)
	}
}

var accountNames = []string{"a", "b", "c", "d", "e", "f"}

type I = aclhist.Intent

// scenario prefixes; invite names are assigned inv1, inv2, … in creation order
var scenarios = [][]I{
	nil, // 0: random only
	{{Kind: "add", Actor: "owner", Target: "a", Perm: aclhist.Writer}, {Kind: "remove", Actor: "owner", Target: "a"}, {Kind: "add", Actor: "owner", Target: "a", Perm: aclhist.Reader}},
	{{Kind: "invite_req", Actor: "owner"}, {Kind: "request_join", Actor: "a", Invite: "inv1"}, {Kind: "accept", Actor: "owner", Target: "a", Perm: aclhist.Writer},
		{Kind: "leave_request", Actor: "a"}, {Kind: "remove", Actor: "owner", Target: "a"}},
	{{Kind: "invite_open", Actor: "owner", Perm: aclhist.Writer}, {Kind: "invite_join", Actor: "a", Invite: "inv1"}, {Kind: "revoke_rotate", Actor: "owner", Invite: "inv1"},
		{Kind: "remove", Actor: "owner", Target: "a"}},
	{{Kind: "add", Actor: "owner", Target: "a", Perm: aclhist.Admin}, {Kind: "rotate", Actor: "a"}, {Kind: "remove", Actor: "owner", Target: "a"}, {Kind: "invite_req", Actor: "owner"},
		{Kind: "request_join", Actor: "a", Invite: "inv1"}, {Kind: "accept", Actor: "owner", Target: "a", Perm: aclhist.Reader}},
	{{Kind: "add", Actor: "owner", Target: "a", Perm: aclhist.Writer}, {Kind: "remove", Actor: "owner", Target: "a"}, {Kind: "perm_change", Actor: "owner", Target: "a", Perm: aclhist.Reader}},
	{{Kind: "invite_req", Actor: "owner"}, {Kind: "request_join", Actor: "a", Invite: "inv1"}, {Kind: "decline", Actor: "owner", Target: "a"}, {Kind: "rotate", Actor: "owner"},
		{Kind: "perm_change", Actor: "owner", Target: "a", Perm: aclhist.Writer}},
	{{Kind: "invite_req", Actor: "owner"}, {Kind: "request_join", Actor: "a", Invite: "inv1"}, {Kind: "perm_change", Actor: "owner", Target: "a", Perm: aclhist.Writer}},
	{{Kind: "invite_open", Actor: "owner", Perm: aclhist.Reader}, {Kind: "rotate", Actor: "owner"}, {Kind: "invite_join", Actor: "a", Invite: "inv1"}, {Kind: "revoke", Actor: "owner", Invite: "inv1"},
		{Kind: "rotate", Actor: "owner"}},
	{{Kind: "add", Actor: "owner", Target: "a", Perm: aclhist.Writer}, {Kind: "add", Actor: "owner", Target: "b", Perm: aclhist.Reader},
		{Kind: "batch_remove_add", Actor: "owner", Target: "a", Target2: "c", Perm: aclhist.Writer}, {Kind: "add", Actor: "owner", Target: "a", Perm: aclhist.Writer}},
	{{Kind: "add", Actor: "owner", Target: "a", Perm: aclhist.Admin}, {Kind: "add", Actor: "a", Target: "b", Perm: aclhist.Writer}, {Kind: "invite_open", Actor: "a", Perm: aclhist.Reader},
		{Kind: "remove", Actor: "a", Target: "b"}, {Kind: "invite_join", Actor: "b", Invite: "inv1"}},
}

const scenarioCycle = 14

// history drives one world: scripted prefix, then a guided random walk.
type history struct {
	c        *lib.Case
	w        *aclhist.World
	prefix   string // counter prefix
	exclude  func(in I) bool
	after    func(in I) // called after every accepted record
	dead     bool
	accepted int
}

func (h *history) do(in I) bool {
	if h.dead {
		return false
	}
	legal := h.w.Legal(in)
	ok := h.w.Do(in)
	h.c.Eval(1)
	if ok {
		h.accepted++
		h.c.Count(h.prefix+".accepted."+in.Kind, 1)
		if !legal {
			h.c.Count(h.prefix+".accepted_although_model_illegal."+in.Kind, 1)
		}
		if m := h.w.CheckModel(); m != "" {
			// harness model and the list disagree about who is a member: do not judge
			h.c.Inconclusive("model/list permission mismatch after " + in.String() + ": " + m)
			h.dead = true
			return true
		}
		if h.after != nil {
			h.after(in)
		}
	} else {
		last := h.w.Ops[len(h.w.Ops)-1]
		cls := "illegal"
		if legal {
			cls = "model_legal"
		}
		h.c.Count(h.prefix+".refused."+cls+"."+in.Kind, 1)
		h.c.Logf("refused (%s) %s: %s   after: %s", cls, in.String(), last.Err, strings.Join(h.w.AcceptedOps(), " · "))
		if strings.Contains(last.Err, "builder panic") {
			h.c.Count(h.prefix+".builder_panic_recovered."+in.Kind, 1)
		}
		if legal {
			h.c.Sample("refused-model-legal-"+in.Kind, map[string]any{"op": in.String(), "err": last.Err, "history": h.w.AcceptedOps()})
		}
	}
	return ok
}

func (h *history) run(script []I, target int) {
	for _, in := range script {
		if h.exclude != nil && h.exclude(in) {
			continue
		}
		h.do(in)
	}
	attempts := 0
	for h.accepted < target && attempts < 8*target && !h.dead {
		attempts++
		if h.c.Rng.Intn(100) < 12 {
			h.do(h.w.IllegalIntent())
			continue
		}
		var in I
		ok := false
		for try := 0; try < 8; try++ {
			in, ok = h.w.RandomIntent(nil)
			if !ok {
				break
			}
			if h.exclude == nil || !h.exclude(in) {
				break
			}
			ok = false
		}
		if !ok {
			continue
		}
		h.do(in)
	}
}

func runKeys(c *lib.Case) {
	w, err := aclhist.New(c.Rng, accountNames)
	if err != nil {
		c.Inconclusive("world: " + err.Error())
		return
	}
	m := newKeyMonitor(c, w)
	h := &history{c: c, w: w, prefix: "keys"}
	h.after = func(in I) { m.afterRecord() }
	m.afterRecord() // the root alone
	var script []I
	if s := c.Index % scenarioCycle; s < len(scenarios) {
		script = scenarios[s]
	}
	target := 4 + c.Rng.Intn(22)
	h.run(script, target)
	ops := w.AcceptedOps()
	c.Count("keys.histories", 1)
	c.Count("keys.records_total", int64(len(ops)))
	c.Count(fmt.Sprintf("keys.history_len.%02d-%02d", len(ops)/5*5, len(ops)/5*5+4), 1)
	c.Count("keys.generations_total", int64(len(w.Gens)))
	for k, n := range w.BuilderPanics {
		c.Count("keys.builder_panics."+k, int64(n))
	}
	removals := 0
	for _, r := range w.Recs {
		if len(r.Removed) > 0 {
			removals++
		}
	}
	c.Count("keys.histories_with_accepted_removal", int64(min(removals, 1)))
	if removals >= 1 && m.maxMembers >= 2 && m.sawNonMember {
		c.Nontrivial(strings.Join(ops, " "))
	}
	c.Sample(fmt.Sprintf("history-s%d", c.Index%scenarioCycle), map[string]any{"accepted_ops": ops, "generations": len(w.Gens)})
	c.Logf("history: %s", strings.Join(ops, " · "))
}
