package c05

import (
	"bytes"
	"context"
	"fmt"
	"path/filepath"
	"strings"

	"github.com/anyproto/any-sync/commonspace/object/acl/list"
	"github.com/anyproto/any-sync/commonspace/object/tree/objecttree"
	"github.com/anyproto/any-sync/commonspace/object/tree/treechangeproto"

	"verifharness/engines/aclhist"
	"verifharness/lib"
)

// Workload sessions: LONG-LIVED clients. Every tracked account keeps, from the
// moment it is first admitted, one live ACL list (fed every accepted record
// through AddRawRecord, never rebuilt) and one live object tree on its own
// any-store database (fed every change of the others through AddRawChanges,
// never rebuilt); it writes through that same tree object whenever it holds
// write permission - also after having been removed and re-admitted. The
// trees/keys workloads read and write through freshly built objects only; a key
// cache that goes stale inside a living object (seeded change C05-4) is invisible
// to them.
//
// Judged: (1) the ciphertext of every encrypted write is under the tree key of the
// generation its read-key id names and decrypts to the original; (2) every current
// member's live tree, after having received the change, presents the original
// content; (3) the raw change never contains the plaintext marker.

type session struct {
	name    string
	acl     list.AclList
	db      *aclhist.TreeDB
	tree    objecttree.ObjectTree
	fed     int // records of w.Log applied to acl
	dead    string
	removed bool // was without permission at some point of its life
}

type sessMonitor struct {
	c        *lib.Case
	w        *aclhist.World
	root     *treechangeproto.RawTreeChangeWithId
	sess     map[string]*session
	order    []string
	raws     []*treechangeproto.RawTreeChangeWithId // every change written so far, in causal order
	writes   []*write
	reported map[string]bool
	retired  bool
	sig      []string
	stats    struct{ writesAfterReadmission, scansWhileRemoved, gens int }
	gensUsed map[int]bool
}

func (m *sessMonitor) violation(key, what string, detail map[string]any) {
	if m.reported[key] {
		return
	}
	m.reported[key] = true
	detail["accepted_history"] = m.w.AcceptedOps()
	detail["writes"] = m.sig
	m.c.Violation(key, what, detail)
}

var sessionAccounts = []string{"owner", "a", "b", "c"}

func (m *sessMonitor) start(name string) *session {
	w := m.w
	acc := w.ByName[name]
	if name == "owner" {
		acc = w.Owner
	}
	acl, err := w.FreshView(acc.Keys, len(w.Log), true)
	if err != nil {
		m.c.Count("sessions.start_view_unavailable", 1)
		return nil
	}
	db, err := aclhist.OpenTreeDB(filepath.Join(m.c.TmpDir, "sess-"+name))
	if err != nil {
		m.c.Inconclusive("open db: " + err.Error())
		return nil
	}
	s := &session{name: name, acl: acl, db: db, fed: len(w.Log)}
	if m.root == nil {
		root, err := objecttree.CreateObjectTreeRoot(objecttree.ObjectTreeCreatePayload{
			PrivKey: acc.Keys.SignKey, ChangeType: "verif", SpaceId: w.SpaceId, IsEncrypted: true,
			Seed: []byte(fmt.Sprintf("sess-%d", m.c.Index)), Timestamp: 1700000000,
		}, acl)
		if err != nil {
			m.c.Inconclusive("create root: " + err.Error())
			db.Close()
			return nil
		}
		m.root = root
	}
	st, err := db.CreateTreeStorage(m.root)
	if err != nil {
		m.c.Inconclusive("create tree storage: " + err.Error())
		db.Close()
		return nil
	}
	tree, err := objecttree.BuildObjectTree(st, acl)
	if err != nil {
		m.c.Inconclusive(fmt.Sprintf("session %s cannot build its tree: %v", name, err))
		db.Close()
		return nil
	}
	s.tree = tree
	if len(m.raws) > 0 {
		m.deliver(s, m.raws)
	}
	m.sess[name] = s
	m.order = append(m.order, name)
	m.c.Count("sessions.started", 1)
	return s
}

func (m *sessMonitor) deliver(s *session, raws []*treechangeproto.RawTreeChangeWithId) {
	if s.dead != "" {
		return
	}
	cp := make([]*treechangeproto.RawTreeChangeWithId, len(raws))
	for i, r := range raws {
		cp[i] = &treechangeproto.RawTreeChangeWithId{Id: r.Id, RawChange: append([]byte(nil), r.RawChange...)}
	}
	s.tree.Lock()
	_, err := s.tree.AddRawChanges(context.Background(), objecttree.RawChangesPayload{NewHeads: []string{cp[len(cp)-1].Id}, RawChanges: cp})
	s.tree.Unlock()
	member := m.w.Perm(s.name) != aclhist.None || s.name == "owner"
	if err != nil {
		if member {
			m.c.Count("sessions.delivery_error.member", 1)
			m.c.Sample("delivery-error-member", map[string]any{"session": s.name, "err": err.Error(), "history": m.w.AcceptedOps()})
		} else {
			m.c.Count("sessions.delivery_error.nonmember", 1)
		}
		return
	}
	if !member {
		m.stats.scansWhileRemoved++
		m.c.Count("sessions.deliveries_to_live_tree_of_removed_account", 1)
	}
}

func (m *sessMonitor) afterRecord(in I) {
	if m.retired {
		return
	}
	w := m.w
	if in.Kind == "add" || in.Kind == "batch_remove_add" {
		who := in.Target
		if in.Kind == "batch_remove_add" {
			who = in.Target2
		}
		if w.ReAddedByAdd[who] {
			// observation O-1: earlier changes of that account stop validating; nothing is asserted from here on
			m.retired = true
			m.c.Count("sessions.retired_by_O1_readd", 1)
			return
		}
	}
	// 1. every live ACL list receives the new record(s)
	for _, n := range m.order {
		s := m.sess[n]
		for s.dead == "" && s.fed < len(w.Log) {
			rec := w.Log[s.fed]
			s.acl.Lock()
			err := s.acl.AddRawRecord(rec)
			s.acl.Unlock()
			if err != nil {
				s.dead = "acl: " + err.Error()
				m.c.Count("sessions.live_acl_rejected_accepted_record", 1)
				m.c.Sample("live-acl-rejects", map[string]any{"session": n, "err": err.Error(), "history": w.AcceptedOps()})
				break
			}
			s.fed++
		}
		if n != "owner" && w.Perm(n) == aclhist.None {
			s.removed = true
		}
	}
	// 2. newly admitted tracked accounts open their session
	for _, n := range sessionAccounts {
		if m.sess[n] == nil && (n == "owner" || w.Perm(n) != aclhist.None) {
			m.start(n)
		}
	}
	// 3. a current writer with a live session writes through it
	k := 1
	if w.Recs[w.Head()].NewGen != nil || m.c.Rng.Intn(3) == 0 {
		k = 2
	}
	for i := 0; i < k; i++ {
		m.write()
	}
}

func (m *sessMonitor) write() {
	w := m.w
	var writers []*session
	// re-admitted accounts first: they are the ones whose living objects went through a key-less phase
	var readmitted []*session
	for _, n := range m.order {
		s := m.sess[n]
		if s.dead != "" {
			continue
		}
		p := w.Perm(n)
		if n == "owner" {
			p = aclhist.Owner
		}
		if aclhist.CanWrite(p) {
			writers = append(writers, s)
			if s.removed {
				readmitted = append(readmitted, s)
			}
		}
	}
	if len(writers) == 0 {
		return
	}
	s := writers[m.c.Rng.Intn(len(writers))]
	if len(readmitted) > 0 && m.c.Rng.Intn(2) == 0 {
		s = readmitted[m.c.Rng.Intn(len(readmitted))]
	}
	acc := w.ByName[s.name]
	if s.name == "owner" {
		acc = w.Owner
	}
	mk := (&treeMonitor{c: m.c}).marker()
	plain := append(append([]byte("head|"), mk...), []byte(fmt.Sprintf("|tail-%d", len(m.writes)))...)
	s.tree.Lock()
	res, err := s.tree.AddContent(context.Background(), objecttree.SignableChangeContent{
		Data: plain, Key: acc.Keys.SignKey, ShouldBeEncrypted: true, Timestamp: 1700000000 + int64(len(m.writes)), DataType: "verif",
	})
	s.tree.Unlock()
	if err != nil {
		m.c.Count("sessions.write_refused", 1)
		m.c.Sample("session-write-refused", map[string]any{"author": s.name, "err": err.Error(), "history": w.AcceptedOps()})
		return
	}
	m.c.Eval(1)
	if len(res.Added) != 1 {
		m.violation("session:unexpected-add-result", "AddContent did not return exactly the new change", map[string]any{"added": len(res.Added)})
		return
	}
	raw := res.Added[0].RawChange
	wr := &write{id: res.Added[0].Id, author: s.name, plain: plain, marker: mk, encrypted: true, recIdx: w.Head(), gen: -1}
	m.writes = append(m.writes, wr)
	cur := len(w.Gens) - 1
	m.sig = append(m.sig, fmt.Sprintf("%s@rec%d:gen%d", s.name, w.Head(), cur))
	m.c.Count("sessions.writes", 1)
	if s.removed {
		m.stats.writesAfterReadmission++
		m.c.Count("sessions.writes_by_readmitted_account_through_its_old_tree_object", 1)
	}
	if bytes.Contains(raw, mk) {
		m.violation("session:plaintext-in-change", "the raw change returned for an encrypted write contains the plaintext marker", map[string]any{"author": s.name})
	}
	rc := &treechangeproto.RawTreeChange{}
	tc := &treechangeproto.TreeChange{}
	if err := rc.UnmarshalVT(raw); err != nil || tc.UnmarshalVT(rc.Payload) != nil {
		m.c.Inconclusive("cannot parse own change")
		return
	}
	gi := -1
	for i, g := range w.Gens {
		if g.RecordId == tc.ReadKeyId {
			gi = i
		}
	}
	how := "never-removed"
	if s.removed {
		how = "readmitted:" + w.AdmitCause[s.name]
	}
	if gi < 0 {
		m.violation("session:read-key-id-names-no-generation:"+how, "an encrypted change names a read key id that is not a key generation of the ACL", map[string]any{"author": s.name, "read_key_id": tc.ReadKeyId})
	} else {
		wr.gen = gi
		m.gensUsed[gi] = true
		if gi == cur {
			m.c.Count("sessions.observed.write_names_current_generation", 1)
		} else {
			m.c.Count("sessions.observed.write_names_older_generation", 1)
		}
		tk, err := treeKeyFor(w.Gens[gi], m.root.Id)
		if err != nil {
			m.c.Inconclusive("derive tree key: " + err.Error())
			return
		}
		dec, err := tk.Decrypt(tc.ChangesData)
		m.c.Count("sessions.checks.ciphertext_under_named_key", 1)
		if err != nil || !bytes.Equal(dec, plain) {
			under := -1
			for i, g := range w.Gens {
				if k2, e2 := treeKeyFor(g, m.root.Id); e2 == nil {
					if d2, e3 := k2.Decrypt(tc.ChangesData); e3 == nil && bytes.Equal(d2, plain) {
						under = i
					}
				}
			}
			m.violation("session:encrypted-change-not-under-named-key:"+how, "a change written through a long-lived tree object is not ciphertext under the tree key of the generation its read-key id names",
				map[string]any{"author": s.name, "named_generation": gi, "current_generation": cur, "actually_under_generation": under, "decrypt_error": fmt.Sprint(err)})
		}
	}
	// the change travels to every other living tree
	nr := &treechangeproto.RawTreeChangeWithId{Id: wr.id, RawChange: append([]byte(nil), raw...)}
	m.raws = append(m.raws, nr)
	for _, n := range m.order {
		if o := m.sess[n]; o != s {
			m.deliver(o, []*treechangeproto.RawTreeChangeWithId{nr})
		}
	}
	// every current member reads it through its living tree
	for _, n := range m.order {
		o := m.sess[n]
		if o.dead != "" || (n != "owner" && w.Perm(n) == aclhist.None) {
			continue
		}
		got := map[string][]byte{}
		o.tree.Lock()
		// a living tree converts every change once and keeps the result as its model
		err := o.tree.IterateRoot(func(ch *objecttree.Change, decrypted []byte) (any, error) {
			return append([]byte(nil), decrypted...), nil
		}, func(ch *objecttree.Change) bool {
			if b, ok := ch.Model.([]byte); ok {
				got[ch.Id] = b
			}
			return true
		})
		o.tree.Unlock()
		m.c.Count("sessions.checks.member_live_reads", 1)
		ohow := "never-removed"
		if o.removed {
			ohow = "readmitted:" + w.AdmitCause[n]
		}
		if err != nil {
			m.violation("session:member-cannot-read:"+ohow+":"+errClass(err), "a current member's long-lived tree cannot present the content (IterateRoot with decryption fails)",
				map[string]any{"member": n, "author_of_last_write": s.name, "error": err.Error()})
			continue
		}
		for _, x := range m.writes {
			if g, ok := got[x.id]; !ok || !bytes.Equal(g, x.plain) {
				m.violation("session:member-reads-wrong-content:"+ohow, "a current member's long-lived tree does not present the original content of a change",
					map[string]any{"member": n, "change_author": x.author, "generation": x.gen, "present": ok})
				break
			}
		}
	}
}

func runSessions(c *lib.Case) {
	w, err := aclhist.New(c.Rng, accountNames)
	if err != nil {
		c.Inconclusive("world: " + err.Error())
		return
	}
	m := &sessMonitor{c: c, w: w, sess: map[string]*session{}, reported: map[string]bool{}, gensUsed: map[int]bool{}}
	defer func() {
		for _, s := range m.sess {
			s.db.Close()
		}
	}()
	if m.start("owner") == nil {
		return
	}
	m.write()
	h := &history{c: c, w: w, prefix: "sessions"}
	h.exclude = func(in I) bool { return in.Kind == "perm_change" && w.Perm(in.Target) == aclhist.None }
	h.after = m.afterRecord
	var script []I
	if s := c.Index % len(sessionScenarios); true {
		script = sessionScenarios[s]
	}
	h.run(script, 5+c.Rng.Intn(14))
	c.Count("sessions.histories", 1)
	if m.stats.writesAfterReadmission > 0 {
		c.Count("sessions.histories_with_write_after_readmission", 1)
	}
	if len(m.gensUsed) >= 2 && len(m.sess) >= 2 {
		c.Nontrivial(strings.Join(w.AcceptedOps(), " ") + "|" + strings.Join(m.sig, ","))
	}
	if c.Index%7 == 0 {
		c.Sample("session-history", map[string]any{"accepted_ops": w.AcceptedOps(), "writes": m.sig, "sessions": m.order, "writes_after_readmission": m.stats.writesAfterReadmission})
	}
}

// scripted prefixes: a tracked writer is removed (rotation) and comes back without / with a further rotation
var sessionScenarios = [][]I{
	nil,
	{{Kind: "invite_req", Actor: "owner"}, {Kind: "request_join", Actor: "a", Invite: "inv1"}, {Kind: "accept", Actor: "owner", Target: "a", Perm: aclhist.Writer},
		{Kind: "add", Actor: "owner", Target: "b", Perm: aclhist.Writer}, {Kind: "remove", Actor: "owner", Target: "a"},
		{Kind: "request_join", Actor: "a", Invite: "inv1"}, {Kind: "accept", Actor: "owner", Target: "a", Perm: aclhist.Writer}},
	{{Kind: "invite_open", Actor: "owner", Perm: aclhist.Writer}, {Kind: "invite_join", Actor: "a", Invite: "inv1"}, {Kind: "add", Actor: "owner", Target: "b", Perm: aclhist.Writer},
		{Kind: "remove", Actor: "owner", Target: "a"}, {Kind: "invite_open", Actor: "owner", Perm: aclhist.Writer}, {Kind: "invite_join", Actor: "a", Invite: "inv2"}},
	{{Kind: "add", Actor: "owner", Target: "a", Perm: aclhist.Admin}, {Kind: "add", Actor: "owner", Target: "b", Perm: aclhist.Writer}, {Kind: "remove", Actor: "owner", Target: "b"},
		{Kind: "invite_req", Actor: "a"}, {Kind: "request_join", Actor: "b", Invite: "inv1"}, {Kind: "accept", Actor: "a", Target: "b", Perm: aclhist.Writer}, {Kind: "rotate", Actor: "owner"}},
	nil,
	{{Kind: "invite_req", Actor: "owner"}, {Kind: "request_join", Actor: "a", Invite: "inv1"}, {Kind: "accept", Actor: "owner", Target: "a", Perm: aclhist.Writer},
		{Kind: "leave_request", Actor: "a"}, {Kind: "remove", Actor: "owner", Target: "a"}, {Kind: "rotate", Actor: "owner"},
		{Kind: "request_join", Actor: "a", Invite: "inv1"}, {Kind: "accept", Actor: "owner", Target: "a", Perm: aclhist.Writer}},
}
