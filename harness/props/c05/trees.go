package c05

import (
	"bytes"
	"context"
	"encoding/hex"
	"fmt"
	"os"
	"path/filepath"
	"sort"
	"strings"

	"github.com/anyproto/any-sync/commonspace/object/accountdata"
	"github.com/anyproto/any-sync/commonspace/object/acl/list"
	"github.com/anyproto/any-sync/commonspace/object/tree/objecttree"
	"github.com/anyproto/any-sync/commonspace/object/tree/treechangeproto"
	"github.com/anyproto/any-sync/util/crypto"

	"verifharness/engines/aclhist"
	"verifharness/lib"
)

type write struct {
	id        string
	author    string
	gen       int // index into w.Gens the change names
	plain     []byte
	marker    []byte
	encrypted bool
	recIdx    int
}

type mtree struct {
	id      string
	root    *treechangeproto.RawTreeChangeWithId
	st      objecttree.Storage
	writes  []*write
	authors map[string]bool
	tainted bool // observation O-1 applies: an author was re-admitted through AccountsAdd
}

type treeMonitor struct {
	c        *lib.Case
	w        *aclhist.World
	db       *aclhist.TreeDB
	db2      *aclhist.TreeDB
	trees    []*mtree
	reported map[string]bool
	gensUsed map[int]bool
	readers  int
	sig      []string
}

func (m *treeMonitor) violation(key, what string, detail map[string]any) {
	if m.reported[key] {
		return
	}
	m.reported[key] = true
	detail["accepted_history"] = m.w.AcceptedOps()
	detail["writes"] = m.sig
	m.c.Violation(key, what, detail)
}

func (m *treeMonitor) marker() []byte {
	b := make([]byte, 18)
	for i := range b {
		b[i] = byte(m.c.Rng.Intn(256))
	}
	return []byte("VERIF-PLAINTEXT-" + hex.EncodeToString(b))
}

func (m *treeMonitor) newTree() *mtree {
	w := m.w
	view, err := w.View("owner")
	if err != nil {
		m.c.Inconclusive("owner view: " + err.Error())
		return nil
	}
	root, err := objecttree.CreateObjectTreeRoot(objecttree.ObjectTreeCreatePayload{
		PrivKey: w.Owner.Keys.SignKey, ChangeType: "verif", SpaceId: w.SpaceId, IsEncrypted: true,
		Seed: []byte(fmt.Sprintf("seed-%d-%d", m.c.Index, len(m.trees))), Timestamp: 1700000000,
	}, view)
	if err != nil {
		m.c.Inconclusive("create root: " + err.Error())
		return nil
	}
	st, err := m.db.CreateTreeStorage(root)
	if err != nil {
		m.c.Inconclusive("create tree storage: " + err.Error())
		return nil
	}
	t := &mtree{id: root.Id, root: root, st: st, authors: map[string]bool{"owner": true}}
	m.trees = append(m.trees, t)
	m.c.Count("trees.trees_created", 1)
	return t
}

func treeKeyFor(g *aclhist.Gen, treeId string) (crypto.SymKey, error) {
	return crypto.DeriveSymmetricKey(g.Raw, fmt.Sprintf(crypto.AnysyncTreePath, treeId))
}

func (m *treeMonitor) liveTree() *mtree {
	for i := len(m.trees) - 1; i >= 0; i-- {
		if !m.trees[i].tainted {
			return m.trees[i]
		}
	}
	return m.newTree()
}

// writeContent lets a current writer add content through the real AddContent.
func (m *treeMonitor) writeContent(encrypted bool) {
	w := m.w
	t := m.liveTree()
	if t == nil {
		return
	}
	var writers []string
	for _, n := range w.Members() {
		if aclhist.CanWrite(w.Perm(n)) {
			writers = append(writers, n)
		}
	}
	author := writers[m.c.Rng.Intn(len(writers))]
	view, err := w.View(author)
	if err != nil {
		m.c.Count("trees.author_view_unavailable", 1)
		return
	}
	tree, err := objecttree.BuildObjectTree(t.st, view)
	if err != nil {
		m.c.Inconclusive(fmt.Sprintf("writer %s cannot open tree: %v (history %v)", author, err, w.AcceptedOps()))
		return
	}
	mk := m.marker()
	plain := append(append([]byte("head|"), mk...), []byte(fmt.Sprintf("|tail-%d", len(t.writes)))...)
	tree.Lock()
	res, err := tree.AddContent(context.Background(), objecttree.SignableChangeContent{
		Data: plain, Key: w.ByName[author].Keys.SignKey, ShouldBeEncrypted: encrypted, Timestamp: 1700000000 + int64(len(t.writes)), DataType: "verif",
	})
	tree.Unlock()
	if err != nil {
		m.c.Count("trees.write_refused", 1)
		m.c.Sample("write-refused", map[string]any{"author": author, "err": err.Error(), "history": w.AcceptedOps()})
		return
	}
	m.c.Eval(1)
	cur := len(w.Gens) - 1
	wr := &write{author: author, plain: plain, marker: mk, encrypted: encrypted, recIdx: w.Head(), gen: -1}
	t.authors[author] = true
	if len(res.Added) != 1 {
		m.violation("tree-write:unexpected-add-result", "AddContent did not return exactly the new change", map[string]any{"added": len(res.Added)})
		return
	}
	raw := res.Added[0].RawChange
	wr.id = res.Added[0].Id
	t.writes = append(t.writes, wr)
	m.sig = append(m.sig, fmt.Sprintf("%s@rec%d:gen%d:enc=%v", author, w.Head(), cur, encrypted))
	if !encrypted {
		m.c.Count("trees.writes.unencrypted_control", 1)
		if !bytes.Contains(raw, mk) {
			m.c.Count("trees.control.unencrypted_marker_not_visible_in_raw_change", 1)
		}
		return
	}
	m.c.Count("trees.writes.encrypted", 1)
	m.c.Count(fmt.Sprintf("trees.writes.encrypted_by_%s", aclhist.PermName(w.Perm(author))), 1)
	if bytes.Contains(raw, mk) {
		m.violation("plaintext-in-change:add-result", "the raw change returned for an encrypted write contains the plaintext marker", map[string]any{"author": author})
	}
	rc := &treechangeproto.RawTreeChange{}
	tc := &treechangeproto.TreeChange{}
	if err := rc.UnmarshalVT(raw); err != nil || tc.UnmarshalVT(rc.Payload) != nil {
		m.c.Inconclusive("cannot parse own change")
		return
	}
	gi := -1
	for i, g := range w.Gens {
		if g.RecordId == tc.ReadKeyId {
			gi = i
		}
	}
	if gi < 0 {
		m.violation("encrypted-change:read-key-id-names-no-generation", "an encrypted change names a read key id that is not a key generation of the ACL", map[string]any{"read_key_id": tc.ReadKeyId})
		return
	}
	wr.gen = gi
	m.gensUsed[gi] = true
	if gi == cur {
		m.c.Count("trees.observed.write_names_current_generation", 1)
	} else {
		m.c.Count("trees.observed.write_names_older_generation", 1)
	}
	tk, err := treeKeyFor(w.Gens[gi], t.id)
	if err != nil {
		m.c.Inconclusive("derive tree key: " + err.Error())
		return
	}
	dec, err := tk.Decrypt(tc.ChangesData)
	m.c.Count("trees.checks.ciphertext_under_named_key", 1)
	if err != nil || !bytes.Equal(dec, plain) {
		m.violation("encrypted-change:not-under-named-key", "the stored ciphertext does not decrypt to the original under the tree key derived from the generation its read-key id names",
			map[string]any{"author": author, "generation": gi, "decrypt_error": fmt.Sprint(err)})
	}
}

func (m *treeMonitor) afterRecord(in I) {
	w := m.w
	// observation O-1: a re-admission through AccountsAdd overwrites the permission history
	if in.Kind == "add" || in.Kind == "batch_remove_add" {
		who := in.Target
		if in.Kind == "batch_remove_add" {
			who = in.Target2
		}
		if w.ReAddedByAdd[who] {
			for _, t := range m.trees {
				if t.authors[who] && !t.tainted {
					t.tainted = true
					m.c.Count("trees.trees_retired_by_O1_readd", 1)
				}
			}
		}
	}
	newGen := w.Recs[w.Head()].NewGen != nil
	if newGen || m.c.Rng.Intn(100) < 30 {
		m.writeContent(m.c.Rng.Intn(10) != 0)
	}
	if m.c.Rng.Intn(100) < 10 {
		m.newTree()
	}
	if m.c.Rng.Intn(100) < 15 {
		m.readBack("mid")
	}
}

type readResult struct {
	plain map[string][]byte
	err   error
}

func readTree(st objecttree.Storage, view list.AclList) (rr readResult, openErr error) {
	defer func() {
		if r := recover(); r != nil {
			openErr = fmt.Errorf("panic: %v", r)
		}
	}()
	tree, err := objecttree.BuildObjectTree(st, view)
	if err != nil {
		return rr, err
	}
	rr.plain = map[string][]byte{}
	tree.Lock()
	defer tree.Unlock()
	rr.err = tree.IterateRoot(func(ch *objecttree.Change, decrypted []byte) (any, error) {
		cp := append([]byte(nil), decrypted...)
		rr.plain[ch.Id] = cp
		return cp, nil
	}, func(ch *objecttree.Change) bool { return true })
	return rr, nil
}

// readBack: every current member reads every live tree through its own fresh
// view; principals without permission must not obtain content written under a
// generation they are not entitled to.
func (m *treeMonitor) readBack(phase string) {
	w := m.w
	for _, t := range m.trees {
		if t.tainted || len(t.writes) == 0 {
			continue
		}
		for _, a := range w.Accounts {
			isMember := w.Perm(a.Name) != aclhist.None
			view, err := w.View(a.Name)
			if err != nil {
				m.c.Count("trees.reader_view_unavailable", 1)
				continue
			}
			rr, openErr := readTree(t.st, view)
			if openErr != nil {
				if isMember {
					m.c.Inconclusive(fmt.Sprintf("member %s cannot open tree: %v (history %v)", a.Name, openErr, w.AcceptedOps()))
				}
				continue
			}
			if isMember {
				m.readers++
				m.c.Count("trees.checks.member_readbacks", 1)
				if rr.err != nil {
					m.violation("member-cannot-read-content:after-"+w.AdmitCause[a.Name]+":"+errClass(rr.err), "IterateRoot with decryption fails for a current member",
						map[string]any{"member": a.Name, "permission": aclhist.PermName(w.Perm(a.Name)), "error": rr.err.Error(), "phase": phase})
					continue
				}
				for _, wr := range t.writes {
					m.c.Count("trees.checks.member_change_plaintext", 1)
					if got, ok := rr.plain[wr.id]; !ok || !bytes.Equal(got, wr.plain) {
						m.violation("member-reads-wrong-content:after-"+w.AdmitCause[a.Name], "a current member does not obtain the original content of a change",
							map[string]any{"member": a.Name, "change_author": wr.author, "generation": wr.gen, "present": ok, "phase": phase})
						break
					}
				}
				continue
			}
			forb := 0
			if len(w.Hist[a.Name]) > 0 {
				forb = w.LostAt[a.Name]
			}
			for _, wr := range t.writes {
				if !wr.encrypted || wr.gen < 0 || w.Gens[wr.gen].RecIdx < forb {
					continue
				}
				m.c.Count("trees.checks.nonmember_forbidden_change", 1)
				if got, ok := rr.plain[wr.id]; ok && bytes.Contains(got, wr.marker) {
					m.violation("nonmember-reads-content:"+w.LostCause[a.Name], "an account without permission obtains content written under a generation introduced since it last held permission",
						map[string]any{"account": a.Name, "generation": wr.gen})
				}
			}
		}
	}
}

func scanDir(dir string) []byte {
	var all []byte
	filepath.Walk(dir, func(p string, info os.FileInfo, err error) error {
		if err == nil && !info.IsDir() {
			b, _ := os.ReadFile(p)
			all = append(all, b...)
		}
		return nil
	})
	return all
}

func (m *treeMonitor) finalChecks() {
	w := m.w
	m.readBack("final")
	// ---- storage: raw stored bytes
	for _, t := range m.trees {
		stored, err := aclhist.StoredChanges(t.st)
		if err != nil {
			m.c.Inconclusive("scan storage: " + err.Error())
			continue
		}
		byId := map[string][]byte{}
		for _, sc := range stored {
			byId[sc.Id] = sc.RawChange
		}
		for _, wr := range t.writes {
			raw, ok := byId[wr.id]
			if !ok {
				m.violation("tree-write:not-stored", "a change returned by AddContent is not in storage", map[string]any{"author": wr.author})
				continue
			}
			m.c.Count("trees.checks.stored_raw_changes", 1)
			if wr.encrypted && bytes.Contains(raw, wr.marker) {
				m.violation("plaintext-in-change:storage", "the stored raw bytes of an encrypted change contain the plaintext marker", map[string]any{"author": wr.author})
			}
		}
	}
	// ---- transmission: what a peer is sent, applied by a member on its own database
	var members []string
	for _, n := range w.Members() {
		if _, err := w.View(n); err == nil {
			members = append(members, n)
		}
	}
	for ti, t := range m.trees {
		if t.tainted || len(t.writes) == 0 {
			continue
		}
		oview, err := w.View("owner")
		if err != nil {
			break
		}
		src, err := objecttree.BuildObjectTree(t.st, oview)
		if err != nil {
			m.c.Inconclusive("owner cannot open tree for sending: " + err.Error())
			continue
		}
		src.Lock()
		loader, err := src.ChangesAfterCommonSnapshotLoader(nil, nil)
		var batch objecttree.IteratorBatch
		if err == nil {
			batch, err = loader.NextBatch(64 << 20)
		}
		src.Unlock()
		if err != nil {
			m.c.Inconclusive("loader: " + err.Error())
			continue
		}
		sent := map[string][]byte{}
		var toSend []*treechangeproto.RawTreeChangeWithId
		for _, rc := range batch.Batch {
			sent[rc.Id] = rc.RawChange
			if rc.Id != t.id {
				toSend = append(toSend, rc)
			}
		}
		for _, wr := range t.writes {
			m.c.Count("trees.checks.transmitted_raw_changes", 1)
			raw, ok := sent[wr.id]
			if !ok {
				m.c.Count("trees.observed.change_missing_from_full_sync_batch", 1)
				continue
			}
			if wr.encrypted && bytes.Contains(raw, wr.marker) {
				m.violation("plaintext-in-change:transmitted", "the bytes handed to a peer for an encrypted change contain the plaintext marker", map[string]any{"author": wr.author})
			}
		}
		if len(members) == 0 || ti > 1 {
			continue
		}
		rcv := members[m.c.Rng.Intn(len(members))]
		rview, _ := w.View(rcv)
		st2, err := m.db2.CreateTreeStorage(t.root)
		if err != nil {
			m.c.Inconclusive("receiver storage: " + err.Error())
			continue
		}
		rt, err := objecttree.BuildObjectTree(st2, rview)
		if err != nil {
			m.c.Inconclusive("receiver tree: " + err.Error())
			continue
		}
		rt.Lock()
		_, err = rt.AddRawChanges(context.Background(), objecttree.RawChangesPayload{NewHeads: batch.Heads, RawChanges: toSend})
		rt.Unlock()
		if err != nil {
			m.c.Inconclusive(fmt.Sprintf("receiver %s refused the transmitted changes: %v (history %v)", rcv, err, w.AcceptedOps()))
			continue
		}
		rr, openErr := readTree(st2, rview)
		m.c.Count("trees.checks.receiver_readbacks", 1)
		if openErr != nil || rr.err != nil {
			m.violation("member-cannot-read-content:received-copy:after-"+w.AdmitCause[rcv], "a current member cannot decrypt the changes it received",
				map[string]any{"member": rcv, "open_error": fmt.Sprint(openErr), "iterate_error": fmt.Sprint(rr.err)})
			continue
		}
		for _, wr := range t.writes {
			if got, ok := rr.plain[wr.id]; !ok || !bytes.Equal(got, wr.plain) {
				m.violation("member-reads-wrong-content:received-copy", "a current member does not obtain the original content from received changes", map[string]any{"member": rcv, "present": ok})
				break
			}
		}
	}
	// ---- database files
	for _, phase := range []string{"open", "closed"} {
		if phase == "closed" {
			for _, t := range m.trees {
				t.st.Close()
			}
			m.db.Close()
		}
		blob := scanDir(m.db.Dir)
		controlSeen, controls := 0, 0
		for _, t := range m.trees {
			for _, wr := range t.writes {
				if wr.encrypted {
					m.c.Count("trees.checks.db_file_scans_for_marker", 1)
					if bytes.Contains(blob, wr.marker) {
						m.violation("plaintext-in-change:database-file", "the any-store database files contain the plaintext marker of an encrypted change", map[string]any{"phase": phase, "author": wr.author})
					}
				} else {
					controls++
					if bytes.Contains(blob, wr.marker) {
						controlSeen++
					}
				}
			}
		}
		if controls > 0 {
			m.c.Count("trees.control.unencrypted_markers_written_"+phase, int64(controls))
			m.c.Count("trees.control.unencrypted_markers_found_in_db_files_"+phase, int64(controlSeen))
		}
	}
}

func runTrees(c *lib.Case) {
	w, err := aclhist.New(c.Rng, accountNames)
	if err != nil {
		c.Inconclusive("world: " + err.Error())
		return
	}
	db, err := aclhist.OpenTreeDB(filepath.Join(c.TmpDir, "db"))
	if err != nil {
		c.Inconclusive("open db: " + err.Error())
		return
	}
	db2, err := aclhist.OpenTreeDB(filepath.Join(c.TmpDir, "db2"))
	if err != nil {
		db.Close()
		c.Inconclusive("open db2: " + err.Error())
		return
	}
	defer db2.Close()
	m := &treeMonitor{c: c, w: w, db: db, db2: db2, reported: map[string]bool{}, gensUsed: map[int]bool{}}
	h := &history{c: c, w: w, prefix: "trees"}
	// permission changes on accounts without permissions (F-C05-1) are the keys workload's subject
	h.exclude = func(in I) bool { return in.Kind == "perm_change" && w.Perm(in.Target) == aclhist.None }
	h.after = m.afterRecord
	m.newTree()
	m.writeContent(true)
	var script []I
	if s := c.Index % scenarioCycle; s < len(scenarios) {
		script = scenarios[s]
	}
	h.run(script, 4+c.Rng.Intn(17))
	if !h.dead {
		m.finalChecks()
	} else {
		db.Close()
	}
	c.Count("trees.histories", 1)
	if len(m.gensUsed) >= 2 && m.readers >= 2 {
		c.Nontrivial(strings.Join(w.AcceptedOps(), " ") + "|" + strings.Join(m.sig, ","))
	}
	gens := make([]int, 0, len(m.gensUsed))
	for g := range m.gensUsed {
		gens = append(gens, g)
	}
	sort.Ints(gens)
	c.Sample("tree-history", map[string]any{"accepted_ops": w.AcceptedOps(), "writes": m.sig, "generations_with_content": gens})
}

// ---------------------------------------------------------------- nokey

// runNoKey: building an encrypted change without a key must fail instead of
// emitting plaintext, at the change builder and through the tree API.
func runNoKey(c *lib.Case) {
	w, err := aclhist.New(c.Rng, []string{"a", "b", "x"})
	if err != nil {
		c.Inconclusive("world: " + err.Error())
		return
	}
	steps := []I{
		{Kind: "add", Actor: "owner", Target: "a", Perm: aclhist.Writer},
		{Kind: "add", Actor: "owner", Target: "x", Perm: aclhist.Writer},
		{Kind: "remove", Actor: "owner", Target: "x"},
	}
	if c.Index%2 == 1 {
		steps = append(steps, I{Kind: "rotate", Actor: "owner"})
	}
	for _, s := range steps {
		if !w.Do(s) {
			c.Inconclusive("setup step refused: " + s.String())
			return
		}
	}
	db, err := aclhist.OpenTreeDB(filepath.Join(c.TmpDir, "db"))
	if err != nil {
		c.Inconclusive("open db: " + err.Error())
		return
	}
	defer db.Close()
	oview, _ := w.View("owner")
	root, err := objecttree.CreateObjectTreeRoot(objecttree.ObjectTreeCreatePayload{PrivKey: w.Owner.Keys.SignKey, ChangeType: "verif", SpaceId: w.SpaceId, IsEncrypted: true,
		Seed: []byte{byte(c.Index)}, Timestamp: 1700000000}, oview)
	if err != nil {
		c.Inconclusive("root: " + err.Error())
		return
	}
	st, err := db.CreateTreeStorage(root)
	if err != nil {
		c.Inconclusive("storage: " + err.Error())
		return
	}
	mkb := make([]byte, 16)
	for i := range mkb {
		mkb[i] = byte(c.Rng.Intn(256))
	}
	marker := []byte("VERIF-PLAINTEXT-" + hex.EncodeToString(mkb))
	plain := append([]byte("x|"), marker...)
	storedBefore, _ := aclhist.StoredChanges(st)

	check := func(site string, raw []byte, err error) {
		c.Eval(1)
		c.Count("nokey.attempts."+site, 1)
		if err != nil {
			c.Count("nokey.refused."+site, 1)
			c.Sample("refusal-"+site, err.Error())
			c.Nontrivial(fmt.Sprintf("%s#%d", site, c.Index))
			return
		}
		what := "no-error"
		if bytes.Contains(raw, marker) {
			what = "plaintext-emitted"
		}
		c.Violation("encrypted-build-without-key:"+site+":"+what, "building an encrypted change without a read key did not fail",
			map[string]any{"site": site, "output_contains_plaintext": bytes.Contains(raw, marker), "output_len": len(raw)})
	}
	// 1. the change builder itself
	cb := objecttree.NewChangeBuilder(crypto.NewKeyStorage(), root)
	_, rawCh, err := cb.Build(objecttree.BuilderContent{TreeHeadIds: []string{root.Id}, AclHeadId: w.Log[w.Head()].Id, SnapshotBaseId: root.Id,
		ReadKeyId: w.CurrentGen().RecordId, PrivKey: w.ByName["a"].Keys.SignKey, ReadKey: nil, Unencrypted: false, Content: plain, Timestamp: 1700000001})
	check("changebuilder.Build", rawCh.GetRawChange(), err)

	// 2.-4. the tree API on views that hold no current key, signing with a current writer's key
	type viewCase struct {
		name string
		keys *accountdata.AccountKeys
	}
	views := []viewCase{
		{"observer-view", w.Observer.Keys},          // never a member
		{"never-member-view", w.ByName["b"].Keys},   // account without any entry
		{"removed-member-view", w.ByName["x"].Keys}, // held old generations, lacks the current one
	}
	for _, vc := range views {
		view, err := w.FreshView(vc.keys, len(w.Log), true)
		if err != nil {
			c.Count("nokey.view_build_error."+vc.name, 1)
			continue
		}
		tree, err := objecttree.BuildObjectTree(st, view)
		if err != nil {
			c.Count("nokey.tree_open_error."+vc.name, 1)
			continue
		}
		for _, signer := range []string{"owner", "a"} {
			content := objecttree.SignableChangeContent{Data: plain, Key: w.ByName[signer].Keys.SignKey, ShouldBeEncrypted: true, Timestamp: 1700000002, DataType: "verif"}
			tree.Lock()
			res, err := tree.AddContent(context.Background(), content)
			var raw []byte
			for _, a := range res.Added {
				raw = append(raw, a.RawChange...)
			}
			check("AddContent:"+vc.name, raw, err)
			pc, err := tree.PrepareChange(content)
			check("PrepareChange:"+vc.name, pc.GetRawChange(), err)
			tree.Unlock()
		}
	}
	storedAfter, _ := aclhist.StoredChanges(st)
	if len(storedAfter) != len(storedBefore) {
		c.Violation("encrypted-build-without-key:storage-grew", "a refused encrypted write left changes in storage", map[string]any{"before": len(storedBefore), "after": len(storedAfter)})
	}
	for _, sc := range storedAfter {
		if bytes.Contains(sc.RawChange, marker) {
			c.Violation("encrypted-build-without-key:plaintext-stored", "plaintext of a keyless encrypted write reached storage", nil)
		}
	}
	// positive control: with the key the same write succeeds and is ciphertext
	tree, err := objecttree.BuildObjectTree(st, oview)
	if err == nil {
		tree.Lock()
		res, err := tree.AddContent(context.Background(), objecttree.SignableChangeContent{Data: plain, Key: w.Owner.Keys.SignKey, ShouldBeEncrypted: true, Timestamp: 1700000003})
		tree.Unlock()
		if err == nil && len(res.Added) == 1 {
			c.Count("nokey.control.write_with_key_succeeds", 1)
			if bytes.Contains(res.Added[0].RawChange, marker) {
				c.Violation("plaintext-in-change:add-result", "the raw change returned for an encrypted write contains the plaintext marker", map[string]any{"author": "owner"})
			}
		} else {
			c.Count("nokey.control.write_with_key_failed", 1)
		}
	}
}
