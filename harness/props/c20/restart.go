package c20

import (
	"context"
	"errors"
	"fmt"
	"strings"

	"github.com/anyproto/any-sync/app"

	"verifharness/lib"
)

// Workload restart: one container lives through three epochs. In epoch 1 and 2 a
// chosen single failure point is armed (or none: a successful Start followed by
// Close); the fault is then cleared and the same container is started again;
// epoch 3 is always a successful Start followed by Close. Every epoch must show
// exactly the call order of a fresh container with the same fault - the
// container must not remember anything of an earlier (failed or completed) run.
// Added after seeded change C20-3 (a "rolled back" flag that made the Close after a
// retried Start close nothing) was missed by the single-epoch enumeration.

type rsCase struct {
	kinds  []bool
	f1, f2 int // index into failPoints(kinds), -1 = none
}

type failPoint struct {
	at  int
	run bool
}

func failPoints(kinds []bool) []failPoint {
	var out []failPoint
	for i, k := range kinds {
		out = append(out, failPoint{i, false})
		if k {
			out = append(out, failPoint{i, true})
		}
	}
	return out
}

func restartMaxN(tier string) int {
	if tier == "thorough" {
		return 5
	}
	return 4
}

func enumRestart(maxN int) []rsCase {
	var out []rsCase
	for n := 1; n <= maxN; n++ {
		for mask := 1; mask < 1<<n; mask++ { // at least one runnable component
			kinds := make([]bool, n)
			for i := range kinds {
				kinds[i] = mask&(1<<i) != 0
			}
			nf := len(failPoints(kinds))
			for f1 := -1; f1 < nf; f1++ {
				for f2 := -1; f2 < nf; f2++ {
					out = append(out, rsCase{kinds: kinds, f1: f1, f2: f2})
				}
			}
		}
	}
	return out
}

func runRestart(c *lib.Case) {
	rs := enumRestart(restartMaxN(c.Tier))[c.Index]
	n := len(rs.kinds)
	l := &logger{n: n, order: map[string]int{}}
	a := new(app.App)
	comps := make([]*comp, n)
	rcomps := make([]*rcomp, n)
	for i := 0; i < n; i++ {
		base := comp{name: fmt.Sprintf("c%d", i), idx: i, l: l}
		l.order[base.name] = i
		if rs.kinds[i] {
			rc := &rcomp{comp: base}
			rcomps[i], comps[i] = rc, &rc.comp
			a.Register(rc)
		} else {
			cp := base
			comps[i] = &cp
			a.Register(&cp)
		}
	}
	fps := failPoints(rs.kinds)
	ctx := context.Background()
	desc := func(ep int, fp int) string {
		lc := lcCase{kinds: rs.kinds, failAt: -1}
		if fp >= 0 {
			lc.failAt, lc.failRun = fps[fp].at, fps[fp].run
		}
		return fmt.Sprintf("epoch %d of (%s then f2=%d): %s", ep, describe(lcCase{kinds: rs.kinds, failAt: -1}), rs.f2, describe(lc))
	}
	history := []string{}
	for ep, fp := range []int{rs.f1, rs.f2, -1} {
		// a new epoch: the monitors start from scratch, exactly as for a fresh container
		l.events, l.viol = nil, nil
		l.inited, l.running, l.closed = map[string]bool{}, map[string]bool{}, map[string]int{}
		for i := 0; i < n; i++ {
			comps[i].initErr = nil
			if rcomps[i] != nil {
				rcomps[i].runErr = nil
			}
		}
		lc := lcCase{kinds: rs.kinds, failAt: -1}
		if fp >= 0 {
			lc.failAt, lc.failRun = fps[fp].at, fps[fp].run
			if lc.failRun {
				rcomps[lc.failAt].runErr = errInjected
			} else {
				comps[lc.failAt].initErr = errInjected
			}
		}
		err := a.Start(ctx)
		var closeErr error
		if err == nil {
			closeErr = a.Close(ctx)
		}
		exp, expStartErr, _ := expected(lc)
		c.Eval(1)
		where := "ok"
		if fp >= 0 {
			where = "init-fail"
			if lc.failRun {
				where = "run-fail"
			}
		}
		prev := "first"
		if ep > 0 {
			prev = "after-" + history[ep-1]
		}
		history = append(history, where)
		c.Count("restart.epochs."+prev+"."+where, 1)
		c.Count("restart.calls_observed", int64(len(l.events)))
		d := map[string]any{"epoch": ep + 1, "case": desc(ep+1, fp), "earlier_epochs": append([]string(nil), history[:ep]...), "expected": exp, "observed": append([]string(nil), l.events...)}
		if strings.Join(exp, ",") != strings.Join(l.events, ",") {
			c.Violation("restart:call-log:"+prev+":"+where, "on a container that was started before, the call log of Start(+Close) differs from the specified order", d)
		}
		for _, v := range l.viol {
			c.Violation("restart:order-monitor:"+prev+":"+where, v, d)
		}
		switch {
		case expStartErr && err == nil:
			c.Violation("restart:start-error-lost:"+prev+":"+where, "Start returned nil although a component failed", d)
		case expStartErr && !errors.Is(err, errInjected):
			c.Violation("restart:start-error-unwrapped:"+prev+":"+where, "Start error does not wrap the component's error", d)
		case !expStartErr && err != nil:
			c.Violation("restart:start-spurious-error:"+prev, "Start failed without a failing component: "+err.Error(), d)
		case !expStartErr && closeErr != nil:
			c.Violation("restart:close-spurious-error:"+prev, "Close returned an error: "+closeErr.Error(), d)
		}
	}
	c.Nontrivial(fmt.Sprintf("%s f1=%d f2=%d", describe(lcCase{kinds: rs.kinds, failAt: -1}), rs.f1, rs.f2))
	if c.Index%97 == 0 {
		c.Sample("restart", map[string]any{"kinds": describe(lcCase{kinds: rs.kinds, failAt: -1}), "f1": rs.f1, "f2": rs.f2, "epochs": history})
	}
}
