// Package c20: component container — ordered start, reverse-ordered stop,
// failure handling, child-container name resolution. Exhaustive enumeration
// with an independent expected-call-log oracle plus online order monitors.
package c20

import (
	"context"
	"sync"
	"time"
	"errors"
	"fmt"
	"strings"

	"github.com/anyproto/any-sync/app"

	"verifharness/lib"
)

type Prop struct{}

func (Prop) ID() string    { return "C20" }
func (Prop) Level() string { return "exploration" }
func (Prop) Rule() string {
	return "lifecycle: every list of <= N components (N=5 quick, 7 thorough), each plain or runnable, x every single failure point (none, Init of i, Run of runnable i) x close-error mask variant, enumerated exhaustively; a case is non-trivial when at least one runnable component exists; distinct = (kinds, failure point, variant). nesting: every assignment of names {a,b,c} subsets to container levels of depth <= 3 (4 thorough), every name looked up from every level, once after half of the registrations and again after the rest (a container must not remember an answer a parent gave before a nearer registration). restart: every list of <= 4 (5 thorough) components with at least one runnable x every pair (f1, f2) of single failure points or none: the same container goes through epoch 1 (fault f1, or Start+Close), epoch 2 (fault f2, or Start+Close) and epoch 3 (Start+Close); every epoch must show exactly the call order of a fresh container."
}
func (Prop) Assumptions() []string {
	return []string{"Close(ctx) is called once after every successful Start and never after a failed one", "a component registered concurrently with Start (workload late-register) may or may not be started, but is never run without having been initialised"}
}

type lcCase struct {
	kinds   []bool // true = runnable
	failAt  int    // -1 none
	failRun bool
	variant int // 0: closes succeed; 1: every Close returns an error; 2: Inits look up every other component
}

func enumLifecycle(maxN int) []lcCase {
	var out []lcCase
	for n := 0; n <= maxN; n++ {
		for mask := 0; mask < 1<<n; mask++ {
			kinds := make([]bool, n)
			for i := range kinds {
				kinds[i] = mask&(1<<i) != 0
			}
			for variant := 0; variant < 3; variant++ {
				out = append(out, lcCase{kinds: kinds, failAt: -1, variant: variant})
				for i := 0; i < n; i++ {
					out = append(out, lcCase{kinds: kinds, failAt: i, variant: variant})
					if kinds[i] {
						out = append(out, lcCase{kinds: kinds, failAt: i, failRun: true, variant: variant})
					}
				}
			}
		}
	}
	return out
}

type nestCase struct {
	levels [][]string // names registered at each level, root first
}

func enumNesting(maxDepth int) []nestCase {
	names := []string{"a", "b", "c"}
	var subsets [][]string
	for m := 0; m < 8; m++ {
		var s []string
		for i, n := range names {
			if m&(1<<i) != 0 {
				s = append(s, n)
			}
		}
		subsets = append(subsets, s)
	}
	var out []nestCase
	var rec func(cur [][]string, d int)
	rec = func(cur [][]string, d int) {
		if len(cur) >= 1 {
			cp := make([][]string, len(cur))
			copy(cp, cur)
			out = append(out, nestCase{levels: cp})
		}
		if d == maxDepth {
			return
		}
		for _, s := range subsets {
			rec(append(cur, s), d+1)
		}
	}
	rec(nil, 0)
	return out
}

func maxN(tier string) int {
	if tier == "thorough" {
		return 7
	}
	return 5
}
func maxDepth(tier string) int {
	if tier == "thorough" {
		return 4
	}
	return 3
}

func (Prop) Plan(tier string) []lib.Workload {
	return []lib.Workload{
		{Name: "lifecycle", Cases: len(enumLifecycle(maxN(tier))), Exhaustive: true, MinNontrivial: 100, Batches: 4},
		{Name: "nesting", Cases: len(enumNesting(maxDepth(tier))), Exhaustive: true, MinNontrivial: 100, Batches: 4},
		{Name: "restart", Cases: len(enumRestart(restartMaxN(tier))), Exhaustive: true, MinNontrivial: 500, Batches: 4},
		{Name: "late-register", Cases: lateCases, Exhaustive: true, MinNontrivial: lateCases / 2, Batches: 4, CaseTimeout: 2 * time.Minute},
	}
}

type logger struct {
	events []string
	// online monitors
	inited  map[string]bool
	running map[string]bool
	closed  map[string]int
	n       int
	order   map[string]int
	viol    []string
}

type comp struct {
	name     string
	idx      int
	l        *logger
	initErr  error
	lookups  []string
	gotNil   *[]string
	closeErr error
}

func (c *comp) Name() string { return c.name }
func (c *comp) Init(a *app.App) error {
	c.l.events = append(c.l.events, "init:"+c.name)
	if c.l.inited[c.name] {
		c.l.viol = append(c.l.viol, "double init of "+c.name)
	}
	c.l.inited[c.name] = true
	for _, n := range c.lookups {
		if a.Component(n) == nil {
			*c.gotNil = append(*c.gotNil, c.name+"->"+n)
		}
	}
	return c.initErr
}

type rcomp struct {
	comp
	runErr error
}

func (c *rcomp) Run(ctx context.Context) error {
	c.l.events = append(c.l.events, "run:"+c.name)
	// all components must have been initialised before anything runs
	if len(c.l.inited) != c.l.n {
		c.l.viol = append(c.l.viol, fmt.Sprintf("run of %s with only %d/%d components initialised", c.name, len(c.l.inited), c.l.n))
	}
	c.l.running[c.name] = true
	return c.runErr
}

func (c *rcomp) Close(ctx context.Context) error {
	c.l.events = append(c.l.events, "close:"+c.name)
	c.l.closed[c.name]++
	if c.l.closed[c.name] > 1 {
		c.l.viol = append(c.l.viol, "double close of "+c.name)
	}
	// never closed before a runnable component registered after it that was run and is not closed yet
	for n, idx := range c.l.order {
		if idx > c.idx && c.l.running[n] && c.l.closed[n] == 0 {
			c.l.viol = append(c.l.viol, fmt.Sprintf("%s closed before later component %s", c.name, n))
		}
	}
	return c.closeErr
}

func expected(lc lcCase) (log []string, startErr bool, closeErrs int) {
	n := len(lc.kinds)
	name := func(i int) string { return fmt.Sprintf("c%d", i) }
	closeFrom := func(i int) {
		for j := i; j >= 0; j-- {
			if lc.kinds[j] {
				log = append(log, "close:"+name(j))
			}
		}
	}
	for i := 0; i < n; i++ {
		log = append(log, "init:"+name(i))
		if lc.failAt == i && !lc.failRun {
			closeFrom(i)
			return log, true, 0
		}
	}
	for i := 0; i < n; i++ {
		if !lc.kinds[i] {
			continue
		}
		log = append(log, "run:"+name(i))
		if lc.failAt == i && lc.failRun {
			closeFrom(i)
			return log, true, 0
		}
	}
	// successful start, then Close
	for j := n - 1; j >= 0; j-- {
		if lc.kinds[j] {
			log = append(log, "close:"+name(j))
			if lc.variant == 1 {
				closeErrs++
			}
		}
	}
	return log, false, closeErrs
}

var errInjected = errors.New("injected failure")

func (Prop) RunCase(c *lib.Case) {
	switch c.Workload {
	case "lifecycle":
		runLifecycle(c)
	case "nesting":
		runNesting(c)
	case "late-register":
		runLateRegister(c)
	case "restart":
		runRestart(c)
	}
}

func runLifecycle(c *lib.Case) {
	all := enumLifecycle(maxN(c.Tier))
	lc := all[c.Index]
	n := len(lc.kinds)
	l := &logger{inited: map[string]bool{}, running: map[string]bool{}, closed: map[string]int{}, n: n, order: map[string]int{}}
	a := new(app.App)
	var gotNil []string
	var allNames []string
	for i := 0; i < n; i++ {
		allNames = append(allNames, fmt.Sprintf("c%d", i))
	}
	for i := 0; i < n; i++ {
		base := comp{name: allNames[i], idx: i, l: l, gotNil: &gotNil}
		l.order[base.name] = i
		if lc.variant == 2 {
			base.lookups = allNames
		}
		if lc.variant == 1 {
			base.closeErr = errors.New("close error of " + base.name)
		}
		if lc.failAt == i && !lc.failRun {
			base.initErr = errInjected
		}
		if lc.kinds[i] {
			rc := &rcomp{comp: base}
			if lc.failAt == i && lc.failRun {
				rc.runErr = errInjected
			}
			a.Register(rc)
		} else {
			cp := base
			a.Register(&cp)
		}
	}
	ctx := context.Background()
	err := a.Start(ctx)
	var closeErr error
	if err == nil {
		closeErr = a.Close(ctx)
	}
	exp, expStartErr, expCloseErrs := expected(lc)
	c.Eval(1)
	desc := describe(lc)
	hasRunnable := false
	for _, k := range lc.kinds {
		hasRunnable = hasRunnable || k
	}
	if hasRunnable {
		c.Nontrivial(desc)
	}
	c.Count("lifecycle.calls_observed", int64(len(l.events)))
	c.Sample(fmt.Sprintf("n%d", n), map[string]any{"case": desc, "observed_calls": l.events})
	where := "ok"
	if lc.failAt >= 0 {
		where = "init-fail"
		if lc.failRun {
			where = "run-fail"
		}
	}
	if strings.Join(exp, ",") != strings.Join(l.events, ",") {
		c.Violation("call-log:"+where, "container call log differs from the specified order", map[string]any{"case": desc, "expected": exp, "observed": l.events})
	}
	for _, v := range l.viol {
		c.Violation("order-monitor:"+where, v, map[string]any{"case": desc, "observed": l.events})
	}
	if expStartErr {
		if err == nil {
			c.Violation("start-error-lost:"+where, "Start returned nil although a component failed", desc)
		} else if !errors.Is(err, errInjected) {
			c.Violation("start-error-unwrapped:"+where, "Start error does not wrap the component's error", map[string]any{"case": desc, "err": err.Error()})
		}
	} else if err != nil {
		c.Violation("start-spurious-error", "Start failed without a failing component", map[string]any{"case": desc, "err": err.Error()})
	}
	if !expStartErr {
		if expCloseErrs > 0 && closeErr == nil {
			c.Violation("close-error-lost", "Close returned nil although components reported close errors", desc)
		}
		if expCloseErrs == 0 && closeErr != nil {
			c.Violation("close-spurious-error", "Close returned an error", map[string]any{"case": desc, "err": closeErr.Error()})
		}
		if closeErr != nil {
			for i := 0; i < n; i++ {
				if lc.kinds[i] && !strings.Contains(closeErr.Error(), "close error of "+allNames[i]+"") {
					c.Violation("close-error-incomplete", "Close error does not report every failing component", map[string]any{"case": desc, "err": closeErr.Error()})
					break
				}
			}
		}
	}
	if len(gotNil) > 0 {
		c.Violation("lookup-during-init", "a registered component could not be resolved during Init", map[string]any{"case": desc, "missing": gotNil})
	}
}

func describe(lc lcCase) string {
	var sb strings.Builder
	for _, k := range lc.kinds {
		if k {
			sb.WriteByte('R')
		} else {
			sb.WriteByte('P')
		}
	}
	f := "none"
	if lc.failAt >= 0 {
		f = fmt.Sprintf("init@%d", lc.failAt)
		if lc.failRun {
			f = fmt.Sprintf("run@%d", lc.failAt)
		}
	}
	return fmt.Sprintf("kinds=%s fail=%s variant=%d", sb.String(), f, lc.variant)
}

type named struct {
	name  string
	level int
	inits *[]string
}

func (n *named) Name() string { return n.name }
func (n *named) Init(a *app.App) error {
	*n.inits = append(*n.inits, fmt.Sprintf("%s@%d", n.name, n.level))
	return nil
}

type tagA interface{ IsA() }

type namedA struct{ named }

func (n *namedA) IsA() {}

func runNesting(c *lib.Case) {
	all := enumNesting(maxDepth(c.Tier))
	nc := all[c.Index]
	var apps []*app.App
	var inits []string
	root := new(app.App)
	cur := root
	for lvl := range nc.levels {
		if lvl > 0 {
			cur = cur.ChildApp()
		}
		apps = append(apps, cur)
	}
	register := func(lvl int, n string) {
		if n == "a" {
			apps[lvl].Register(&namedA{named{name: n, level: lvl, inits: &inits}})
		} else {
			apps[lvl].Register(&named{name: n, level: lvl, inits: &inits})
		}
	}
	// Registration happens in two rounds with a full round of lookups after each: a name that was answered
	// by a parent in round one may be registered locally (or by a nearer ancestor) in round two and must then
	// resolve to the nearer one - the container must not remember earlier answers
	// (added after seeded change C20-5 - a per-container lookup cache - was missed).
	regOrder := make([][]string, len(nc.levels))
	var later [][2]any
	for lvl, names := range nc.levels {
		for i, n := range names {
			if (c.Index+lvl+i)%2 == 0 {
				register(lvl, n)
				regOrder[lvl] = append(regOrder[lvl], n)
			} else {
				later = append(later, [2]any{lvl, n})
			}
		}
	}
	c.Eval(1)
	desc := fmt.Sprint(nc.levels)
	shadow := false
	seen := map[string]int{}
	for _, names := range nc.levels {
		for _, n := range names {
			seen[n]++
			if seen[n] > 1 {
				shadow = true
			}
		}
	}
	if len(nc.levels) > 1 {
		c.Nontrivial(desc)
	}
	if shadow {
		c.Count("nesting.cases_with_shadowed_name", 1)
	}
	levelOf := func(comp app.Component) int {
		switch v := comp.(type) {
		case *named:
			return v.level
		case *namedA:
			return v.level
		}
		return -2
	}
	checkLookups := func(round string, levels [][]string) {
		for lvl, a := range apps {
			for _, n := range []string{"a", "b", "c", "zz"} {
				want := -1
				for l := lvl; l >= 0; l-- {
					if contains(levels[l], n) {
						want = l
						break
					}
				}
				got := a.Component(n)
				c.Count("nesting.lookups", 1)
				c.Count("nesting.lookups."+round, 1)
				if want == -1 {
					if got != nil {
						c.Violation("nesting:phantom:"+round, "lookup of an unregistered name returned a component", map[string]any{"levels": levels, "from": lvl, "name": n})
					}
					// MustComponent must panic
					func() {
						defer func() {
							if recover() == nil {
								c.Violation("nesting:must-no-panic:"+round, "MustComponent returned for an unregistered name", map[string]any{"levels": levels, "from": lvl, "name": n})
							}
						}()
						a.MustComponent(n)
					}()
					continue
				}
				if got == nil || levelOf(got) != want || got.Name() != n {
					gl := -1
					if got != nil {
						gl = levelOf(got)
					}
					c.Violation("nesting:resolution:"+round, "name resolved to the wrong container level (must be local first, then parents)",
						map[string]any{"levels_registered_so_far": levels, "all_levels": nc.levels, "from": lvl, "name": n, "want_level": want, "got_level": gl})
				}
				if m := a.MustComponent(n); m != got {
					c.Violation("nesting:must-differs:"+round, "MustComponent and Component disagree", map[string]any{"levels": levels, "from": lvl, "name": n})
				}
			}
			// generic lookup by interface: nearest level holding "a"
			wantA := -1
			for l := lvl; l >= 0; l-- {
				if contains(levels[l], "a") {
					wantA = l
					break
				}
			}
			ga, err := app.GetComponent[tagA](a)
			if wantA == -1 {
				if err == nil {
					c.Violation("nesting:generic-phantom:"+round, "GetComponent found an interface nobody registered", map[string]any{"levels": levels, "from": lvl})
				}
			} else if err != nil || ga.(*namedA).level != wantA {
				c.Violation("nesting:generic-resolution:"+round, "GetComponent resolved to the wrong level", map[string]any{"levels": levels, "from": lvl, "want": wantA})
			}
		}
	}
	checkLookups("first-round", regOrder)
	for _, l := range later {
		lvl, n := l[0].(int), l[1].(string)
		register(lvl, n)
		regOrder[lvl] = append(regOrder[lvl], n)
	}
	if len(later) > 0 {
		c.Count("nesting.cases_with_registration_after_lookups", 1)
	}
	checkLookups("after-late-registration", regOrder)
	// starting the innermost child initialises only its own components
	inits = inits[:0]
	last := len(apps) - 1
	if err := apps[last].Start(context.Background()); err != nil {
		c.Violation("nesting:start-error", "child Start failed", err.Error())
	}
	var wantInits []string
	for _, n := range regOrder[last] {
		wantInits = append(wantInits, fmt.Sprintf("%s@%d", n, last))
	}
	if len(apps) > 1 && strings.Join(inits, ",") != strings.Join(wantInits, ",") {
		c.Violation("nesting:child-start-scope", "child Start must initialise exactly its own components in order", map[string]any{"levels": nc.levels, "inits": inits})
	}
	_ = apps[last].Close(context.Background())
	c.Sample(fmt.Sprintf("depth%d", len(nc.levels)), map[string]any{"levels": nc.levels, "child_inits": inits})
}

func contains(s []string, n string) bool {
	for _, x := range s {
		if x == n {
			return true
		}
	}
	return false
}

// late-register: while Start is running, a goroutine started by one component's Init registers
// one more (runnable or plain) component. Whatever the container does with the late component
// (on the unchanged tree Register waits until Start has returned, so it is simply never started),
// it must never Run a component that was not initialised, never Init after the first Run, and
// Start / Close must not panic. (Added after seeded change C20-2 - Start iterating a snapshot for
// Init but the live list for Run - was missed; the other workloads register everything up front.)
const lateCases = 4 * 4 * 2 * 2 // list size 1..4 x spawner position x late kind x late Run fails

type spawner struct {
	rcomp
	late    app.Component
	started chan struct{}
	wg      *sync.WaitGroup
}

func (s *spawner) Init(a *app.App) error {
	err := s.rcomp.comp.Init(a)
	s.wg.Add(1)
	go func() {
		defer s.wg.Done()
		close(s.started)
		defer func() { _ = recover() }() // "already registered" panics are not the subject here
		a.Register(s.late)
	}()
	<-s.started
	// give the registering goroutine a chance to get in before the next component is initialised
	for i := 0; i < 50; i++ {
		time.Sleep(100 * time.Microsecond)
	}
	return err
}

func runLateRegister(c *lib.Case) {
	idx := c.Index
	n := 1 + idx%4
	idx /= 4
	pos := idx % 4 % n
	idx /= 4
	lateRunnable := idx%2 == 0
	idx /= 2
	lateFails := idx%2 == 1
	var mu sync.Mutex
	l := &logger{inited: map[string]bool{}, running: map[string]bool{}, closed: map[string]int{}, n: -1, order: map[string]int{}}
	lockedLog := &l.events
	_ = lockedLog
	a := new(app.App)
	var wg sync.WaitGroup
	var gotNil []string
	mk := func(name string, i int) comp { return comp{name: name, idx: i, l: l, gotNil: &gotNil} }
	var late app.Component
	if lateRunnable {
		rc := &rcomp{comp: mk("late", 99)}
		if lateFails {
			rc.runErr = errInjected
		}
		late = &lockedR{rc, &mu}
	} else {
		cp := mk("late", 99)
		late = &lockedP{&cp, &mu}
	}
	for i := 0; i < n; i++ {
		name := fmt.Sprintf("c%d", i)
		l.order[name] = i
		if i == pos {
			sp := &spawner{rcomp: rcomp{comp: mk(name, i)}, late: late, started: make(chan struct{}), wg: &wg}
			a.Register(&lockedS{sp, &mu})
		} else if i%2 == 0 {
			a.Register(&lockedR{&rcomp{comp: mk(name, i)}, &mu})
		} else {
			cp := mk(name, i)
			a.Register(&lockedP{&cp, &mu})
		}
	}
	l.order["late"] = 99
	var startErr, closeErr error
	panicked := ""
	func() {
		defer func() {
			if r := recover(); r != nil {
				panicked = fmt.Sprint(r)
			}
		}()
		startErr = a.Start(context.Background())
	}()
	wg.Wait()
	if panicked == "" && startErr == nil {
		func() {
			defer func() {
				if r := recover(); r != nil {
					panicked = "close: " + fmt.Sprint(r)
				}
			}()
			closeErr = a.Close(context.Background())
		}()
	}
	_ = closeErr
	mu.Lock()
	events := append([]string{}, l.events...)
	mu.Unlock()
	c.Eval(1)
	desc := fmt.Sprintf("n=%d spawner@%d late=%v lateRunFails=%v", n, pos, map[bool]string{true: "runnable", false: "plain"}[lateRunnable], lateFails)
	c.Nontrivial(desc)
	c.Sample("late-register", map[string]any{"case": desc, "events": events, "start_err": fmt.Sprint(startErr)})
	det := map[string]any{"case": desc, "events": events, "start_err": fmt.Sprint(startErr), "panic": panicked}
	if panicked != "" {
		c.Violation("late-register:panic", "Start/Close panicked when a component was registered while Start was running", det)
	}
	inited := map[string]bool{}
	firstRun := -1
	for i, e := range events {
		switch {
		case len(e) > 5 && e[:5] == "init:":
			inited[e[5:]] = true
			if firstRun >= 0 {
				c.Violation("late-register:init-after-run", "a component was initialised after another one had already been run", det)
			}
		case len(e) > 4 && e[:4] == "run:":
			if firstRun < 0 {
				firstRun = i
			}
			if !inited[e[4:]] {
				c.Violation("late-register:run-before-init", "the container ran a component it never initialised", det)
			}
		}
	}
	c.Count("late.events", int64(len(events)))
	if inited["late"] {
		c.Count("late.component_was_started", 1)
	} else {
		c.Count("late.component_not_started", 1)
	}
}

// wrappers serialising the shared event log (the late Register runs on another goroutine)
type lockedR struct {
	*rcomp
	mu *sync.Mutex
}

func (x *lockedR) Init(a *app.App) error { x.mu.Lock(); defer x.mu.Unlock(); return x.rcomp.Init(a) }
func (x *lockedR) Run(ctx context.Context) error {
	x.mu.Lock()
	defer x.mu.Unlock()
	x.l.events = append(x.l.events, "run:"+x.name)
	x.l.running[x.name] = true
	return x.runErr
}
func (x *lockedR) Close(ctx context.Context) error {
	x.mu.Lock()
	defer x.mu.Unlock()
	x.l.events = append(x.l.events, "close:"+x.name)
	return nil
}

type lockedP struct {
	*comp
	mu *sync.Mutex
}

func (x *lockedP) Init(a *app.App) error { x.mu.Lock(); defer x.mu.Unlock(); return x.comp.Init(a) }

type lockedS struct {
	*spawner
	mu *sync.Mutex
}

func (x *lockedS) Init(a *app.App) error {
	x.mu.Lock()
	err := x.spawner.rcomp.comp.Init(a)
	x.mu.Unlock()
	x.wg.Add(1)
	go func() {
		defer x.wg.Done()
		close(x.started)
		defer func() { _ = recover() }()
		a.Register(x.late)
	}()
	<-x.started
	for i := 0; i < 50; i++ {
		time.Sleep(100 * time.Microsecond)
	}
	return err
}
func (x *lockedS) Run(ctx context.Context) error {
	x.mu.Lock()
	defer x.mu.Unlock()
	x.l.events = append(x.l.events, "run:"+x.name)
	return nil
}
func (x *lockedS) Close(ctx context.Context) error {
	x.mu.Lock()
	defer x.mu.Unlock()
	x.l.events = append(x.l.events, "close:"+x.name)
	return nil
}
