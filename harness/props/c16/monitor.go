package c16

import (
	"context"
	"errors"
	"fmt"
	"runtime/debug"
	"strings"
	"sync"
	"time"

	"github.com/anyproto/any-sync/app/ocache"

	"verifharness/engines/gates"
	"verifharness/lib"
)

// ---------------------------------------------------------------- events

// All events share one logical clock: the position in the event log, assigned
// under mon.mu. If the logging of A completed before the logging of B began
// (real time), clock(A) < clock(B).

type closeEv struct {
	Start, End int64  // End == 0: did not return
	Via        string // "Close" | "TryClose"
	Op         int    // index of the cache operation that called it, -1 unknown
}

type tryEv struct {
	Start, End int64
	Verdict    string // "true" | "false" | "true+err"
	Op         int
	OnClosed   bool // TryClose was invoked after a close of this instance had started
}

// inst is one harness-owned object (implements ocache.Object).
type inst struct {
	m    *mon
	Num  int
	ID   string
	Name string // canonical: <id>.L<n> for the n-th load of id, <id>.A<k> for the k-th Add argument, <id>.X<k> never inserted
	Kind string // "load" | "add" | "foreign"

	// loaded instances
	LoadStart, LoadEnd int64
	LoadOK             bool
	LoadErr            string
	LoaderOp           int

	// added instances
	AddOp           int
	AddCall, AddRet int64
	AddOK           bool

	Closes []closeEv
	Tries  []tryEv
	nTry   int
}

// live: the instance became (or may have become) the cached value.
func (in *inst) liveCapable() bool {
	return (in.Kind == "load" && in.LoadOK) || (in.Kind == "add" && in.AddOK)
}

// sHi: from this clock on the instance certainly counts (load-start for a
// loaded instance — "a new load starts only after the previous close has
// returned" —, the return of Add for an added one).
func (in *inst) sHi() int64 {
	if in.Kind == "load" {
		return in.LoadStart
	}
	return in.AddRet
}

// present: from this clock on the instance certainly exists as an instance
// (load finished / Add returned).
func (in *inst) present() int64 {
	if in.Kind == "load" {
		return in.LoadEnd
	}
	return in.AddRet
}

const inf = int64(1) << 60

// closeEnd: clock at which the first close of the instance returned.
func (in *inst) closeEnd() int64 {
	if len(in.Closes) == 0 || in.Closes[0].End == 0 {
		return inf
	}
	return in.Closes[0].End
}

type opRec struct {
	Idx     int
	Kind    string // Get Pick Add Remove RemoveSame TryRemove GC Close ForEach Len DoLocked
	ID      string
	Arg     *inst // Add / RemoveSame argument
	Stale   bool
	Phase   string // setup | conc | final
	Worker  int
	Call    int64
	Ret     int64 // 0: did not return
	Res     *inst
	Yielded []*inst
	OK      bool
	Err     string
	Closed  []*inst // instances whose close was performed by this operation (attributed by goroutine)
	Loaded  []*inst // loads performed by this operation
	Wall    time.Duration
	Foreign bool // returned an object that is not a harness instance
	NilNil  bool
	// a cancellable caller context (workload cancel); nil = context.Background()
	Ctx       context.Context    `json:"-"`
	CancelCtx context.CancelFunc `json:"-"`
}

func (o *opRec) String() string {
	s := fmt.Sprintf("#%d %s(%s", o.Idx, o.Kind, o.ID)
	if o.Arg != nil {
		s += "," + o.Arg.Name
	}
	s += ")"
	if o.Ret == 0 {
		return s + fmt.Sprintf(" call@%d <no return>", o.Call)
	}
	s += fmt.Sprintf(" [%d,%d] ->", o.Call, o.Ret)
	if o.Res != nil {
		s += " " + o.Res.Name
	}
	for _, y := range o.Yielded {
		s += " yield:" + y.Name
	}
	switch o.Kind {
	case "Remove", "RemoveSame", "TryRemove":
		s += fmt.Sprintf(" ok=%v", o.OK)
	}
	if o.Err != "" {
		s += " err=" + o.Err
	}
	for _, c := range o.Closed {
		s += " closed:" + c.Name
	}
	return s
}

type event struct {
	Clock int64
	Kind  string
	ID    string
	Inst  string
	Op    int
}

// mon is the per-execution monitor. All state is guarded by mu.
type mon struct {
	mu       sync.Mutex
	clock    int64
	events   []event
	keepLog  bool
	counts   map[string]int64
	insts    []*inst
	ops      []*opRec
	byGoid   map[int64]*opRec
	loadSeq  map[string]int
	addSeq   map[string]int
	panics   []panicRec
	unattrib int64

	// behaviour of harness-owned callbacks
	gate       func(name string)                         // parks or yields
	loadFails  func(in *inst, ctx context.Context) error // decided after the gate
	tryVerdict func(in *inst, n int) string              // "true" | "false" | "true+err"
}

type panicRec struct {
	Op    *opRec
	Val   any
	Stack string
}

func newMon() *mon {
	return &mon{counts: map[string]int64{}, byGoid: map[int64]*opRec{}, loadSeq: map[string]int{}, addSeq: map[string]int{}, keepLog: true}
}

// tick must be called with mu held.
func (m *mon) tick(kind, id, in string, op int) int64 {
	m.clock++
	m.counts["ev."+kind]++
	if m.keepLog {
		m.events = append(m.events, event{m.clock, kind, id, in, op})
	}
	return m.clock
}

func (m *mon) curOp() *opRec { // mu held
	return m.byGoid[gates.Goid()]
}

func opIdx(o *opRec) int {
	if o == nil {
		return -1
	}
	return o.Idx
}

var errInjectedLoad = errors.New("injected load failure")
var errInjectedTry = errors.New("injected try-close error")

// loadFunc is the harness-owned ocache.LoadFunc.
func (m *mon) loadFunc(ctx context.Context, id string) (ocache.Object, error) {
	m.mu.Lock()
	op := m.curOp()
	if op == nil {
		m.unattrib++
	}
	m.loadSeq[id]++
	in := &inst{m: m, Num: len(m.insts) + 1, ID: id, Kind: "load", Name: fmt.Sprintf("%s.L%d", id, m.loadSeq[id]), LoaderOp: opIdx(op), AddOp: -1}
	m.insts = append(m.insts, in)
	in.LoadStart = m.tick("load-start", id, in.Name, in.LoaderOp)
	if op != nil {
		op.Loaded = append(op.Loaded, in)
	}
	m.mu.Unlock()

	m.gate("load:" + in.Name)

	var err error
	if m.loadFails != nil {
		err = m.loadFails(in, ctx)
	}
	m.mu.Lock()
	if err != nil {
		in.LoadErr = err.Error()
		in.LoadEnd = m.tick("load-end-err", id, in.Name, in.LoaderOp)
	} else {
		in.LoadOK = true
		in.LoadEnd = m.tick("load-end-ok", id, in.Name, in.LoaderOp)
	}
	m.mu.Unlock()
	if err != nil {
		return nil, err
	}
	return in, nil
}

// newArg creates the argument object of an Add (or a never-inserted object).
func (m *mon) newArg(id, kind string) *inst {
	m.mu.Lock()
	defer m.mu.Unlock()
	m.addSeq[id+kind]++
	letter := "A"
	if kind == "foreign" {
		letter = "X"
	}
	in := &inst{m: m, Num: len(m.insts) + 1, ID: id, Kind: kind, Name: fmt.Sprintf("%s.%s%d", id, letter, m.addSeq[id+kind]), LoaderOp: -1, AddOp: -1}
	m.insts = append(m.insts, in)
	return in
}

func (in *inst) Close() error {
	m := in.m
	m.mu.Lock()
	op := m.curOp()
	if op == nil {
		m.unattrib++
	} else {
		op.Closed = append(op.Closed, in)
	}
	k := len(in.Closes)
	in.Closes = append(in.Closes, closeEv{Via: "Close", Op: opIdx(op)})
	in.Closes[k].Start = m.tick("close-start", in.ID, in.Name, opIdx(op))
	m.mu.Unlock()

	m.gate("close:" + in.Name)

	m.mu.Lock()
	in.Closes[k].End = m.tick("close-end", in.ID, in.Name, opIdx(op))
	m.mu.Unlock()
	return nil
}

func (in *inst) TryClose(ttl time.Duration) (bool, error) {
	m := in.m
	m.mu.Lock()
	op := m.curOp()
	if op == nil {
		m.unattrib++
	}
	in.nTry++
	n := in.nTry
	verdict := "true"
	if m.tryVerdict != nil {
		verdict = m.tryVerdict(in, n)
	}
	te := tryEv{Verdict: verdict, Op: opIdx(op), OnClosed: len(in.Closes) > 0}
	te.Start = m.tick("try-start", in.ID, in.Name, opIdx(op))
	ti := len(in.Tries)
	in.Tries = append(in.Tries, te)
	ci := -1
	if verdict != "false" {
		// a TryClose that answers true has closed the object: it is a close
		ci = len(in.Closes)
		in.Closes = append(in.Closes, closeEv{Via: "TryClose", Op: opIdx(op), Start: te.Start})
		if op != nil {
			op.Closed = append(op.Closed, in)
		}
	}
	m.mu.Unlock()

	m.gate(fmt.Sprintf("try:%s#%d", in.Name, n))

	m.mu.Lock()
	end := m.tick("try-"+verdict, in.ID, in.Name, opIdx(op))
	in.Tries[ti].End = end
	if ci >= 0 {
		in.Closes[ci].End = end
	}
	m.mu.Unlock()
	switch verdict {
	case "false":
		return false, nil
	case "true+err":
		return true, errInjectedTry
	}
	return true, nil
}

// ---------------------------------------------------------------- operations

func (m *mon) newOp(kind, id string, arg *inst, phase string, worker int) *opRec {
	m.mu.Lock()
	defer m.mu.Unlock()
	o := &opRec{Idx: len(m.ops), Kind: kind, ID: id, Arg: arg, Phase: phase, Worker: worker}
	m.ops = append(m.ops, o)
	return o
}

func (m *mon) asInst(o *opRec, v ocache.Object) *inst {
	if v == nil {
		return nil
	}
	in, ok := v.(*inst)
	if !ok || in.m != m {
		o.Foreign = true
		return nil
	}
	return in
}

func errClass(err error) string {
	switch {
	case err == nil:
		return ""
	case errors.Is(err, ocache.ErrClosed):
		return "ErrClosed"
	case errors.Is(err, ocache.ErrExists):
		return "ErrExists"
	case errors.Is(err, ocache.ErrNotExists):
		return "ErrNotExists"
	case errors.Is(err, errInjectedLoad):
		return "load-error"
	case errors.Is(err, errInjectedTry):
		return "try-error"
	case errors.Is(err, context.Canceled):
		return "ctx-canceled"
	case errors.Is(err, context.DeadlineExceeded):
		return "ctx-deadline"
	}
	return "other:" + err.Error()
}

// do executes one cache operation at the client boundary: call event, the
// call, return event. A panic is recorded and swallowed (the goroutine ends).
func (m *mon) do(c ocache.OCache, o *opRec) {
	g := gates.Goid()
	defer func() {
		if r := recover(); r != nil {
			st := string(debug.Stack())
			m.mu.Lock()
			m.panics = append(m.panics, panicRec{Op: o, Val: r, Stack: st})
			m.tick("op-panic", o.ID, "", o.Idx)
			delete(m.byGoid, g)
			m.mu.Unlock()
		}
	}()
	m.mu.Lock()
	m.byGoid[g] = o
	o.Call = m.tick("call-"+o.Kind, o.ID, "", o.Idx)
	if o.Kind == "Add" {
		o.Arg.AddOp = o.Idx
		o.Arg.AddCall = o.Call
	}
	m.mu.Unlock()

	t0 := time.Now()
	var (
		res     ocache.Object
		yielded []ocache.Object
		ok      bool
		err     error
	)
	ctx := context.Background()
	if o.Ctx != nil {
		ctx = o.Ctx
	}
	switch o.Kind {
	case "Get":
		res, err = c.Get(ctx, o.ID)
	case "Pick":
		res, err = c.Pick(ctx, o.ID)
	case "Add":
		err = c.Add(o.ID, o.Arg)
	case "Remove":
		ok, err = c.Remove(ctx, o.ID)
	case "RemoveSame":
		ok, err = c.RemoveSame(ctx, o.ID, o.Arg)
	case "TryRemove":
		ok, err = c.TryRemove(o.ID)
	case "GC":
		c.GC()
	case "Close":
		err = c.Close()
	case "ForEach":
		c.ForEach(func(v ocache.Object) bool {
			yielded = append(yielded, v)
			return true
		})
	case "Len":
		c.Len()
	case "DoLocked":
		err = c.DoLockedIfNotExists(o.ID, func() error { return nil })
	default:
		panic("c16 harness: unknown op " + o.Kind)
	}
	wall := time.Since(t0)

	m.mu.Lock()
	o.Wall = wall
	o.Res = m.asInst(o, res)
	for _, y := range yielded {
		if in := m.asInst(o, y); in != nil {
			o.Yielded = append(o.Yielded, in)
		}
	}
	o.OK = ok
	o.Err = errClass(err)
	if (o.Kind == "Get" || o.Kind == "Pick") && res == nil && err == nil {
		o.NilNil = true
	}
	o.Ret = m.tick("ret-"+o.Kind, o.ID, "", o.Idx)
	if o.Kind == "Add" {
		o.Arg.AddRet = o.Ret
		o.Arg.AddOK = err == nil
	}
	delete(m.byGoid, g)
	m.mu.Unlock()
}

// panicViolation reduces a recorded panic to lib's stable key. The frames of
// the recover path (debug.Stack, the deferred closure, panic()) are cut off so
// that the innermost frame is the one that panicked.
func panicKey(p panicRec) (key string, inRepo bool, trimmed string) {
	st := p.Stack
	if i := strings.Index(st, "\npanic("); i >= 0 {
		rest := st[i+1:]
		// skip the "panic(...)" line and its file line
		for k := 0; k < 2; k++ {
			if j := strings.IndexByte(rest, '\n'); j >= 0 {
				rest = rest[j+1:]
			}
		}
		st = rest
	}
	key, inRepo = lib.PanicKey(p.Val, []byte(st))
	return key, inRepo, st
}
