package c16

import (
	"fmt"
	"sort"
	"strings"
	"time"

	"github.com/anishathalye/porcupine"
)

type finding struct {
	Key    string
	What   string
	Detail map[string]any
}

type oracleStats struct {
	instances, instancesLive, instancesClosed   int64
	histories, histOK, histUnknown, histIllegal int64
	histOps                                     int64
	dInconclusive                               bool
	unattributed                                bool
}

// creatorKind names how an instance came into the cache.
func creatorKind(in *inst) string {
	if in.Kind == "load" {
		return "Get"
	}
	return "Add"
}

func opKindOf(m *mon, idx int) string {
	if idx < 0 || idx >= len(m.ops) {
		return "?"
	}
	return m.ops[idx].Kind
}

// checkAll runs the offline oracles over the finished execution. It must only
// be called when every operation has returned (no panic, nothing stuck).
// porcupineTimeout bounds the history check; a timeout is inconclusive.
func checkAll(m *mon, label string, porcupineTimeout time.Duration) (out []finding, st oracleStats) {
	m.mu.Lock()
	defer m.mu.Unlock()

	poisoned := poisonedIDs(m)
	add := func(key, what string, detail map[string]any) {
		if id, _ := detail["id"].(string); consequenceKey(key) && (poisoned[id] || (id == "" && len(poisoned) > 0)) {
			key = poisonPrefix + key
		}
		out = append(out, finding{key, what, detail})
	}
	byID := map[string][]*inst{}
	for _, in := range m.insts {
		byID[in.ID] = append(byID[in.ID], in)
		st.instances++
		if in.liveCapable() {
			st.instancesLive++
			if in.closeEnd() != inf {
				st.instancesClosed++
			}
		}
	}
	st.unattributed = m.unattrib > 0
	ids := make([]string, 0, len(byID))
	for id := range byID {
		ids = append(ids, id)
	}
	sort.Strings(ids)

	descInst := func(in *inst) map[string]any {
		d := map[string]any{"name": in.Name, "kind": in.Kind}
		if in.Kind == "load" {
			d["load_start"], d["load_end"], d["load_ok"], d["loader_op"] = in.LoadStart, in.LoadEnd, in.LoadOK, in.LoaderOp
		} else {
			d["add_call"], d["add_return"], d["add_ok"], d["add_op"] = in.AddCall, in.AddRet, in.AddOK, in.AddOp
		}
		var cl []string
		for _, c := range in.Closes {
			cl = append(cl, fmt.Sprintf("%s[%d,%d] by #%d %s", c.Via, c.Start, c.End, c.Op, opKindOf(m, c.Op)))
		}
		d["closes"] = cl
		return d
	}

	// (a) no two instances of an id certainly coexist
	for _, id := range ids {
		var live []*inst
		for _, in := range byID[id] {
			if in.liveCapable() {
				live = append(live, in)
			}
		}
		for i := 0; i < len(live); i++ {
			for j := i + 1; j < len(live); j++ {
				x, y := live[i], live[j]
				lo := max64(x.sHi(), y.sHi())
				hi := min64(x.closeEnd(), y.closeEnd())
				if lo < hi {
					kinds := []string{x.Kind, y.Kind}
					sort.Strings(kinds)
					add("coexist:"+strings.Join(kinds, "+"),
						"two instances of one id were live at the same time (the later one was loaded/added before the earlier one's close had returned)",
						map[string]any{"id": id, "x": descInst(x), "y": descInst(y), "overlap": []int64{lo, hi}})
				}
			}
		}
		// a load that failed never becomes live, but it must not have *started*
		// while an existing instance was certainly present and not yet closed
		for _, l := range byID[id] {
			if l.Kind != "load" || l.LoadOK {
				continue
			}
			for _, x := range live {
				if x.present() < l.LoadStart && l.LoadStart < x.closeEnd() {
					add("load-started-while-live:"+x.Kind,
						"a new load for an id started before the previous instance's close had returned",
						map[string]any{"id": id, "instance": descInst(x), "load": descInst(l)})
				}
			}
		}
	}

	// (b) every instance handed to a caller had finished loading; and it is an
	// instance that was actually inserted under that id
	for _, o := range m.ops {
		if o.Ret == 0 {
			continue
		}
		handed := o.Yielded
		if o.Res != nil {
			handed = append([]*inst{o.Res}, handed...)
		}
		if o.Foreign {
			add("returned-foreign-object:"+o.Kind, "the cache handed out an object the harness never gave it", map[string]any{"op": o.String()})
		}
		for _, x := range handed {
			switch {
			case o.Kind != "ForEach" && x.ID != o.ID:
				add("returned-wrong-id:"+o.Kind, "lookup returned an instance of another id", map[string]any{"op": o.String(), "instance": descInst(x)})
			case x.Kind == "load" && (!x.LoadOK || x.LoadEnd == 0 || x.LoadEnd > o.Ret):
				add("returned-before-load-end:"+o.Kind, "an instance was handed to a caller before its load had finished (or its load failed)", map[string]any{"op": o.String(), "instance": descInst(x)})
			case x.Kind == "add" && (x.AddCall == 0 || x.AddCall > o.Ret):
				add("returned-before-add:"+o.Kind, "an instance was handed to a caller before it was given to the cache", map[string]any{"op": o.String(), "instance": descInst(x)})
			case x.Kind == "foreign":
				add("returned-never-inserted:"+o.Kind, "an object that was never inserted was handed to a caller", map[string]any{"op": o.String(), "instance": descInst(x)})
			}
		}
	}

	// (c) no instance is closed twice
	for _, in := range m.insts {
		if len(in.Closes) >= 2 {
			a, b := in.Closes[0], in.Closes[1]
			ks := []string{opKindOf(m, a.Op), opKindOf(m, b.Op)}
			sort.Strings(ks)
			add("closed-twice:"+strings.Join(ks, "+"), "an instance saw two closes", map[string]any{"id": in.ID, "instance": descInst(in)})
		}
		if len(in.Closes) >= 1 && !in.liveCapable() {
			add("closed-never-inserted:"+opKindOf(m, in.Closes[0].Op), "the cache closed an object that never became a cached instance", map[string]any{"instance": descInst(in)})
		}
	}

	// (d) nothing is left open once the cache has shut down
	var closeOp *opRec
	for _, o := range m.ops {
		if o.Kind == "Close" && o.Ret != 0 && o.Err == "" && closeOp == nil {
			closeOp = o
		}
		if o.Kind == "Close" && o.Phase == "conc" && o.Wall > 8*time.Second {
			// ocache.Close gives up on entries another closer holds after its
			// internal 10 s closeTimeout. While other operations run, that
			// closer may be one the harness itself was slow to release, so
			// "left open" is then not decidable. (A final Close runs alone
			// with all gates open: whatever it leaves open is genuine.)
			st.dInconclusive = true
		}
	}
	if closeOp != nil {
		slow := st.dInconclusive
		st.dInconclusive = false
		for _, in := range m.insts {
			if !in.liveCapable() || in.closeEnd() != inf {
				continue
			}
			if slow {
				// something is open, but Close may have given up on it only
				// because of its internal timeout: not decidable
				st.dInconclusive = true
				break
			}
			var when string
			s0, s1 := in.LoadStart, in.LoadEnd
			if in.Kind == "add" {
				s0, s1 = in.AddCall, in.AddRet
			}
			switch {
			case s0 > closeOp.Ret:
				when = "created-after-close-returned"
			case s1 < closeOp.Call:
				when = "created-before-close"
			default:
				when = "created-during-close"
			}
			add("left-open:"+creatorKind(in)+":"+when, "an instance was left open although the cache's Close() has returned",
				map[string]any{"instance": descInst(in), "close_op": closeOp.String()})
		}
	} else {
		st.dInconclusive = false
	}

	// (e) direct form: a lookup invoked after a removal returned never returns
	// the removed instance (removed = closed by that operation)
	for _, r := range m.ops {
		if r.Ret == 0 || len(r.Closed) == 0 {
			continue
		}
		for _, x := range r.Closed {
			for _, g := range m.ops {
				if g.Call <= r.Ret || g.Ret == 0 {
					continue
				}
				hit := g.Res == x
				for _, y := range g.Yielded {
					hit = hit || y == x
				}
				if hit {
					add("returned-removed-instance:"+g.Kind+"-after-"+r.Kind, "a lookup that started after a removal had completed returned the removed instance",
						map[string]any{"id": x.ID, "removal": r.String(), "lookup": g.String(), "instance": descInst(x)})
				}
			}
		}
	}

	// (e') per-id call history is linearizable w.r.t. the sequential model
	if !st.unattributed {
		for _, id := range ids {
			hist, kinds := buildHistory(m, id)
			if len(hist) == 0 {
				continue
			}
			st.histories++
			st.histOps += int64(len(hist))
			res := porcupine.CheckOperationsTimeout(cacheModel, hist, porcupineTimeout)
			switch res {
			case porcupine.Ok:
				st.histOK++
			case porcupine.Unknown:
				st.histUnknown++
			case porcupine.Illegal:
				st.histIllegal++
				var lines []string
				for _, o := range m.ops {
					if o.ID == id || o.ID == "" {
						lines = append(lines, o.String())
					}
					if len(lines) > 60 {
						lines = append(lines, "…")
						break
					}
				}
				k := label
				if k == "" {
					k = strings.Join(kinds, "+")
				}
				add("non-linearizable:"+k, "the successful results of the operations on one id cannot be explained by any sequential order consistent with real time (model: Get returns the current instance or loads one when none is current; Pick/ForEach return the current instance; Add succeeds only when none is current; a removal closes exactly the current instance; RemoveSame only the given one)",
					map[string]any{"id": id, "ops": lines})
			}
		}
	}
	return out, st
}

// F-C16-1 (TryRemove acts on an entry whose load is still in flight) shows up
// as a nil dereference when TryRemove runs alone, but under true concurrency
// the same root cause can surface differently (close of a closed channel, a
// second close of the instance, a waiter parked on a channel nobody closes).
// An id is "poisoned" when the monitor saw the root cause itself on it: a
// TryRemove whose call overlapped a load of that id and that went on to touch
// the entry (called TryClose, reported ok, failed with something other than
// not-exists/closed, or never returned). Consequence-type violations on such
// an id are keyed under one prefix so that one finding covers them.
const poisonPrefix = "tryremove-during-load:"

func consequenceKey(key string) bool {
	for _, p := range []string{"panic:", "stuck:", "closed-twice:", "non-linearizable:", "coexist:", "returned-removed-instance:", "load-started-while-live:"} {
		if strings.HasPrefix(key, p) {
			return true
		}
	}
	return false
}

// poisonedIDs must be called with m.mu held.
func poisonedIDs(m *mon) map[string]bool {
	out := map[string]bool{}
	for _, o := range m.ops {
		if o.Kind != "TryRemove" || o.Call == 0 || out[o.ID] {
			continue
		}
		ret := o.Ret
		if ret == 0 {
			ret = inf
		}
		// A load is in flight, from the cache's point of view, from the moment
		// the loading Get inserted its placeholder until it stored the value —
		// bracketed by that Get's own call and return events (the load-start
		// event alone may not have been logged yet when a panic is reported).
		inFlight := func(g *opRec) bool {
			return g.Kind == "Get" && g.ID == o.ID && g.Call != 0 && g.Call < ret && (g.Ret == 0 || g.Ret > o.Call)
		}
		if o.Ret == 0 {
			// TryRemove itself never returned (it panicked inside the cache)
			// while some Get of the id was loading or about to
			for _, g := range m.ops {
				if inFlight(g) && (len(g.Loaded) > 0 || g.Ret == 0) {
					out[o.ID] = true
				}
			}
			continue
		}
		// TryRemove try-closed an instance whose loading Get had not returned
		// yet when TryRemove was called
		for _, in := range m.insts {
			if in.ID != o.ID || in.Kind != "load" || in.LoaderOp < 0 || in.LoaderOp >= len(m.ops) || !inFlight(m.ops[in.LoaderOp]) {
				continue
			}
			for _, t := range in.Tries {
				if t.Op == o.Idx {
					out[o.ID] = true
				}
			}
		}
	}
	return out
}

func max64(a, b int64) int64 {
	if a > b {
		return a
	}
	return b
}
func min64(a, b int64) int64 {
	if a < b {
		return a
	}
	return b
}

// ---------------------------------------------------------------- sequential model

// The model constrains only what an operation *achieved*; an operation that
// returned an error / ok=false and did nothing observable is a no-op that can
// be linearized anywhere, so it is left out of the history.
//
// state: number of the current instance of the id (0 = none).
type pIn struct {
	kind   string
	arg    int   // Add / RemoveSame argument
	loaded []int // instances this operation loaded successfully (this id)
}
type pOut struct {
	ret    []int // instances returned / yielded (this id)
	addOK  bool
	closed []int // instances this operation closed (this id)
}

var cacheModel = porcupine.Model{
	Init: func() interface{} { return 0 },
	Step: func(state, input, output interface{}) (bool, interface{}) {
		cur := state.(int)
		in := input.(pIn)
		out := output.(pOut)
		switch in.kind {
		case "Get":
			for _, l := range in.loaded {
				if cur != 0 {
					return false, cur
				}
				cur = l
			}
			for _, r := range out.ret {
				if cur != r {
					return false, cur
				}
			}
		case "Pick", "ForEach":
			for _, r := range out.ret {
				if cur != r {
					return false, cur
				}
			}
		case "Add":
			if out.addOK {
				if cur != 0 {
					return false, cur
				}
				cur = in.arg
			}
		}
		for _, c := range out.closed {
			if cur != c {
				return false, cur
			}
			if in.kind == "RemoveSame" && c != in.arg {
				return false, cur
			}
			cur = 0
		}
		return true, cur
	},
	Equal: func(a, b interface{}) bool { return a.(int) == b.(int) },
}

func buildHistory(m *mon, id string) (hist []porcupine.Operation, kinds []string) {
	kset := map[string]bool{}
	for _, o := range m.ops {
		if o.Ret == 0 {
			continue
		}
		in := pIn{kind: o.Kind}
		out := pOut{}
		if o.Arg != nil {
			in.arg = o.Arg.Num
		}
		for _, l := range o.Loaded {
			if l.ID == id && l.LoadOK {
				in.loaded = append(in.loaded, l.Num)
			}
		}
		if o.Res != nil && o.Res.ID == id {
			out.ret = append(out.ret, o.Res.Num)
		}
		for _, y := range o.Yielded {
			if y.ID == id {
				out.ret = append(out.ret, y.Num)
			}
		}
		if o.Kind == "Add" && o.ID == id && o.Err == "" {
			out.addOK = true
		}
		for _, c := range o.Closed {
			if c.ID == id {
				out.closed = append(out.closed, c.Num)
			}
		}
		if len(in.loaded) == 0 && len(out.ret) == 0 && !out.addOK && len(out.closed) == 0 {
			continue
		}
		hist = append(hist, porcupine.Operation{ClientId: o.Worker, Input: in, Call: o.Call, Output: out, Return: o.Ret})
		if o.Phase == "conc" {
			kset[o.Kind] = true
		}
	}
	for k := range kset {
		kinds = append(kinds, k)
	}
	sort.Strings(kinds)
	return hist, kinds
}
