package c16

import (
	"context"
	"fmt"
	"math/rand"
	"runtime"
	"sync"
	"sync/atomic"
	"time"

	"verifharness/engines/gates"
	"verifharness/lib"
)

const (
	stressWorkers = 8
	stressOps     = 250
)

func splitmix(x uint64) uint64 {
	x += 0x9e3779b97f4a7c15
	x = (x ^ (x >> 30)) * 0xbf58476d1ce4e5b9
	x = (x ^ (x >> 27)) * 0x94d049bb133111eb
	return x ^ (x >> 31)
}

// runStress: 8 goroutines × 250 random operations, true concurrency, random
// short yields at the harness-owned blocking points. Variants by case index:
// bit 0 — TryRemove is part of the mix (on the unchanged tree the first
// TryRemove that meets a load in flight panics, F-C16-1, which ends the run);
// bit 1 — Close() is called in the middle of the run by worker 0 while the
// others go on (otherwise after all workers are done).
func runStress(c *lib.Case) {
	withTry := c.Index&1 == 1
	midClose := c.Index&2 == 2
	ids := []string{"a", "b"}
	if c.Index&4 == 4 {
		ids = append(ids, "c")
	}
	label := fmt.Sprintf("try=%v midclose=%v ids=%d", withTry, midClose, len(ids))
	c.Logf("stress %s", label)

	m := newMon()
	m.keepLog = c.Verbose
	seed := uint64(c.Rng.Int63())
	var ctr atomic.Uint64
	rnd := func() uint64 { return splitmix(seed + ctr.Add(1)*0x632be59bd9b4e019) }
	m.gate = func(string) {
		switch x := rnd(); x % 8 {
		case 0, 1, 2:
		case 3, 4, 5:
			for i := uint64(0); i <= (x>>8)%3; i++ {
				runtime.Gosched()
			}
		case 6:
			time.Sleep(time.Duration(1+(x>>8)%20) * time.Microsecond)
		case 7:
			for i := uint64(0); i < (x>>8)%2000; i++ {
				_ = splitmix(i)
			}
		}
	}
	m.loadFails = func(in *inst, ctx context.Context) error {
		if err := ctx.Err(); err != nil {
			return err
		}
		if rnd()%100 < 15 {
			return errInjectedLoad
		}
		return nil
	}
	m.tryVerdict = func(in *inst, n int) string {
		if rnd()%2 == 0 {
			return "true"
		}
		return "false"
	}
	cache := newCache(m)
	t0 := time.Now()

	var stop atomic.Bool
	var workersDone atomic.Int32
	var wg sync.WaitGroup
	for w := 0; w < stressWorkers; w++ {
		rng := rand.New(rand.NewSource(c.Rng.Int63()))
		w := w
		wg.Add(1)
		go func() {
			defer wg.Done()
			defer workersDone.Add(1)
			last := map[string]*inst{}
			for i := 0; i < stressOps && !stop.Load(); i++ {
				id := ids[rng.Intn(len(ids))]
				kind := ""
				var arg *inst
				if midClose && w == 0 && i == stressOps*7/10 {
					kind, id = "Close", ""
				} else {
					x := rng.Intn(100)
					switch {
					case x < 28:
						kind = "Get"
					case x < 40:
						kind = "Pick"
					case x < 48:
						kind = "Add"
						arg = m.newArg(id, "add")
					case x < 62:
						kind = "Remove"
					case x < 70:
						kind = "RemoveSame"
						if l := last[id]; l != nil && rng.Intn(5) > 0 {
							arg = l
						} else {
							arg = m.newArg(id, "foreign")
						}
					case x < 78:
						if withTry {
							kind = "TryRemove"
						} else {
							kind = "Get"
						}
					case x < 88:
						kind, id = "GC", ""
					case x < 94:
						kind, id = "ForEach", ""
					case x < 97:
						kind, id = "Len", ""
					default:
						kind = "DoLocked"
					}
				}
				o := m.newOp(kind, id, arg, "conc", w+1)
				m.do(cache, o)
				m.mu.Lock()
				np := len(m.panics)
				if o.Res != nil {
					last[o.Res.ID] = o.Res
				}
				if kind == "Add" && o.Err == "" {
					last[id] = arg
				}
				m.mu.Unlock()
				if np > 0 {
					stop.Store(true)
					return
				}
				if rng.Intn(4) == 0 {
					runtime.Gosched()
				}
			}
		}()
	}
	done := make(chan struct{})
	go func() { wg.Wait(); close(done) }()

	// Wait for the workers. A run that cannot finish is recognised
	// structurally, not by a timeout: every worker is either done or inside an
	// operation whose goroutine is parked directly in repository code, and the
	// logical clock has not moved for 3 s (13 s when a Close() is among them:
	// its internal closeTimeout is the only timer in ocache).
	finished := false
	deadline := time.After(300 * time.Second)
	tick := time.NewTicker(250 * time.Millisecond)
	defer tick.Stop()
	lastClock, quiet := int64(-1), 0
wait:
	for {
		select {
		case <-done:
			finished = true
			break wait
		case <-tick.C:
			m.mu.Lock()
			np := len(m.panics)
			clk := m.clock
			m.mu.Unlock()
			if np > 0 {
				// the panic may have wedged an entry; workers parked on it never return
				select {
				case <-done:
					finished = true
				case <-time.After(200 * time.Millisecond):
				}
				break wait
			}
			if clk != lastClock {
				lastClock, quiet = clk, 0
				continue
			}
			quiet++
			if quiet < 12 {
				continue
			}
			d := gates.Dump()
			m.mu.Lock()
			pending, blocked, hasClose := 0, 0, false
			for gid, o := range m.byGoid {
				pending++
				if g := d[gid]; g != nil && g.Blocked && g.InRepo {
					blocked++
				}
				if o.Kind == "Close" {
					hasClose = true
				}
			}
			m.mu.Unlock()
			if pending > 0 && pending == blocked && pending+int(workersDone.Load()) == stressWorkers && (!hasClose || quiet >= 52) {
				break wait
			}
		case <-deadline:
			break wait
		}
	}
	c.Eval(1)
	c.Count("stress.runs", 1)
	m.mu.Lock()
	np := len(m.panics)
	m.mu.Unlock()
	var st oracleStats
	if np > 0 {
		c.Count("stress.runs_ended_by_panic", 1)
		stop.Store(true)
		flushMon(c, m, &st)
		reportPanics(c, m, "stress "+label, "")
		return
	}
	if !finished {
		stop.Store(true)
		c.Count("stress.runs_stuck", 1)
		reportStressStuck(c, m, label)
		flushMon(c, m, &st)
		return
	}
	if !midClose {
		o := m.newOp("Close", "", nil, "final", 0)
		m.do(cache, o)
	}
	tRun := time.Since(t0)
	findings, st := checkAll(m, "stress", 20*time.Second)
	c.Logf("run phase %v, oracle phase %v", tRun, time.Since(t0)-tRun)
	flushMon(c, m, &st)
	m.mu.Lock()
	loads, closes, busy := m.counts["ev.load-start"], m.counts["ev.close-end"]+m.counts["ev.try-true"], m.counts["ev.try-false"]
	m.mu.Unlock()
	if loads >= 50 && closes >= 50 && busy >= 20 {
		c.Nontrivial(fmt.Sprintf("stress#%d %s", c.Index, label))
	}
	if st.dInconclusive {
		c.Inconclusive("a cache Close() took longer than 8 s; left-open check skipped")
	}
	for _, f := range findings {
		if f.Detail == nil {
			f.Detail = map[string]any{}
		}
		f.Detail["run"] = label
		c.Violation(f.Key, f.What, f.Detail)
	}
	c.Sample("stress", map[string]any{"run": label, "loads": loads, "closes": closes, "busy_try_closes": busy, "ops": len(m.ops)})
}

// reportStressStuck: the run did not finish within the (very generous)
// watchdog. An operation counts as stuck only when the goroutine dump shows it
// parked in repository code.
func reportStressStuck(c *lib.Case, m *mon, label string) {
	d := gates.Dump()
	cause := stuckCause(m)
	m.mu.Lock()
	type pend struct {
		o *opRec
		g *gates.G
	}
	var ps []pend
	for gid, o := range m.byGoid {
		ps = append(ps, pend{o, d[gid]})
	}
	m.mu.Unlock()
	seen := map[string]bool{}
	n := 0
	for _, p := range ps {
		if p.g == nil || !p.g.Blocked || !p.g.InRepo {
			continue
		}
		key := "stuck:" + p.o.Kind + "@" + shortFrame(p.g.RepoFrame) + ":" + cause
		if cause == "after-tryremove-during-load" {
			key = poisonPrefix + key
		}
		if seen[key] {
			continue
		}
		seen[key] = true
		n++
		txt := p.g.Text
		if len(txt) > 2500 {
			txt = txt[:2500]
		}
		c.Violation(key, "stress run did not finish: "+p.o.Kind+" is parked in "+shortFrame(p.g.RepoFrame),
			map[string]any{"run": label, "op": p.o.String(), "goroutine": txt})
	}
	if n == 0 {
		c.Inconclusive("stress run did not finish within the watchdog, but no operation is parked in repository code")
	}
}
