// Package c16: the object cache (app/ocache) keeps at most one live instance
// per id under any interleaving.
//
// The cache is driven only through its exported API with a harness-owned
// LoadFunc and harness-owned Objects whose blocking points (load, Close,
// TryClose) are gates. Systematic workloads enumerate the orders in which
// 2–4 concurrent operations pass those gates; a stress workload runs 8
// goroutines × 250 random operations under the race detector. All verdicts
// come from offline oracles over the monitor's event log (oracle.go).
package c16

import (
	"runtime"
	"sync"
	"time"

	"verifharness/lib"
)

type Prop struct{}

var procsOnce sync.Once

func (Prop) ID() string    { return "C16" }
func (Prop) Level() string { return "exploration" }
func (Prop) Rule() string {
	return "systematic: a case = multiset of 2 (all 136 pairs, workload pairs) or 3-4 (PRNG-sampled, workload multi) operations from {Get,Pick,Add,Remove,RemoveSame(cur|stale),TryRemove,GC,Close,ForEach} on ids a,b x initial cache state (a: empty|live|removed+live, b: empty|live) x try-close verdicts (true|false|false-then-true; workload tryerr: true+error) x load outcome (ok|first fails|fails iff ctx cancelled); every operation runs in its own goroutine, its start and every harness-owned blocking point it reaches (load, Close, TryClose) is a gate, and a schedule is the order in which gates are released (depth-first enumeration up to the per-case bound — quick 40, thorough 600 for pairs; 10/16 for multi — then PRNG-chosen orders; the scheduler releases the next gate only when every operation is finished, parked at a gate, or shown by a goroutine dump to be blocked inside the cache). After the operations a final Close() is issued and the offline oracles run over the event log. A schedule is non-trivial when at least one load/Close/TryClose gate inside the cache was released; distinct = (case, sequence of released gate names). stress: 8 goroutines x 250 random operations on 2-3 ids with random yields, load errors and try-close verdicts, race build; variants: with/without TryRemove, Close in the middle/at the end; non-trivial when at least 50 loads, 50 closes and 20 busy try-closes were observed."
}
func (Prop) Assumptions() []string {
	return []string{
		"every harness-owned blocking point is released well within ocache's internal closeTimeout (10 s); a Close() that took longer than 8 s makes the left-open check inconclusive instead of a violation",
		"cache constructed with WithTTL(-1h) and WithGCPeriod(0): explicit GC() treats every idle entry as expired and there is no background ticker",
		"callers pass context.Background(); caller-side cancellation is not part of the enumerated interleavings (load contexts are cancelled only by Close)",
		"Object.Close returns nil; TryClose answers (true,nil), (false,nil) or, in workload tryerr only, (true,error)",
		"interleavings inside the cache between two lock acquisitions are explored only by the stress workload (true concurrency under -race), not by the gate scheduler",
	}
}

type tierCfg struct {
	pairDFS, pairRnd   int
	multiCases         int
	multiDFS, multiRnd int
	tryErrDFS          int
	stressCases        int
}

func cfg(tier string) tierCfg {
	if tier == "thorough" {
		return tierCfg{pairDFS: 600, pairRnd: 60, multiCases: 12000, multiDFS: 16, multiRnd: 16, tryErrDFS: 3, stressCases: 2000}
	}
	return tierCfg{pairDFS: 40, pairRnd: 8, multiCases: 400, multiDFS: 10, multiRnd: 10, tryErrDFS: 2, stressCases: 20}
}

func (Prop) Plan(tier string) []lib.Workload {
	t := cfg(tier)
	return []lib.Workload{
		{Name: "pairs", Cases: len(pairCases), CaseTimeout: 10 * time.Minute, HangIsViolation: true, MinNontrivial: 1000},
		{Name: "multi", Cases: t.multiCases, CaseTimeout: 10 * time.Minute, HangIsViolation: true, MinNontrivial: 1000},
		{Name: "tryerr", Cases: len(tryErrCases), CaseTimeout: 10 * time.Minute, HangIsViolation: true, Batches: len(tryErrCases)},
		{Name: "cancel", Cases: len(cancelCases), CaseTimeout: 10 * time.Minute, HangIsViolation: true, MinNontrivial: 20},
		{Name: "stress", Cases: t.stressCases, Race: true, CaseTimeout: 10 * time.Minute, HangIsViolation: true, MinNontrivial: t.stressCases / 4},
	}
}

func (Prop) RunCase(c *lib.Case) {
	t := cfg(c.Tier)
	if c.Workload != "stress" {
		// the gate scheduler lets one goroutine run at a time; a small
		// GOMAXPROCS keeps the stop-the-world goroutine dumps cheap
		procsOnce.Do(func() { runtime.GOMAXPROCS(2) })
	}
	switch c.Workload {
	case "pairs":
		explore(c, pairCases[c.Index], t.pairDFS, t.pairRnd)
	case "multi":
		explore(c, multiCase(c.Rng), t.multiDFS, t.multiRnd)
	case "tryerr":
		explore(c, tryErrCases[c.Index], t.tryErrDFS, 0)
	case "cancel":
		explore(c, cancelCases[c.Index], t.pairDFS, t.pairRnd)
	case "stress":
		runStress(c)
	}
}
