package c16

import (
	"context"
	"fmt"
	"math/rand"
	"sort"
	"strings"
	"sync/atomic"
	"time"

	"github.com/anyproto/any-sync/app/ocache"
	"go.uber.org/zap"

	"verifharness/engines/gates"
	"verifharness/lib"
)

// ---------------------------------------------------------------- case space

// opT is an operation template of the systematic workload.
type opT struct {
	Kind  string
	ID    string
	Stale bool // RemoveSame with an instance that is not the current one
	// Cancel: the operation gets a cancellable context; a companion task parks at a gate of its own and
	// cancels it when released, so "the caller's deadline fires while it waits for another closer" is a
	// schedulable event like any other gate.
	Cancel bool
}

func (t opT) String() string {
	s := t.Kind
	if t.ID != "" {
		s += "(" + t.ID
		if t.Kind == "RemoveSame" {
			if t.Stale {
				s += ",stale"
			} else {
				s += ",cur"
			}
		}
		s += ")"
	}
	return s
}

var templates = []opT{
	{Kind: "Get", ID: "a"}, {Kind: "Get", ID: "b"},
	{Kind: "Pick", ID: "a"}, {Kind: "Pick", ID: "b"},
	{Kind: "Add", ID: "a"}, {Kind: "Add", ID: "b"},
	{Kind: "Remove", ID: "a"}, {Kind: "Remove", ID: "b"},
	{Kind: "RemoveSame", ID: "a"}, {Kind: "RemoveSame", ID: "a", Stale: true}, {Kind: "RemoveSame", ID: "b"},
	{Kind: "TryRemove", ID: "a"}, {Kind: "TryRemove", ID: "b"},
	{Kind: "GC"}, {Kind: "Close"}, {Kind: "ForEach"},
}

// caseDef: the operations that run concurrently, the state of the cache before
// they start and the behaviour of the harness-owned callbacks.
type caseDef struct {
	Ops   []opT
	InitA int // 0 empty, 1 live instance, 2 one removed (stale) instance + a live one
	InitB int // 0 empty, 1 live
	TV    int // try-close verdicts: 0 always true, 1 always false, 2 false then true (per instance), 3 true+error
	Load  int // 0 loads succeed and ignore ctx, 1 the first concurrent load of every id fails, 2 loads fail iff their ctx was cancelled
}

var tvNames = []string{"T", "F", "FT", "TE"}
var loadNames = []string{"ok", "fail1", "ctx"}

func (cd caseDef) String() string {
	var ops []string
	for _, o := range cd.Ops {
		ops = append(ops, o.String())
	}
	return fmt.Sprintf("%s|a%d b%d|tv=%s load=%s", strings.Join(ops, " "), cd.InitA, cd.InitB, tvNames[cd.TV], loadNames[cd.Load])
}

func hasKind(ops []opT, kinds ...string) bool {
	for _, o := range ops {
		for _, k := range kinds {
			if o.Kind == k {
				return true
			}
		}
	}
	return false
}

func touchesB(ops []opT) bool {
	for _, o := range ops {
		if o.ID == "b" || o.ID == "" {
			return true
		}
	}
	return false
}

// variants expands an op multiset into the cases that differ in a relevant way.
func variants(ops []opT) []caseDef {
	var out []caseDef
	initBs := []int{0}
	if touchesB(ops) {
		initBs = []int{0, 1}
	}
	tvs := []int{0}
	if hasKind(ops, "TryRemove", "GC") {
		tvs = []int{0, 1, 2}
	}
	loads := []int{0}
	if hasKind(ops, "Get") {
		loads = []int{0, 1}
		if hasKind(ops, "Close") {
			loads = []int{0, 1, 2}
		}
	}
	for ia := 0; ia < 3; ia++ {
		for _, ib := range initBs {
			for _, tv := range tvs {
				for _, ld := range loads {
					out = append(out, caseDef{Ops: ops, InitA: ia, InitB: ib, TV: tv, Load: ld})
				}
			}
		}
	}
	return out
}

var pairCases = func() []caseDef {
	var out []caseDef
	for i := range templates {
		for j := i; j < len(templates); j++ {
			out = append(out, variants([]opT{templates[i], templates[j]})...)
		}
	}
	return out
}()

// multiCase draws a 3- or 4-operation case from the case PRNG.
func multiCase(rng *rand.Rand) caseDef {
	n := 3 + rng.Intn(2)
	var ops []opT
	// bias towards one id so that the operations actually meet
	focus := rng.Intn(3) > 0
	for len(ops) < n {
		t := templates[rng.Intn(len(templates))]
		if focus && t.ID == "b" && rng.Intn(3) > 0 {
			continue
		}
		if t.Kind == "Close" && hasKind(ops, "Close") {
			continue
		}
		ops = append(ops, t)
	}
	sort.SliceStable(ops, func(i, j int) bool { return ops[i].String() < ops[j].String() })
	vs := variants(ops)
	return vs[rng.Intn(len(vs))]
}

// tryErrCases: TryClose answers (true, error) — what `return true, obj.Close()`
// implementations do when their Close fails. Kept apart because a wedged entry
// costs ocache.Close its full 10 s closeTimeout.
var tryErrCases = []caseDef{
	{Ops: []opT{{Kind: "TryRemove", ID: "a"}, {Kind: "Get", ID: "a"}}, InitA: 1, TV: 3},
	{Ops: []opT{{Kind: "TryRemove", ID: "a"}, {Kind: "Remove", ID: "a"}}, InitA: 1, TV: 3},
	{Ops: []opT{{Kind: "GC"}, {Kind: "Get", ID: "a"}}, InitA: 1, TV: 3},
	{Ops: []opT{{Kind: "GC"}, {Kind: "Remove", ID: "a"}}, InitA: 1, InitB: 1, TV: 3},
}

// cancelCases: a closer with a bounded wait (Remove / RemoveSame with a context that gets cancelled)
// races a closer that owns the entry (GC / TryRemove parked in TryClose, Remove parked in Close).
// (Added after seeded change C16-3 - removeCtx closing an entry another closer still holds when its
// own wait was cut short - was missed: every caller context was context.Background().)
var cancelCases = func() []caseDef {
	var out []caseDef
	for _, owner := range []opT{{Kind: "GC"}, {Kind: "TryRemove", ID: "a"}, {Kind: "Remove", ID: "a"}, {Kind: "Close"}} {
		for _, waiter := range []opT{{Kind: "Remove", ID: "a", Cancel: true}, {Kind: "RemoveSame", ID: "a", Cancel: true}} {
			for _, tv := range []int{0, 1, 2} {
				out = append(out, caseDef{Ops: []opT{owner, waiter}, InitA: 1, TV: tv})
				out = append(out, caseDef{Ops: []opT{owner, waiter, {Kind: "Get", ID: "a"}}, InitA: 1, TV: tv})
			}
		}
	}
	return out
}()

// ---------------------------------------------------------------- one execution

type decision struct {
	Options []string
	Chosen  string
}

type execResult struct {
	trace       []decision
	sig         string
	callbacks   int // released gates that are callbacks inside the cache (load/close/try)
	diverged    bool
	divergeNote string
	slowClose   bool
	settleNotes []string
	aborted     string // "", "panic", "stuck"
	findings    []finding
	stats       oracleStats
	mon         *mon
	sched       *gates.Sched
}

const (
	settleQuiet = 60 * time.Microsecond
	settleLimit = 3 * time.Second
)

func newCache(m *mon) ocache.OCache {
	// negative TTL: every idle entry counts as expired, so an explicit GC()
	// always tries to collect; gc period 0: no background ticker.
	return ocache.New(m.loadFunc, ocache.WithTTL(-time.Hour), ocache.WithGCPeriod(0), ocache.WithLogger(zap.NewNop().Sugar()))
}

// execute runs the case once. The gates named in prefix are released in that
// order (waiting, event driven, until each is parked); afterwards choose picks
// among the parked gates.
func execute(cd caseDef, prefix []string, choose func(opts []string) int) *execResult {
	m := newMon()
	s := gates.New()
	res := &execResult{mon: m, sched: s}
	m.gate = s.Gate
	concurrent := false
	loadsSeen := map[string]int{}
	m.loadFails = func(in *inst, ctx context.Context) error {
		switch cd.Load {
		case 1:
			if concurrent {
				m.mu.Lock()
				loadsSeen[in.ID]++
				n := loadsSeen[in.ID]
				m.mu.Unlock()
				if n == 1 {
					return errInjectedLoad
				}
			}
		case 2:
			if err := ctx.Err(); err != nil {
				return err
			}
		}
		return nil
	}
	m.tryVerdict = func(in *inst, n int) string {
		switch cd.TV {
		case 1:
			return "false"
		case 2:
			if n == 1 {
				return "false"
			}
			return "true"
		case 3:
			return "true+err"
		}
		return "true"
	}
	c := newCache(m)

	// setup, sequential, gates open
	s.SetFree()
	var curA, staleA, curB *inst
	seq := func(kind, id string, arg *inst) *opRec {
		o := m.newOp(kind, id, arg, "setup", 0)
		m.do(c, o)
		return o
	}
	if cd.InitA == 2 {
		staleA = seq("Get", "a", nil).Res
		seq("Remove", "a", nil)
	}
	if cd.InitA >= 1 {
		curA = seq("Get", "a", nil).Res
	}
	if cd.InitB >= 1 {
		curB = seq("Get", "b", nil).Res
	}
	if len(m.panics) > 0 || (cd.InitA >= 1 && curA == nil) || (cd.InitB >= 1 && curB == nil) || (cd.InitA == 2 && staleA == nil) {
		res.aborted = "setup"
		return res
	}
	s.SetGated()
	concurrent = true

	// the concurrent operations
	var recs []*opRec
	for i, t := range cd.Ops {
		var arg *inst
		switch t.Kind {
		case "Add":
			arg = m.newArg(t.ID, "add")
		case "RemoveSame":
			switch {
			case t.Stale && staleA != nil:
				arg = staleA
			case t.Stale:
				arg = m.newArg(t.ID, "foreign")
			case t.ID == "a" && curA != nil:
				arg = curA
			case t.ID == "b" && curB != nil:
				arg = curB
			default:
				arg = m.newArg(t.ID, "foreign")
			}
		}
		o := m.newOp(t.Kind, t.ID, arg, "conc", i+1)
		o.Stale = t.Stale
		if t.Cancel {
			o.Ctx, o.CancelCtx = context.WithCancel(context.Background())
		}
		recs = append(recs, o)
	}
	for i, o := range recs {
		o := o
		s.Go(i, o.Kind, func() { m.do(c, o) })
	}
	for i, o := range recs {
		if o.CancelCtx != nil {
			o := o
			name := fmt.Sprintf("cancel-ctx-of-#%d", i+1)
			s.Go(len(recs)+i, "Cancel", func() { m.gate(name); o.CancelCtx() })
		}
	}

	var sig []string
	depth := 0
	for {
		blk, dmp, exact := s.Settle(settleQuiet, settleLimit)
		if !exact {
			for _, t := range blk {
				if g := dmp[t.Goid()]; g != nil {
					res.settleNotes = append(res.settleNotes, g.State+" "+g.TopFrame)
				}
			}
		}
		m.mu.Lock()
		np := len(m.panics)
		m.mu.Unlock()
		if np > 0 {
			res.aborted = "panic"
			break
		}
		opts := s.Parked()
		if len(opts) == 0 {
			if s.AllDone() {
				break
			}
			// nothing left to release, yet some operation has not returned
			stuck, abandon := stuckConfirmed(s, m, recs)
			if abandon {
				res.aborted = "abandoned"
				break
			}
			if stuck {
				wedges.Add(1)
				res.aborted = "stuck"
				res.findings = append(res.findings, stuckFindings(s, m, recs, cd, strings.Join(sig, " "))...)
				break
			}
			continue
		}
		var pick string
		if depth < len(prefix) {
			pick = prefix[depth]
			if !contains(opts, pick) {
				// the program has settled without reaching the wanted gate:
				// the cache made another internal choice (e.g. map iteration
				// order in GC/Close). Only an inexact settle is worth waiting.
				if !exact && s.WaitFor(pick, 500*time.Millisecond) {
					opts = s.Parked()
				} else {
					res.diverged = true
					res.divergeNote = fmt.Sprintf("depth %d wanted %s parked %v prefix %v", depth, pick, opts, prefix)
					pick = opts[0]
				}
			}
		} else {
			pick = opts[choose(opts)]
		}
		res.trace = append(res.trace, decision{Options: opts, Chosen: pick})
		sig = append(sig, pick)
		if !strings.HasPrefix(pick, "start:") {
			res.callbacks++
		}
		depth++
		s.Release(pick)
	}
	res.sig = strings.Join(sig, " ")
	s.SetFree()
	if res.aborted != "" {
		return res
	}

	// shut the cache down (unless an operation already did) and judge
	closed := false
	for _, o := range recs {
		if o.Kind == "Close" && o.Err == "" {
			closed = true
		}
	}
	if !closed {
		o := m.newOp("Close", "", nil, "final", 0)
		done := make(chan struct{})
		go func() { defer close(done); m.do(c, o) }()
		limit := 40 * time.Second
		if wedges.Load() >= wedgeBudget {
			limit = 600 * time.Millisecond
		}
		select {
		case <-done:
			if o.Wall > 8*time.Second {
				wedges.Add(1)
				res.slowClose = true
			}
		case <-time.After(limit):
			if limit < time.Second {
				// circuit breaker (see wedgeBudget): do not wait for Close's
				// internal timeout again; this execution yields no verdict
				res.aborted = "abandoned"
				return res
			}
			// far beyond Close's internal 10 s closeTimeout. A verdict only if
			// the dump shows the call parked directly in repository code.
			wedges.Add(1)
			res.aborted = "stuck"
			d := gates.Dump()
			frame := ""
			for _, g := range d {
				if strings.Contains(g.Text, "c16.(*mon).do") && g.Blocked && g.InRepo {
					frame = shortFrame(g.RepoFrame)
				}
			}
			if frame == "" {
				res.findings = append(res.findings, finding{Key: "", What: "final Close() did not return within 40 s but is not parked in repository code: " + cd.String()})
				return res
			}
			res.findings = append(res.findings, finding{Key: "stuck:Close(final)@" + frame + ":" + stuckCause(m), What: "the final Close() of the cache did not return",
				Detail: map[string]any{"case": cd.String(), "schedule": res.sig, "ops": opLines(m)}})
			return res
		}
		m.mu.Lock()
		np := len(m.panics)
		m.mu.Unlock()
		if np > 0 {
			res.aborted = "panic"
			return res
		}
	}
	res.findings, res.stats = checkAll(m, "", 5*time.Second)
	return res
}

func contains(s []string, x string) bool {
	for _, v := range s {
		if v == x {
			return true
		}
	}
	return false
}

func shortFrame(f string) string {
	return strings.TrimPrefix(f, "github.com/anyproto/any-sync/app/")
}

func opLines(m *mon) []string {
	m.mu.Lock()
	defer m.mu.Unlock()
	var out []string
	for _, o := range m.ops {
		out = append(out, o.String())
		if len(out) >= 80 {
			out = append(out, "…")
			break
		}
	}
	return out
}

// stuckConfirmed: no gate is parked, every unfinished operation is in a
// runtime waiting state, and this stays so. Nothing the harness owns can wake
// them; the only timer inside ocache is Close's 10 s closeTimeout, so when a
// Close is among the unfinished operations the observation window exceeds it.
//
// wedgeBudget: a regression that wedges entries makes every affected
// execution wait (2 s here, or Close's 10 s timeout). After this many such
// executions in one worker process the violation is on record; later ones use
// a short window or are abandoned without a verdict so that the run stays
// bounded.
const wedgeBudget = 3

var wedges atomic.Int32

func stuckConfirmed(s *gates.Sched, m *mon, recs []*opRec) (stuck, abandon bool) {
	window := 2 * time.Second
	over := wedges.Load() >= wedgeBudget
	if over {
		window = 300 * time.Millisecond
	}
	m.mu.Lock()
	for _, o := range recs {
		if o.Kind == "Close" && o.Call != 0 && o.Ret == 0 {
			window = 13 * time.Second
			if over {
				abandon = true
			}
		}
	}
	m.mu.Unlock()
	if abandon {
		return false, true
	}
	t0 := time.Now()
	deadline := t0.Add(window)
	for time.Now().Before(deadline) {
		time.Sleep(20 * time.Millisecond)
		if len(s.Parked()) > 0 || s.AllDone() {
			if time.Since(t0) > 5*time.Second {
				wedges.Add(1) // a Close waited out its closeTimeout on a wedged entry
			}
			return false, false
		}
		m.mu.Lock()
		np := len(m.panics)
		m.mu.Unlock()
		if np > 0 {
			return false, false
		}
	}
	b, _, exact := s.Settle(settleQuiet, time.Second)
	return exact && len(b) > 0 && len(s.Parked()) == 0, false
}

// stuckCause names what the monitor saw before the operations got stuck.
func stuckCause(m *mon) string {
	m.mu.Lock()
	defer m.mu.Unlock()
	for _, in := range m.insts {
		for _, t := range in.Tries {
			if t.Verdict == "true+err" && t.End != 0 {
				return "after-" + opKindOf(m, t.Op) + "-tryclose-error"
			}
		}
	}
	if len(poisonedIDs(m)) > 0 {
		return "after-tryremove-during-load"
	}
	if len(m.panics) > 0 {
		return "after-panic"
	}
	return "no-cause-identified"
}

// stuckFindings: one finding per (operation kind, repository frame it is
// parked in). An operation parked outside repository code is a harness
// problem and yields a finding with an empty key.
func stuckFindings(s *gates.Sched, m *mon, recs []*opRec, cd caseDef, sig string) []finding {
	blocked, dump, _ := s.Settle(settleQuiet, time.Second)
	cause := stuckCause(m)
	seen := map[string]bool{}
	var out []finding
	for _, t := range blocked {
		g := dump[t.Goid()]
		kind := "?"
		if t.Idx < len(recs) {
			kind = recs[t.Idx].Kind
		}
		if g == nil || !g.Blocked || !g.InRepo {
			txt := ""
			if g != nil {
				txt = g.Text
			}
			out = append(out, finding{Key: "", What: "operation " + kind + " is parked outside repository code:\n" + txt})
			continue
		}
		key := "stuck:" + kind + "@" + shortFrame(g.RepoFrame) + ":" + cause
		if cause == "after-tryremove-during-load" {
			key = poisonPrefix + key
		}
		if seen[key] {
			continue
		}
		seen[key] = true
		txt := g.Text
		if len(txt) > 2500 {
			txt = txt[:2500]
		}
		out = append(out, finding{Key: key, What: "every gate has been released, yet " + kind + " never returns (parked in " + shortFrame(g.RepoFrame) + ", goroutine state " + g.State + ")",
			Detail: map[string]any{"ops": opLines(m), "goroutine": txt}})
	}
	return out
}

// ---------------------------------------------------------------- exploration

type exploreStats struct {
	schedules, diverged, exhausted, panics, stuck int64
}

// explore enumerates release orders depth-first up to dfsBound executions and,
// when the tree was not exhausted, adds rndBound PRNG-chosen orders.
func explore(c *lib.Case, cd caseDef, dfsBound, rndBound int) {
	desc := cd.String()
	c.Logf("case: %s", desc)
	type cp struct {
		opts []string
		idx  int
	}
	var stack []cp
	seen := map[string]bool{}
	runs := 0
	exhausted := false
	report := func(r *execResult, mode string) (stop bool) {
		runs++
		c.Eval(1)
		c.Count("sched.schedules", 1)
		c.Count("sched.schedules_"+mode, 1)
		c.Count("sched.gates_released", int64(len(r.trace)))
		c.Count("sched.callback_gates_released", int64(r.callbacks))
		if r.diverged {
			c.Count("sched.replay_diverged", 1)
			c.Sample("diverged", map[string]any{"case": desc, "note": r.divergeNote})
			c.Logf("DIVERGED: %s", r.divergeNote)
		}
		c.Count("sched.settle_dumps", r.sched.Dumps)
		c.Count("sched.settle_limit_hits", r.sched.SettleLimit)
		if len(r.settleNotes) > 0 {
			c.Sample("settle-limit", map[string]any{"case": desc, "notes": r.settleNotes})
			for _, n := range r.settleNotes {
				c.Count("sched.settle_limit_at["+n+"]", 1)
			}
		}
		c.Count("sched.unattributed_callbacks", r.sched.Unattributed)
		if !seen[r.sig] {
			seen[r.sig] = true
			c.Count("sched.distinct_signatures_per_case_sum", 1)
			if r.callbacks > 0 {
				c.Nontrivial(desc + "|" + r.sig)
			}
		}
		flushMon(c, r.mon, &r.stats)
		c.Sample(fmt.Sprintf("ops%d", len(cd.Ops)), map[string]any{"case": desc, "schedule": r.sig, "ops": opLines(r.mon)})
		if c.Verbose {
			c.Logf("schedule: %s", r.sig)
			for _, l := range opLines(r.mon) {
				c.Logf("   %s", l)
			}
		}
		switch r.aborted {
		case "setup":
			c.Inconclusive("setup of the initial cache state failed: " + desc)
			return true
		case "panic":
			c.Count("sched.executions_ended_by_panic", 1)
			reportPanics(c, r.mon, desc, r.sig)
			return false
		case "stuck":
			c.Count("sched.executions_stuck", 1)
			stop = true
		case "abandoned":
			c.Count("sched.executions_abandoned_after_wedge_budget", 1)
			return true
		}
		if r.slowClose {
			c.Count("sched.final_close_hit_closeTimeout", 1)
			stop = true
		}
		if r.stats.dInconclusive {
			c.Inconclusive("a cache Close() took longer than 8 s; left-open check skipped: " + desc)
		}
		for _, f := range r.findings {
			if f.Key == "" {
				c.Inconclusive(f.What)
				continue
			}
			if f.Detail == nil {
				f.Detail = map[string]any{}
			}
			f.Detail["case"] = desc
			f.Detail["schedule"] = r.sig
			c.Violation(f.Key, f.What, f.Detail)
		}
		return stop
	}

	for runs < dfsBound {
		prefix := make([]string, len(stack))
		for i, p := range stack {
			prefix[i] = p.opts[p.idx]
		}
		r := execute(cd, prefix, func([]string) int { return 0 })
		if report(r, "dfs") {
			return
		}
		// rebuild the stack from what was actually observed
		ns := make([]cp, 0, len(r.trace))
		for i, d := range r.trace {
			idx := 0
			for k, o := range d.Options {
				if o == d.Chosen {
					idx = k
				}
			}
			if i < len(stack) && !r.diverged {
				// keep the recorded option list of the prefix (it is what the
				// DFS enumerates); the replay may have seen a subset earlier
				ns = append(ns, stack[i])
				continue
			}
			ns = append(ns, cp{opts: d.Options, idx: idx})
		}
		stack = ns
		for len(stack) > 0 && stack[len(stack)-1].idx+1 >= len(stack[len(stack)-1].opts) {
			stack = stack[:len(stack)-1]
		}
		if len(stack) == 0 {
			exhausted = true
			break
		}
		stack[len(stack)-1].idx++
	}
	if exhausted {
		c.Count("sched.cases_exhausted", 1)
		return
	}
	c.Count("sched.cases_bounded", 1)
	for i := 0; i < rndBound; i++ {
		r := execute(cd, nil, func(o []string) int { return c.Rng.Intn(len(o)) })
		if report(r, "random") {
			return
		}
	}
}

func reportPanics(c *lib.Case, m *mon, desc, sig string) {
	m.mu.Lock()
	ps := append([]panicRec(nil), m.panics...)
	m.mu.Unlock()
	m.mu.Lock()
	poisoned := poisonedIDs(m)
	m.mu.Unlock()
	for _, p := range ps {
		key, inRepo, st := panicKey(p)
		if poisoned[p.Op.ID] || (p.Op.ID == "" && len(poisoned) > 0) {
			key = poisonPrefix + key
		}
		if !inRepo {
			c.Inconclusive(fmt.Sprintf("HARNESS-PANIC in operation %s: %v\n%s", p.Op.String(), p.Val, st))
			continue
		}
		if len(st) > 3000 {
			st = st[:3000]
		}
		c.Violation(key, fmt.Sprintf("panic inside the cache during %s: %v", p.Op.Kind, p.Val),
			map[string]any{"case": desc, "schedule": sig, "op": p.Op.String(), "ops": opLines(m), "stack": st})
	}
}

// flushMon moves the monitor's counters into the evidence counters.
func flushMon(c *lib.Case, m *mon, st *oracleStats) {
	m.mu.Lock()
	for k, v := range m.counts {
		c.Count(k, v)
	}
	c.Count("ops.executed", int64(len(m.ops)))
	var created, live, closed int64
	for _, in := range m.insts {
		created++
		if in.liveCapable() {
			live++
			if in.closeEnd() != inf {
				closed++
			}
		}
	}
	m.mu.Unlock()
	c.Count("instances.created", created)
	c.Count("instances.became_live", live)
	c.Count("instances.closed", closed)
	c.Count("porcupine.histories_checked", st.histories)
	c.Count("porcupine.ok", st.histOK)
	c.Count("porcupine.unknown", st.histUnknown)
	c.Count("porcupine.illegal", st.histIllegal)
	c.Count("porcupine.operations", st.histOps)
	if st.histUnknown > 0 {
		c.Inconclusive("porcupine timed out on a per-id history")
	}
}
