// Package c17: pub/sub delivers exactly to matching member subscriptions and
// leaks no state. A reference matcher and a small reference model of
// membership / identity binding / namespace ownership / registered interest
// decide, for every publish, which harness-owned streams must see it; the
// three serving-side views of interest (space tries, per-stream records, pool
// tags) are compared with the model after every operation and must be empty
// after teardown in any order; a 32-goroutine close/subscribe race runs under
// the race detector.
package c17

import (
	"time"

	"verifharness/lib"
)

type Prop struct{}

func (Prop) ID() string    { return "C17" }
func (Prop) Level() string { return "exploration" }
func (Prop) Rule() string {
	return "trie-sets / trie-seq (exhaustive): every valid pattern of 1..3 segments over {a,b,c,*} with an optional trailing '>' (105 patterns; thorough 1..4 segments, 425) - every pattern set of size <= 2 built fresh, and every ordered pair added then removed in both orders with a removal of an absent pattern in between - against every topic of 1..4 (thorough 1..5) segments over {a,b,c}; the trie's answer must equal the segment-wise reference matcher after every step and an emptied trie must hold no pattern and no node. trie-rand: PRNG add/remove sequences of 40-120 steps with multiplicities over 3-20 patterns. validate: every string of length <= 6 over {a,/,*,>} plus crafted ones through ValidateTopic/ValidatePattern against a reference well-formedness predicate (length/segment-count limits are not judged). node-directed: 16 hand-written corner scenarios (pattern-less subscribe, evict-then-close and close-then-evict with a shared pattern, '>' needs one segment, '*' is one segment, relayed fan-out without forward, identity binding, self-owned namespace, two streams of one peer, close-space then resubscribe, one copy for several matching patterns, non-member / revoked member, malformed topics and patterns) run twice through the same model and monitors. node-seq: PRNG sequences of 30-80 operations (subscribe incl. malformed pattern / bad space id / no patterns / by non-members and node peers, unsubscribe some/all/absent, publish direct/relayed/identity-mismatch/no-identity/invalid-topic/owned and unowned acc topics by members and non-members, open/close stream, evict with and without membership revocation, revalidate, membership change, close space) over 3-9 streams (shared peer ids, anonymous and node-peer streams), 2-3 spaces, 3-4 accounts, 1-2 other responsible nodes, followed by a teardown that withdraws every stream's interest by close / unsubscribe / evict / close-space in random order; non-trivial = at least one delivery, one rejected publish and one pattern removed by the teardown; distinct = operation list. client-seq: PRNG sequences of 30-70 operations on a client-role service (local subscribe/unsubscribe/CloseSpace, membership changes, inbound frames: valid, non-member, unowned acc topic, stale/future, 9 kinds of forgery, replay, invalid topic; a quarter of the valid frames are preceded by a forged twin carrying the same message id; a sixth of the cases contain one flood of 4128 forged frames with fresh ids ahead of a replay); non-trivial = at least one handler delivery and one blocked frame. race: 32 goroutines (24 stream drivers whose streams are closed by context cancel / failing write / EOF at a PRNG point of their subscribe/unsubscribe/publish frames, 4 evictors, 4 space closers) under -race; non-trivial = all three close modes occurred and something was delivered."
}
func (Prop) Assumptions() []string {
	return []string{
		"limits the statement does not mention are configured out of reach: publish rate limit off, pattern caps 2^20, write/dispatch queues 65536 (a full per-stream write queue drops by design)",
		"fewer messages per service than the duplicate-suppression ring (4096), so a replay is never older than the ring",
		"stale/future timestamps are generated at least 20 minutes outside the clock (skew window 5 minutes); valid ones carry the current time; timestamps near the window edge and zero timestamps are not judged",
		"a node trusts frames marked relayed that arrive from a responsible node: relayed frames from node peers are generated only with content an honest node would have accepted",
		"the node role does not verify signatures or suppress duplicates (the statement assigns forged/replayed/stale to handlers): node publishes are correctly signed and carry unique message ids",
		"Subscribe frames mix no malformed pattern with well formed ones (a malformed pattern is sent alone in its frame)",
		"a stream is closed by the harness only after a barrier publish has flushed what was queued for it (losing queued frames on close is not judged); in the race workload closes are arbitrary and only interleaving-independent facts are judged",
		"waits use a 30 s watchdog; a wait that fails ends the sequence and is reported as the missing event or as inconclusive, never as held",
		"IsResponsible is true for every space used",
	}
}

func (Prop) Plan(tier string) []lib.Workload {
	mult := 1
	if tier == "thorough" {
		mult = 30
	}
	nPat := len(enumPatterns(patSegs(tier)))
	ct := 5 * time.Minute
	return []lib.Workload{
		{Name: "trie-sets", Cases: nPat, Exhaustive: true, MinNontrivial: 100},
		{Name: "trie-seq", Cases: nPat, Exhaustive: true, MinNontrivial: 100},
		{Name: "trie-rand", Cases: 200 * mult, MinNontrivial: 100},
		{Name: "validate", Cases: validateBatches, Exhaustive: true, MinNontrivial: 10},
		{Name: "node-directed", Cases: 2 * len(scripts), MinNontrivial: len(scripts), CaseTimeout: ct, Batches: 8},
		{Name: "node-seq", Cases: 500 * mult, MinNontrivial: 200, CaseTimeout: ct},
		{Name: "client-seq", Cases: 200 * mult, MinNontrivial: 80, CaseTimeout: ct},
		{Name: "race", Cases: raceRounds(tier), Race: true, MinNontrivial: 10, CaseTimeout: ct},
		{Name: "race-witness", Cases: raceRounds(tier), Race: true, MinNontrivial: 10, CaseTimeout: ct},
	}
}

func (Prop) RunCase(c *lib.Case) {
	switch c.Workload {
	case "trie-sets":
		runTrieSets(c)
	case "trie-seq":
		runTrieSeq(c)
	case "trie-rand":
		runTrieRand(c)
	case "validate":
		runValidate(c)
	case "node-directed":
		runNodeDirected(c)
	case "node-seq":
		runNodeSeq(c)
	case "client-seq":
		runClient(c)
	case "race-witness":
		runRaceWitness(c)
	case "race":
		runRace(c)
	}
}

func raceRounds(tier string) int {
	if tier == "thorough" {
		return 400
	}
	return 20
}
