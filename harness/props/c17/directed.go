package c17

import (
	"verifharness/lib"
)

// Directed scenarios: short hand-written operation sequences run through the
// same model, monitors and teardown as the random sequences. They pin the
// corner cases named in the property (and the minimal sequences of recorded
// findings) so that every run reaches them whatever the seed.

type script struct {
	name string
	run  func(w *world, d *dsl)
}

// dsl wraps the world's operations and runs the bookkeeping comparison after each.
type dsl struct{ w *world }

func (d *dsl) open(a *account, peerId string) *mStream {
	d.w.fixedAcct, d.w.fixedPeer = a, peerId
	s := d.w.openStream("client")
	d.w.after()
	return s
}
func (d *dsl) openKind(kind string) *mStream {
	s := d.w.openStream(kind)
	d.w.after()
	return s
}
func (d *dsl) sub(s *mStream, space string, pats ...string) {
	if !d.w.stop {
		d.w.doSubscribe(s, space, pats)
		d.w.after()
	}
}
func (d *dsl) unsub(s *mStream, space string, pats ...string) {
	if !d.w.stop {
		d.w.doUnsubscribe(s, space, pats)
		d.w.after()
	}
}
func (d *dsl) pub(s *mStream, space, topic string, o pubOpts) {
	if !d.w.stop {
		d.w.doPublish(s, space, topic, o)
		d.w.after()
	}
}
func (d *dsl) closeS(s *mStream) {
	d.w.barrier("before-close")
	if !d.w.stop {
		d.w.closeStream(s, "eof")
		d.w.after()
	}
}
func (d *dsl) evict(space string, a *account, revoke bool) {
	if !d.w.stop {
		d.w.evict(space, a, revoke)
		d.w.after()
	}
}
func (d *dsl) closeSpace(space string) {
	if !d.w.stop {
		d.w.closeSpace(space)
		d.w.after()
	}
}

var scripts = []script{
	{"empty-subscribe-then-record-pruned-through-another-space", func(w *world, d *dsl) {
		a := d.open(w.accts[0], "p0")
		d.sub(a, "s1", "a")
		d.sub(a, "s2") // a Subscribe frame without patterns
		d.unsub(a, "s1", "a")
		d.unsub(a, "s2")
	}},
	{"empty-subscribe-then-evict", func(w *world, d *dsl) {
		a := d.open(w.accts[0], "p0")
		d.sub(a, "s1")
		d.evict("s1", w.accts[0], false)
	}},
	{"empty-subscribe-then-close-space", func(w *world, d *dsl) {
		a := d.open(w.accts[0], "p0")
		d.sub(a, "s1")
		d.closeSpace("s1")
	}},
	{"empty-subscribe-then-close", func(w *world, d *dsl) {
		a := d.open(w.accts[0], "p0")
		d.sub(a, "s1")
		d.closeS(a)
	}},
	{"evict-then-close-with-shared-pattern", func(w *world, d *dsl) {
		a := d.open(w.accts[0], "p0")
		b := d.open(w.accts[1], "p1")
		d.sub(a, "s1", "a/>", "b")
		d.sub(b, "s1", "a/>", "b")
		d.evict("s1", w.accts[0], true)
		d.pub(b, "s1", "a/b", pubOpts{})
		d.closeS(a)
		d.pub(b, "s1", "a/b", pubOpts{}) // b's interest must survive a's evict + close
		d.pub(b, "s1", "b", pubOpts{})
		d.unsub(b, "s1", "a/>")
		d.pub(b, "s1", "a/b", pubOpts{})
	}},
	{"close-then-evict-with-shared-pattern", func(w *world, d *dsl) {
		a := d.open(w.accts[0], "p0")
		b := d.open(w.accts[1], "p1")
		d.sub(a, "s1", "a/*")
		d.sub(b, "s1", "a/*")
		d.closeS(a)
		d.evict("s1", w.accts[0], true)
		d.pub(b, "s1", "a/b", pubOpts{})
		d.closeSpace("s1")
		d.pub(b, "s1", "a/b", pubOpts{})
	}},
	{"tail-wildcard-needs-one-segment", func(w *world, d *dsl) {
		a := d.open(w.accts[0], "p0")
		b := d.open(w.accts[1], "p1")
		d.sub(a, "s1", "a/>")
		d.sub(b, "s1", "*/>", "a/*/>")
		for _, t := range []string{"a", "b", "a/b", "a/b/c", "b/a", "a/b/c/a"} {
			d.pub(b, "s1", t, pubOpts{})
		}
	}},
	{"star-is-exactly-one-segment", func(w *world, d *dsl) {
		a := d.open(w.accts[0], "p0")
		d.sub(a, "s1", "a/*", "*", "*/b/*")
		for _, t := range []string{"a", "a/b", "a/b/c", "c/b/a", "b/b"} {
			d.pub(a, "s1", t, pubOpts{})
		}
	}},
	{"relayed-fanout-without-forward", func(w *world, d *dsl) {
		a := d.open(w.accts[0], "p0")
		n := d.openKind("node")
		d.sub(a, "s1", "a/>")
		d.pub(n, "s1", "a/b", pubOpts{signer: w.accts[1], relayed: true}) // fan out, never forward
		d.pub(a, "s1", "a/b", pubOpts{relayed: true})                     // a client claiming to relay
		d.pub(a, "s1", "a/b", pubOpts{})                                  // direct: fan out + one forward
		d.pub(n, "s1", "a/b", pubOpts{})                                  // a node account is no member
	}},
	{"identity-binding", func(w *world, d *dsl) {
		a := d.open(w.accts[0], "p0")
		b := d.open(w.accts[1], "p1")
		x := d.openKind("anon")
		d.sub(b, "s1", ">")
		d.pub(a, "s1", "a", pubOpts{signer: w.accts[1]}) // proven acc0, signed acc1 (a member)
		d.pub(a, "s1", "a", pubOpts{noIdentity: true})
		d.pub(x, "s1", "a", pubOpts{signer: w.accts[0]}) // no proven identity at all
		d.pub(x, "s1", "a", pubOpts{signer: w.accts[0], noIdentity: true})
		d.pub(a, "s1", "a", pubOpts{})
	}},
	{"self-owned-namespace", func(w *world, d *dsl) {
		a := d.open(w.accts[0], "p0")
		b := d.open(w.accts[1], "p1")
		d.sub(b, "s1", "acc/>", "acc/*/*")
		d.pub(a, "s1", "acc/a/"+w.accts[0].id, pubOpts{})
		d.pub(a, "s1", "acc/"+w.accts[0].id, pubOpts{})
		d.pub(a, "s1", "acc/a/"+w.accts[1].id, pubOpts{})                   // somebody else's
		d.pub(a, "s1", "acc/a/"+w.accts[1].id, pubOpts{signer: w.accts[1]}) // owner's signature over the wrong connection
		d.pub(a, "s1", "acc/a/b", pubOpts{})                                // nobody's
		d.pub(a, "s1", "acc/"+w.accts[0].id+"/a", pubOpts{})                // owner is the last segment
		d.pub(a, "s1", "a/acc/"+w.accts[1].id, pubOpts{})                   // not in the namespace
	}},
	{"two-streams-of-one-peer-are-independent", func(w *world, d *dsl) {
		a1 := d.open(w.accts[0], "p0")
		a2 := d.open(w.accts[0], "p0")
		b := d.open(w.accts[1], "p1")
		d.sub(a1, "s1", "a")
		d.sub(a2, "s1", "a", "b")
		d.pub(b, "s1", "a", pubOpts{})
		d.closeS(a1)
		d.pub(b, "s1", "a", pubOpts{})
		d.unsub(a2, "s1", "a")
		d.pub(b, "s1", "a", pubOpts{})
		d.pub(b, "s1", "b", pubOpts{})
	}},
	{"close-space-then-resubscribe", func(w *world, d *dsl) {
		a := d.open(w.accts[0], "p0")
		d.sub(a, "s1", "a/b")
		d.sub(a, "s2", "a/b")
		d.closeSpace("s1")
		d.pub(a, "s1", "a/b", pubOpts{})
		d.pub(a, "s2", "a/b", pubOpts{})
		d.unsub(a, "s1", "a/b")
		d.sub(a, "s1", "a/b")
		d.pub(a, "s1", "a/b", pubOpts{})
	}},
	{"one-copy-for-several-matching-patterns", func(w *world, d *dsl) {
		a := d.open(w.accts[0], "p0")
		d.sub(a, "s1", "a/*", "a/b", "*/b", ">", "a/>")
		d.pub(a, "s1", "a/b", pubOpts{})
		d.unsub(a, "s1", "a/*", ">")
		d.pub(a, "s1", "a/b", pubOpts{})
		d.unsub(a, "s1") // all
		d.pub(a, "s1", "a/b", pubOpts{})
	}},
	{"non-member-and-revoked-member", func(w *world, d *dsl) {
		a := d.open(w.accts[0], "p0")
		o := d.open(w.accts[len(w.accts)-1], "po") // outsider
		d.sub(a, "s1", ">")
		d.sub(o, "s1", ">")
		d.pub(o, "s1", "a", pubOpts{})
		d.pub(a, "s1", "a", pubOpts{})
		d.evict("s1", w.accts[0], true)
		d.pub(a, "s1", "a", pubOpts{})
		d.sub(a, "s1", ">")
		d.pub(a, "s1", "a", pubOpts{})
	}},
	{"malformed-topics-and-patterns", func(w *world, d *dsl) {
		a := d.open(w.accts[0], "p0")
		d.sub(a, "s1", ">")
		for _, p := range invalidPatterns {
			d.sub(a, "s1", p)
		}
		for _, t := range invalidTopics {
			d.pub(a, "s1", t, pubOpts{})
		}
		d.pub(a, "s1", "a", pubOpts{})
	}},
}

func runNodeDirected(c *lib.Case) {
	w, cleanup, ok := setupWorld(c)
	defer cleanup()
	if !ok {
		return
	}
	// fixed membership: every account but the last is a member of every normal space
	for _, sp := range []string{"s1", "s2", "s3"} {
		for i, a := range w.accts {
			w.mem.set(sp, a.id, i != len(w.accts)-1)
		}
	}
	sc := scripts[c.Index%len(scripts)]
	w.logOp("script %s", sc.name)
	sc.run(w, &dsl{w})
	c.Count("node.directed_scripts", 1)
	w.directed = sc.name
	w.conclude()
}
