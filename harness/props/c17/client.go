package c17

import (
	"context"
	"fmt"
	"strconv"
	"strings"
	"sync"
	"time"

	"github.com/anyproto/any-sync/app"
	"github.com/anyproto/any-sync/commonspace/pubsub"
	"github.com/anyproto/any-sync/commonspace/pubsub/pubsubproto"
	"github.com/anyproto/any-sync/testutil/accounttest"
	"github.com/anyproto/any-sync/util/crypto"

	"verifharness/lib"
)

// Client role: frames arriving on a stream from a node are delivered to local
// handlers only when they are authentic, fresh, first-time, from a member and
// (in the self-owned namespace) from the owner.

type xorCrypto struct{}

func (xorCrypto) Encrypt(_ string, payload []byte) (string, []byte, error) {
	return "k1", xorBytes(payload), nil
}
func (xorCrypto) Decrypt(_, keyId string, enc []byte) ([]byte, error) {
	if keyId != "k1" {
		return nil, fmt.Errorf("unknown key %q", keyId)
	}
	return xorBytes(enc), nil
}
func xorBytes(b []byte) []byte {
	out := make([]byte, len(b))
	for i := range b {
		out[i] = b[i] ^ 0x5a
	}
	return out
}

type invocation struct {
	sub     int
	space   string
	topic   string
	account string
	payload string
}

type localSub struct {
	id      int
	space   string
	pattern string
	unsub   func()
	active  bool
}

type cliFrame struct {
	idx    int
	desc   string
	class  string // "valid" or the reason it must not reach a handler
	expect map[int]bool
	signer *account
	orig   int // replay: index of the replayed frame
}

type cliWorld struct {
	c       *lib.Case
	svc     pubsub.Service
	mem     *membership
	fs      *fakeStream
	accts   []*account
	spaces  []string
	subs    []*localSub
	frames  []*cliFrame
	raw     map[int]*pubsubproto.Publish // delivered valid frames, for replay
	ops     []string
	crypt   bool
	stop    bool
	flooded bool

	mu      sync.Mutex
	invs    []invocation
	barrier chan int
}

func (w *cliWorld) logOp(format string, a ...any) {
	s := fmt.Sprintf(format, a...)
	w.ops = append(w.ops, s)
	w.c.Logf("op %d: %s", len(w.ops), s)
}

func payloadIdx(p string) int {
	// payloads are "m<idx>" possibly with a tamper suffix
	p = strings.TrimLeft(p, "mM")
	end := 0
	for end < len(p) && p[end] >= '0' && p[end] <= '9' {
		end++
	}
	n, err := strconv.Atoi(p[:end])
	if err != nil {
		return -1
	}
	return n
}

func (w *cliWorld) handler(sub int) pubsub.Handler {
	return func(spaceId, topic string, identity crypto.PubKey, payload []byte) {
		acc := ""
		if identity != nil {
			acc = identity.Account()
		}
		w.mu.Lock()
		w.invs = append(w.invs, invocation{sub: sub, space: spaceId, topic: topic, account: acc, payload: string(payload)})
		w.mu.Unlock()
	}
}

func (w *cliWorld) subscribe(space, pattern string) {
	w.flush()
	id := len(w.subs)
	w.logOp("local subscribe #%d space=%s pattern=%q", id, space, pattern)
	un, err := w.svc.Subscribe(space, pattern, w.handler(id))
	if err != nil {
		w.c.Count("client.local_subscribe_rejected", 1)
		if patternClass(pattern) == "ok" {
			w.c.Violation("client:subscribe-rejected", "a well formed local subscription was rejected", map[string]any{"ops": w.ops, "err": err.Error()})
		}
		return
	}
	if patternClass(pattern) != "ok" && patternClass(pattern) != "limit" {
		w.c.Violation("validate:pattern:accepted:"+patternClass(pattern), "a malformed pattern is accepted by Subscribe", map[string]any{"pattern": pattern})
	}
	w.subs = append(w.subs, &localSub{id: id, space: space, pattern: pattern, unsub: un, active: true})
	w.c.Count("client.local_subscriptions", 1)
}

// build makes a correctly signed frame.
func (w *cliWorld) build(idx int, space, topic string, signer *account, ts int64) *pubsubproto.Publish {
	p := &pubsubproto.Publish{SpaceId: space, Topic: topic, MsgId: msgIdOf(idx), TimestampMilli: ts}
	plain := []byte(fmt.Sprintf("m%d", idx))
	if w.crypt {
		p.KeyId, p.Payload = "k1", xorBytes(plain)
	} else {
		p.Payload = plain
	}
	signAs(signer, p)
	return p
}

func (w *cliWorld) send(p *pubsubproto.Publish) {
	if !w.fs.feed(wrapPub(p), wd) {
		w.c.Inconclusive("client did not take up a frame")
		w.stop = true
	}
	w.c.Count("client.frames", 1)
}

func (w *cliWorld) matching(space, topic string) map[int]bool {
	out := map[int]bool{}
	for _, s := range w.subs {
		if s.active && s.space == space && refMatch(s.pattern, topic) {
			out[s.id] = true
		}
	}
	return out
}

// flush waits until the dispatch queue has drained: a valid message to the
// dedicated barrier subscription is dispatched after everything queued before.
func (w *cliWorld) flush() {
	if w.stop {
		return
	}
	idx := len(w.frames)
	fr := &cliFrame{idx: idx, class: "barrier", expect: map[int]bool{}, signer: w.accts[0], desc: fmt.Sprintf("frame#%d barrier", idx)}
	w.frames = append(w.frames, fr)
	w.send(w.build(idx, barrierSpace, barrierTopic, w.accts[0], time.Now().UnixMilli()))
	if w.stop {
		return
	}
	t := time.NewTimer(wd)
	defer t.Stop()
	for {
		select {
		case got := <-w.barrier:
			if got == idx {
				return
			}
		case <-t.C:
			w.c.Inconclusive("the barrier message never reached the barrier handler (dispatch did not drain)")
			w.stop = true
			return
		}
	}
}

func runClient(c *lib.Case) {
	r := c.Rng
	w := &cliWorld{c: c, mem: newMembership(), raw: map[int]*pubsubproto.Publish{}, barrier: make(chan int, 1024), crypt: r.Intn(2) == 0}
	deps := pubsub.Deps{Membership: w.mem, Peers: noPeers{}, Config: bigConfig()}
	if w.crypt {
		deps.Crypto = xorCrypto{}
	}
	w.svc = pubsub.New(deps)
	a := new(app.App)
	a.Register(accounttest.NewWithAcc(newAccountKeys(r))).Register(w.svc)
	if err := a.Start(context.Background()); err != nil {
		c.Inconclusive("service start: " + err.Error())
		return
	}
	nodeAcc := newAccount(r, "node")
	w.fs = newFakeStream("from-node", "node1", nodeAcc.identity, true)
	done := make(chan struct{})
	go func() { _ = w.svc.HandleStream(w.fs); close(done) }()
	defer func() {
		w.fs.signalEOF()
		select {
		case <-done:
		case <-time.After(wd):
		}
		_ = a.Close(context.Background())
	}()
	if !w.fs.awaitReady(wd) {
		c.Inconclusive("client did not take up the stream")
		return
	}
	for i := 0; i < 4; i++ {
		w.accts = append(w.accts, newAccount(r, fmt.Sprintf("acc%d", i)))
	}
	outsider := w.accts[3]
	w.spaces = []string{"s1", "s2"}
	for _, sp := range w.spaces {
		for _, ac := range w.accts[:3] {
			w.mem.set(sp, ac.id, r.Intn(10) < 8)
		}
	}
	w.mem.set(barrierSpace, w.accts[0].id, true)
	// the barrier subscription
	if _, err := w.svc.Subscribe(barrierSpace, "bar/>", func(_, _ string, _ crypto.PubKey, payload []byte) {
		w.barrier <- payloadIdx(string(payload))
	}); err != nil {
		c.Inconclusive("barrier subscribe: " + err.Error())
		return
	}
	pats := enumPatterns(3)
	topics := enumTopics(3)
	genPattern := func() string {
		switch x := r.Intn(10); {
		case x < 7:
			return pats[r.Intn(len(pats))]
		case x < 8:
			return "acc/>"
		case x < 9:
			return "acc/*/*"
		default:
			return ">"
		}
	}
	for i := 0; i < 3; i++ {
		w.subscribe(w.spaces[r.Intn(2)], genPattern())
	}
	now := func() int64 { return time.Now().UnixMilli() }
	nOps := 30 + r.Intn(41)
	for i := 0; i < nOps && !w.stop; i++ {
		switch x := r.Intn(100); {
		case x < 12:
			w.subscribe(w.spaces[r.Intn(2)], genPattern())
		case x < 14:
			w.subscribe(w.spaces[r.Intn(2)], invalidPatterns[r.Intn(len(invalidPatterns))])
		case x < 20:
			var act []*localSub
			for _, s := range w.subs {
				if s.active {
					act = append(act, s)
				}
			}
			if len(act) == 0 {
				continue
			}
			s := act[r.Intn(len(act))]
			w.flush()
			w.logOp("local unsubscribe #%d", s.id)
			s.unsub()
			s.active = false
			w.c.Count("client.local_unsubscribes", 1)
		case x < 23:
			sp := w.spaces[r.Intn(2)]
			w.flush()
			w.logOp("CloseSpace %s", sp)
			w.svc.CloseSpace(sp)
			for _, s := range w.subs {
				if s.space == sp {
					s.active = false
				}
			}
			w.c.Count("client.space_closes", 1)
		case x < 27:
			sp := w.spaces[r.Intn(2)]
			ac := w.accts[r.Intn(3)]
			v := r.Intn(3) != 0
			w.logOp("setMember space=%s account=%s member=%v", sp, ac.name, v)
			w.mem.set(sp, ac.id, v)
		default:
			// an inbound publish frame
			idx := len(w.frames)
			sp := w.spaces[r.Intn(2)]
			signer := w.accts[r.Intn(3)]
			topic := topics[r.Intn(len(topics))]
			switch y := r.Intn(10); {
			case y < 1:
				topic = "acc/a/" + signer.id
			case y < 2:
				topic = "acc/" + signer.id
			case y < 7: // a topic some live local subscription of the space matches
				var live []*localSub
				for _, s := range w.subs {
					if s.active && s.space == sp && !strings.HasPrefix(s.pattern, "acc") {
						live = append(live, s)
					}
				}
				if len(live) > 0 {
					topic = instantiate(live[r.Intn(len(live))].pattern, r.Intn)
				}
			}
			fr := &cliFrame{idx: idx, signer: signer, expect: map[int]bool{}}
			var p *pubsubproto.Publish
			relayed := r.Intn(2) == 0
			kind := r.Intn(100)
			switch {
			case kind < 40: // plain: valid iff the signer is a member
				p = w.build(idx, sp, topic, signer, now())
				if w.mem.is(sp, signer.id) {
					fr.class = "valid"
				} else {
					fr.class = "non-member"
				}
			case kind < 47: // outsider, correctly signed
				signer = outsider
				fr.signer = outsider
				if strings.HasPrefix(topic, "acc/") {
					topic = "acc/a/" + outsider.id
				}
				p = w.build(idx, sp, topic, outsider, now())
				fr.class = "non-member"
			case kind < 55: // somebody else's self-owned topic, signer is a member
				var owner *account
				for _, o := range w.accts {
					if o != signer {
						owner = o
					}
				}
				topic = "acc/a/" + owner.id
				if r.Intn(3) == 0 {
					topic = "acc/" + owner.id
				}
				p = w.build(idx, sp, topic, signer, now())
				fr.class = "unowned-acc-topic"
			case kind < 65: // stale or from the future, far outside any skew window
				off := []time.Duration{-time.Hour, time.Hour, -20 * time.Minute, 20 * time.Minute, -24 * time.Hour}[r.Intn(5)]
				p = w.build(idx, sp, topic, signer, time.Now().Add(off).UnixMilli())
				fr.class = "stale"
			case kind < 85: // forged
				p = w.build(idx, sp, topic, signer, now())
				switch f := r.Intn(9); f {
				case 0:
					p.Signature = make([]byte, len(p.Signature))
					fr.class = "forged:zero-signature"
				case 1:
					p.Signature = nil
					fr.class = "forged:no-signature"
				case 2: // claims signer's identity, signed with another member's key
					other := w.accts[(r.Intn(2)+1+indexOf(w.accts, signer))%3]
					sig, _ := other.priv.Sign(signData(p))
					p.Signature = sig
					fr.class = "forged:signed-by-other-key"
				case 3: // signed frame moved to another topic that is subscribed
					p.Topic = topics[r.Intn(len(topics))] + "/a"
					if len(strings.Split(p.Topic, "/")) > 3 {
						p.Topic = "a"
					}
					if p.Topic == topic {
						p.Topic = topic + "/b"
					}
					fr.class = "forged:topic-changed"
					topic = p.Topic
				case 4:
					tampered := []byte(fmt.Sprintf("m%dx", idx))
					if w.crypt {
						tampered = xorBytes(tampered)
					}
					p.Payload = tampered
					fr.class = "forged:payload-changed"
				case 5:
					p.SpaceId = w.spaces[(indexOfStr(w.spaces, sp)+1)%2]
					fr.class = "forged:space-changed"
				case 6:
					p.TimestampMilli++
					fr.class = "forged:timestamp-changed"
				case 7: // identity swapped to another member, signature untouched
					other := w.accts[(1+indexOf(w.accts, signer))%3]
					p.Identity = append([]byte{}, other.identity...)
					fr.class = "forged:identity-swapped"
				default:
					p.Signature[len(p.Signature)/2] ^= 0x01
					fr.class = "forged:bit-flip"
				}
			case kind < 97: // replay of a frame that already reached a handler
				var cands []int
				for k := range w.raw {
					cands = append(cands, k)
				}
				if len(cands) == 0 {
					continue
				}
				if !w.flooded && c.Index%6 == 0 && r.Intn(3) == 0 {
					// a flood of forged frames with fresh message ids, more than the duplicate filter remembers:
					// frames that are not authentic must not consume the filter's memory, so the replay that
					// follows is still recognised
					w.flooded = true
					n := 4096 + 32
					w.logOp("flood of %d forged frames (fresh message ids, signatures that do not verify)", n)
					for j := 0; j < n && !w.stop; j++ {
						f := w.build(1_000_000+j, sp, topic, signer, now())
						f.Signature[j%len(f.Signature)] ^= 0x04
						w.send(f)
					}
					w.c.Count("client.forged_floods", 1)
					w.c.Count("client.forged_flood_frames", int64(n))
				}
				sortInts(cands)
				orig := cands[r.Intn(len(cands))]
				p = clonePub(w.raw[orig])
				if r.Intn(2) == 0 {
					p.Relayed = !p.Relayed // not covered by the signature
				}
				fr.class = "replay"
				fr.orig = orig
				fr.desc = fmt.Sprintf("frame#%d replay of frame#%d", idx, orig)
				w.frames = append(w.frames, fr)
				w.logOp("%s", fr.desc)
				w.send(p)
				w.c.Count("client.frame.replay", 1)
				if len(w.matching(p.SpaceId, p.Topic)) > 0 {
					w.c.Count("client.blocked_frames_matching_a_live_subscription.replay", 1)
				}
				continue
			default:
				p = w.build(idx, sp, invalidTopics[r.Intn(len(invalidTopics))], signer, now())
				topic = p.Topic
				fr.class = "invalid-topic"
			}
			p.Relayed = relayed
			if fr.class == "valid" {
				fr.expect = w.matching(p.SpaceId, p.Topic)
				if len(fr.expect) > 0 {
					w.raw[idx] = clonePub(p)
				}
			}
			if fr.class != "valid" && len(w.matching(p.SpaceId, p.Topic)) > 0 {
				w.c.Count("client.blocked_frames_matching_a_live_subscription."+strings.SplitN(fr.class, ":", 2)[0], 1)
			}
			fr.desc = fmt.Sprintf("frame#%d space=%s topic=%q signer=%s class=%s expect-subs=%v", idx, p.SpaceId, p.Topic, fr.signer.name, fr.class, keysOfInt(fr.expect))
			w.frames = append(w.frames, fr)
			w.logOp("%s", fr.desc)
			if fr.class == "valid" && r.Intn(4) == 0 {
				// a forged twin arrives first: same message id, same claimed identity, signature that does not
				// verify. It must be dropped without any effect on the genuine message that follows
				// (added after seeded change C17-4 - duplicate filter consulted before the signature check)
				twin := clonePub(p)
				tw := "bit-flip"
				switch r.Intn(3) {
				case 0:
					twin.Signature[len(twin.Signature)/3] ^= 0x10
				case 1:
					other := w.accts[(1+indexOf(w.accts, signer))%3]
					sig, _ := other.priv.Sign(signData(twin))
					twin.Signature = sig
					tw = "signed-by-other-key"
				default:
					tampered := []byte(fmt.Sprintf("m%dx", idx))
					if w.crypt {
						tampered = xorBytes(tampered)
					}
					twin.Payload = tampered
					tw = "payload-changed"
				}
				twin.Relayed = r.Intn(2) == 0
				w.logOp("forged twin (%s) of frame#%d sent ahead of it (same message id)", tw, idx)
				w.send(twin)
				w.c.Count("client.forged_twins_sent_ahead_of_a_valid_frame", 1)
				if len(fr.expect) > 0 {
					w.c.Count("client.forged_twins_ahead_of_a_valid_frame_with_live_subscription", 1)
				}
			}
			w.send(p)
			w.c.Count("client.frame."+strings.SplitN(fr.class, ":", 2)[0], 1)
		}
	}
	w.flush()
	c.Eval(1)
	if w.stop {
		return
	}
	// ---- verdict -------------------------------------------------------------
	w.mu.Lock()
	invs := append([]invocation(nil), w.invs...)
	w.mu.Unlock()
	count := map[[2]int]int{} // (frame idx, sub) -> invocations
	for _, iv := range invs {
		idx := payloadIdx(iv.payload)
		if idx < 0 || idx >= len(w.frames) {
			c.Violation("client:unknown-message-at-handler", "a handler was invoked with a payload nobody sent", map[string]any{"ops": w.ops, "invocation": iv})
			continue
		}
		count[[2]int{idx, iv.sub}]++
		fr := w.frames[idx]
		if fr.class == "valid" && fr.signer != nil && iv.account != fr.signer.id {
			c.Violation("client:wrong-identity-at-handler", "a handler was told a different sender than the one who signed", map[string]any{"ops": w.ops, "frame": fr.desc, "invocation": iv})
		}
	}
	delivered, blocked := 0, 0
	for _, fr := range w.frames {
		if fr.class == "barrier" || fr.class == "replay" {
			continue
		}
		wasReplayed := false
		for _, f2 := range w.frames {
			if f2.class == "replay" && f2.orig == fr.idx {
				wasReplayed = true
			}
		}
		for _, s := range w.subs {
			n := count[[2]int{fr.idx, s.id}]
			want := fr.expect[s.id]
			c.Count("client.handler_decisions", 1)
			switch {
			case want && n == 1:
				delivered++
			case want && n == 0:
				c.Violation("client:valid-not-delivered", "an authentic fresh message from a member did not reach a matching handler", map[string]any{"ops": w.ops, "frame": fr.desc, "sub": s.id})
			case want && n > 1:
				key := "client:duplicate-at-handler"
				if wasReplayed {
					key = "client:reached-handler:replay"
				}
				c.Violation(key, "a handler received the same message more than once", map[string]any{"ops": w.ops, "frame": fr.desc, "sub": s.id, "times": n})
			case !want && n > 0:
				why := fr.class
				if fr.class == "valid" {
					why = "valid-but-no-matching-active-subscription"
					if wasReplayed {
						why = "replay"
					}
				}
				c.Violation("client:reached-handler:"+why, "a message that must not reach this handler reached it", map[string]any{"ops": w.ops, "frame": fr.desc, "sub": s.id, "pattern": s.pattern, "active": s.active})
			default:
				if fr.class != "valid" {
					blocked++
				}
			}
		}
	}
	c.Count("client.handler_deliveries_observed", int64(delivered))
	c.Count("client.handler_invocations", int64(len(invs)))
	// ---- withdraw everything, local bookkeeping must be gone -------------------
	order := r.Perm(len(w.subs))
	for _, i := range order {
		s := w.subs[i]
		if !s.active {
			if r.Intn(3) == 0 {
				s.unsub() // a second unsubscribe must be harmless
			}
			continue
		}
		if r.Intn(4) == 0 {
			w.svc.CloseSpace(s.space)
			for _, t := range w.subs {
				if t.space == s.space {
					t.active = false
				}
			}
		} else {
			s.unsub()
			s.active = false
		}
	}
	subs, trieLen := pubsub.VerifLocalSnapshot(w.svc)
	delete(subs, barrierSpace)
	delete(trieLen, barrierSpace)
	c.Count("client.leak_checks", 1)
	if len(subs) != 0 || len(trieLen) != 0 {
		c.Violation("leak:client-local-interest", "local interest bookkeeping remains after every local subscription was withdrawn", map[string]any{"ops": w.ops, "subs": subs, "trie": trieLen})
	}
	if delivered > 0 && blocked > 0 {
		c.Nontrivial(strings.Join(w.ops, "\n"))
	}
	c.Sample("client-seq", map[string]any{"ops": firstN(w.ops, 30), "handler_deliveries": delivered})
}

func clonePub(p *pubsubproto.Publish) *pubsubproto.Publish {
	b, err := p.MarshalVT()
	if err != nil {
		panic(err)
	}
	out := &pubsubproto.Publish{}
	if err = out.UnmarshalVT(b); err != nil {
		panic(err)
	}
	return out
}

func indexOf(l []*account, a *account) int {
	for i, x := range l {
		if x == a {
			return i
		}
	}
	return 0
}
func indexOfStr(l []string, a string) int {
	for i, x := range l {
		if x == a {
			return i
		}
	}
	return 0
}
func sortInts(a []int) {
	for i := 1; i < len(a); i++ {
		for j := i; j > 0 && a[j-1] > a[j]; j-- {
			a[j-1], a[j] = a[j], a[j-1]
		}
	}
}
func keysOfInt(m map[int]bool) []int {
	var out []int
	for k := range m {
		out = append(out, k)
	}
	sortInts(out)
	return out
}
