package c17

import (
	"sort"
	"strings"
)

// ---------------------------------------------------------------------------
// Reference model of the matching rule and of well-formedness. Written from
// the property statement (and the grammar comments of the wire format), not
// from trie.go: a pattern is a '/'-separated list of segments; a literal
// segment matches the equal topic segment, `*` matches exactly one segment,
// a trailing `>` matches one or more remaining segments.
// ---------------------------------------------------------------------------

func refMatch(pattern, topic string) bool {
	ps := strings.Split(pattern, "/")
	ts := strings.Split(topic, "/")
	for i, p := range ps {
		if p == ">" && i == len(ps)-1 {
			return len(ts) >= i+1 // at least one segment left for '>'
		}
		if i >= len(ts) {
			return false
		}
		if p == "*" {
			continue
		}
		if p != ts[i] {
			return false
		}
	}
	return len(ps) == len(ts)
}

// refMatchSet returns the sorted distinct patterns of set that match topic.
func refMatchSet(set []string, topic string) []string {
	seen := map[string]bool{}
	var out []string
	for _, p := range set {
		if !seen[p] && refMatch(p, topic) {
			seen[p] = true
			out = append(out, p)
		}
	}
	sort.Strings(out)
	return out
}

func anyMatch(set map[string]bool, topic string) bool {
	for p := range set {
		if refMatch(p, topic) {
			return true
		}
	}
	return false
}

// Structural limits of the wire format (topic.go constants). The statement
// does not name them, so strings beyond them are generated only as evidence
// and never judged.
const (
	limitTopicLen = 256
	limitSegments = 16
)

// topicClass classifies a string as a publish topic:
// "ok", or the reason it is not well formed, or "limit" (not judged).
func topicClass(s string) string {
	if s == "" {
		return "empty"
	}
	segs := strings.Split(s, "/")
	for _, g := range segs {
		if g == "" {
			return "empty-segment"
		}
	}
	for _, g := range segs {
		if strings.ContainsAny(g, "*>") {
			return "wildcard-in-topic"
		}
	}
	if len(s) > limitTopicLen || len(segs) > limitSegments {
		return "limit"
	}
	return "ok"
}

// patternClass classifies a string as a subscription pattern.
func patternClass(s string) string {
	if s == "" {
		return "empty"
	}
	segs := strings.Split(s, "/")
	for _, g := range segs {
		if g == "" {
			return "empty-segment"
		}
	}
	for i, g := range segs {
		switch {
		case g == "*":
		case g == ">":
			if i != len(segs)-1 {
				return "tail-wildcard-not-last"
			}
		case strings.ContainsAny(g, "*>"):
			return "wildcard-inside-segment"
		}
	}
	if len(s) > limitTopicLen || len(segs) > limitSegments {
		return "limit"
	}
	return "ok"
}

// topicOwnerRef: the self-owned namespace is `acc/…/<account>`; the owner is
// the last segment. Topics outside the namespace have no owner.
func topicOwnerRef(topic string) (inNamespace bool, owner string) {
	segs := strings.Split(topic, "/")
	if len(segs) < 2 || segs[0] != "acc" {
		return false, ""
	}
	return true, segs[len(segs)-1]
}

// ---------------------------------------------------------------------------
// enumerations over the small alphabet
// ---------------------------------------------------------------------------

var letters = []string{"a", "b", "c"}

// enumTopics: every topic of 1..maxSeg segments over the 3-letter alphabet.
func enumTopics(maxSeg int) []string {
	var out []string
	var rec func(prefix []string)
	rec = func(prefix []string) {
		if len(prefix) > 0 {
			out = append(out, strings.Join(prefix, "/"))
		}
		if len(prefix) == maxSeg {
			return
		}
		for _, l := range letters {
			rec(append(append([]string{}, prefix...), l))
		}
	}
	rec(nil)
	return out
}

// enumPatterns: every valid pattern of 1..maxSeg segments: inner segments in
// {a,b,c,*}, last segment in {a,b,c,*,>}.
func enumPatterns(maxSeg int) []string {
	inner := append(append([]string{}, letters...), "*")
	last := append(append([]string{}, inner...), ">")
	var out []string
	var rec func(prefix []string)
	rec = func(prefix []string) {
		for _, l := range last {
			out = append(out, strings.Join(append(append([]string{}, prefix...), l), "/"))
		}
		if len(prefix) == maxSeg-1 {
			return
		}
		for _, l := range inner {
			rec(append(append([]string{}, prefix...), l))
		}
	}
	rec(nil)
	sort.Strings(out)
	return out
}

// enumStrings: every string of length 1..maxLen over the given bytes.
func enumStrings(alphabet string, maxLen int) []string {
	var out []string
	var rec func(cur []byte)
	rec = func(cur []byte) {
		if len(cur) > 0 {
			out = append(out, string(cur))
		}
		if len(cur) == maxLen {
			return
		}
		for i := 0; i < len(alphabet); i++ {
			rec(append(append([]byte{}, cur...), alphabet[i]))
		}
	}
	rec(nil)
	return out
}

func sortedCopy(s []string) []string {
	out := append([]string{}, s...)
	sort.Strings(out)
	return out
}

func equalStrings(a, b []string) bool {
	if len(a) != len(b) {
		return false
	}
	for i := range a {
		if a[i] != b[i] {
			return false
		}
	}
	return true
}

func keysOf(m map[string]bool) []string {
	out := make([]string, 0, len(m))
	for k := range m {
		out = append(out, k)
	}
	sort.Strings(out)
	return out
}

// instantiate returns a topic matched by the (valid) pattern: '*' becomes a
// letter, a trailing '>' one or two letters. pick(n) returns a number in [0,n).
func instantiate(pattern string, pick func(int) int) string {
	segs := strings.Split(pattern, "/")
	var out []string
	for i, g := range segs {
		switch {
		case g == "*":
			out = append(out, letters[pick(len(letters))])
		case g == ">" && i == len(segs)-1:
			out = append(out, letters[pick(len(letters))])
			if pick(2) == 0 {
				out = append(out, letters[pick(len(letters))])
			}
		default:
			out = append(out, g)
		}
	}
	return strings.Join(out, "/")
}
