package c17

import (
	"context"
	"fmt"
	"math"
	"math/rand"
	"sort"
	"strings"
	"sync"
	"time"

	"storj.io/drpc"

	"github.com/anyproto/any-sync/app"
	"github.com/anyproto/any-sync/commonspace/pubsub"
	"github.com/anyproto/any-sync/commonspace/pubsub/pubsubproto"
	"github.com/anyproto/any-sync/net/peer"
	"github.com/anyproto/any-sync/net/streampool"
	"github.com/anyproto/any-sync/testutil/accounttest"

	"verifharness/lib"
)

// watchdog for every wait on the service (>= 1000x the normal latency of a
// frame round trip, which is microseconds). Only ever turns a wait into
// "did not happen"; no verdict depends on how long something took.
const wd = 30 * time.Second

const barrierSpace = "sb"
const barrierTopic = "bar/x"

var barrierPatterns = []string{"bar/x", "bar/*", "bar/>", "*/x", ">", "*/*"}

// bigConfig keeps every limit the statement does not mention out of reach of
// the workloads (rate limit, pattern caps, queue sizes) and makes the dial
// pool a single FIFO worker so that a barrier also flushes node forwards.
func bigConfig() pubsub.Config {
	return pubsub.Config{
		MaxPatternsPerStream: 1 << 20,
		MaxPatternsPerSpace:  1 << 20,
		PublishRps:           math.MaxFloat64,
		PublishBurst:         1 << 30,
		WriteQueueSize:       1 << 16,
		DispatchQueueSize:    1 << 16,
		DialQueueWorkers:     1,
		DialQueueSize:        1 << 16,
		ResyncInterval:       time.Hour,
	}
}

type mStream struct {
	idx    int
	name   string
	peerId string
	acct   *account // nil: the inbound connection carries no proven identity
	node   bool     // stream of another responsible node
	open   bool
	pats   map[string]map[string]bool   // live interest: space -> pattern set
	gone   map[string]map[string]string // space -> pattern -> how it was withdrawn (for the witness class)
	// touched: spaces in which the service accepted a Subscribe frame of this
	// stream (even one without patterns) and no withdrawal event happened since
	touched map[string]bool
	fs      *fakeStream
	done    chan struct{}
}

type pubRec struct {
	idx      int
	desc     string
	class    string // accepted: "direct" / "relayed" / "barrier"; rejected: the reason
	accepted bool
	relayed  bool
	forward  bool
	expect   map[int]bool   // stream idx -> must receive
	why      map[int]string // stream idx -> why not (for streams that must not receive)
}

type world struct {
	c         *lib.Case
	r         *rand.Rand
	app       *app.App
	svc       pubsub.Service
	pool      streampool.StreamPool
	mem       *membership
	rel       *relay
	accts     []*account
	nodeAcct  *account
	spaces    []string
	nodeIds   []string
	streams   []*mStream
	pubs      []*pubRec
	ops       []string
	outMu     sync.Mutex
	outbound  []*mStream // streams the pool opened towards other nodes
	stop      bool       // a wait failed: stop generating, go to the verdict
	booksOK   bool       // no bookkeeping disagreement reported so far (one report per case)
	fixedAcct *account   // directed scripts: account / peer of the next opened client stream
	fixedPeer string
	directed  string // name of the directed script, if any
	nDirect   int64
	lastOp    string
}

func (w *world) logOp(format string, a ...any) {
	s := fmt.Sprintf(format, a...)
	w.ops = append(w.ops, s)
	w.lastOp = s
	w.c.Logf("op %d: %s", len(w.ops), s)
}

func startApp(r *rand.Rand, svc pubsub.Service) (*app.App, error) {
	a := new(app.App)
	a.Register(accounttest.NewWithAcc(newAccountKeys(r))).Register(svc)
	if err := a.Start(context.Background()); err != nil {
		return nil, err
	}
	return a, nil
}

func startNode(c *lib.Case, r *rand.Rand, mem *membership, rel *relay) (*app.App, pubsub.Service, error) {
	svc := pubsub.New(pubsub.Deps{Membership: mem, Relay: rel, Config: bigConfig()})
	a, err := startApp(r, svc)
	if err != nil {
		return nil, nil, err
	}
	return a, svc, nil
}

func newWorld(c *lib.Case) *world {
	r := c.Rng
	w := &world{c: c, r: r, mem: newMembership(), rel: &relay{nodeIds: map[string]bool{}}}
	nAcc := 3 + r.Intn(2)
	for i := 0; i < nAcc; i++ {
		w.accts = append(w.accts, newAccount(r, fmt.Sprintf("acc%d", i)))
	}
	w.nodeAcct = newAccount(r, "nodeacc")
	nSp := 2 + r.Intn(2)
	for i := 0; i < nSp; i++ {
		w.spaces = append(w.spaces, fmt.Sprintf("s%d", i+1))
	}
	// the last account is an outsider of every normal space at the start
	for _, sp := range w.spaces {
		for i, a := range w.accts {
			if i == len(w.accts)-1 {
				continue
			}
			if r.Intn(100) < 85 {
				w.mem.set(sp, a.id, true)
			}
		}
	}
	for _, a := range w.accts {
		w.mem.set(barrierSpace, a.id, true)
	}
	nNodes := 1 + r.Intn(2)
	for i := 0; i < nNodes; i++ {
		id := fmt.Sprintf("node%d", i+2)
		w.nodeIds = append(w.nodeIds, id)
		w.rel.nodeIds[id] = true
		pid := id
		fp := &fakePeer{id: pid, ctx: context.Background(), closeCh: make(chan struct{})}
		fp.newConn = func(ctx context.Context) (drpc.Conn, error) {
			return &fakeConn{closed: make(chan struct{}), newStream: func(ctx context.Context) (drpc.Stream, error) {
				return w.newOutbound(pid), nil
			}}, nil
		}
		w.rel.others = append(w.rel.others, fp)
	}
	return w
}

// newOutbound is called by the pool (dial worker) when it has to open a
// stream towards another node because none is registered for that peer.
func (w *world) newOutbound(peerId string) *fakeStream {
	w.outMu.Lock()
	defer w.outMu.Unlock()
	fs := newFakeStream(fmt.Sprintf("out-%s-%d", peerId, len(w.outbound)), peerId, w.nodeAcct.identity, false)
	w.outbound = append(w.outbound, &mStream{idx: -1, name: fs.name, peerId: peerId, acct: w.nodeAcct, node: true, open: true, fs: fs})
	w.c.Count("node.outbound_streams_opened_by_pool", 1)
	return fs
}

func (w *world) openStream(kind string) *mStream {
	s := &mStream{idx: len(w.streams), pats: map[string]map[string]bool{}, gone: map[string]map[string]string{}, touched: map[string]bool{}, open: true, done: make(chan struct{})}
	var identity []byte
	switch kind {
	case "node":
		s.node = true
		s.peerId = w.nodeIds[w.r.Intn(len(w.nodeIds))]
		s.acct = w.nodeAcct
		identity = w.nodeAcct.identity
	case "anon":
		s.peerId = fmt.Sprintf("anon-peer-%d", s.idx)
	default:
		s.acct = w.accts[w.r.Intn(len(w.accts)-1)]
		if w.r.Intn(8) == 0 {
			s.acct = w.accts[len(w.accts)-1] // the outsider
		}
		// two devices per account: streams of one (account, device) share the peer id
		s.peerId = fmt.Sprintf("peer-%s-d%d", s.acct.name, w.r.Intn(2))
		if w.fixedAcct != nil {
			s.acct, s.peerId = w.fixedAcct, w.fixedPeer
			w.fixedAcct = nil
		}
		identity = s.acct.identity
	}
	s.name = fmt.Sprintf("st%d", s.idx)
	s.fs = newFakeStream(s.name, s.peerId, identity, true)
	w.streams = append(w.streams, s)
	an := "-"
	if s.acct != nil {
		an = s.acct.name
	}
	w.logOp("open %s kind=%s peer=%s account=%s", s.name, kind, s.peerId, an)
	go func() {
		_ = w.svc.HandleStream(s.fs)
		close(s.done)
	}()
	if !s.fs.awaitReady(wd) {
		w.c.Inconclusive("stream was not taken up by the service: " + s.name)
		w.stop = true
	}
	w.c.Count("node.streams_opened", 1)
	return s
}

func (w *world) feed(s *mStream, m *pubsubproto.PubSubMessage) {
	if !s.fs.feed(m, wd) {
		w.c.Inconclusive(fmt.Sprintf("frame not taken up on %s after op %q", s.name, w.lastOp))
		w.stop = true
	}
}

func (w *world) openClients() []*mStream {
	var out []*mStream
	for _, s := range w.streams {
		if s.open && !s.node {
			out = append(out, s)
		}
	}
	return out
}

func (w *world) openAll() []*mStream {
	var out []*mStream
	for _, s := range w.streams {
		if s.open {
			out = append(out, s)
		}
	}
	return out
}

func validSpaceId(sp string) bool { return sp != "" && !strings.Contains(sp, "/") }

// doSubscribe sends one Subscribe frame and updates the model.
func (w *world) doSubscribe(s *mStream, space string, pats []string) {
	w.logOp("subscribe %s space=%q patterns=%q", s.name, space, pats)
	w.feed(s, wrapSub(space, pats))
	w.c.Count("node.subscribe_frames", 1)
	allValid := true
	for _, p := range pats {
		if patternClass(p) != "ok" {
			allValid = false
		}
	}
	switch {
	case s.acct == nil:
		w.c.Count("node.subscribe.rejected.no-identity", 1)
	case !validSpaceId(space):
		w.c.Count("node.subscribe.rejected.bad-space-id", 1)
	case !allValid:
		w.c.Count("node.subscribe.rejected.invalid-pattern", 1)
	case !w.mem.is(space, s.acct.id):
		w.c.Count("node.subscribe.rejected.non-member", 1)
	default:
		s.touched[space] = true
		if len(pats) == 0 {
			w.c.Count("node.subscribe.accepted_without_patterns", 1)
		}
		for _, p := range pats {
			if s.pats[space] == nil {
				s.pats[space] = map[string]bool{}
			}
			s.pats[space][p] = true
			if s.gone[space] != nil {
				delete(s.gone[space], p)
			}
		}
		w.c.Count("node.subscribe.accepted", 1)
	}
}

func (s *mStream) drop(space, pattern, how string) {
	if s.pats[space][pattern] {
		delete(s.pats[space], pattern)
		if len(s.pats[space]) == 0 {
			delete(s.pats, space)
		}
		if s.gone[space] == nil {
			s.gone[space] = map[string]string{}
		}
		s.gone[space][pattern] = how
	}
}

func (s *mStream) dropSpace(space, how string) int {
	ps := keysOf(s.pats[space])
	for _, p := range ps {
		s.drop(space, p, how)
	}
	delete(s.touched, space)
	return len(ps)
}

func (w *world) doUnsubscribe(s *mStream, space string, pats []string) {
	w.logOp("unsubscribe %s space=%q patterns=%q", s.name, space, pats)
	w.feed(s, wrapUnsub(space, pats))
	w.c.Count("node.unsubscribe_frames", 1)
	if len(pats) == 0 {
		s.dropSpace(space, "unsubscribed")
		return
	}
	for _, p := range pats {
		s.drop(space, p, "unsubscribed")
	}
	if len(s.pats[space]) == 0 {
		delete(s.touched, space) // every subscription of the space has been withdrawn
	}
}

type pubOpts struct {
	signer     *account
	relayed    bool
	noIdentity bool // strip the identity field from the message
	barrier    bool
}

// doPublish sends one Publish frame on stream s and records what the model
// expects of it.
func (w *world) doPublish(s *mStream, space, topic string, o pubOpts) *pubRec {
	idx := len(w.pubs)
	p := &pubsubproto.Publish{SpaceId: space, Topic: topic, MsgId: msgIdOf(idx), Payload: []byte(fmt.Sprintf("payload-%d", idx)),
		TimestampMilli: time.Now().UnixMilli(), Relayed: o.relayed}
	signer := o.signer
	if signer == nil {
		signer = s.acct
	}
	if signer == nil {
		signer = w.accts[0]
	}
	signAs(signer, p)
	if o.noIdentity {
		p.Identity = nil
	}
	rec := &pubRec{idx: idx, relayed: o.relayed, expect: map[int]bool{}, why: map[int]string{}}
	// ---- reference decision -------------------------------------------------
	tc := topicClass(topic)
	inNs, owner := topicOwnerRef(topic)
	switch {
	case tc != "ok":
		rec.class = "invalid-topic:" + tc
	case o.relayed:
		if s.node {
			rec.accepted, rec.class = true, "relayed"
		} else {
			rec.class = "relayed-from-non-node"
		}
	case s.acct == nil:
		rec.class = "no-handshake-identity"
	case o.noIdentity:
		rec.class = "no-signed-identity"
	case signer != s.acct:
		rec.class = "identity-mismatch"
	case !w.mem.is(space, s.acct.id):
		rec.class = "non-member-publisher"
	case inNs && owner != s.acct.id:
		rec.class = "unowned-acc-topic"
	default:
		rec.accepted, rec.class, rec.forward = true, "direct", true
		if inNs {
			rec.class = "direct-acc-owned"
		}
		if o.barrier {
			rec.class = "barrier"
		}
	}
	for _, t := range w.streams {
		if rec.accepted && t.open && anyMatch(t.pats[space], topic) {
			rec.expect[t.idx] = true
			continue
		}
		// why not (only used to name the witness class)
		why := "no-matching-pattern"
		switch {
		case !rec.accepted:
			why = rec.class
		case !t.open:
			why = "stream-closed"
		default:
			for gp, how := range t.gone[space] {
				if refMatch(gp, topic) {
					why = "pattern-withdrawn-by-" + how
				}
			}
		}
		rec.why[t.idx] = why
	}
	sn := signer.name
	rec.desc = fmt.Sprintf("publish#%d on %s space=%q topic=%q signer=%s relayed=%v stripIdentity=%v => %s, expect %v",
		idx, s.name, space, topic, sn, o.relayed, o.noIdentity, rec.class, streamNames(w, rec.expect))
	w.pubs = append(w.pubs, rec)
	w.logOp("%s", rec.desc)
	w.feed(s, wrapPub(p))
	w.c.Count("node.publishes", 1)
	if rec.accepted {
		w.c.Count("node.publish.accepted."+rec.class, 1)
		w.c.Count("node.deliveries_expected", int64(len(rec.expect)))
		if !o.barrier {
			w.c.Count("node.deliveries_expected.non_barrier", int64(len(rec.expect)))
		}
		if rec.forward {
			w.nDirect++
		}
	} else {
		w.c.Count("node.publish.rejected."+strings.SplitN(rec.class, ":", 2)[0], 1)
	}
	return rec
}

func streamNames(w *world, m map[int]bool) []string {
	var out []string
	for i := range m {
		out = append(out, w.streams[i].name)
	}
	sort.Strings(out)
	return out
}

// peerStreams: every stream (harness-opened or pool-opened) of a node peer.
func (w *world) peerStreams(peerId string) []*mStream {
	var out []*mStream
	for _, s := range w.streams {
		if s.peerId == peerId {
			out = append(out, s)
		}
	}
	w.outMu.Lock()
	for _, s := range w.outbound {
		if s.peerId == peerId {
			out = append(out, s)
		}
	}
	w.outMu.Unlock()
	return out
}

// barrier closes the observation window: per-stream writes are FIFO, so once
// a stream has written the barrier publish everything queued before it has
// been written too. Streams that cannot subscribe get a Status reply instead.
func (w *world) barrier(why string) {
	if w.stop {
		return
	}
	var pubStream *mStream
	for _, s := range w.openClients() {
		if s.acct == nil {
			continue
		}
		if !anyMatch(s.pats[barrierSpace], barrierTopic) {
			w.doSubscribe(s, barrierSpace, []string{barrierPatterns[w.r.Intn(len(barrierPatterns))]})
		}
		if pubStream == nil || w.r.Intn(3) == 0 {
			pubStream = s
		}
	}
	if w.stop {
		return
	}
	if pubStream == nil {
		pubStream = w.openStream("client")
		if w.stop {
			return
		}
		w.doSubscribe(pubStream, barrierSpace, []string{"bar/>"})
	}
	rec := w.doPublish(pubStream, barrierSpace, barrierTopic, pubOpts{barrier: true})
	w.c.Count("node.barriers", 1)
	if w.stop {
		return
	}
	for i := range rec.expect {
		if !w.streams[i].fs.waitFor(hasPublish(rec.idx, false), wd) {
			w.stop = true // the final accounting reports the missing delivery
			return
		}
	}
	// node forwards: the single dial worker is FIFO, so the forwarded barrier is the last forward
	for _, id := range w.nodeIds {
		deadline := time.Now().Add(wd)
		for {
			found := false
			for _, s := range w.peerStreams(id) {
				if hasPublish(rec.idx, true)(s.fs.snapshot()) {
					found = true
				}
			}
			if found {
				break
			}
			if time.Now().After(deadline) {
				w.stop = true
				return
			}
			time.Sleep(50 * time.Microsecond)
		}
	}
	// streams without identity cannot subscribe: a rejected frame's Status reply is their barrier
	for _, s := range w.openAll() {
		if s.acct != nil || s.node {
			continue
		}
		r2 := w.doPublish(s, barrierSpace, "bar//x", pubOpts{})
		if w.stop {
			return
		}
		if !s.fs.waitFor(hasStatusFor(r2.idx), wd) {
			w.c.Inconclusive("no Status reply on " + s.name + " to close its observation window")
			w.stop = true
			return
		}
	}
}

func (w *world) closeStream(s *mStream, how string) {
	w.logOp("close %s (%s)", s.name, how)
	live := 0
	for sp := range s.pats {
		live += len(s.pats[sp])
	}
	s.fs.signalEOF()
	select {
	case <-s.done:
	case <-time.After(wd):
		w.c.Inconclusive("HandleStream did not return after EOF on " + s.name)
		w.stop = true
	}
	s.open = false
	for sp := range s.pats {
		s.dropSpace(sp, "stream-close")
	}
	w.c.Count("node.streams_closed", 1)
	if live > 0 {
		w.c.Count("node.streams_closed_with_live_interest", 1)
	}
}

func (w *world) evict(space string, a *account, revoke bool) {
	w.logOp("evict space=%s account=%s revokeMembership=%v", space, a.name, revoke)
	if revoke {
		w.mem.set(space, a.id, false)
	}
	w.svc.EvictMember(space, a.pub)
	n := 0
	for _, s := range w.streams {
		if s.open && s.acct == a {
			n += s.dropSpace(space, "evict")
		}
	}
	w.c.Count("node.evictions", 1)
	w.c.Count("node.patterns_dropped_by_evict", int64(n))
}

func (w *world) revalidate(space string) {
	w.logOp("revalidate space=%s", space)
	w.svc.RevalidateMembers(space, func(account string) bool { return w.mem.is(space, account) })
	n := 0
	for _, s := range w.streams {
		if s.open && s.acct != nil && !w.mem.is(space, s.acct.id) {
			n += s.dropSpace(space, "revalidate")
		}
	}
	w.c.Count("node.revalidations", 1)
	w.c.Count("node.patterns_dropped_by_evict", int64(n))
}

func (w *world) closeSpace(space string) {
	w.logOp("closeSpace %s", space)
	w.svc.CloseSpace(space)
	n := 0
	for _, s := range w.streams {
		if s.open {
			n += s.dropSpace(space, "space-close")
		}
	}
	w.c.Count("node.space_closes", 1)
	w.c.Count("node.patterns_dropped_by_space_close", int64(n))
}

// ---------------------------------------------------------------------------
// bookkeeping views against the model
// ---------------------------------------------------------------------------

func opKind(op string) string {
	if i := strings.IndexByte(op, ' '); i > 0 {
		op = op[:i]
	}
	if strings.HasPrefix(op, "publish#") {
		return "publish"
	}
	return op
}

// checkBooks compares the three serving-side views of interest (space tries,
// per-stream records, pool tags) with the model. With final=true the model is
// empty and everything must be gone.
func (w *world) checkBooks(final bool) bool {
	w.c.Count("node.bookkeeping_checks", 1)
	after := opKind(w.lastOp)
	if final {
		after = "teardown"
	}
	// model: (space, pattern) -> number of streams, and the multiset of per-stream interest
	model := map[string]int{}
	var modelRecs []string
	for _, s := range w.streams {
		if !s.open {
			continue
		}
		var parts []string
		for sp, ps := range s.pats {
			for p := range ps {
				model[sp+"\x00"+p]++
				parts = append(parts, sp+"/"+p)
			}
		}
		if len(parts) > 0 {
			sort.Strings(parts)
			modelRecs = append(modelRecs, s.acct.id+"|"+strings.Join(parts, ","))
		}
	}
	sort.Strings(modelRecs)

	spaces, nrec, tries := pubsub.VerifSnapshot(w.svc)
	trie := map[string]int{}
	emptyTries := 0
	for sp, m := range tries {
		if len(m) == 0 {
			emptyTries++
		}
		for p, n := range m {
			trie[sp+"\x00"+p] = n
		}
	}
	recs := pubsub.VerifStreamRecords(w.svc)
	var gotRecs []string
	emptyRecs := 0
	for _, r := range recs {
		var parts []string
		for sp, ps := range r.BySpace {
			for _, p := range ps {
				parts = append(parts, sp+"/"+p)
			}
		}
		if len(parts) == 0 {
			emptyRecs++
			continue
		}
		sort.Strings(parts)
		gotRecs = append(gotRecs, r.Account+"|"+strings.Join(parts, ","))
	}
	sort.Strings(gotRecs)
	_, _, byTag := streampool.VerifIndexSnapshot(w.pool)
	tags := map[string]int{}
	for t, ids := range byTag {
		tags[t] = len(ids)
	}
	modelTags := map[string]int{}
	for k, n := range model {
		modelTags[strings.Replace(k, "\x00", "/", 1)] = n
	}
	detail := func() map[string]any {
		return map[string]any{"ops": w.ops, "after": w.lastOp, "model_interest": modelTags, "trie_refcounts": tries, "stream_records": recs, "pool_tags": tags,
			"space_tries": spaces, "stream_record_count": nrec}
	}
	ok := true
	pfx := "bookkeeping:"
	if final {
		pfx = "leak:"
	}
	if !mapsEqual(trie, model) {
		w.c.Violation(pfx+"trie-refcounts:after-"+after, "the per-space trie (patterns and reference counts) disagrees with the interest that is actually registered", detail())
		ok = false
	}
	if !equalStrings(gotRecs, modelRecs) {
		w.c.Violation(pfx+"stream-records:after-"+after, "the per-stream interest records disagree with the interest that is actually registered", detail())
		ok = false
	}
	if !mapsEqual(tags, modelTags) {
		w.c.Violation(pfx+"pool-tags:after-"+after, "the pool's routing tags disagree with the interest that is actually registered", detail())
		ok = false
	}
	w.c.Count("node.observed.pattern_less_tries", int64(emptyTries))
	w.c.Count("node.observed.pattern_less_stream_records", int64(emptyRecs))
	if final && ok {
		// nothing with a pattern is left (checked above); what remains is pattern-less bookkeeping
		if spaces != 0 {
			w.c.Violation("leak:pattern-less-space-trie:after-teardown", "a space trie without patterns remains although every subscription was withdrawn / stream closed / member evicted / space closed", detail())
			ok = false
		}
		if nrec != 0 {
			w.c.Violation("leak:pattern-less-stream-record:after-teardown", "a per-stream record without patterns remains although every subscription was withdrawn / member evicted / space closed", detail())
			ok = false
		}
	}
	return ok
}

func mapsEqual(a, b map[string]int) bool {
	if len(a) != len(b) {
		return false
	}
	for k, v := range a {
		if b[k] != v {
			return false
		}
	}
	return true
}

// ---------------------------------------------------------------------------
// generators
// ---------------------------------------------------------------------------

func (w *world) genSeg(wild bool) string {
	switch x := w.r.Intn(100); {
	case wild && x < 35:
		return "*"
	case x < 65:
		return "a"
	case x < 87:
		return "b"
	default:
		return "c"
	}
}

func (w *world) genPattern(s *mStream) string {
	r := w.r
	switch x := r.Intn(100); {
	case x < 72:
		n := 1 + r.Intn(3)
		segs := make([]string, n)
		for i := range segs {
			segs[i] = w.genSeg(true)
		}
		if r.Intn(100) < 30 {
			if n < 3 && r.Intn(2) == 0 {
				segs = append(segs, ">")
			} else {
				segs[n-1] = ">"
			}
		}
		return strings.Join(segs, "/")
	case x < 76:
		return ">"
	case x < 82:
		return "acc/>"
	case x < 88:
		return "acc/*/*"
	case x < 92:
		return "acc/*"
	case x < 96:
		return "acc/a/" + w.accts[r.Intn(len(w.accts))].id
	default:
		return "*/>"
	}
}

func (w *world) genTopic(s *mStream) string {
	r := w.r
	if r.Intn(100) < 30 {
		// a topic some live pattern matches (in whatever space it is then published)
		var live []string
		for _, t := range w.streams {
			if t.open {
				for _, ps := range t.pats {
					for p := range ps {
						if !strings.HasPrefix(p, "acc") && !strings.HasPrefix(p, "bar") {
							live = append(live, p)
						}
					}
				}
			}
		}
		if len(live) > 0 {
			sort.Strings(live)
			return instantiate(live[r.Intn(len(live))], r.Intn)
		}
	}
	switch x := r.Intn(100); {
	case x < 78:
		n := 1 + r.Intn(3)
		segs := make([]string, n)
		for i := range segs {
			segs[i] = w.genSeg(false)
		}
		return strings.Join(segs, "/")
	case x < 80:
		return "a/b/c/a"
	case x < 88: // self-owned namespace, owned by the publishing stream's account (if any)
		a := s.acct
		if a == nil || s.node {
			a = w.accts[r.Intn(len(w.accts))]
		}
		if r.Intn(2) == 0 {
			return "acc/a/" + a.id
		}
		return "acc/" + a.id
	case x < 96: // self-owned namespace of somebody else
		a := w.accts[r.Intn(len(w.accts))]
		return "acc/a/" + a.id
	default:
		return "acc/a/b"
	}
}

var invalidTopics = []string{"", "/", "a//b", "/a", "a/", "a/*", "a/>", "*", ">", "a*", "a/b>", "*/a", ">/a", "acc//x", "a/b/"}
var invalidPatterns = []string{"", "/", "a//b", "/a", "a/", ">/a", "a/>/b", "a*", "a/b>", "a/**", "*>", "a/>/"}

func (w *world) pickSpace() string {
	if w.r.Intn(12) == 0 {
		return barrierSpace
	}
	return w.spaces[w.r.Intn(len(w.spaces))]
}

func (w *world) step() {
	r := w.r
	clients := w.openClients()
	all := w.openAll()
	if len(clients) == 0 {
		w.openStream("client")
		return
	}
	pick := func(l []*mStream) *mStream { return l[r.Intn(len(l))] }
	switch x := r.Intn(1000); {
	case x < 270: // subscribe
		s := pick(clients)
		sp := w.pickSpace()
		n := 1 + r.Intn(3)
		var pats []string
		for i := 0; i < n; i++ {
			pats = append(pats, w.genPattern(s))
		}
		w.doSubscribe(s, sp, pats)
	case x < 285: // subscribe a malformed pattern (alone in its frame)
		w.doSubscribe(pick(clients), w.pickSpace(), []string{invalidPatterns[r.Intn(len(invalidPatterns))]})
	case x < 295: // space ids that would alias "space/pattern" routing keys
		s := pick(clients)
		sp := w.spaces[r.Intn(len(w.spaces))]
		w.doSubscribe(s, []string{sp + "/a", "", sp + "/"}[r.Intn(3)], []string{[]string{"b", "*", ">"}[r.Intn(3)]})
	case x < 305: // subscribe frame without patterns
		w.doSubscribe(pick(clients), w.pickSpace(), nil)
	case x < 315: // a node peer or anonymous stream tries to subscribe
		w.doSubscribe(pick(all), w.pickSpace(), []string{w.genPattern(nil)})
	case x < 420: // unsubscribe
		s := pick(clients)
		sp := w.pickSpace()
		if len(s.pats) > 0 && r.Intn(4) != 0 {
			sp = keysOfPats(s.pats)[r.Intn(len(s.pats))]
		}
		switch y := r.Intn(10); {
		case y < 2:
			w.doUnsubscribe(s, sp, nil) // all patterns of the space
		case y < 8 && len(s.pats[sp]) > 0:
			have := keysOf(s.pats[sp])
			n := 1 + r.Intn(2)
			var ps []string
			for i := 0; i < n; i++ {
				ps = append(ps, have[r.Intn(len(have))])
			}
			w.doUnsubscribe(s, sp, ps)
		default:
			w.doUnsubscribe(s, sp, []string{w.genPattern(s)}) // mostly not held
		}
	case x < 800: // publish
		s := pick(all)
		if s.node && r.Intn(5) != 0 {
			// honest relay: content that passed the origin node's checks
			sp := w.spaces[r.Intn(len(w.spaces))]
			var signers []*account
			for _, a := range w.accts {
				if w.mem.is(sp, a.id) {
					signers = append(signers, a)
				}
			}
			if len(signers) == 0 {
				return
			}
			signer := signers[r.Intn(len(signers))]
			topic := w.genTopic(&mStream{acct: signer})
			if inNs, owner := topicOwnerRef(topic); inNs && owner != signer.id {
				topic = "acc/a/" + signer.id
			}
			if r.Intn(12) == 0 {
				topic = invalidTopics[r.Intn(len(invalidTopics))]
			}
			w.doPublish(s, sp, topic, pubOpts{signer: signer, relayed: true})
			return
		}
		sp := w.pickSpace()
		if r.Intn(10) < 6 {
			// mostly from a stream whose account is a member of the space
			var ms []*mStream
			for _, t := range clients {
				if t.acct != nil && w.mem.is(sp, t.acct.id) {
					ms = append(ms, t)
				}
			}
			if len(ms) > 0 {
				s = pick(ms)
			}
		}
		topic := w.genTopic(s)
		o := pubOpts{}
		switch y := r.Intn(100); {
		case y < 9:
			topic = invalidTopics[r.Intn(len(invalidTopics))]
		case y < 19: // signed by somebody else than the handshake identity (a member, so only the binding can reject it)
			var others []*account
			for _, a := range w.accts {
				if a != s.acct && w.mem.is(sp, a.id) {
					others = append(others, a)
				}
			}
			if len(others) > 0 {
				o.signer = others[r.Intn(len(others))]
				if inNs, _ := topicOwnerRef(topic); inNs && r.Intn(2) == 0 {
					topic = "acc/a/" + o.signer.id // owned by the signed identity, not by the proven one
				}
			}
		case y < 22:
			o.noIdentity = true
		case y < 30:
			o.relayed = true // a client claiming to be a relay
		}
		w.doPublish(s, sp, topic, o)
	case x < 840: // close a stream (after flushing what is in flight towards it)
		s := pick(all)
		w.barrier("before-close")
		if !w.stop {
			w.closeStream(s, "eof")
		}
	case x < 890:
		kind := "client"
		switch y := r.Intn(10); {
		case y < 2:
			kind = "node"
		case y < 3:
			kind = "anon"
		}
		if len(all) < 9 {
			w.openStream(kind)
		}
	case x < 930:
		sp := w.pickSpace()
		w.evict(sp, w.accts[r.Intn(len(w.accts))], sp != barrierSpace && r.Intn(10) < 7)
	case x < 945:
		w.revalidate(w.spaces[r.Intn(len(w.spaces))])
	case x < 975:
		sp := w.spaces[r.Intn(len(w.spaces))]
		a := w.accts[r.Intn(len(w.accts))]
		v := r.Intn(4) != 0
		w.logOp("setMember space=%s account=%s member=%v", sp, a.name, v)
		w.mem.set(sp, a.id, v)
	default:
		w.closeSpace(w.pickSpace())
	}
}

func keysOfPats(m map[string]map[string]bool) []string {
	out := make([]string, 0, len(m))
	for k := range m {
		out = append(out, k)
	}
	sort.Strings(out)
	return out
}

// ---------------------------------------------------------------------------
// verdict on deliveries
// ---------------------------------------------------------------------------

func (w *world) judgeDeliveries() (delivered, rejectedSeen int) {
	c := w.c
	detail := func(rec *pubRec, s *mStream, extra map[string]any) map[string]any {
		d := map[string]any{"ops": w.ops, "publish": rec.desc, "stream": s.name}
		for k, v := range extra {
			d[k] = v
		}
		return d
	}
	// client-facing streams
	for _, s := range w.streams {
		counts := map[int]int{}
		for _, g := range s.fs.snapshot() {
			switch {
			case g.pub != nil:
				i := msgIdx(g.pub.MsgId)
				if i < 0 || i >= len(w.pubs) {
					c.Violation("delivery:unknown-message", "a stream received a publish nobody sent", map[string]any{"ops": w.ops, "stream": s.name, "msgId": g.pub.MsgId})
					continue
				}
				if s.node && g.pub.Relayed {
					continue // node forward: accounted below
				}
				counts[i]++
			case g.status != nil:
				c.Count("node.status_frames."+g.status.Code.String(), 1)
			}
		}
		for _, rec := range w.pubs {
			n := counts[rec.idx]
			want := rec.expect[s.idx]
			c.Count("node.delivery_decisions", 1)
			switch {
			case want && n == 1:
				delivered++
				c.Count("node.deliveries_observed", 1)
			case want && n == 0:
				c.Violation("delivery:missing:"+rec.class, "a stream with a matching registered pattern did not receive an accepted publish",
					detail(rec, s, nil))
			case n > 1:
				c.Violation("delivery:duplicate:"+rec.class, "a stream received more than one copy of one publish", detail(rec, s, map[string]any{"copies": n}))
			case !want && n == 1:
				if rec.why[s.idx] == "" {
					rec.why[s.idx] = "stream-opened-later"
				}
				c.Violation("delivery:unexpected:"+rec.why[s.idx], "a stream received a publish it must not receive", detail(rec, s, nil))
			}
		}
	}
	// streams the pool opened towards other nodes carry forwards only
	w.outMu.Lock()
	outs := append([]*mStream(nil), w.outbound...)
	w.outMu.Unlock()
	for _, s := range outs {
		for _, g := range s.fs.snapshot() {
			if g.pub != nil && !g.pub.Relayed {
				c.Violation("forward:not-marked-relayed", "a publish sent to another responsible node is not marked relayed (it would be forwarded again)",
					map[string]any{"ops": w.ops, "stream": s.name, "msg": msgIdx(g.pub.MsgId)})
			}
		}
	}
	// node forwards
	for _, id := range w.nodeIds {
		counts := map[int]int{}
		for _, s := range w.peerStreams(id) {
			for _, g := range s.fs.snapshot() {
				if g.pub != nil && g.pub.Relayed {
					counts[msgIdx(g.pub.MsgId)]++
				}
			}
		}
		for _, rec := range w.pubs {
			n := counts[rec.idx]
			switch {
			case rec.forward && n == 1:
				c.Count("node.forwards_observed", 1)
			case rec.forward && n == 0:
				c.Violation("forward:missing", "an accepted client publish was not forwarded to another responsible node", map[string]any{"ops": w.ops, "publish": rec.desc, "node": id})
			case rec.forward && n > 1:
				c.Violation("forward:duplicate", "an accepted client publish was forwarded more than once to one node", map[string]any{"ops": w.ops, "publish": rec.desc, "node": id, "copies": n})
			case !rec.forward && n > 0 && rec.relayed && rec.accepted:
				c.Violation("forward:relayed-forwarded-again", "a relayed publish was forwarded again", map[string]any{"ops": w.ops, "publish": rec.desc, "node": id, "copies": n})
			case !rec.forward && n > 0:
				c.Violation("forward:of-rejected:"+rec.class, "a rejected publish was forwarded to another node", map[string]any{"ops": w.ops, "publish": rec.desc, "node": id})
			}
		}
	}
	if calls := w.rel.forwardCalls.Load(); calls != w.nDirect {
		key := "forward:relay-calls:more-than-accepted-client-publishes"
		if calls < w.nDirect {
			key = "forward:relay-calls:fewer-than-accepted-client-publishes"
		}
		c.Violation(key, "the number of forward operations differs from the number of accepted client publishes (relayed and rejected ones must never be forwarded, accepted ones exactly once)",
			map[string]any{"ops": w.ops, "forward_calls": calls, "accepted_client_publishes": w.nDirect})
	}
	c.Count("node.relay_forward_calls", w.rel.forwardCalls.Load())
	for _, rec := range w.pubs {
		if !rec.accepted {
			rejectedSeen++
		}
	}
	return
}

// ---------------------------------------------------------------------------
// the case
// ---------------------------------------------------------------------------

// setupWorld starts a node-role service for the case; cleanup must be deferred.
func setupWorld(c *lib.Case) (w *world, cleanup func(), ok bool) {
	w = newWorld(c)
	a, svc, err := startNode(c, c.Rng, w.mem, w.rel)
	if err != nil {
		c.Inconclusive("service start: " + err.Error())
		return nil, func() {}, false
	}
	w.app, w.svc, w.pool = a, svc, pubsub.VerifPool(svc)
	w.booksOK = true
	return w, func() {
		// make sure nothing keeps running whatever happened
		for _, s := range w.streams {
			s.fs.signalEOF()
		}
		w.outMu.Lock()
		for _, s := range w.outbound {
			s.fs.signalEOF()
		}
		w.outMu.Unlock()
		_ = a.Close(context.Background())
	}, true
}

// after runs the bookkeeping comparison after one operation.
func (w *world) after() {
	if w.booksOK && !w.stop {
		w.booksOK = w.checkBooks(false)
	}
}

func runNodeSeq(c *lib.Case) {
	w, cleanup, ok := setupWorld(c)
	defer cleanup()
	if !ok {
		return
	}
	r := c.Rng
	n0 := 3 + r.Intn(3)
	for i := 0; i < n0 && !w.stop; i++ {
		w.openStream("client")
	}
	if r.Intn(3) == 0 && !w.stop {
		w.openStream("anon")
	}
	if r.Intn(2) == 0 && !w.stop {
		w.openStream("node")
	}
	nOps := 30 + r.Intn(51)
	for i := 0; i < nOps && !w.stop; i++ {
		w.step()
		w.after()
	}
	w.conclude()
}

// conclude closes the observation window, judges the deliveries, withdraws
// all remaining interest in random order and runs the leak checks.
func (w *world) conclude() {
	c, r := w.c, w.r
	booksOK := w.booksOK
	c.Eval(1)
	c.Count("node.ops", int64(len(w.ops)))
	// close the observation window on every open stream, then judge
	w.barrier("final")
	delivered, rejected := w.judgeDeliveries()
	if w.stop {
		c.Count("node.sequences_cut_short_by_a_failed_wait", 1)
	}

	// ---- teardown in random order, then the leak check ----------------------
	type td struct {
		kind string
		s    *mStream
		sp   string
		a    *account
	}
	var steps []td
	removedByTeardown := 0
	for _, s := range w.openAll() {
		live := 0
		for sp := range s.pats {
			live += len(s.pats[sp])
		}
		removedByTeardown += live
		spacesOf := func() []string {
			m := map[string]bool{}
			for sp := range s.pats {
				m[sp] = true
			}
			for sp := range s.touched {
				m[sp] = true
			}
			return keysOf(m)
		}
		x := r.Intn(10)
		if w.directed != "" {
			x = 4 + r.Intn(6) // directed scenarios: withdraw while the stream stays open
		}
		switch {
		case x < 4 || s.acct == nil || s.node:
			steps = append(steps, td{kind: "close", s: s})
		case x < 6:
			for _, sp := range spacesOf() {
				steps = append(steps, td{kind: "unsub-all", s: s, sp: sp})
			}
		case x < 7:
			for _, sp := range spacesOf() {
				if len(s.pats[sp]) > 0 {
					steps = append(steps, td{kind: "unsub-each", s: s, sp: sp})
				} else {
					steps = append(steps, td{kind: "unsub-all", s: s, sp: sp})
				}
			}
		case x < 9:
			for _, sp := range spacesOf() {
				steps = append(steps, td{kind: "evict", sp: sp, a: s.acct})
			}
		default:
			for _, sp := range spacesOf() {
				steps = append(steps, td{kind: "close-space", sp: sp})
			}
		}
	}
	// some redundant steps so that evict-then-close, close-then-evict, close-space-then-unsubscribe … all occur
	for i := 0; i < 3 && len(steps) > 0; i++ {
		steps = append(steps, steps[r.Intn(len(steps))])
	}
	r.Shuffle(len(steps), func(i, j int) { steps[i], steps[j] = steps[j], steps[i] })
	var tdKinds []string
	for _, st := range steps {
		if w.stop {
			break
		}
		tdKinds = append(tdKinds, st.kind)
		switch st.kind {
		case "close":
			if st.s.open {
				w.closeStream(st.s, "teardown")
			}
		case "unsub-all":
			if st.s.open {
				w.doUnsubscribe(st.s, st.sp, nil)
			}
		case "unsub-each":
			if st.s.open && len(st.s.pats[st.sp]) > 0 {
				w.doUnsubscribe(st.s, st.sp, keysOf(st.s.pats[st.sp]))
			} else if st.s.open {
				w.doUnsubscribe(st.s, st.sp, nil)
			}
		case "evict":
			w.evict(st.sp, st.a, r.Intn(2) == 0 && st.sp != barrierSpace)
		case "close-space":
			w.closeSpace(st.sp)
		}
	}
	if !w.stop {
		w.lastOp = "teardown"
		if booksOK {
			booksOK = w.checkBooks(true)
		}
		c.Count("node.leak_checks", 1)
		// then the streams themselves
		for _, s := range w.openAll() {
			w.closeStream(s, "final")
		}
		w.outMu.Lock()
		for _, s := range w.outbound {
			s.fs.signalEOF()
		}
		w.outMu.Unlock()
		deadline := time.Now().Add(wd)
		for {
			n, byPeer, byTag := streampool.VerifIndexSnapshot(w.pool)
			if n == 0 && len(byPeer) == 0 && len(byTag) == 0 {
				break
			}
			if time.Now().After(deadline) {
				c.Violation("leak:pool-streams:after-all-streams-closed", "the pool still indexes streams after every stream has been closed",
					map[string]any{"ops": w.ops, "streams": n, "byPeer": byPeer, "byTag": byTag})
				break
			}
			time.Sleep(100 * time.Microsecond)
		}
		if booksOK {
			sp, nrec, _ := pubsub.VerifSnapshot(w.svc)
			if sp != 0 || nrec != 0 {
				c.Violation("leak:after-all-streams-closed", "interest bookkeeping remains after every stream has been closed", map[string]any{"ops": w.ops, "spaces": sp, "records": nrec})
			}
		}
	}
	if w.directed != "" {
		if !w.stop {
			c.Nontrivial("script:" + w.directed)
		}
	} else if delivered > 0 && rejected > 0 && removedByTeardown > 0 && !w.stop {
		c.Nontrivial(strings.Join(w.ops, "\n"))
	}
	c.Sample("node-seq", map[string]any{"ops": firstN(w.ops, 40), "teardown": tdKinds, "deliveries": delivered, "rejected_publishes": rejected})
}

func firstN(s []string, n int) []string {
	if len(s) > n {
		return s[:n]
	}
	return s
}

var _ peer.Peer = (*fakePeer)(nil)
