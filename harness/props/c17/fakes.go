package c17

import (
	"context"
	"encoding/binary"
	"errors"
	"fmt"
	"io"
	"math/rand"
	"runtime/debug"
	"sync"
	"sync/atomic"
	"time"

	"storj.io/drpc"

	"github.com/anyproto/any-sync/app/logger"
	"github.com/anyproto/any-sync/commonspace/object/accountdata"
	"github.com/anyproto/any-sync/commonspace/pubsub/pubsubproto"
	"github.com/anyproto/any-sync/net/peer"
	"github.com/anyproto/any-sync/util/crypto"
)

func init() {
	// small live heaps and many short-lived slices: collect less often
	debug.SetGCPercent(800)
	// the engine logs every stream event at debug level; keep child output small
	logger.SetNamedLevels([]logger.NamedLevel{{Name: "*", Level: "fatal"}})
}

// ---------------------------------------------------------------------------
// accounts
// ---------------------------------------------------------------------------

type rngReader struct{ r *rand.Rand }

func (r rngReader) Read(p []byte) (int, error) { return r.r.Read(p) }

type account struct {
	name     string
	priv     crypto.PrivKey
	pub      crypto.PubKey
	identity []byte // marshalled public key (what the handshake puts into the stream context)
	id       string // account id (last segment of self-owned topics)
}

func newAccount(r *rand.Rand, name string) *account {
	priv, pub, err := crypto.GenerateEd25519Key(rngReader{r})
	if err != nil {
		panic(err)
	}
	id, err := pub.Marshall()
	if err != nil {
		panic(err)
	}
	return &account{name: name, priv: priv, pub: pub, identity: id, id: pub.Account()}
}

func newAccountKeys(r *rand.Rand) *accountdata.AccountKeys {
	sign, _, err := crypto.GenerateEd25519Key(rngReader{r})
	if err != nil {
		panic(err)
	}
	peerKey, peerPub, err := crypto.GenerateEd25519Key(rngReader{r})
	if err != nil {
		panic(err)
	}
	return &accountdata.AccountKeys{PeerKey: peerKey, SignKey: sign, PeerId: peerPub.PeerId()}
}

// signData is the byte string covered by a Publish signature, as documented
// on the wire format (pubsub.proto): prefix | len32+spaceId | len32+topic |
// len32+msgId | len32+keyId | le64(timestampMilli) | payload.
func signData(p *pubsubproto.Publish) []byte {
	buf := []byte("anysync:pubsub:v1")
	for _, f := range [][]byte{[]byte(p.SpaceId), []byte(p.Topic), p.MsgId, []byte(p.KeyId)} {
		buf = binary.LittleEndian.AppendUint32(buf, uint32(len(f)))
		buf = append(buf, f...)
	}
	buf = binary.LittleEndian.AppendUint64(buf, uint64(p.TimestampMilli))
	buf = append(buf, p.Payload...)
	return buf
}

func signAs(a *account, p *pubsubproto.Publish) {
	p.Identity = append([]byte{}, a.identity...)
	sig, err := a.priv.Sign(signData(p))
	if err != nil {
		panic(err)
	}
	p.Signature = sig
}

func msgIdOf(n int) []byte {
	id := make([]byte, 16)
	copy(id, "c17-msg-")
	binary.BigEndian.PutUint64(id[8:], uint64(n))
	return id
}

func msgIdx(id []byte) int {
	if len(id) != 16 || string(id[:8]) != "c17-msg-" {
		return -1
	}
	return int(binary.BigEndian.Uint64(id[8:]))
}

// ---------------------------------------------------------------------------
// membership / relay / peers
// ---------------------------------------------------------------------------

type membership struct {
	mu      sync.Mutex
	members map[string]map[string]bool // spaceId -> account id -> member
	calls   atomic.Int64
}

func newMembership() *membership { return &membership{members: map[string]map[string]bool{}} }

func (m *membership) set(space, account string, v bool) {
	m.mu.Lock()
	defer m.mu.Unlock()
	if m.members[space] == nil {
		m.members[space] = map[string]bool{}
	}
	m.members[space][account] = v
}

func (m *membership) is(space, account string) bool {
	m.mu.Lock()
	defer m.mu.Unlock()
	return m.members[space][account]
}

var errNotMember = errors.New("not a member")

func (m *membership) CheckMember(_ context.Context, spaceId string, identity crypto.PubKey) error {
	m.calls.Add(1)
	if identity == nil {
		return errNotMember
	}
	if m.is(spaceId, identity.Account()) {
		return nil
	}
	return errNotMember
}

type relay struct {
	mu           sync.Mutex
	nodeIds      map[string]bool
	others       []peer.Peer
	forwardCalls atomic.Int64
}

func (r *relay) IsResponsible(string) bool { return true }
func (r *relay) IsResponsibleNode(_, peerId string) bool {
	r.mu.Lock()
	defer r.mu.Unlock()
	return r.nodeIds[peerId]
}
func (r *relay) OtherResponsiblePeers(context.Context, string) ([]peer.Peer, error) {
	r.forwardCalls.Add(1)
	r.mu.Lock()
	defer r.mu.Unlock()
	return append([]peer.Peer(nil), r.others...), nil
}

type noPeers struct{}

func (noPeers) SpacePeers(context.Context, string) ([]peer.Peer, error) { return nil, nil }

// fakePeer is a harness-owned peer.Peer: the pool only needs its id, and a
// drpc.Conn when it has to open an outbound stream to it.
type fakePeer struct {
	id       string
	ctx      context.Context
	newConn  func(ctx context.Context) (drpc.Conn, error)
	closeCh  chan struct{}
	acquired atomic.Int64
}

func (p *fakePeer) Id() string               { return p.id }
func (p *fakePeer) Context() context.Context { return p.ctx }
func (p *fakePeer) AcquireDrpcConn(ctx context.Context) (drpc.Conn, error) {
	p.acquired.Add(1)
	return p.newConn(ctx)
}
func (p *fakePeer) ReleaseDrpcConn(context.Context, drpc.Conn) {}
func (p *fakePeer) DoDrpc(ctx context.Context, do func(conn drpc.Conn) error) error {
	conn, err := p.newConn(ctx)
	if err != nil {
		return err
	}
	return do(conn)
}
func (p *fakePeer) IsClosed() bool                       { return false }
func (p *fakePeer) CloseChan() <-chan struct{}           { return p.closeCh }
func (p *fakePeer) SetTTL(time.Duration)                 {}
func (p *fakePeer) TryClose(time.Duration) (bool, error) { return false, nil }
func (p *fakePeer) Close() error                         { return nil }

type fakeConn struct {
	newStream func(ctx context.Context) (drpc.Stream, error)
	closed    chan struct{}
}

func (c *fakeConn) Close() error            { return nil }
func (c *fakeConn) Closed() <-chan struct{} { return c.closed }
func (c *fakeConn) Invoke(context.Context, string, drpc.Encoding, drpc.Message, drpc.Message) error {
	return errors.New("not supported")
}
func (c *fakeConn) NewStream(ctx context.Context, _ string, _ drpc.Encoding) (drpc.Stream, error) {
	return c.newStream(ctx)
}

// ---------------------------------------------------------------------------
// fake stream
// ---------------------------------------------------------------------------

type gotFrame struct {
	pub    *pubsubproto.Publish
	status *pubsubproto.Status
	other  bool
}

// fakeStream is a harness-owned drpc.Stream. Frames the service reads come
// from `in` (marshalled, so the service sees freshly decoded messages as on
// the wire); frames the service writes are re-decoded and recorded.
//
// In sync mode every entry into MsgRecv is announced on `ready`; since the
// pool handles one frame at a time per stream, "MsgRecv entered again" means
// the previous frame has been handled completely.
type fakeStream struct {
	name     string
	ctx      context.Context
	cancel   context.CancelFunc
	sync     bool
	in       chan []byte
	ready    chan struct{}
	eof      chan struct{}
	eofOnce  sync.Once
	closeCh  chan struct{}
	closeOne sync.Once
	sendFail atomic.Bool

	mu     sync.Mutex
	got    []gotFrame
	notify chan struct{}
	writes atomic.Int64
}

func newFakeStream(name, peerId string, identity []byte, syncMode bool) *fakeStream {
	ctx := context.Background()
	ctx = peer.CtxWithPeerId(ctx, peerId)
	if identity != nil {
		ctx = peer.CtxWithIdentity(ctx, identity)
	}
	ctx, cancel := context.WithCancel(ctx)
	inCap := 0
	if !syncMode {
		inCap = 256
	}
	return &fakeStream{name: name, ctx: ctx, cancel: cancel, sync: syncMode, in: make(chan []byte, inCap), ready: make(chan struct{}),
		eof: make(chan struct{}), closeCh: make(chan struct{}), notify: make(chan struct{})}
}

func (f *fakeStream) Context() context.Context { return f.ctx }

var errFakeWrite = errors.New("harness: injected write failure")

func (f *fakeStream) MsgSend(msg drpc.Message, _ drpc.Encoding) error {
	if f.sendFail.Load() {
		return errFakeWrite
	}
	select {
	case <-f.closeCh:
		return io.ErrClosedPipe
	default:
	}
	m, ok := msg.(*pubsubproto.PubSubMessage)
	if !ok {
		return fmt.Errorf("harness: unexpected message type %T", msg)
	}
	b, err := m.MarshalVT()
	if err != nil {
		return err
	}
	dec := &pubsubproto.PubSubMessage{}
	if err = dec.UnmarshalVT(b); err != nil {
		return err
	}
	fr := gotFrame{}
	switch {
	case dec.GetPublish() != nil:
		fr.pub = dec.GetPublish()
	case dec.GetStatus() != nil:
		fr.status = dec.GetStatus()
	default:
		fr.other = true
	}
	f.writes.Add(1)
	f.mu.Lock()
	f.got = append(f.got, fr)
	old := f.notify
	f.notify = make(chan struct{})
	f.mu.Unlock()
	close(old)
	return nil
}

func (f *fakeStream) MsgRecv(msg drpc.Message, _ drpc.Encoding) error {
	if f.sync {
		select {
		case f.ready <- struct{}{}:
		case <-f.eof:
			return io.EOF
		case <-f.closeCh:
			return io.ErrClosedPipe
		}
	}
	// frames already queued are delivered before an EOF that was signalled later
	select {
	case b := <-f.in:
		return msg.(*pubsubproto.PubSubMessage).UnmarshalVT(b)
	default:
	}
	select {
	case b := <-f.in:
		return msg.(*pubsubproto.PubSubMessage).UnmarshalVT(b)
	case <-f.eof:
		return io.EOF
	case <-f.closeCh:
		return io.ErrClosedPipe
	}
}

func (f *fakeStream) CloseSend() error { return nil }

func (f *fakeStream) Close() error {
	f.closeOne.Do(func() {
		close(f.closeCh)
		f.cancel()
	})
	return nil
}

func (f *fakeStream) signalEOF() { f.eofOnce.Do(func() { close(f.eof) }) }

func (f *fakeStream) isClosed() bool {
	select {
	case <-f.closeCh:
		return true
	default:
		return false
	}
}

// awaitReady waits (sync mode) until the service is waiting for the next frame.
func (f *fakeStream) awaitReady(d time.Duration) bool {
	t := time.NewTimer(d)
	defer t.Stop()
	select {
	case <-f.ready:
		return true
	case <-f.closeCh:
		return false
	case <-t.C:
		return false
	}
}

// feed hands one frame to the service; in sync mode it returns after the frame
// was handled completely.
func (f *fakeStream) feed(m *pubsubproto.PubSubMessage, d time.Duration) bool {
	b, err := m.MarshalVT()
	if err != nil {
		panic(err)
	}
	t := time.NewTimer(d)
	defer t.Stop()
	select {
	case f.in <- b:
	case <-f.closeCh:
		return false
	case <-t.C:
		return false
	}
	if !f.sync {
		return true
	}
	select {
	case <-f.ready:
		return true
	case <-f.closeCh:
		return false
	case <-t.C:
		return false
	}
}

// snapshot returns a copy of the frames written so far.
func (f *fakeStream) snapshot() []gotFrame {
	f.mu.Lock()
	defer f.mu.Unlock()
	return append([]gotFrame(nil), f.got...)
}

// waitFor blocks until pred holds on the written frames (watchdog d).
func (f *fakeStream) waitFor(pred func([]gotFrame) bool, d time.Duration) bool {
	deadline := time.NewTimer(d)
	defer deadline.Stop()
	for {
		f.mu.Lock()
		ok := pred(f.got)
		ch := f.notify
		f.mu.Unlock()
		if ok {
			return true
		}
		select {
		case <-ch:
		case <-deadline.C:
			return false
		}
	}
}

func hasPublish(idx int, relayed bool) func([]gotFrame) bool {
	return func(fr []gotFrame) bool {
		for _, g := range fr {
			if g.pub != nil && msgIdx(g.pub.MsgId) == idx && g.pub.Relayed == relayed {
				return true
			}
		}
		return false
	}
}

func hasStatusFor(idx int) func([]gotFrame) bool {
	return func(fr []gotFrame) bool {
		for _, g := range fr {
			if g.status != nil && msgIdx(g.status.MsgId) == idx {
				return true
			}
		}
		return false
	}
}

func wrapPub(p *pubsubproto.Publish) *pubsubproto.PubSubMessage {
	return &pubsubproto.PubSubMessage{Content: &pubsubproto.PubSubMessage_Publish{Publish: p}}
}
func wrapSub(space string, pats []string) *pubsubproto.PubSubMessage {
	return &pubsubproto.PubSubMessage{Content: &pubsubproto.PubSubMessage_Subscribe{Subscribe: &pubsubproto.Subscribe{SpaceId: space, Topics: pats}}}
}
func wrapUnsub(space string, pats []string) *pubsubproto.PubSubMessage {
	return &pubsubproto.PubSubMessage{Content: &pubsubproto.PubSubMessage_Unsubscribe{Unsubscribe: &pubsubproto.Unsubscribe{SpaceId: space, Topics: pats}}}
}
