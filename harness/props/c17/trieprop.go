package c17

import (
	"fmt"
	"sort"
	"strings"
	"sync"

	"github.com/anyproto/any-sync/commonspace/pubsub"

	"verifharness/lib"
)

// Trie workloads: the private pattern trie (hook VerifTrieMatch / VerifTrie)
// against the reference matcher, exhaustively within the stated bound.

// universe: quick = patterns of 1..3 segments over {a,b,c,*,>} (105) and
// topics of 1..4 segments over {a,b,c} (120: one segment more than the longest
// pattern, so "topic too long" is covered); thorough = one segment more each.
func patSegs(tier string) int {
	if tier == "thorough" {
		return 4
	}
	return 3
}

var (
	uniMu  sync.Mutex
	uniPat = map[string][]string{}
	uniTop = map[string][]string{}
	// refTab[pattern][topic index]: the reference matcher's verdict, computed once per process
	refTab = map[string]map[string][]bool{}
)

func universe(tier string) (pats, topics []string) {
	uniMu.Lock()
	defer uniMu.Unlock()
	if uniPat[tier] == nil {
		uniPat[tier] = enumPatterns(patSegs(tier))
		uniTop[tier] = enumTopics(patSegs(tier) + 1)
		tab := map[string][]bool{}
		for _, p := range uniPat[tier] {
			row := make([]bool, len(uniTop[tier]))
			for i, t := range uniTop[tier] {
				row[i] = refMatch(p, t)
			}
			tab[p] = row
		}
		refTab[tier] = tab
	}
	return uniPat[tier], uniTop[tier]
}

// quickAgree is the allocation-free comparison of a trie answer with the
// reference table; on disagreement the caller falls back to compareMatch,
// which recomputes the reference from scratch and builds the witness.
func quickAgree(tab map[string][]bool, set []string, ti int, got []string) bool {
	for _, g := range got {
		row, ok := tab[g]
		if !ok || !row[ti] {
			return false
		}
		in := false
		for _, p := range set {
			if p == g {
				in = true
				break
			}
		}
		if !in {
			return false
		}
	}
	for _, p := range set {
		if tab[p][ti] {
			in := false
			for _, g := range got {
				if g == p {
					in = true
					break
				}
			}
			if !in {
				return false
			}
		}
	}
	return true
}

func patternKind(p string) string {
	switch {
	case strings.Contains(p, ">"):
		return "tail-wildcard"
	case strings.Contains(p, "*"):
		return "star"
	}
	return "literal"
}

// compareMatch compares a trie answer with the reference answer for one
// (pattern multiset, topic) and reports at most one violation per call.
func compareMatch(c *lib.Case, where string, set []string, topic string, got []string) bool {
	want := refMatchSet(set, topic)
	g := sortedCopy(got)
	// duplicates in the answer are tolerated (the pool de-duplicates streams); compare as sets
	var gs []string
	for i, p := range g {
		if i == 0 || g[i-1] != p {
			gs = append(gs, p)
		}
	}
	if equalStrings(gs, want) {
		return true
	}
	wantM := map[string]bool{}
	for _, p := range want {
		wantM[p] = true
	}
	gotM := map[string]bool{}
	for _, p := range gs {
		gotM[p] = true
	}
	for _, p := range gs {
		if !wantM[p] {
			c.Violation("trie:extra-match:"+patternKind(p)+":"+where, "the trie matches a pattern the segment-wise rule does not",
				map[string]any{"patterns": set, "topic": topic, "trie": gs, "reference": want, "offending": p})
			return false
		}
	}
	for _, p := range want {
		if !gotM[p] {
			c.Violation("trie:missing-match:"+patternKind(p)+":"+where, "the trie misses a pattern the segment-wise rule matches",
				map[string]any{"patterns": set, "topic": topic, "trie": gs, "reference": want, "offending": p})
			return false
		}
	}
	return false
}

// runTrieSets: case i = every pattern set {p_i} and {p_i,p_j}, j>i (case 0 also
// the empty set) against every topic.
func runTrieSets(c *lib.Case) {
	pats, topics := universe(c.Tier)
	tab := refTab[c.Tier]
	i := c.Index
	var pairs, matches int64
	check := func(set []string) bool {
		ok := true
		for ti, t := range topics {
			got := pubsub.VerifTrieMatch(set, t)
			pairs++
			matches += int64(len(got))
			if quickAgree(tab, set, ti, got) {
				continue
			}
			if !compareMatch(c, "fresh", set, t, got) {
				ok = false
				break
			}
		}
		return ok
	}
	if i == 0 {
		check(nil)
	}
	check([]string{pats[i]})
	for j := i + 1; j < len(pats); j++ {
		if !check([]string{pats[i], pats[j]}) {
			break
		}
		c.Nontrivial(pats[i] + "|" + pats[j])
	}
	c.Nontrivial(pats[i])
	c.Eval(pairs)
	c.Count("trie.pairs_compared", pairs)
	c.Count("trie.sets.matches_observed", matches)
	if i == 0 {
		c.Sample("trie-universe", map[string]any{"patterns": len(pats), "topics": len(topics), "first_patterns": pats[:8], "first_topics": topics[:8]})
	}
}

// runTrieSeq: case i = for every j: add p_i, add p_j, (absent removal), remove
// one, remove the other (both orders); after each step the trie must answer
// like the reference on the current multiset; an emptied trie holds nothing.
func runTrieSeq(c *lib.Case) {
	pats, topics := universe(c.Tier)
	tab := refTab[c.Tier]
	i := c.Index
	var pairs int64
	var steps int64
	checkAll := func(where string, t *pubsub.VerifTrie, multiset []string) bool {
		for ti, tp := range topics {
			pairs++
			got := t.Match(tp)
			if quickAgree(tab, multiset, ti, got) {
				continue
			}
			if !compareMatch(c, where, multiset, tp, got) {
				return false
			}
		}
		if (t.Len() == 0) != (len(multiset) == 0) {
			c.Violation("trie:len:"+where, "trie size disagrees with emptiness of the registered pattern set",
				map[string]any{"registered": multiset, "len": t.Len()})
			return false
		}
		return true
	}
	for j := range pats {
		for order := 0; order < 2; order++ {
			a, b := pats[i], pats[j]
			t := pubsub.VerifNewTrie()
			t.Add(a)
			steps++
			// the states up to here are the same for both removal orders: checked once
			if order == 0 && !checkAll("after-add", t, []string{a}) {
				return
			}
			t.Add(b)
			steps++
			if order == 0 && !checkAll("after-add", t, []string{a, b}) {
				return
			}
			// removing something that is not registered must not disturb anything
			absent := pats[(i+j+7)%len(pats)]
			if absent != a && absent != b {
				t.Remove(absent)
				steps++
				if order == 0 && !checkAll("after-absent-remove", t, []string{a, b}) {
					return
				}
			}
			first, second := a, b
			if order == 1 {
				first, second = b, a
			}
			t.Remove(first)
			steps++
			if !checkAll("after-remove", t, []string{second}) {
				return
			}
			t.Remove(second)
			steps++
			if !checkAll("after-remove", t, nil) {
				return
			}
			refs, nodes := t.Refs()
			if len(refs) != 0 || nodes != 0 || t.Len() != 0 {
				c.Violation("trie:leak-after-remove-all", "an emptied trie still holds patterns or nodes",
					map[string]any{"added": []string{a, b}, "removed_first": first, "refs": refs, "nodes": nodes, "len": t.Len()})
				return
			}
			// one more removal of an already removed pattern: still empty, still no match
			t.Remove(first)
			if !checkAll("after-double-remove", t, nil) {
				return
			}
		}
		c.Nontrivial(fmt.Sprintf("%s,%s", pats[i], pats[j]))
	}
	c.Eval(pairs)
	c.Count("trie.pairs_compared", pairs)
	c.Count("trie.seq.steps", steps)
}

// runTrieRand: random add/remove sequences with multiplicities on larger sets.
func runTrieRand(c *lib.Case) {
	pats, topics := universe(c.Tier)
	tab := refTab[c.Tier]
	r := c.Rng
	t := pubsub.VerifNewTrie()
	refs := map[string]int{}
	nSteps := 40 + r.Intn(80)
	pool := make([]string, 3+r.Intn(18))
	for i := range pool {
		pool[i] = pats[r.Intn(len(pats))]
	}
	var pairs int64
	var log []string
	multiset := func() []string {
		var out []string
		for p, n := range refs {
			for k := 0; k < n; k++ {
				out = append(out, p)
			}
		}
		sort.Strings(out)
		return out
	}
	maxLive := 0
	for s := 0; s < nSteps; s++ {
		p := pool[r.Intn(len(pool))]
		if r.Intn(100) < 55 {
			t.Add(p)
			refs[p]++
			log = append(log, "+"+p)
		} else {
			t.Remove(p)
			if refs[p] > 0 {
				refs[p]--
				if refs[p] == 0 {
					delete(refs, p)
				}
			}
			log = append(log, "-"+p)
		}
		if len(refs) > maxLive {
			maxLive = len(refs)
		}
		ms := multiset()
		for ti, tp := range topics {
			pairs++
			got := t.Match(tp)
			if quickAgree(tab, ms, ti, got) {
				continue
			}
			if !compareMatch(c, "random-sequence", ms, tp, got) {
				c.Logf("ops: %v", log)
				return
			}
		}
		got, _ := t.Refs()
		if len(got) != len(refs) {
			c.Violation("trie:live-set:random-sequence", "the trie's live pattern set differs from the registered multiset",
				map[string]any{"ops": log, "trie": got, "model": refs})
			return
		}
		for p, n := range refs {
			if got[p] != n {
				c.Violation("trie:refcount:random-sequence", "a pattern's reference count differs from adds minus removes",
					map[string]any{"ops": log, "pattern": p, "trie": got[p], "model": n})
				return
			}
		}
	}
	// withdraw everything in random order
	ms := multiset()
	r.Shuffle(len(ms), func(i, j int) { ms[i], ms[j] = ms[j], ms[i] })
	for _, p := range ms {
		t.Remove(p)
	}
	gr, nodes := t.Refs()
	if len(gr) != 0 || nodes != 0 || t.Len() != 0 {
		c.Violation("trie:leak-after-remove-all", "an emptied trie still holds patterns or nodes",
			map[string]any{"ops": log, "refs": gr, "nodes": nodes, "len": t.Len()})
		return
	}
	for _, tp := range topics {
		pairs++
		if !compareMatch(c, "after-remove-all", nil, tp, t.Match(tp)) {
			return
		}
	}
	c.Eval(pairs)
	c.Count("trie.pairs_compared", pairs)
	c.Count("trie.rand.steps", int64(nSteps))
	if maxLive >= 3 {
		c.Nontrivial(strings.Join(log, ""))
	}
	c.Sample("trie-rand", map[string]any{"ops": log, "max_live_patterns": maxLive})
}

// ---------------------------------------------------------------------------
// validation: every string over {a,/,*,>} up to length 6 plus crafted ones
// ---------------------------------------------------------------------------

const validateBatches = 16

func validateInputs() []string {
	in := enumStrings("a/*>", 6)
	in = append(in, "", "acc", "acc/x", "a b", "a/b/c/d", strings.Repeat("a/", 15)+"a", strings.Repeat("a/", 16)+"a",
		strings.Repeat("a", 256), strings.Repeat("a", 257), strings.Repeat("a/", 7)+">", strings.Repeat("*/", 15)+">",
		">/a", "a/>/b", "a/**", "a/*b", "a/b>", "/", "//", "a//b", "/a", "a/")
	return in
}

func runValidate(c *lib.Case) {
	in := validateInputs()
	var n int64
	for k := c.Index; k < len(in); k += validateBatches {
		s := in[k]
		n++
		// topic
		tc := topicClass(s)
		err := pubsub.ValidateTopic(s)
		c.Count("validate.topic."+tc, 1)
		switch {
		case tc == "limit":
		case tc == "ok" && err != nil:
			c.Violation("validate:topic:well-formed-rejected", "a well formed topic is rejected", map[string]any{"topic": s, "err": err.Error()})
		case tc != "ok" && err == nil:
			c.Violation("validate:topic:accepted:"+tc, "a malformed topic is accepted", map[string]any{"topic": s})
		}
		// pattern
		pc := patternClass(s)
		perr := pubsub.ValidatePattern(s)
		c.Count("validate.pattern."+pc, 1)
		switch {
		case pc == "limit":
		case pc == "ok" && perr != nil:
			c.Violation("validate:pattern:well-formed-rejected", "a well formed pattern is rejected", map[string]any{"pattern": s, "err": perr.Error()})
		case pc != "ok" && perr == nil:
			c.Violation("validate:pattern:accepted:"+pc, "a malformed pattern is accepted", map[string]any{"pattern": s})
		}
		// semantic cross-check on multi-character segments: a valid pattern against every valid topic of this universe
		if pc == "ok" {
			c.Nontrivial("p:" + s)
			for _, t := range in {
				if len(t) > 6 || topicClass(t) != "ok" {
					continue
				}
				n++
				if !compareMatch(c, "string-universe", []string{s}, t, pubsub.VerifTrieMatch([]string{s}, t)) {
					break
				}
				c.Count("trie.pairs_compared", 1)
			}
		}
	}
	c.Eval(n)
}
