package c17

import (
	"context"
	"fmt"
	"math/rand"
	"runtime"
	"sort"
	"strings"
	"sync"
	"sync/atomic"
	"time"

	"github.com/anyproto/any-sync/commonspace/pubsub"
	"github.com/anyproto/any-sync/commonspace/pubsub/pubsubproto"
	"github.com/anyproto/any-sync/net/streampool"

	"verifharness/lib"
)

// Close/subscribe race: 32 goroutines drive streams that subscribe,
// unsubscribe and publish while they are being closed from the write side
// (context cancel, failing write) or the read side (EOF), with concurrent
// member evictions and space closes. Run under the race detector. Afterwards
// every view of serving-side interest must be empty, and the interleaving-
// independent delivery facts must hold.

type raceStream struct {
	fs    *fakeStream
	acct  *account
	done  chan struct{}
	sent  map[string]map[string]bool // space -> every pattern this stream ever sent in a Subscribe
	close string
}

type racePub struct {
	space, topic string
	reject       string // non-empty: must never be delivered to anyone, whatever the interleaving
}

func runRace(c *lib.Case) {
	r := c.Rng
	mem := newMembership()
	rel := &relay{nodeIds: map[string]bool{}}
	cfg := bigConfig()
	cfg.DialQueueWorkers = 4
	svc := pubsub.New(pubsub.Deps{Membership: mem, Relay: rel, Config: cfg})
	a, err := startApp(r, svc)
	if err != nil {
		c.Inconclusive("service start: " + err.Error())
		return
	}
	defer a.Close(context.Background())
	pool := pubsub.VerifPool(svc)

	var accts []*account
	for i := 0; i < 4; i++ {
		accts = append(accts, newAccount(r, fmt.Sprintf("acc%d", i)))
	}
	outsider := accts[3] // never a member of anything
	spaces := []string{"s1", "s2"}
	for _, sp := range spaces {
		for _, ac := range accts[:3] {
			mem.set(sp, ac.id, true)
		}
	}
	pats := enumPatterns(2)
	topics := enumTopics(2)

	const workers = 32
	iters := 4
	if !c.Quick() {
		iters = 8
	}
	var (
		mu      sync.Mutex
		streams []*raceStream
		pubs    = map[int]racePub{}
		nextMsg atomic.Int64
		wg      sync.WaitGroup
		nClose  [3]atomic.Int64
		nFrames atomic.Int64
		nEvict  atomic.Int64
		nSpaceC atomic.Int64
	)
	seeds := make([]int64, workers)
	for i := range seeds {
		seeds[i] = r.Int63()
	}
	start := make(chan struct{})
	streamWorker := func(g int) {
		defer wg.Done()
		lr := rand.New(rand.NewSource(seeds[g]))
		<-start
		for it := 0; it < iters; it++ {
			acct := accts[lr.Intn(len(accts))]
			rs := &raceStream{acct: acct, done: make(chan struct{}), sent: map[string]map[string]bool{}}
			// two workers share a peer id, so sibling streams of one peer exist concurrently
			rs.fs = newFakeStream(fmt.Sprintf("r%d-%d", g, it), fmt.Sprintf("rpeer-%d", g/2), acct.identity, false)
			mu.Lock()
			streams = append(streams, rs)
			mu.Unlock()
			go func() { _ = svc.HandleStream(rs.fs); close(rs.done) }()
			k := 3 + lr.Intn(10)
			closeAt := lr.Intn(k + 1)
			mode := lr.Intn(3)
			rs.close = []string{"ctx-cancel", "write-error", "eof"}[mode]
			trigger := make(chan struct{})
			closerDone := make(chan struct{})
			go func() {
				defer close(closerDone)
				<-trigger
				switch mode {
				case 0:
					rs.fs.cancel()
				case 1:
					rs.fs.sendFail.Store(true)
				default:
					rs.fs.signalEOF()
				}
				nClose[mode].Add(1)
			}()
			for f := 0; f <= k; f++ {
				if f == closeAt {
					close(trigger)
					if lr.Intn(2) == 0 {
						runtime.Gosched()
					}
				}
				if f == k {
					break
				}
				sp := spaces[lr.Intn(len(spaces))]
				var m *pubsubproto.PubSubMessage
				switch x := lr.Intn(100); {
				case x < 55:
					n := 1 + lr.Intn(3)
					var ps []string
					for i := 0; i < n; i++ {
						ps = append(ps, pats[lr.Intn(len(pats))])
					}
					if rs.sent[sp] == nil {
						rs.sent[sp] = map[string]bool{}
					}
					for _, p := range ps {
						rs.sent[sp][p] = true
					}
					m = wrapSub(sp, ps)
				case x < 70:
					var ps []string
					if lr.Intn(3) != 0 {
						ps = []string{pats[lr.Intn(len(pats))]}
					}
					m = wrapUnsub(sp, ps)
				default:
					idx := int(nextMsg.Add(1))
					topic := topics[lr.Intn(len(topics))]
					signer := acct
					rp := racePub{space: sp}
					switch y := lr.Intn(10); {
					case y < 1:
						topic = invalidTopics[lr.Intn(len(invalidTopics))]
						rp.reject = "invalid-topic"
					case y < 2:
						signer = accts[(indexOf(accts, acct)+1)%3]
						rp.reject = "identity-mismatch"
					case y < 3:
						topic = "acc/a/" + accts[(indexOf(accts, acct)+1)%3].id
						rp.reject = "unowned-acc-topic"
					}
					if acct == outsider && rp.reject == "" {
						rp.reject = "never-member-publisher"
					}
					rp.topic = topic
					p := &pubsubproto.Publish{SpaceId: sp, Topic: topic, MsgId: msgIdOf(idx), Payload: []byte("x"), TimestampMilli: time.Now().UnixMilli()}
					signAs(signer, p)
					mu.Lock()
					pubs[idx] = rp
					mu.Unlock()
					m = wrapPub(p)
				}
				if !rs.fs.feed(m, wd) {
					break
				}
				nFrames.Add(1)
			}
			<-closerDone
			// whatever the chosen way did, the connection ends now
			rs.fs.signalEOF()
			select {
			case <-rs.done:
			case <-time.After(wd):
				c.Inconclusive("HandleStream did not return in the race workload")
				return
			}
		}
	}
	evictor := func(g int) {
		defer wg.Done()
		lr := rand.New(rand.NewSource(seeds[g]))
		<-start
		for i := 0; i < iters*6; i++ {
			sp := spaces[lr.Intn(len(spaces))]
			ac := accts[lr.Intn(3)]
			if lr.Intn(2) == 0 {
				mem.set(sp, ac.id, false)
				svc.EvictMember(sp, ac.pub)
				runtime.Gosched()
				mem.set(sp, ac.id, true)
			} else {
				svc.RevalidateMembers(sp, func(account string) bool { return mem.is(sp, account) })
			}
			nEvict.Add(1)
			for j := 0; j < 50; j++ {
				runtime.Gosched()
			}
		}
	}
	spaceCloser := func(g int) {
		defer wg.Done()
		lr := rand.New(rand.NewSource(seeds[g]))
		<-start
		for i := 0; i < iters*3; i++ {
			svc.CloseSpace(spaces[lr.Intn(len(spaces))])
			nSpaceC.Add(1)
			for j := 0; j < 100; j++ {
				runtime.Gosched()
			}
		}
	}
	for g := 0; g < workers; g++ {
		wg.Add(1)
		switch g % 8 {
		case 6:
			go evictor(g)
		case 7:
			go spaceCloser(g)
		default:
			go streamWorker(g)
		}
	}
	t0 := time.Now()
	close(start)
	wg.Wait()
	c.Logf("workers done after %v", time.Since(t0))
	c.Eval(1)
	c.Count("race.rounds", 1)
	c.Count("race.streams", int64(len(streams)))
	c.Count("race.frames_fed", nFrames.Load())
	c.Count("race.close.ctx-cancel", nClose[0].Load())
	c.Count("race.close.write-error-armed", nClose[1].Load())
	c.Count("race.close.eof", nClose[2].Load())
	c.Count("race.evictions", nEvict.Load())
	c.Count("race.space_closes", nSpaceC.Load())

	// ---- quiescence: every stream is gone from the pool; then the leak check ----
	// A close that started on the write side finishes (pool removal, then the
	// close hook) on that goroutine, with no signal at the API: wait (bounded)
	// for the state to become clean; a real leak never becomes clean.
	deadline := time.Now().Add(wd)
	var lastState map[string]any
	clean := false
	for {
		n, byPeer, byTag := streampool.VerifIndexSnapshot(pool)
		sp, nrec, tries := pubsub.VerifSnapshot(svc)
		if n == 0 && len(byPeer) == 0 && len(byTag) == 0 && sp == 0 && nrec == 0 {
			clean = true
			break
		}
		lastState = map[string]any{"pool_streams": n, "pool_by_peer": byPeer, "pool_tags": byTag, "space_tries": sp, "stream_records": nrec, "trie_refcounts": tries,
			"records": pubsub.VerifStreamRecords(svc)}
		if time.Now().After(deadline) {
			break
		}
		time.Sleep(200 * time.Microsecond)
	}
	c.Logf("quiescent after %v", time.Since(t0))
	c.Count("race.leak_checks", 1)
	if !clean {
		what := "pool-stream"
		switch {
		case lastState["pool_streams"].(int) == 0 && len(lastState["pool_tags"].(map[string][]uint32)) > 0:
			what = "pool-tag"
		case lastState["pool_streams"].(int) == 0 && lastState["stream_records"].(int) > 0:
			what = "stream-record"
		case lastState["pool_streams"].(int) == 0 && lastState["space_tries"].(int) > 0:
			what = "space-trie"
		}
		c.Violation("leak:race:"+what, "interest bookkeeping remains after every stream of a close/subscribe race has been closed", lastState)
	}

	// ---- interleaving-independent delivery facts -----------------------------------
	var received int64
	for _, rs := range streams {
		seen := map[int]int{}
		for _, g := range rs.fs.snapshot() {
			if g.pub == nil {
				continue
			}
			received++
			idx := msgIdx(g.pub.MsgId)
			rp, ok := pubs[idx]
			if !ok {
				c.Violation("race:unknown-message", "a stream received a publish nobody sent", map[string]any{"stream": rs.fs.name})
				continue
			}
			seen[idx]++
			if seen[idx] == 2 {
				c.Violation("race:duplicate-delivery", "a stream received two copies of one publish", map[string]any{"stream": rs.fs.name, "topic": rp.topic})
			}
			if rp.reject != "" {
				c.Violation("race:delivery-of-rejected:"+rp.reject, "a publish that must be rejected under every interleaving was delivered", map[string]any{"stream": rs.fs.name, "space": rp.space, "topic": rp.topic})
			}
			if rs.acct == outsider {
				c.Violation("race:delivery-to-never-member", "a stream of an account that never was a member received a publish", map[string]any{"stream": rs.fs.name, "topic": rp.topic})
			}
			if !anyMatch(rs.sent[rp.space], rp.topic) {
				c.Violation("race:delivery-without-matching-subscription", "a stream received a publish that matches nothing it ever subscribed", map[string]any{"stream": rs.fs.name, "space": rp.space, "topic": rp.topic, "ever_subscribed": keysOf(rs.sent[rp.space])})
			}
		}
	}
	c.Count("race.publishes", int64(len(pubs)))
	c.Count("race.deliveries_observed", received)
	// distinct = the multiset of (close mode, frames) choices; non-trivial when all three close modes occurred and something was delivered
	if nClose[0].Load() > 0 && nClose[1].Load() > 0 && nClose[2].Load() > 0 && received > 0 {
		var sig []string
		for _, rs := range streams {
			sig = append(sig, rs.fs.name+":"+rs.close)
		}
		sort.Strings(sig)
		c.Nontrivial(fmt.Sprintf("%d|%s", seeds[0], strings.Join(sig, ",")))
	}
	c.Sample("race-round", map[string]any{"streams": len(streams), "frames": nFrames.Load(), "deliveries": received, "evictions": nEvict.Load(), "space_closes": nSpaceC.Load()})
}

// race-witness: a long-lived witness stream holds a fixed set of patterns in one space while
// racing streams of other accounts subscribe to / unsubscribe from THE SAME patterns in that
// space and are closed at random points of their frame sequences (context cancel, failing
// write, EOF). No evictions, no space closes. Afterwards the witness's interest must be exactly
// what it registered: every pattern with reference count 1, one stream record, and a member's
// publish on each topic reaches the witness exactly when one of its patterns matches.
// (Added after seeded change C17-2 - a subscribe racing a close withdrew a shared pattern
// twice - was missed: the first race workload only checked that everything is empty at the end.)
func runRaceWitness(c *lib.Case) {
	r := c.Rng
	mem := newMembership()
	rel := &relay{nodeIds: map[string]bool{}}
	cfg := bigConfig()
	cfg.DialQueueWorkers = 4
	svc := pubsub.New(pubsub.Deps{Membership: mem, Relay: rel, Config: cfg})
	a, err := startApp(r, svc)
	if err != nil {
		c.Inconclusive("service start: " + err.Error())
		return
	}
	defer a.Close(context.Background())
	pool := pubsub.VerifPool(svc)
	const space = "sw"
	var accts []*account
	for i := 0; i < 4; i++ {
		ac := newAccount(r, fmt.Sprintf("wacc%d", i))
		accts = append(accts, ac)
		mem.set(space, ac.id, true)
	}
	wAcct := accts[0]
	allPats := enumPatterns(2)
	topics := enumTopics(2)
	// the witness holds 3-6 patterns; racers use the same few patterns so that references are shared
	r.Shuffle(len(allPats), func(i, j int) { allPats[i], allPats[j] = allPats[j], allPats[i] })
	wPats := append([]string{}, allPats[:3+r.Intn(4)]...)
	racePats := append(append([]string{}, wPats...), allPats[len(wPats):len(wPats)+2]...)
	witness := newFakeStream("witness", "wpeer", wAcct.identity, false)
	wDone := make(chan struct{})
	go func() { _ = svc.HandleStream(witness); close(wDone) }()
	if !witness.feed(wrapSub(space, wPats), wd) {
		c.Inconclusive("witness subscribe not consumed")
		return
	}
	// wait until the witness's interest is registered (bounded poll on the snapshot)
	registered := func() bool {
		_, _, tries := pubsub.VerifSnapshot(svc)
		for _, p := range wPats {
			if tries[space][p] < 1 {
				return false
			}
		}
		return true
	}
	for dl := time.Now().Add(wd); !registered(); {
		if time.Now().After(dl) {
			c.Inconclusive("witness interest did not register")
			return
		}
		time.Sleep(200 * time.Microsecond)
	}
	const workers = 16
	iters := 5
	if !c.Quick() {
		iters = 10
	}
	seeds := make([]int64, workers)
	for i := range seeds {
		seeds[i] = r.Int63()
	}
	var wg sync.WaitGroup
	var nStreams, nFrames atomic.Int64
	var nClose [3]atomic.Int64
	start := make(chan struct{})
	for g := 0; g < workers; g++ {
		wg.Add(1)
		go func(g int) {
			defer wg.Done()
			lr := rand.New(rand.NewSource(seeds[g]))
			<-start
			for it := 0; it < iters; it++ {
				acct := accts[1+lr.Intn(3)]
				fs := newFakeStream(fmt.Sprintf("w%d-%d", g, it), fmt.Sprintf("wrpeer-%d", g/2), acct.identity, false)
				done := make(chan struct{})
				go func() { _ = svc.HandleStream(fs); close(done) }()
				nStreams.Add(1)
				k := 2 + lr.Intn(6)
				closeAt := lr.Intn(k + 1)
				mode := lr.Intn(3)
				for f := 0; f <= k; f++ {
					if f == closeAt {
						switch mode {
						case 0:
							fs.cancel()
						case 1:
							fs.sendFail.Store(true)
						default:
							fs.signalEOF()
						}
						nClose[mode].Add(1)
						if lr.Intn(2) == 0 {
							runtime.Gosched()
						}
					}
					if f == k {
						break
					}
					var m *pubsubproto.PubSubMessage
					if lr.Intn(4) > 0 {
						n := 1 + lr.Intn(3)
						var ps []string
						for i := 0; i < n; i++ {
							ps = append(ps, racePats[lr.Intn(len(racePats))])
						}
						m = wrapSub(space, ps)
					} else {
						m = wrapUnsub(space, []string{racePats[lr.Intn(len(racePats))]})
					}
					if !fs.feed(m, wd) {
						break
					}
					nFrames.Add(1)
				}
				fs.signalEOF()
				select {
				case <-done:
				case <-time.After(wd):
					c.Inconclusive("HandleStream did not return in the race-witness workload")
					return
				}
			}
		}(g)
	}
	close(start)
	wg.Wait()
	c.Eval(1)
	c.Count("witness.rounds", 1)
	c.Count("witness.racing_streams", nStreams.Load())
	c.Count("witness.frames_fed", nFrames.Load())
	for i, n := range []string{"ctx-cancel", "write-error-armed", "eof"} {
		c.Count("witness.close."+n, nClose[i].Load())
	}
	// quiescence: only the witness is left in the pool
	want := map[string]int{}
	for _, p := range wPats {
		want[p] = 1
	}
	var last map[string]any
	ok := false
	for dl := time.Now().Add(wd); ; {
		n, _, byTag := streampool.VerifIndexSnapshot(pool)
		_, nrec, tries := pubsub.VerifSnapshot(svc)
		got := tries[space]
		same := len(got) == len(want)
		for p, v := range want {
			if got[p] != v {
				same = false
			}
		}
		last = map[string]any{"pool_streams": n, "pool_tags": len(byTag), "stream_records": nrec, "trie_refcounts": got, "witness_patterns": wPats}
		if n == 1 && nrec == 1 && same && len(byTag) == len(wPats) {
			ok = true
			break
		}
		if time.Now().After(dl) {
			break
		}
		time.Sleep(200 * time.Microsecond)
	}
	c.Count("witness.bookkeeping_checks", 1)
	if !ok {
		what := "trie-refcounts"
		if last["pool_streams"].(int) != 1 {
			what = "pool-streams"
		} else if last["stream_records"].(int) != 1 {
			what = "stream-records"
		}
		c.Violation("witness:bookkeeping:"+what, "after racing streams that shared its patterns have all closed, the surviving stream's interest bookkeeping is not exactly what it registered", last)
		return
	}
	// delivery: a member publishes on every topic; a barrier (a topic the witness certainly matches) closes the window
	pub := newFakeStream("wpub", "wpubpeer", accts[1].identity, false)
	pDone := make(chan struct{})
	go func() { _ = svc.HandleStream(pub); close(pDone) }()
	expect := map[int]bool{}
	idx := 1000
	barrier := -1
	send := func(topic string) int {
		idx++
		p := &pubsubproto.Publish{SpaceId: space, Topic: topic, MsgId: msgIdOf(idx), Payload: []byte("w"), TimestampMilli: time.Now().UnixMilli()}
		signAs(accts[1], p)
		pub.feed(wrapPub(p), wd)
		return idx
	}
	var barrierTopic string
	for _, t := range topics {
		if anyMatch(setOf(wPats), t) {
			barrierTopic = t
		}
	}
	for _, t := range topics {
		i := send(t)
		expect[i] = anyMatch(setOf(wPats), t)
	}
	if barrierTopic != "" {
		barrier = send(barrierTopic)
		if !witness.waitFor(hasPublish(barrier, false), wd) {
			c.Violation("witness:delivery:missed", "a member's publish on a topic matched by a currently registered pattern of the surviving stream did not reach it", map[string]any{"topic": barrierTopic, "witness_patterns": wPats})
			return
		}
	}
	got := map[int]int{}
	for _, g := range witness.snapshot() {
		if g.pub != nil {
			got[msgIdx(g.pub.MsgId)]++
		}
	}
	for i, must := range expect {
		switch {
		case must && got[i] == 0 && barrier >= 0:
			c.Violation("witness:delivery:missed", "a member's publish on a topic matched by a currently registered pattern of the surviving stream did not reach it", map[string]any{"msg": i, "witness_patterns": wPats})
		case !must && got[i] > 0:
			c.Violation("witness:delivery:unexpected", "the surviving stream received a publish none of its patterns matches", map[string]any{"msg": i})
		case got[i] > 1:
			c.Violation("witness:delivery:duplicate", "the surviving stream received two copies of one publish", map[string]any{"msg": i})
		}
	}
	c.Count("witness.publishes_checked", int64(len(expect)))
	if nClose[0].Load() > 0 && nClose[1].Load() > 0 && nClose[2].Load() > 0 {
		c.Nontrivial(fmt.Sprintf("w|%d|%v", seeds[0], wPats))
	}
	c.Sample("race-witness", map[string]any{"witness_patterns": wPats, "racing_streams": nStreams.Load(), "frames": nFrames.Load()})
	pub.signalEOF()
	witness.signalEOF()
	<-pDone
	<-wDone
}

func setOf(ps []string) map[string]bool {
	m := map[string]bool{}
	for _, p := range ps {
		m[p] = true
	}
	return m
}
