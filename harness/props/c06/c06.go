// Package c06: change order is a function of the change set; incremental equals rebuilt.
package c06

import (
	"context"
	"fmt"
	"hash/fnv"
	"path/filepath"
	"sort"
	"strings"

	"github.com/anyproto/any-sync/commonspace/object/tree/objecttree"
	"github.com/anyproto/any-sync/commonspace/object/tree/treechangeproto"

	"verifharness/engines/netsim"
	"verifharness/lib"
	"verifharness/props/c01"
)

type Prop struct{}

func (Prop) ID() string    { return "C06" }
func (Prop) Level() string { return "exploration" }
func (Prop) Rule() string {
	return "a change set S (DAG with snapshots) is produced by honest authors in a simulated lossy network of real sync trees and converged; then K fresh receivers (6 quick / 12 thorough) each get S as a random permutation split into random batches (with the full sender's heads and snapshot path, or the heads of what was offered so far), with duplicated batches, the full set re-offered until held; after every addition the presented sequence (IterateRoot), AddResult.Mode and the stored sequence are checked, and at the end incremental, reopened, history (full and at a random earlier change) and the simulator replicas' own orders are compared. Second workload small-dags: every honest two-author history of <= 3 (quick) / 4 (thorough) steps, each step (author, plain|snapshot, synced-before or not), enumerated exhaustively, 3 receivers each. Third workload fan-out: 5-7 authors repeatedly edit concurrently from a common state (one change gets 4-7 concurrent children), 4 receivers each. Non-trivial = S has a fork (>=2 heads at some point or >=1 merge) and >= 5 changes; distinct = hash(S ids, arrival order)."
}
func (Prop) Assumptions() []string {
	return []string{"every change's snapshot base is what an honest builder chose (changes come from real AddContent calls)", "ACL fixed"}
}

func (Prop) Plan(tier string) []lib.Workload {
	n := 60
	if tier == "thorough" {
		n = 1000
	}
	return []lib.Workload{
		{Name: "changesets", Cases: n, MinNontrivial: n / 2},
		{Name: "small-dags", Cases: smallDagCases(tier), MinNontrivial: 50, Exhaustive: true},
		{Name: "fan-out", Cases: fanoutCases(tier), MinNontrivial: fanoutCases(tier) / 2},
	}
}

// small-dags: every honest two-author history of up to L changes, each step being
// (author, plain|snapshot, sync-before-or-not), enumerated exhaustively (L = 3 quick, 4 thorough).
func smallDagLen(tier string) int {
	if tier == "thorough" {
		return 4
	}
	return 3
}

func smallDagCases(tier string) int {
	n, p := 0, 1
	for l := 1; l <= smallDagLen(tier); l++ {
		p *= 8
		n += p
	}
	return n
}

func fanoutCases(tier string) int {
	if tier == "thorough" {
		return 300
	}
	return 24
}

// fan-out: 5-7 authors repeatedly edit concurrently from a common synced state, so that one change
// gets many concurrent children (the sibling order is where arrival order could leak into the
// presented order); added after seeded change C06-1 was caught only narrowly.
func runFanout(c *lib.Case) {
	n := 5 + c.Rng.Intn(3)
	s, err := netsim.New(netsim.Config{Dir: c.TmpDir, Replicas: n, Rng: c.Rng, Encrypted: c.Rng.Intn(2) == 0})
	if err != nil {
		c.Inconclusive("setup: " + err.Error())
		return
	}
	defer s.Close()
	drain := func() {
		for k := 0; len(s.InFlight) > 0 && k < 100000; k++ {
			s.Deliver(c.Rng.Intn(len(s.InFlight)), -1, false)
		}
	}
	rounds := 2 + c.Rng.Intn(3)
	width := 0
	for r := 0; r < rounds; r++ {
		// every author (or a random subset of at least 4) edits from the same state; nothing is delivered meanwhile
		var authors []int
		for i := 0; i < n; i++ {
			if i < 4 || c.Rng.Intn(3) > 0 {
				authors = append(authors, i)
			}
		}
		for _, a := range authors {
			if _, err := s.LocalAdd(a, r > 0 && c.Rng.Intn(8) == 0, 1+c.Rng.Intn(40)); err != nil {
				c.Violation("fan-out:local-add-failed", "local AddContent failed", err.Error())
				return
			}
		}
		if len(authors) > width {
			width = len(authors)
		}
		drain()
		// one replica merges the fan before the next round
		if _, err := s.LocalAdd(c.Rng.Intn(n), false, 3); err != nil {
			c.Violation("fan-out:local-add-failed", "local AddContent failed", err.Error())
			return
		}
		drain()
	}
	for i := 0; i < n; i++ {
		if err := s.SyncWithPeer(i, (i+1)%n); err != nil {
			c.Inconclusive("sync: " + err.Error())
			return
		}
		drain()
	}
	a, _ := s.Replicas[0].StoredIds()
	for _, r := range s.Replicas[1:] {
		b, _ := r.StoredIds()
		if !eq(a, b) {
			c.Inconclusive("fan-out set did not converge (C01's business)")
			return
		}
	}
	c.Count("fanout.sets", 1)
	c.Count(fmt.Sprintf("fanout.width_%d", width), 1)
	checkSetK(c, s, 4, fmt.Sprintf("fanout/n%d/r%d/%d", n, rounds, c.Index))
}

func decodeSmallDag(idx int) []int {
	l, p := 1, 8
	for idx >= p {
		idx -= p
		p *= 8
		l++
	}
	seq := make([]int, l)
	for i := range seq {
		seq[i] = idx % 8
		idx /= 8
	}
	return seq
}

func runSmallDag(c *lib.Case) {
	seq := decodeSmallDag(c.Index)
	s, err := netsim.New(netsim.Config{Dir: c.TmpDir, Replicas: 2, Rng: c.Rng, Encrypted: false})
	if err != nil {
		c.Inconclusive("setup: " + err.Error())
		return
	}
	defer s.Close()
	drain := func() {
		for n := 0; len(s.InFlight) > 0 && n < 10000; n++ {
			s.Deliver(0, -1, false)
		}
	}
	var desc []string
	for _, e := range seq {
		author, snap, sync := e&1, e&2 != 0, e&4 != 0
		if sync {
			drain()
		}
		if _, err := s.LocalAdd(author, snap, 4); err != nil {
			c.Violation("small-dag:local-add-failed", "local AddContent failed in an honest two-author history", map[string]any{"history": seq, "err": err.Error()})
			return
		}
		desc = append(desc, fmt.Sprintf("%s%d%s", map[bool]string{true: "sync;", false: ""}[sync], author, map[bool]string{true: "S", false: ""}[snap]))
	}
	drain()
	for _, pr := range [][2]int{{0, 1}, {1, 0}} {
		if err := s.SyncWithPeer(pr[0], pr[1]); err != nil {
			c.Inconclusive("sync: " + err.Error())
			return
		}
		drain()
	}
	a, _ := s.Replicas[0].StoredIds()
	b, _ := s.Replicas[1].StoredIds()
	if !eq(a, b) || len(a) != len(seq)+1 {
		c.Violation("small-dag:not-converged", "two honest replicas did not converge after a drained two-way exchange", map[string]any{"history": desc, "a": len(a), "b": len(b)})
		return
	}
	c.Count("small_dags", 1)
	if c.Index%97 == 0 {
		c.Sample("small-dag", map[string]any{"history": desc})
	}
	checkSetK(c, s, 3, strings.Join(desc, ","))
}

var bg = context.Background()

func (Prop) RunCase(c *lib.Case) {
	if c.Workload == "small-dags" {
		runSmallDag(c)
		return
	}
	if c.Workload == "fan-out" {
		runFanout(c)
		return
	}
	hook := &c01.Hook{AtEnd: func(s *netsim.Sim) { checkSet(c, s) }}
	c01.RunScheduleOpts(c, hook, c01.Opts{Quiet: true})
}

func seqIds(st []netsim.StoredChange) []string {
	out := make([]string, len(st))
	for i, ch := range st {
		out[i] = ch.Id
	}
	return out
}

func restrict(full []string, keep map[string]bool) []string {
	var out []string
	for _, id := range full {
		if keep[id] {
			out = append(out, id)
		}
	}
	return out
}

func setOf(ids []string) map[string]bool {
	m := map[string]bool{}
	for _, id := range ids {
		m[id] = true
	}
	return m
}

func eq(a, b []string) bool { return strings.Join(a, ",") == strings.Join(b, ",") }

func checkSet(c *lib.Case, s *netsim.Sim) {
	K := 6
	if !c.Quick() {
		K = 12
	}
	checkSetK(c, s, K, "")
}

func checkSetK(c *lib.Case, s *netsim.Sim, K int, label string) {
	ref := s.Replicas[0]
	S, err := ref.Stored()
	if err != nil {
		c.Inconclusive(err.Error())
		return
	}
	refSeq := seqIds(S)
	byId := map[string]netsim.StoredChange{}
	merges, forks := 0, 0
	childCount := map[string]int{}
	for _, ch := range S {
		byId[ch.Id] = ch
		if len(ch.PrevIds) > 1 {
			merges++
		}
		for _, p := range ch.PrevIds {
			childCount[p]++
			if childCount[p] == 2 {
				forks++
			}
		}
	}
	H := ref.Heads()
	P, _ := ref.SnapshotPath()
	c.Eval(1)
	c.Count("changesets", 1)
	c.Count("changes", int64(len(S)))
	c.Count("forks", int64(forks))
	c.Count("merges", int64(merges))
	c.Count("snapshots_in_path", int64(len(P)))
	det := func(extra map[string]any) map[string]any {
		d := map[string]any{"set_size": len(S), "heads": H, "snapshot_path": P}
		for k, v := range extra {
			d[k] = v
		}
		return d
	}
	// 1. the simulator's own replicas (grown through arbitrary network schedules) hold S in the same stored order
	for _, r := range s.Replicas[1:] {
		if !r.HasTree {
			continue
		}
		st, err := r.Stored()
		if err != nil {
			continue
		}
		c.Count("replica_orders_compared", 1)
		if !eq(seqIds(st), refSeq) {
			c.Violation("stored-order-differs:network-replicas", "two replicas holding the same change set store it in different orders",
				det(map[string]any{"replica": r.Idx, "first_difference": firstDiff(refSeq, seqIds(st))}))
		}
		checkViews(c, s, r, refSeq, byId, "network-replica", det)
	}
	checkViews(c, s, ref, refSeq, byId, "network-replica", det)

	// 2. fresh receivers
	arrivalSig := fnv.New64a()
	for k := 0; k < K; k++ {
		recv, err := s.NewDetached(filepath.Join(c.TmpDir, fmt.Sprintf("recv-%d", k)), c.Rng.Intn(len(s.Replicas)))
		if err != nil {
			c.Inconclusive("fresh receiver: " + err.Error())
			return
		}
		runReceiver(c, s, recv, S, refSeq, byId, H, P, k, arrivalSig, det)
		recv.CloseDetached()
	}
	if label != "" {
		if len(S) >= 3 {
			c.Nontrivial(label)
		}
	} else if (forks > 0 || merges > 0) && len(S) >= 5 {
		c.Nontrivial(fmt.Sprintf("%x/%x", hashIds(refSeq), arrivalSig.Sum64()))
	}
	if c.Index < 30 {
		c.Sample("changeset", map[string]any{"size": len(S), "forks": forks, "merges": merges, "heads": len(H), "snapshot_path_len": len(P), "receivers": K})
	}
}

func hashIds(ids []string) uint64 {
	h := fnv.New64a()
	for _, id := range ids {
		h.Write([]byte(id))
	}
	return h.Sum64()
}

func firstDiff(a, b []string) map[string]any {
	n := len(a)
	if len(b) < n {
		n = len(b)
	}
	for i := 0; i < n; i++ {
		if a[i] != b[i] {
			return map[string]any{"index": i, "a": a[i], "b": b[i], "len_a": len(a), "len_b": len(b)}
		}
	}
	return map[string]any{"index": n, "len_a": len(a), "len_b": len(b)}
}

func presented(r *netsim.Replica) []string {
	p, _ := r.Presented()
	return p
}

func causal(seq []string, byId map[string]netsim.StoredChange, within map[string]bool) (string, string, bool) {
	seen := map[string]bool{}
	for _, id := range seq {
		for _, p := range byId[id].PrevIds {
			if within[p] && !seen[p] {
				return id, p, false
			}
		}
		seen[id] = true
	}
	return "", "", true
}

func runReceiver(c *lib.Case, s *netsim.Sim, recv *netsim.Replica, S []netsim.StoredChange, refSeq []string, byId map[string]netsim.StoredChange,
	H, P []string, k int, sig interface{ Write([]byte) (int, error) }, det func(map[string]any) map[string]any) {
	r := c.Rng
	var pool []netsim.StoredChange
	for _, ch := range S {
		if ch.Id != s.TreeId {
			pool = append(pool, ch)
		}
	}
	mode := "permutation"
	switch k % 3 {
	case 0:
		r.Shuffle(len(pool), func(a, b int) { pool[a], pool[b] = pool[b], pool[a] })
	case 1:
		// reverse causal order: children before parents
		for a, b := 0, len(pool)-1; a < b; a, b = a+1, b-1 {
			pool[a], pool[b] = pool[b], pool[a]
		}
		mode = "reverse"
	case 2:
		// causal order but random batching
		mode = "causal"
	}
	var batches [][]netsim.StoredChange
	for i := 0; i < len(pool); {
		n := 1 + r.Intn(1+len(pool)/2)
		if r.Intn(3) == 0 {
			n = 1
		}
		if i+n > len(pool) {
			n = len(pool) - i
		}
		batches = append(batches, pool[i:i+n])
		i += n
	}
	// duplicate a few batches
	for d := r.Intn(3); d > 0 && len(batches) > 0; d-- {
		at := r.Intn(len(batches) + 1)
		dup := batches[r.Intn(len(batches))]
		batches = append(batches[:at], append([][]netsim.StoredChange{dup}, batches[at:]...)...)
	}
	offered := map[string]bool{s.TreeId: true}
	add := func(batch []netsim.StoredChange, label string) bool {
		var raws []*treechangeproto.RawTreeChangeWithId
		for _, ch := range batch {
			raws = append(raws, &treechangeproto.RawTreeChangeWithId{Id: ch.Id, RawChange: append([]byte{}, ch.Raw...)})
			offered[ch.Id] = true
			sig.Write([]byte(ch.Id[len(ch.Id)-6:]))
		}
		sig.Write([]byte("|"))
		heads := H
		if r.Intn(10) < 3 {
			// heads of a sender that holds exactly what was offered so far
			heads = sinksOf(offered, byId)
		}
		before := presented(recv)
		recv.Tree.Lock()
		res, err := recv.Tree.AddRawChanges(bg, objecttree.RawChangesPayload{NewHeads: heads, RawChanges: raws, SnapshotPath: P})
		recv.Tree.Unlock()
		c.Count("additions", 1)
		if err != nil {
			c.Violation("addition-failed:"+mode, "adding valid changes of the set failed", det(map[string]any{"receiver": k, "batch": label, "err": err.Error()}))
			return false
		}
		after := presented(recv)
		c.Count(fmt.Sprintf("mode.%d", res.Mode), 1)
		held := setOf(after)
		if ch, p, ok := causal(after, byId, held); !ok {
			c.Violation("presented-child-before-parent", "the presented sequence places a change before its parent", det(map[string]any{"receiver": k, "change": ch, "parent": p}))
			return false
		}
		switch res.Mode {
		case objecttree.Append:
			if len(after) < len(before) || !eq(after[:len(before)], before) {
				c.Violation("append-not-prefix", "an addition reported Append but the previously presented sequence is not a prefix of the new one",
					det(map[string]any{"receiver": k, "arrival": mode, "first_difference": firstDiff(before, after), "added": len(res.Added)}))
				return false
			}
			c.Count("append_prefix_checked", 1)
		case objecttree.Nothing:
			if !eq(after, before) {
				c.Violation("nothing-but-changed", "an addition reported Nothing but the presented sequence changed", det(map[string]any{"receiver": k}))
				return false
			}
		}
		// stored sequence: causal, strictly increasing order ids, restriction of the reference order
		st, err := recv.Stored()
		if err != nil {
			c.Inconclusive(err.Error())
			return false
		}
		stSeq := seqIds(st)
		if ch, p, ok := causal(stSeq, byId, setOf(stSeq)); !ok {
			c.Violation("stored-child-before-parent", "the stored sequence places a change before its parent", det(map[string]any{"receiver": k, "change": ch, "parent": p}))
			return false
		}
		for i := 1; i < len(st); i++ {
			if st[i].OrderId <= st[i-1].OrderId {
				c.Violation("stored-order-ids-not-increasing", "order ids are not strictly increasing along the stored sequence", det(map[string]any{"receiver": k, "at": st[i].Id}))
				return false
			}
		}
		if want := restrict(refSeq, setOf(stSeq)); !eq(stSeq, want) {
			c.Violation("stored-order-differs:partial-set", "a receiver holding a subset stores it in an order that is not the full order restricted to the subset",
				det(map[string]any{"receiver": k, "arrival": mode, "first_difference": firstDiff(want, stSeq)}))
			return false
		}
		if want := restrict(refSeq, held); !eq(after, want) {
			c.Violation("presented-order-differs", "the presented sequence is not the full order restricted to the presented changes",
				det(map[string]any{"receiver": k, "arrival": mode, "first_difference": firstDiff(want, after)}))
			return false
		}
		return true
	}
	for bi, b := range batches {
		if !add(b, fmt.Sprintf("%d/%d", bi+1, len(batches))) {
			return
		}
	}
	// re-offer the whole set (storage order) until everything is held
	full := pool
	sort.Slice(full, func(a, b int) bool { return byId[full[a].Id].OrderId < byId[full[b].Id].OrderId })
	for round := 0; ; round++ {
		ids, _ := recv.StoredIds()
		if len(ids) == len(S) {
			break
		}
		if round == 3 {
			c.Violation("cannot-absorb-full-set", "a receiver offered the complete change set in causal order three times still lacks changes", det(map[string]any{"receiver": k, "holds": len(ids)}))
			return
		}
		c.Count("full_reoffers", 1)
		if !add(full, "full") {
			return
		}
	}
	st, _ := recv.Stored()
	if !eq(seqIds(st), refSeq) {
		c.Violation("stored-order-differs:arrival-"+mode, "a receiver holding the full set stores it in a different order than another replica with the same set",
			det(map[string]any{"receiver": k, "first_difference": firstDiff(refSeq, seqIds(st))}))
		return
	}
	c.Count("receivers_completed", 1)
	checkViews(c, s, recv, refSeq, byId, "receiver-"+mode, det)
}

func sinksOf(have map[string]bool, byId map[string]netsim.StoredChange) []string {
	ref := map[string]bool{}
	for id := range have {
		for _, p := range byId[id].PrevIds {
			ref[p] = true
		}
	}
	var out []string
	for id := range have {
		if !ref[id] {
			out = append(out, id)
		}
	}
	sort.Strings(out)
	return out
}

// checkViews: in-memory, reopened and history views equal the reference order restricted to their contents.
func checkViews(c *lib.Case, s *netsim.Sim, r *netsim.Replica, refSeq []string, byId map[string]netsim.StoredChange, who string, det func(map[string]any) map[string]any) {
	pres := presented(r)
	if want := restrict(refSeq, setOf(pres)); !eq(pres, want) {
		c.Violation("presented-order-differs:"+who, "the presented sequence is not the full order restricted to the presented changes", det(map[string]any{"first_difference": firstDiff(want, pres)}))
		return
	}
	c.Count("views.in_memory", 1)
	// history trees
	r.Tree.Lock()
	st := r.Tree.Storage()
	acl := r.Tree.AclList()
	r.Tree.Unlock()
	ht, err := objecttree.BuildHistoryTree(objecttree.HistoryTreeParams{Storage: st, AclList: acl})
	if err != nil {
		c.Violation("history-build-failed:full", "cannot build the full history tree from storage", det(map[string]any{"err": err.Error()}))
		return
	}
	var hseq []string
	ht.IterateRoot(nil, func(ch *objecttree.Change) bool { hseq = append(hseq, ch.Id); return true })
	if !eq(hseq, refSeq) {
		c.Violation("history-order-differs:full", "the full history tree presents a different order than the stored order", det(map[string]any{"who": who, "first_difference": firstDiff(refSeq, hseq)}))
		return
	}
	c.Count("views.history_full", 1)
	if len(refSeq) > 2 {
		at := refSeq[1+c.Rng.Intn(len(refSeq)-1)]
		ht2, err := objecttree.BuildHistoryTree(objecttree.HistoryTreeParams{Storage: st, AclList: acl, Heads: []string{at}, IncludeBeforeId: true})
		if err != nil {
			c.Violation("history-build-failed:at-change", "cannot build a history tree at an earlier change", det(map[string]any{"err": err.Error(), "at": at}))
			return
		}
		var h2 []string
		ht2.IterateRoot(nil, func(ch *objecttree.Change) bool { h2 = append(h2, ch.Id); return true })
		if want := restrict(refSeq, setOf(h2)); !eq(h2, want) {
			c.Violation("history-order-differs:at-change", "a history view is not the full order restricted to what it contains", det(map[string]any{"who": who, "at": at, "first_difference": firstDiff(want, h2)}))
			return
		}
		if !setOf(h2)[at] {
			c.Violation("history-missing-head", "a history view built at a change does not contain it", det(map[string]any{"at": at}))
		}
		c.Count("views.history_at_change", 1)
	}
	// a history view at SEVERAL concurrent heads (what "before a merge change" resolves to) must present the full
	// order restricted to its contents (added while looking at seeded change C06-6)
	if len(refSeq) > 3 {
		anc := func(id string) map[string]bool {
			out := map[string]bool{}
			stack := []string{id}
			for len(stack) > 0 {
				x := stack[len(stack)-1]
				stack = stack[:len(stack)-1]
				if out[x] {
					continue
				}
				out[x] = true
				stack = append(stack, byId[x].PrevIds...)
			}
			return out
		}
		for try := 0; try < 12; try++ {
			a, b := refSeq[1+c.Rng.Intn(len(refSeq)-1)], refSeq[1+c.Rng.Intn(len(refSeq)-1)]
			if a == b {
				continue
			}
			pa, pb := anc(a), anc(b)
			if pa[b] || pb[a] {
				continue // not concurrent
			}
			heads := []string{a, b}
			sort.Strings(heads)
			if c.Rng.Intn(2) == 0 {
				heads[0], heads[1] = heads[1], heads[0]
			}
			ht3, err := objecttree.BuildHistoryTree(objecttree.HistoryTreeParams{Storage: st, AclList: acl, Heads: heads, IncludeBeforeId: true})
			c.Count("views.history_at_concurrent_heads", 1)
			if err != nil {
				c.Violation("history-build-failed:at-concurrent-heads", "cannot build a history tree at two concurrent changes", det(map[string]any{"err": err.Error(), "heads": heads}))
				break
			}
			var h3 []string
			ht3.IterateRoot(nil, func(ch *objecttree.Change) bool { h3 = append(h3, ch.Id); return true })
			in := setOf(h3)
			if want := restrict(refSeq, in); !eq(h3, want) {
				c.Violation("history-order-differs:at-concurrent-heads", "a history view at concurrent heads is not the full order restricted to what it contains", det(map[string]any{"who": who, "heads": heads, "first_difference": firstDiff(want, h3)}))
				break
			}
			// Which changes such a view contains is NOT part of the statement (it only demands that a view is the full
			// order restricted to what it contains): on the unchanged code 16 of 1803 sampled views lack one of the two
			// requested heads (the common snapshot of two concurrent same-counter snapshots is taken to be one of
			// them). Counted, not judged - judging it would demand more than the property states.
			if !in[a] || !in[b] {
				c.Count("views.history_at_concurrent_heads.lacks_a_requested_head(counted)", 1)
			}
			for _, id := range h3 {
				if !pa[id] && !pb[id] {
					c.Count("views.history_at_concurrent_heads.holds_change_outside_causal_past(counted)", 1)
					break
				}
			}
			break
		}
	}
	// reopen
	if err := r.Restart(); err != nil {
		c.Violation("reopen-failed:"+who, "the tree cannot be reopened from its own storage", det(map[string]any{"err": err.Error()}))
		return
	}
	re := presented(r)
	if want := restrict(refSeq, setOf(re)); !eq(re, want) {
		c.Violation("reopened-order-differs:"+who, "the reopened tree presents an order that is not the full order restricted to its contents", det(map[string]any{"first_difference": firstDiff(want, re)}))
		return
	}
	if !eq(re, pres) {
		// both are restrictions of the same order; they may legitimately contain different
		// prefixes (reduction), but every change presented before must still be stored
		c.Count("views.reopened_differs_in_extent", 1)
	}
	c.Count("views.reopened", 1)
}
