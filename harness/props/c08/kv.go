package c08

import (
	"context"
	"encoding/binary"
	"fmt"
	"path/filepath"

	anystore "github.com/anyproto/any-store"

	"github.com/anyproto/any-sync/app/ldiff"
	"github.com/anyproto/any-sync/commonspace/headsync/headstorage"
	"github.com/anyproto/any-sync/commonspace/object/keyvalue/keyvaluestorage/innerstorage"

	"verifharness/engines/ldiffkit"
	"verifharness/lib"
)

// Workload kv: the index of the space key-value store (innerstorage). It is
// maintained incrementally by Set (last-writer-wins upserts, also losing and
// repeated values, multi-element calls) and rebuilt from the stored documents at
// start-up (innerstorage.New on the same database). Both - and an index freshly
// filled from what IterateValues reads back - must advertise the same hash and
// answer every range query alike, and the head-storage entry of the store must be
// that hash. Timestamps cover the whole int64 range the wire format allows,
// including values that a float64 cannot hold exactly (> 2^53): whatever the store
// keeps for them IS the content, and the index has to be a function of it.
// Added after seeded change C08-3 (incremental path builds the element from the
// in-memory value, start-up path from the stored document) was missed.

type kvOp struct {
	Id string `json:"id"`
	Ts int64  `json:"ts"`
}

func kvTimestamp(c *lib.Case) int64 {
	r := c.Rng
	switch r.Intn(8) {
	case 0:
		return int64(r.Intn(1000))
	case 1, 2, 3:
		return 1_700_000_000_000_000 + r.Int63n(1<<40) // microseconds, the intended unit
	case 4:
		return (1 << 53) - 3 + int64(r.Intn(7)) // around the last exactly representable integers
	case 5:
		return 1_700_000_000_000_000_000 + r.Int63n(1<<50) // a writer stamping in nanoseconds (> 2^53, mostly not float64-exact)
	case 6:
		return (1 << 62) + r.Int63n(1<<61)
	default:
		return 1 + r.Int63n(1<<55)
	}
}

func kvElements(ctx context.Context, st innerstorage.KeyValueStorage) ([]ldiff.Element, error) {
	var els []ldiff.Element
	err := st.IterateValues(ctx, func(kv innerstorage.KeyValue) (bool, error) {
		b := make([]byte, 8)
		binary.BigEndian.PutUint64(b, uint64(kv.TimestampMicro))
		els = append(els, ldiff.Element{Id: kv.KeyPeerId, Head: string(b)})
		return true, nil
	})
	return els, err
}

func runKV(c *lib.Case) {
	r := &reporter{c: c, reported: map[string]bool{}}
	rng := c.Rng
	ctx := context.Background()
	path := filepath.Join(c.TmpDir, "kv.db")
	db, err := anystore.Open(ctx, path, nil)
	if err != nil {
		c.Inconclusive("cannot open any-store: " + err.Error())
		return
	}
	closeDB := func() {
		if db != nil {
			db.Close()
			db = nil
		}
	}
	defer closeDB()
	hs, err := headstorage.New(ctx, db)
	if err != nil {
		c.Inconclusive("head storage: " + err.Error())
		return
	}
	const name = "kv-store"
	st, err := innerstorage.New(ctx, name, hs, db)
	if err != nil {
		c.Inconclusive("innerstorage.New: " + err.Error())
		return
	}
	poolN := 1 + logUniform(rng, 400)
	pool := make([]string, poolN)
	for i := range pool {
		pool[i] = fmt.Sprintf("key%d-peer%d", rng.Intn(poolN), rng.Intn(4)) // key-peer slots, duplicates intended
	}
	mkValue := func(id string, ts int64) innerstorage.KeyValue {
		return innerstorage.KeyValue{KeyPeerId: id, Key: id, ReadKeyId: "rk", TimestampMicro: ts, Identity: "acc", PeerId: "peer", AclId: "acl",
			Value: innerstorage.Value{Value: []byte(fmt.Sprintf("v-%d", ts)), PeerSignature: []byte("p"), IdentitySignature: []byte("i")}}
	}
	var log []kvOp
	calls := 1 + logUniform(rng, 60)
	big, updates, multi := 0, 0, 0
	seen := map[string]bool{}
	restarts := 0
	for i := 0; i < calls; i++ {
		n := 1
		if rng.Intn(3) == 0 {
			n = 1 + logUniform(rng, 300)
			multi++
		}
		batch := make([]innerstorage.KeyValue, 0, n)
		for j := 0; j < n; j++ {
			id := pool[rng.Intn(len(pool))]
			ts := kvTimestamp(c)
			if ts > 1<<53 {
				big++
			}
			if seen[id] {
				updates++
			}
			seen[id] = true
			batch = append(batch, mkValue(id, ts))
			log = append(log, kvOp{id, ts})
		}
		var perr error
		pan := guard(func() { perr = st.Set(ctx, batch...) })
		if pan != nil {
			r.violation(pan.key, "panic in repository code during a key-value Set: "+pan.msg, map[string]any{"ops": kvWitness(log), "stack": pan.stack})
			return
		}
		if perr != nil {
			c.Inconclusive("Set: " + perr.Error())
			return
		}
		c.Eval(1)
		// a restart in the middle of the history: the rebuilt index carries on incrementally
		if rng.Intn(12) == 0 {
			live := st.Diff()
			st2, err := innerstorage.New(ctx, name, hs, db)
			if err != nil {
				c.Inconclusive("innerstorage.New (mid): " + err.Error())
				return
			}
			restarts++
			if dv, _ := compareIdxBudget(live, st2.Diff(), 32, nil, randomRanges(rng, 4), 70); dv != nil {
				r.violation("kv:rebuilt-differs-from-incremental:"+dv.Observable, "the key-value index rebuilt at start-up answers differently from the incrementally maintained one over the same stored values",
					map[string]any{"when": "mid-history", "ops": kvWitness(log), "difference": dv})
				return
			}
			st = st2
		}
	}
	c.Count("kv.histories", 1)
	c.Count("kv.set_calls", int64(calls))
	c.Count("kv.values_offered", int64(len(log)))
	c.Count("kv.values_with_timestamp_above_2^53", int64(big))
	c.Count("kv.offers_for_an_existing_slot", int64(updates))
	c.Count("kv.multi_element_calls", int64(multi))
	c.Count("kv.mid_history_restarts", int64(restarts))
	if updates > 0 {
		c.Nontrivial(fmt.Sprintf("kv/%d", c.Index))
	}
	live := st.Diff()
	// the head-storage entry advertises the index hash
	if e, err := hs.GetEntry(ctx, name); err != nil || len(e.Heads) != 1 || e.Heads[0] != live.Hash() {
		r.violation("kv:head-entry-differs-from-index-hash", "the head-storage entry of the key-value store is not the hash its index advertises",
			map[string]any{"entry": fmt.Sprint(e.Heads), "index": live.Hash(), "error": fmt.Sprint(err), "ops": kvWitness(log)})
	}
	// contents read back -> fresh index
	els, err := kvElements(ctx, st)
	if err != nil {
		c.Inconclusive("IterateValues: " + err.Error())
		return
	}
	fresh := ldiff.New(32, 256)
	if len(els) > 0 {
		fresh.Set(els...)
	}
	var hashes []uint64
	for i, e := range els {
		if i%7 == 0 {
			hashes = append(hashes, ldiffkit.HashOf(e.Id))
		}
	}
	dv, cm := compareIdx(live, fresh, 32, hashes, randomRanges(rng, 6))
	c.Count("kv.range_queries", int64(cm.queries))
	if dv != nil {
		r.violation("kv:incremental-differs-from-contents:"+dv.Observable, "the incrementally maintained key-value index answers differently from an index freshly filled with the values the store holds",
			map[string]any{"ops": kvWitness(log), "difference": dv, "stored_values": len(els)})
	}
	// restart: close the database, reopen, rebuild
	closeDB()
	db2, err := anystore.Open(ctx, path, nil)
	if err != nil {
		c.Inconclusive("reopen: " + err.Error())
		return
	}
	defer db2.Close()
	hs2, err := headstorage.New(ctx, db2)
	if err != nil {
		c.Inconclusive("head storage (2): " + err.Error())
		return
	}
	st3, err := innerstorage.New(ctx, name, hs2, db2)
	if err != nil {
		c.Inconclusive("innerstorage.New (restart): " + err.Error())
		return
	}
	dv, cm = compareIdx(live, st3.Diff(), 32, hashes, randomRanges(rng, 6))
	c.Count("kv.range_queries", int64(cm.queries))
	if dv != nil {
		r.violation("kv:rebuilt-differs-from-incremental:"+dv.Observable, "the key-value index rebuilt at start-up answers differently from the incrementally maintained one over the same stored values",
			map[string]any{"when": "after-reopen", "ops": kvWitness(log), "difference": dv})
		return
	}
	c.Count("kv.rebuilt_indistinguishable_from_incremental", 1)
	if e, err := hs2.GetEntry(ctx, name); err != nil || len(e.Heads) != 1 || e.Heads[0] != live.Hash() {
		r.violation("kv:head-entry-changes-on-restart", "a plain restart changes the advertised head of the key-value store",
			map[string]any{"entry": fmt.Sprint(e.Heads), "before_restart": live.Hash(), "error": fmt.Sprint(err)})
	}
	// equal contents: the two recognise each other as in sync
	n, ch, th, rm, err := live.CompareDiff(ctx, st3.Diff())
	ch = append(ch, th...)
	if err != nil || len(n)+len(ch)+len(rm) != 0 {
		r.violation("kv:insync-not-recognised", "a diff between the live and the restarted key-value index reports differences", map[string]any{"error": fmt.Sprint(err), "new": n, "changed": ch, "removed": rm})
	}
	if c.Index%11 == 0 {
		c.Sample("kv", map[string]any{"pool": poolN, "set_calls": calls, "values": len(log), "above_2^53": big, "stored": len(els)})
	}
}

func kvWitness(log []kvOp) any {
	if len(log) <= 40 {
		return log
	}
	return map[string]any{"first_20": log[:20], "omitted": len(log) - 40, "last_20": log[len(log)-20:]}
}
