package c08

import (
	"context"
	"fmt"
	"path/filepath"

	anystore "github.com/anyproto/any-store"

	"github.com/anyproto/any-sync/app/ldiff"
	"github.com/anyproto/any-sync/app/logger"
	"github.com/anyproto/any-sync/commonspace/deletionstate"
	"github.com/anyproto/any-sync/commonspace/headsync"
	"github.com/anyproto/any-sync/commonspace/headsync/headstorage"
	"github.com/anyproto/any-sync/commonspace/headsync/statestorage"
	"github.com/anyproto/any-sync/commonspace/object/acl/list"
	"github.com/anyproto/any-sync/commonspace/object/acl/syncacl"
	"github.com/anyproto/any-sync/commonspace/spacestorage"

	"verifharness/engines/ldiffkit"
	"verifharness/lib"
)

// The DiffManager is exercised with the real head storage and state storage
// on a real any-store database. Only what DiffManager touches of the other
// dependencies is provided (the embedded nil interfaces panic if anything else
// were called).

type dmSpaceStorage struct {
	spacestorage.SpaceStorage
	hs headstorage.HeadStorage
	ss statestorage.StateStorage
}

func (s *dmSpaceStorage) HeadStorage() headstorage.HeadStorage    { return s.hs }
func (s *dmSpaceStorage) StateStorage() statestorage.StateStorage { return s.ss }

type dmAcl struct{ syncacl.SyncAcl }

func (dmAcl) Id() string            { return "acl-id" }
func (dmAcl) Head() *list.AclRecord { return &list.AclRecord{Id: "acl-head"} }

type dmDeletion struct {
	deletionstate.ObjectDeletionState
}

func (dmDeletion) Exists(id string) bool { return false }

// forward plays the role of diffSyncer: head storage updates go to UpdateHeads.
type forward struct {
	dm      *headsync.DiffManager
	updates int
}

func (f *forward) OnUpdate(e headstorage.HeadsEntry) {
	f.updates++
	f.dm.UpdateHeads(e)
}

var dmLog = logger.NewNamed("verif.c08")

type dmOp struct {
	Kind  string   `json:"kind"` // update | delete
	Id    string   `json:"id"`
	Heads []string `json:"heads,omitempty"`
	// Status for delete: 1 queued, 2 deleted
	Status int `json:"status,omitempty"`
}

func runDM(c *lib.Case) {
	r := &reporter{c: c, reported: map[string]bool{}}
	rng := c.Rng
	pr := randomParams(rng)
	if rng.Intn(3) == 0 {
		pr = params{32, 256}
	}
	ctx := context.Background()
	db, err := anystore.Open(ctx, filepath.Join(c.TmpDir, "space.db"), nil)
	if err != nil {
		c.Inconclusive("cannot open any-store: " + err.Error())
		return
	}
	defer db.Close()
	hs, err := headstorage.New(ctx, db)
	if err != nil {
		c.Inconclusive("head storage: " + err.Error())
		return
	}
	ss, err := statestorage.Create(ctx, statestorage.State{SpaceId: "space", SettingsId: "settings", AclId: "acl-id", SpaceHeader: []byte("hdr")}, db)
	if err != nil {
		c.Inconclusive("state storage: " + err.Error())
		return
	}
	st := &dmSpaceStorage{hs: hs, ss: ss}

	// id pool (some clustered so that small thresholds subdivide deeply)
	poolN := 1 + logUniform(rng, 120)
	var pool []string
	seen := map[string]bool{}
	salt := rng.Uint64()
	if rng.Intn(2) == 0 {
		for _, h := range ldiffkit.ClusterHashes(rng, rng.Uint64(), uint(6+rng.Intn(40)), poolN/2, 12) {
			salt++
			if id, ok := ldiffkit.IdWithHash(h, salt); ok && !seen[id] {
				seen[id] = true
				pool = append(pool, id)
			}
		}
	}
	for len(pool) < poolN {
		id := ldiffkit.RandomId(rng)
		if !seen[id] {
			seen[id] = true
			pool = append(pool, id)
		}
	}
	newHeads := func(id string) []string {
		n := 1 + rng.Intn(3)
		var out []string
		for i := 0; i < n; i++ {
			out = append(out, fmt.Sprintf("bafyrei%016x%08x", rng.Uint64(), rng.Uint32())) // never equal to the entry id
		}
		return out
	}

	// some entries exist before start-up
	live := map[string]bool{}    // entries currently expected in the index
	deleted := map[string]bool{} // entries marked deleted
	pre := 0
	if rng.Intn(2) == 0 {
		pre = rng.Intn(poolN + 1)
	}
	var log []dmOp
	for i := 0; i < pre; i++ {
		id := pool[rng.Intn(len(pool))]
		hd := newHeads(id)
		if err := hs.UpdateEntry(ctx, headstorage.HeadsUpdate{Id: id, Heads: hd}); err != nil {
			c.Inconclusive("UpdateEntry: " + err.Error())
			return
		}
		live[id] = true
		log = append(log, dmOp{Kind: "pre-start-update", Id: id, Heads: hd})
	}

	d1 := ldiff.New(pr.df, pr.thr)
	dm1 := headsync.NewDiffManager(d1, st, dmAcl{}, dmLog, ctx, dmDeletion{})
	fw := &forward{dm: dm1}
	hs.AddObserver(fw)
	if err := dm1.FillDiff(ctx); err != nil {
		c.Inconclusive("FillDiff: " + err.Error())
		return
	}
	c.Eval(1)

	nOps := 1 + logUniform(rng, 150)
	updExisting, dels := 0, 0
	firstDiv := ""
	var firstDivDetail any
	firstDivOp := -1
	for i := 0; i < nOps; i++ {
		id := pool[rng.Intn(len(pool))]
		for try := 0; try < 3 && deleted[id] && rng.Intn(5) != 0; try++ {
			id = pool[rng.Intn(len(pool))] // mostly work on entries that are not deleted yet
		}
		var o dmOp
		cls := ""
		switch x := rng.Intn(10); {
		case x < 8:
			o = dmOp{Kind: "update", Id: id, Heads: newHeads(id)}
			switch {
			case deleted[id]:
				cls = "update-deleted"
			case live[id]:
				cls = "update-existing"
				updExisting++
			default:
				cls = "update-new"
			}
		default:
			o = dmOp{Kind: "delete", Id: id, Status: 1 + rng.Intn(2)}
			switch {
			case live[id]:
				cls = "delete"
				dels++
			case deleted[id]:
				cls = "delete-again"
			default:
				cls = "delete-absent"
			}
		}
		log = append(log, o)
		c.Count("dm.ops."+cls, 1)
		var pan *panicInfo
		pan = guard(func() {
			if o.Kind == "update" {
				err = hs.UpdateEntry(ctx, headstorage.HeadsUpdate{Id: o.Id, Heads: o.Heads})
			} else {
				s := headstorage.DeletedStatus(o.Status)
				err = hs.UpdateEntry(ctx, headstorage.HeadsUpdate{Id: o.Id, DeletedStatus: &s})
			}
		})
		if pan != nil {
			r.violation(pan.key, "panic in repository code during an incremental DiffManager update: "+pan.msg,
				map[string]any{"divide_factor": pr.df, "threshold": pr.thr, "operation_class": "dm:" + cls, "ops": dmWitness(log), "stack": pan.stack})
			return
		}
		if err != nil {
			c.Inconclusive("UpdateEntry: " + err.Error())
			return
		}
		if o.Kind == "update" && !deleted[id] {
			live[id] = true
		}
		if o.Kind == "delete" {
			delete(live, id)
			deleted[id] = true
		}
		// after every operation: the incrementally maintained index against an index freshly filled with its own elements
		if firstDiv == "" {
			f := ldiff.New(pr.df, pr.thr)
			if els := d1.Elements(); len(els) > 0 {
				f.Set(els...)
			}
			if dv, _ := compareIdxBudget(d1, f, pr.df, []uint64{ldiffkit.HashOf(id)}, nil, 70); dv != nil {
				firstDiv, firstDivDetail, firstDivOp = "dm:"+cls+":"+dv.Observable, dv, len(log)-1
			}
		}
	}
	if updExisting+dels > 0 {
		c.Nontrivial(fmt.Sprintf("%d/%d/%d", c.Index, pr.df, pr.thr))
	}
	c.Count("dm.observer_updates", int64(fw.updates))
	c.Count("dm.final_live_entries", int64(len(live)))
	c.Sample("dm", map[string]any{"divide_factor": pr.df, "threshold": pr.thr, "pool": poolN, "pre_start_entries": pre, "ops": nOps, "final_live": len(live)})

	// ids in the incremental index must be exactly the live entries
	got := map[string]bool{}
	for _, id := range d1.Ids() {
		got[id] = true
	}
	for id := range live {
		if !got[id] {
			r.violation("dm:incremental-index-misses-live-entry", "a live entry is not in the incrementally maintained index", map[string]any{"id": id, "ops": dmWitness(log)})
			break
		}
	}
	for id := range got {
		if !live[id] {
			r.violation("dm:incremental-index-holds-dead-entry", "the incrementally maintained index holds an entry that is deleted or never existed", map[string]any{"id": id, "ops": dmWitness(log)})
			break
		}
	}
	// the stored space hash is the incremental index' hash
	stState, err := ss.GetState(ctx)
	if err == nil && fw.updates > 0 && stState.NewHash != d1.Hash() {
		r.violation("dm:stored-hash-differs-from-index-hash", "StateStorage holds a different hash than the index advertises after the last update",
			map[string]any{"stored": stState.NewHash, "index": d1.Hash()})
	}

	if firstDiv != "" {
		r.violation(firstDiv, "after an incremental DiffManager update the index answers differently from an index freshly filled with the same elements",
			map[string]any{"divide_factor": pr.df, "threshold": pr.thr, "first_distinguishing_op_index": firstDivOp, "ops_up_to_it": dmWitness(log[:firstDivOp+1]), "difference": firstDivDetail})
	}

	// start-up path: a second DiffManager fills a new index from the same storage
	d2 := ldiff.New(pr.df, pr.thr)
	dm2 := headsync.NewDiffManager(d2, st, dmAcl{}, dmLog, ctx, dmDeletion{})
	if err := dm2.FillDiff(ctx); err != nil {
		c.Inconclusive("FillDiff (2): " + err.Error())
		return
	}
	var hashes []uint64
	for _, id := range pool {
		hashes = append(hashes, ldiffkit.HashOf(id))
	}
	dv, cm := compareIdx(d1, d2, pr.df, hashes, randomRanges(rng, 6))
	c.Count("dm.range_queries", int64(cm.queries))
	if dv == nil {
		c.Count("dm.incremental_indistinguishable_from_filldiff", 1)
		// equal contents: the two managers must recognise each other as in sync with one call
		cl := &ldiffkit.HSClient{Serve: dm2.HandleRangeRequest}
		n, ch, rm, err := dm1.TryDiff(ctx, headsync.NewRemoteDiff("space", cl))
		if err != nil || len(n)+len(ch)+len(rm) != 0 || cl.Calls != 1 {
			r.violation("dm:insync-not-recognised", "TryDiff between an incrementally maintained and a freshly filled DiffManager over the same storage exchanged ranges or reported differences",
				map[string]any{"error": fmt.Sprint(err), "calls": cl.Calls, "new": n, "changed": ch, "removed": rm})
		}
		return
	}
	c.Count("dm.incremental_distinguishable_from_filldiff", 1)
	if firstDiv == "" {
		// the step-wise comparison saw nothing, so the difference is between the two fill paths themselves
		r.violation("dm:filldiff-differs-from-incremental:"+dv.Observable, "an index filled by FillDiff answers differently from the incrementally maintained one over the same storage",
			map[string]any{"divide_factor": pr.df, "threshold": pr.thr, "ops": dmWitness(log), "difference": dv})
	}
}

func dmWitness(log []dmOp) any {
	if len(log) <= 40 {
		return log
	}
	return map[string]any{"first_20": log[:20], "omitted": len(log) - 40, "last_20": log[len(log)-20:]}
}
