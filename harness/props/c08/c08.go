// Package c08: the hash a head index (app/ldiff) advertises for the whole set
// and its answer to any range query depend only on the entries it currently
// contains — not on the Set / RemoveId history, and not on whether it was
// maintained incrementally (DiffManager.UpdateHeads) or filled at start-up
// (DiffManager.FillDiff).
//
// Oracle: an index freshly filled with the final contents in one Set call is
// asked exactly the same questions (Hash, Len, Elements, range queries) and
// must give exactly the same answers. Nothing about the index internals is
// assumed; the harness' own notion of the canonical subdivision only selects
// which ranges both indexes are asked about.
package c08

import (
	"bytes"
	"context"
	"errors"
	"fmt"
	"math"
	"math/rand"
	"runtime/debug"
	"sort"
	"strings"
	"time"

	"github.com/anyproto/any-sync/app/ldiff"
	"github.com/anyproto/any-sync/commonspace/headsync"

	"verifharness/engines/ldiffkit"
	"verifharness/lib"
)

type Prop struct{}

func (Prop) ID() string    { return "C08" }
func (Prop) Level() string { return "exploration" }
func (Prop) Rule() string {
	return "history: a random sequence of 1-400 (up to 1200 for thresholds >= 64) operations {Set(new id), Set(existing id, new or same head), multi-element Set (new/existing/duplicate ids), RemoveId(existing), RemoveId(absent)} over a pool of 1-200 (up to 800) ids, part of them constructed to share 6-50 leading hash bits, under one of the profiles grow / churn / update-heavy / shrink-to-few, divide factors {2,3,4,5,7,8,16,32,64} x thresholds {1,2,3,4,8,16,64,256} incl. (32,256); afterwards compared with an index freshly filled with the final contents in one Set: Hash, Len, Elements, every canonical range down to depth 4 (as deep as stays within 400 ranges), the canonical path of every touched id until both sides stop answering with a hash, 10 random arbitrary ranges, each with and without Elements; and (equal contents) the wire-level in-sync check. " +
		"dm: the same at the DiffManager level on a real any-store head storage and state storage: entries are created / updated / marked deleted through HeadStorage.UpdateEntry with the DiffManager subscribed as in headsync (incremental UpdateHeads), then a second DiffManager is filled from the same storage with FillDiff; only entries whose heads never contain the entry id are used (the two documented inclusion rules agree on them). " +
		"kv: the key-value store's index (innerstorage on a real any-store database): 1-60 Set calls of 1-300 values over a pool of key-peer slots (winning, losing and repeated values; timestamps over the whole int64 range of the wire format, incl. values above 2^53 that the stored float64 cannot hold exactly), restarts in the middle (innerstorage.New on the same database, carrying on incrementally) and at the end (database closed and reopened); the live index, the rebuilt one and an index freshly filled from what IterateValues reads back must be indistinguishable (hash, range answers), the head-storage entry must be the index hash before and after the restart; " +
		"A case is non-trivial when the history contains at least one Set of an existing id or one successful RemoveId; distinct = (workload, case index, parameters)."
}
func (Prop) Assumptions() []string {
	return []string{
		"ids and heads are non-empty; every head starts with ':' and no id contains ':' (id+head is an unambiguous encoding; repository heads are fixed-length hashes)",
		"any two distinct ids are at least 2^12 apart in the 64-bit hash space (no engineered xxhash64 near-collisions)",
		"operations on one index are sequential",
		"DiffManager level: heads of an entry never contain the entry id (empty-root entries are deliberately treated differently by FillDiff and UpdateHeads), DeletedStatus is only ever raised, the deletion state holds no id",
	}
}

func (Prop) Plan(tier string) []lib.Workload {
	if tier == "thorough" {
		return []lib.Workload{
			{Name: "history", Cases: 200000, MinNontrivial: 100000, BatchTimeout: 120 * time.Minute},
			{Name: "dm", Cases: 4000, MinNontrivial: 2000, BatchTimeout: 120 * time.Minute},
			{Name: "kv", Cases: 3000, MinNontrivial: 1500, BatchTimeout: 120 * time.Minute},
		}
	}
	return []lib.Workload{
		{Name: "history", Cases: 3000, MinNontrivial: 1500},
		{Name: "dm", Cases: 160, MinNontrivial: 80},
		{Name: "kv", Cases: 160, MinNontrivial: 80},
	}
}

var bg = context.Background()

type params struct{ df, thr int }

var rndDF = []int{2, 2, 3, 4, 4, 5, 7, 8, 16, 32, 64}
var rndThr = []int{1, 1, 2, 2, 3, 4, 8, 16, 64, 256}

func randomParams(rng *rand.Rand) params {
	if rng.Intn(8) == 0 {
		return params{32, 256}
	}
	return params{rndDF[rng.Intn(len(rndDF))], rndThr[rng.Intn(len(rndThr))]}
}

// ---------------------------------------------------------------- operations

type op struct {
	Kind string          `json:"kind"` // set | remove
	Els  []ldiff.Element `json:"elements,omitempty"`
	Id   string          `json:"id,omitempty"`
}

// class names the operation for violation keys, given the contents before it.
func (o op) class(model map[string]string) string {
	if o.Kind == "remove" {
		if _, ok := model[o.Id]; ok {
			return "remove"
		}
		return "remove-absent"
	}
	existing := false
	seen := map[string]bool{}
	for _, e := range o.Els {
		if _, ok := model[e.Id]; ok || seen[e.Id] {
			existing = true
		}
		seen[e.Id] = true
	}
	switch {
	case existing:
		return "set-existing"
	case len(o.Els) > 1:
		return "set-multi-new"
	}
	return "set-new"
}

func (o op) applyModel(model map[string]string) {
	if o.Kind == "remove" {
		delete(model, o.Id)
		return
	}
	for _, e := range o.Els {
		model[e.Id] = e.Head
	}
}

// applyIndex performs the operation on the real index; a RemoveId result that
// contradicts the contents is returned as complaint.
func (o op) applyIndex(d ldiff.Diff, model map[string]string) (complaint string) {
	if o.Kind == "remove" {
		err := d.RemoveId(o.Id)
		_, present := model[o.Id]
		if present && err != nil {
			return "RemoveId of a present id returned " + err.Error()
		}
		if !present && !errors.Is(err, ldiff.ErrElementNotFound) {
			return fmt.Sprintf("RemoveId of an absent id returned %v", err)
		}
		return ""
	}
	d.Set(o.Els...)
	return ""
}

// ---------------------------------------------------------------- comparison with the fresh index

type divergence struct {
	Observable string `json:"observable"` // hash | range-hash | range-count | range-elements | elements | len
	Detail     any    `json:"detail"`
}

var obsPriority = map[string]int{"hash": 0, "range-hash": 1, "range-count": 2, "range-elements": 3, "range-elements-order": 4, "len": 5, "elements": 6}

type comparer struct {
	df       int
	a, b     ldiff.Diff            // a = index under test, b = fresh
	visited  map[ldiffkit.Rng]bool // asked ranges -> whether a side answered with a hash
	queries  int
	hashed   int // queries answered with a hash by at least one side
	best     *divergence
	bufA     []ldiff.RangeResult
	bufB     []ldiff.RangeResult
	maxDepth int
}

func (cm *comparer) note(obs string, detail any) {
	if cm.best == nil || obsPriority[obs] < obsPriority[cm.best.Observable] {
		cm.best = &divergence{obs, detail}
	}
}

func elemsEqual(x, y []ldiff.Element) (sameSet, sameOrder bool) {
	if len(x) != len(y) {
		return false, false
	}
	sameOrder = true
	for i := range x {
		if x[i] != y[i] {
			sameOrder = false
			break
		}
	}
	if sameOrder {
		return true, true
	}
	m := make(map[ldiff.Element]int, len(x))
	for _, e := range x {
		m[e]++
	}
	for _, e := range y {
		m[e]--
	}
	for _, n := range m {
		if n != 0 {
			return false, false
		}
	}
	return true, false
}

// ask puts the same two questions (without and with Elements) to both indexes.
// It returns whether at least one side answered the hash-only question with a hash.
func (cm *comparer) ask(r ldiffkit.Rng) (anyHash bool) {
	qs := []ldiff.Range{{From: r.From, To: r.To}, {From: r.From, To: r.To, Elements: true}}
	ra, errA := cm.a.Ranges(bg, qs, cm.bufA[:0])
	rb, errB := cm.b.Ranges(bg, qs, cm.bufB[:0])
	cm.queries += 2
	if errA != nil || errB != nil || len(ra) != 2 || len(rb) != 2 {
		cm.note("range-hash", map[string]any{"range": rstr(r), "error_history": fmt.Sprint(errA), "error_fresh": fmt.Sprint(errB)})
		return false
	}
	for i := 0; i < 2; i++ {
		x, y := ra[i], rb[i]
		what := map[string]any{"range": rstr(r), "with_elements": i == 1,
			"history_index": ansStr(x), "fresh_index": ansStr(y)}
		if !bytes.Equal(x.Hash, y.Hash) {
			cm.note("range-hash", what)
		}
		if x.Count != y.Count {
			cm.note("range-count", what)
		}
		if set, order := elemsEqual(x.Elements, y.Elements); !set {
			cm.note("range-elements", what)
		} else if !order {
			cm.note("range-elements-order", what)
		}
	}
	anyHash = len(ra[0].Hash) > 0 || len(rb[0].Hash) > 0
	if anyHash {
		cm.hashed++
	}
	return anyHash
}

func rstr(r ldiffkit.Rng) string { return fmt.Sprintf("[%016x,%016x]", r.From, r.To) }

func ansStr(x ldiff.RangeResult) string {
	h := "nil"
	if len(x.Hash) > 0 {
		h = fmt.Sprintf("%x", x.Hash[:6])
	}
	return fmt.Sprintf("%s hash=%s count=%d elements=%d", ldiffkit.Classify(x), h, x.Count, len(x.Elements))
}

// bfs asks about every canonical range down to the given depth.
func (cm *comparer) bfs(depth int) {
	level := []ldiffkit.Rng{ldiffkit.Top}
	cm.visit(ldiffkit.Top)
	for d := 1; d <= depth; d++ {
		var next []ldiffkit.Rng
		for _, r := range level {
			for _, ch := range ldiffkit.Split(r, cm.df) {
				cm.visit(ch)
				next = append(next, ch)
			}
		}
		level = next
	}
}

func (cm *comparer) visit(r ldiffkit.Rng) bool {
	if v, ok := cm.visited[r]; ok {
		return v
	}
	v := cm.ask(r)
	cm.visited[r] = v
	return v
}

// path follows the canonical path of one hash until two consecutive levels
// are answered without a hash by both sides.
func (cm *comparer) path(h uint64) {
	r := ldiffkit.Top
	misses := 0
	for depth := 1; depth <= 70; depth++ {
		chs := ldiffkit.Split(r, cm.df)
		if chs == nil {
			return
		}
		found := false
		for _, ch := range chs {
			if ch.Contains(h) {
				r, found = ch, true
				break
			}
		}
		if !found {
			return
		}
		if cm.visit(r) {
			misses = 0
			if depth > cm.maxDepth {
				cm.maxDepth = depth
			}
		} else {
			misses++
			if misses >= 2 {
				return
			}
		}
	}
}

func bfsDepth(df int, budget int) int {
	n, d := 1, 0
	total := 0
	for d < 4 {
		n *= df
		if total+n > budget {
			break
		}
		total += n
		d++
	}
	if d == 0 {
		d = 1
	}
	return d
}

// compareIdx asks both indexes the same questions and returns the most
// significant difference (nil = indistinguishable).
func compareIdx(a, b ldiff.Diff, df int, hashes []uint64, extra []ldiffkit.Rng) (*divergence, *comparer) {
	return compareIdxBudget(a, b, df, hashes, extra, 400)
}

func compareIdxBudget(a, b ldiff.Diff, df int, hashes []uint64, extra []ldiffkit.Rng, bfsBudget int) (*divergence, *comparer) {
	cm := &comparer{df: df, a: a, b: b, visited: map[ldiffkit.Rng]bool{}}
	if ha, hb := a.Hash(), b.Hash(); ha != hb {
		cm.note("hash", map[string]any{"history_index": ha, "fresh_index": hb})
	}
	if a.Len() != b.Len() {
		cm.note("len", map[string]any{"history_index": a.Len(), "fresh_index": b.Len()})
	}
	if set, _ := elemsEqual(a.Elements(), b.Elements()); !set {
		cm.note("elements", map[string]any{"history_index": len(a.Elements()), "fresh_index": len(b.Elements())})
	}
	cm.bfs(bfsDepth(df, bfsBudget))
	for _, h := range hashes {
		cm.path(h)
	}
	for _, r := range extra {
		cm.visit(r)
	}
	return cm.best, cm
}

func freshIndex(pr params, model map[string]string) ldiff.Diff {
	f := ldiff.New(pr.df, pr.thr)
	if len(model) > 0 {
		f.Set(ldiffkit.Elements(model)...)
	}
	return f
}

// ---------------------------------------------------------------- history generation

type history struct {
	pr      params
	ops     []op
	profile string
	pool    []string
	desc    map[string]any
}

func logUniform(rng *rand.Rand, max int) int {
	return int(math.Exp(rng.Float64()*math.Log(float64(max)))) + rng.Intn(2)
}

func genHistory(rng *rand.Rand) *history {
	pr := randomParams(rng)
	maxPool, maxOps := 200, 400
	if pr.thr >= 64 {
		maxPool, maxOps = 800, 1200
	}
	poolN := logUniform(rng, maxPool)
	if poolN < 1 {
		poolN = 1
	}
	nOps := logUniform(rng, maxOps)
	// id pool: clusters of constructed ids + random ids
	var pool []string
	seen := map[string]bool{}
	var clDesc []string
	salt := rng.Uint64()
	clustered := 0
	if rng.Intn(4) != 0 {
		clustered = poolN * (1 + rng.Intn(4)) / 4
	}
	for clustered > 0 {
		shared := uint(6 + rng.Intn(45))
		size := 2 + rng.Intn(3*pr.thr+3)
		if size > clustered {
			size = clustered
		}
		base := rng.Uint64()
		for _, h := range ldiffkit.ClusterHashes(rng, base, shared, size, 12) {
			salt++
			if id, ok := ldiffkit.IdWithHash(h, salt); ok && !seen[id] {
				seen[id] = true
				pool = append(pool, id)
			}
		}
		clDesc = append(clDesc, fmt.Sprintf("%d ids sharing %d leading bits", size, shared))
		clustered -= size
	}
	for len(pool) < poolN {
		id := ldiffkit.RandomId(rng)
		if !seen[id] {
			seen[id] = true
			pool = append(pool, id)
		}
	}
	rng.Shuffle(len(pool), func(i, j int) { pool[i], pool[j] = pool[j], pool[i] })
	profiles := []string{"grow", "churn", "update-heavy", "shrink-to-few", "churn"}
	h := &history{pr: pr, pool: pool, profile: profiles[rng.Intn(len(profiles))]}
	model := map[string]string{}
	present := func() []string { return ldiffkit.SortedIds(model) }
	pickPresent := func() (string, bool) {
		p := present()
		if len(p) == 0 {
			return "", false
		}
		return p[rng.Intn(len(p))], true
	}
	pickAbsent := func() (string, bool) {
		for try := 0; try < 8; try++ {
			id := pool[rng.Intn(len(pool))]
			if _, ok := model[id]; !ok {
				return id, true
			}
		}
		for _, id := range pool {
			if _, ok := model[id]; !ok {
				return id, true
			}
		}
		return "", false
	}
	emit := func(o op) {
		h.ops = append(h.ops, o)
		o.applyModel(model)
	}
	setNew := func() {
		if id, ok := pickAbsent(); ok {
			emit(op{Kind: "set", Els: []ldiff.Element{{Id: id, Head: ldiffkit.RandomHead(rng)}}})
		}
	}
	setExisting := func() {
		if id, ok := pickPresent(); ok {
			head := ldiffkit.RandomHead(rng)
			if rng.Intn(4) == 0 {
				head = model[id] // same head again
			}
			emit(op{Kind: "set", Els: []ldiff.Element{{Id: id, Head: head}}})
		}
	}
	setMulti := func() {
		n := 2 + rng.Intn(19)
		var els []ldiff.Element
		for i := 0; i < n; i++ {
			id := pool[rng.Intn(len(pool))]
			if rng.Intn(3) == 0 {
				if a, ok := pickAbsent(); ok {
					id = a
				}
			}
			head := ldiffkit.RandomHead(rng)
			if cur, ok := model[id]; ok && rng.Intn(2) == 0 {
				// an existing id with its unchanged head inside a batch that also brings new ids (this is what a
				// start-up refill over a live index looks like; added after seeded change C08-2 was missed)
				head = cur
			}
			els = append(els, ldiff.Element{Id: id, Head: head})
		}
		if rng.Intn(4) == 0 {
			// a refill: every current element with its current head, new ids interleaved
			var cur []ldiff.Element
			for id, hd := range model {
				cur = append(cur, ldiff.Element{Id: id, Head: hd})
			}
			sort.Slice(cur, func(i, j int) bool { return cur[i].Id < cur[j].Id })
			all := append(els, cur...)
			rng.Shuffle(len(all), func(i, j int) { all[i], all[j] = all[j], all[i] })
			// a duplicate id inside one batch: the last occurrence wins in the index and in the model alike
			els = all
		}
		emit(op{Kind: "set", Els: els})
	}
	setMultiNew := func() {
		n := 2 + rng.Intn(19)
		var els []ldiff.Element
		used := map[string]bool{}
		for i := 0; i < n; i++ {
			id := pool[rng.Intn(len(pool))]
			if _, ok := model[id]; ok || used[id] {
				continue
			}
			used[id] = true
			els = append(els, ldiff.Element{Id: id, Head: ldiffkit.RandomHead(rng)})
		}
		if len(els) > 0 {
			emit(op{Kind: "set", Els: els})
		}
	}
	remove := func() {
		if id, ok := pickPresent(); ok {
			emit(op{Kind: "remove", Id: id})
		}
	}
	removeAbsent := func() {
		if id, ok := pickAbsent(); ok {
			emit(op{Kind: "remove", Id: id})
		}
	}
	// weights: setNew, setExisting, setMulti, setMultiNew, remove, removeAbsent
	var w [6]int
	switch h.profile {
	case "grow":
		w = [6]int{10, 1, 1, 3, 1, 0}
	case "churn":
		w = [6]int{5, 3, 1, 1, 5, 1}
	case "update-heavy":
		w = [6]int{3, 10, 2, 1, 1, 0}
	case "shrink-to-few":
		w = [6]int{6, 0, 0, 2, 0, 0}
	}
	if rng.Intn(3) == 0 {
		// a "pure" history: only new ids and removals (keeps the update defect class apart from the removal one)
		w[1], w[2] = 0, 0
		h.profile += "/no-updates"
	}
	acts := []func(){setNew, setExisting, setMulti, setMultiNew, remove, removeAbsent}
	total := 0
	for _, x := range w {
		total += x
	}
	growOps := nOps
	if strings.HasPrefix(h.profile, "shrink-to-few") {
		growOps = nOps * 2 / 3
	}
	for len(h.ops) < growOps {
		before := len(h.ops)
		x := rng.Intn(total)
		for i, wi := range w {
			if x < wi {
				acts[i]()
				break
			}
			x -= wi
		}
		if len(h.ops) == before { // nothing applicable (e.g. pool exhausted): fall back
			if len(model) > 0 && rng.Intn(2) == 0 {
				remove()
			} else {
				setNew()
			}
			if len(h.ops) == before {
				break
			}
		}
	}
	if strings.HasPrefix(h.profile, "shrink-to-few") {
		keep := rng.Intn(3)
		for len(model) > keep {
			remove()
		}
	}
	h.desc = map[string]any{"profile": h.profile, "pool": len(pool), "clusters": clDesc, "ops": len(h.ops), "final_size": len(model)}
	return h
}

// ---------------------------------------------------------------- running a history

type reporter struct {
	c        *lib.Case
	reported map[string]bool
}

func (r *reporter) violation(key, what string, detail any) {
	if r.reported[key] {
		return
	}
	r.reported[key] = true
	r.c.Violation(key, what, detail)
}

// replay applies ops[:k] to a new index. A panic in repository code is returned.
func replay(pr params, ops []op, k int) (d ldiff.Diff, model map[string]string, complaint string, pan *panicInfo) {
	d = ldiff.New(pr.df, pr.thr)
	model = map[string]string{}
	for i := 0; i < k; i++ {
		o := ops[i]
		var cpl string
		pan = guard(func() { cpl = o.applyIndex(d, model) })
		if pan != nil {
			pan.at = i
			return
		}
		if cpl != "" && complaint == "" {
			complaint = fmt.Sprintf("op %d: %s", i, cpl)
		}
		o.applyModel(model)
	}
	return
}

type panicInfo struct {
	key, msg, stack string
	at              int
}

func guard(f func()) (pi *panicInfo) {
	defer func() {
		if v := recover(); v != nil {
			st := debug.Stack()
			if i := strings.Index(string(st), "\npanic("); i >= 0 {
				st = st[i+1:]
			}
			key, inRepo := lib.PanicKey(v, st)
			if !inRepo {
				panic(v)
			}
			s := string(st)
			if len(s) > 2500 {
				s = s[:2500]
			}
			pi = &panicInfo{key: key, msg: fmt.Sprint(v), stack: s}
		}
	}()
	f()
	return nil
}

func touchedHashes(ops []op, k int, cap_ int, rng *rand.Rand) []uint64 {
	seen := map[string]bool{}
	var ids []string
	for i := 0; i < k; i++ {
		if ops[i].Kind == "remove" {
			if !seen[ops[i].Id] {
				seen[ops[i].Id] = true
				ids = append(ids, ops[i].Id)
			}
			continue
		}
		for _, e := range ops[i].Els {
			if !seen[e.Id] {
				seen[e.Id] = true
				ids = append(ids, e.Id)
			}
		}
	}
	if len(ids) > cap_ && rng != nil {
		rng.Shuffle(len(ids), func(i, j int) { ids[i], ids[j] = ids[j], ids[i] })
		ids = ids[:cap_]
	}
	out := make([]uint64, len(ids))
	for i, id := range ids {
		out[i] = ldiffkit.HashOf(id)
	}
	return out
}

func randomRanges(rng *rand.Rand, n int) []ldiffkit.Rng {
	var out []ldiffkit.Rng
	for i := 0; i < n; i++ {
		a, b := rng.Uint64(), rng.Uint64()
		if a > b {
			a, b = b, a
		}
		if rng.Intn(3) == 0 { // a narrow one
			b = a + uint64(rng.Int63n(1<<40))
			if b < a {
				b = math.MaxUint64
			}
		}
		out = append(out, ldiffkit.Rng{From: a, To: b})
	}
	return out
}

func opsWitness(ops []op, upto int) any {
	if upto > len(ops) {
		upto = len(ops)
	}
	if upto <= 40 {
		return renderOps(ops[:upto])
	}
	return map[string]any{"first_20": renderOps(ops[:20]), "omitted": upto - 40, "last_20": renderOps(ops[upto-20 : upto])}
}

func renderOps(ops []op) []string {
	var out []string
	for _, o := range ops {
		if o.Kind == "remove" {
			out = append(out, "RemoveId("+o.Id+")")
			continue
		}
		var parts []string
		for _, e := range o.Els {
			parts = append(parts, e.Id+"="+e.Head)
		}
		out = append(out, "Set("+strings.Join(parts, ", ")+")")
	}
	return out
}

func runHistory(c *lib.Case) {
	r := &reporter{c: c, reported: map[string]bool{}}
	h := genHistory(c.Rng)
	pr := h.pr
	c.Eval(1)
	// classify the history for evidence / non-triviality
	model := map[string]string{}
	nt := false
	for _, o := range h.ops {
		cl := o.class(model)
		c.Count("ops."+cl, 1)
		if cl == "set-existing" || cl == "remove" {
			nt = true
		}
		o.applyModel(model)
	}
	if nt {
		c.Nontrivial(fmt.Sprintf("%d/%d/%d", c.Index, pr.df, pr.thr))
	}
	c.Count("histories."+strings.Split(h.profile, "/")[0], 1)
	c.Sample(h.profile, map[string]any{"divide_factor": pr.df, "threshold": pr.thr, "generator": h.desc})

	d, model, complaint, pan := replay(pr, h.ops, len(h.ops))
	if pan != nil {
		m2 := map[string]string{}
		for i := 0; i < pan.at; i++ {
			h.ops[i].applyModel(m2)
		}
		r.violation(pan.key, "panic in repository code while applying a history: "+pan.msg,
			map[string]any{"divide_factor": pr.df, "threshold": pr.thr, "operation_class": h.ops[pan.at].class(m2), "panicking_op_index": pan.at,
				"ops": opsWitness(h.ops, pan.at+1), "generator": h.desc, "stack": pan.stack})
		return
	}
	if complaint != "" {
		r.violation("history:removeid-result-contradicts-contents", complaint, map[string]any{"divide_factor": pr.df, "threshold": pr.thr, "ops": opsWitness(h.ops, len(h.ops))})
	}
	fresh := freshIndex(pr, model)
	extra := randomRanges(c.Rng, 10)
	div, cm := compareIdx(d, fresh, pr.df, touchedHashes(h.ops, len(h.ops), 400, c.Rng), extra)
	c.Count("range_queries", int64(cm.queries))
	c.Count("range_queries_answered_with_a_hash", int64(cm.hashed))
	c.Count("final_elements", int64(len(model)))
	if cm.maxDepth >= 3 {
		c.Count("histories_with_hashed_ranges_at_depth_3_or_more", 1)
	}
	if div == nil {
		c.Count("histories_indistinguishable_from_fresh", 1)
		inSync(c, r, d, fresh, pr, h)
		return
	}
	c.Count("histories_distinguishable_from_fresh", 1)
	// find an operation after which the index first differs from a fresh one:
	// binary search for a prefix k with ok(k) and !ok(k+1)  (ok(0) holds trivially: both empty)
	check := func(k int) (*divergence, *panicInfo) {
		dk, mk, _, pk := replay(pr, h.ops, k)
		if pk != nil {
			return nil, pk
		}
		dv, _ := compareIdx(dk, freshIndex(pr, mk), pr.df, touchedHashes(h.ops, k, 1<<30, nil), extra)
		return dv, nil
	}
	lo, hi := 0, len(h.ops) // ok(lo), !ok(hi)
	hiDiv := div
	if d0, _ := check(0); d0 != nil {
		r.violation("history:empty-index:"+d0.Observable, "two empty indexes answer differently", map[string]any{"divide_factor": pr.df, "threshold": pr.thr, "difference": d0})
		return
	}
	for hi-lo > 1 {
		mid := (lo + hi) / 2
		dv, pk := check(mid)
		if dv != nil || pk != nil {
			hi = mid
			if dv != nil {
				hiDiv = dv
			}
		} else {
			lo = mid
		}
	}
	mk := map[string]string{}
	for i := 0; i < lo; i++ {
		h.ops[i].applyModel(mk)
	}
	cls := h.ops[hi-1].class(mk)
	dv, pk := check(hi)
	if pk != nil {
		r.violation(pk.key, "panic in repository code while applying a history: "+pk.msg,
			map[string]any{"divide_factor": pr.df, "threshold": pr.thr, "operation_class": cls, "panicking_op_index": pk.at,
				"ops": opsWitness(h.ops, pk.at+1), "generator": h.desc, "stack": pk.stack})
		return
	}
	if dv != nil {
		hiDiv = dv
	}
	key := "history:" + cls + ":" + hiDiv.Observable
	r.violation(key, fmt.Sprintf("after operation %d (%s) the index answers differently (%s) from an index freshly filled with the same contents", hi-1, cls, hiDiv.Observable),
		map[string]any{"divide_factor": pr.df, "threshold": pr.thr, "operation_class": cls, "first_distinguishing_op_index": hi - 1,
			"ops_up_to_it": opsWitness(h.ops, hi), "contents_before_op": len(mk), "difference": hiDiv, "difference_at_end_of_history": div, "generator": h.desc})
}

// inSync: two peers with equal contents must recognise it from the top hash
// alone: DiffTypeCheck says "no sync needed" and TryDiff does one call.
func inSync(c *lib.Case, r *reporter, hist, fresh ldiff.Diff, pr params, h *history) {
	cl := ldiffkit.NewHSClient(fresh)
	rd := headsync.NewRemoteDiff("space", cl)
	needs, err := rd.DiffTypeCheck(bg, hist)
	c.Count("insync_checks", 1)
	if err != nil || needs {
		r.violation("insync:sync-needed-for-equal-contents", "DiffTypeCheck asks for a sync although both peers hold the same entries",
			map[string]any{"divide_factor": pr.df, "threshold": pr.thr, "error": fmt.Sprint(err), "generator": h.desc, "ops": opsWitness(h.ops, len(h.ops))})
		return
	}
	rec := ldiffkit.NewRecorder(rd, 1000, false)
	n, ch, rm, err := hist.Diff(bg, rec)
	if err != nil || len(n)+len(ch)+len(rm) != 0 || rec.Rounds != 1 {
		r.violation("insync:ranges-exchanged-for-equal-contents", "a diff between two peers with equal contents reported differences or needed more than the top-range exchange",
			map[string]any{"divide_factor": pr.df, "threshold": pr.thr, "error": fmt.Sprint(err), "round_trips": rec.Rounds, "new": n, "changed": ch, "removed": rm, "generator": h.desc})
	}
}

func (Prop) RunCase(c *lib.Case) {
	switch c.Workload {
	case "history":
		runHistory(c)
	case "dm":
		runDM(c)
	case "kv":
		runKV(c)
	}
}

func sortedKeys(m map[string]bool) []string {
	out := make([]string, 0, len(m))
	for k := range m {
		out = append(out, k)
	}
	sort.Strings(out)
	return out
}
