// Package c10: tree and ACL persistence is all-or-nothing under crashes and storage faults.
// Fault enumeration: every storage-call boundary of every operation, once as a
// crash image and once as an injected error.
package c10

import (
	"context"
	"errors"
	"fmt"
	"math/rand"
	"os"
	"path/filepath"
	"sort"
	"strings"

	anystore "github.com/anyproto/any-store"

	"github.com/anyproto/any-sync/commonspace/object/acl/list"
	"github.com/anyproto/any-sync/commonspace/object/acl/recordverifier"
	"github.com/anyproto/any-sync/commonspace/object/tree/objecttree"
	"github.com/anyproto/any-sync/commonspace/object/tree/synctree/response"
	"github.com/anyproto/any-sync/commonspace/object/tree/treechangeproto"
	"github.com/anyproto/any-sync/commonspace/spacestorage"
	"github.com/anyproto/any-sync/consensus/consensusproto"
	"github.com/anyproto/any-sync/util/cidutil"

	"verifharness/engines/faultstore"
	"verifharness/engines/netsim"
	"verifharness/lib"
)

type Prop struct{}

func (Prop) ID() string    { return "C10" }
func (Prop) Level() string { return "fault_enumeration" }
func (Prop) Rule() string {
	return "a case is (scenario, operation); the scenario (tree shape, batch sizes, snapshot placement) is drawn from the PRNG, the operation is one of space-create, tree-create-eager, tree-create-deferred, local-add, snapshot-add, remote-add, remote-add-rebuild, acl-add, tree-delete. A dry run on a copy of the prepared database counts the operation's storage-call boundaries (begin / insert / upsert / update / delete / commit / rollback); then EVERY boundary index is executed once in crash-image mode (database file + WAL copied at that instant, reopened, compared with the before- and after-observation, structural invariants checked) and once in error mode (the call returns an injected error; live object vs storage, re-submission); local adds additionally once with the fault being the caller's context cancelled at that boundary. Non-trivial = an executed (scenario, operation, boundary, mode) point whose fault actually fired; distinct = that tuple."
}
func (Prop) Assumptions() []string {
	return []string{"crash = process death (files as written so far: database file + WAL); no power-loss reordering of writes", "faults are placed at any-store API boundaries, where the repository's storage code issues them", "one fault per operation"}
}

var ops = []string{"space-create", "tree-create-eager", "tree-create-deferred", "local-add", "snapshot-add", "remote-add", "remote-add-rebuild", "acl-add", "tree-delete"}

func scenarios(tier string) int {
	if tier == "thorough" {
		return 40
	}
	return 3
}

func (Prop) Plan(tier string) []lib.Workload {
	n := scenarios(tier) * len(ops)
	return []lib.Workload{{Name: "fault-points", Cases: n, MinNontrivial: n * 4, Exhaustive: false}}
}

var bg = context.Background()

type env struct {
	opCtx context.Context // context of the local add (nil = background); cancelled-caller faults cancel it
	c    *lib.Case
	s    *netsim.Sim
	op   string
	scen int
	ctl  *faultstore.Ctl
	// inputs computed once
	remote  []*response.Response
	// afterBatch is called after each applied response batch (dry run records the legal intermediate states)
	afterBatch func(i int)
	allowed    map[string]bool // durable states legitimately between before and after (one per applied batch)
	aclRec  *consensusproto.RawRecordWithId
	addData []byte
	seq     int
}

func (Prop) RunCase(c *lib.Case) {
	scen := c.Index / len(ops)
	op := ops[c.Index%len(ops)]
	rng := rand.New(rand.NewSource(lib.SubSeed(c.Seed, "C10", "scenario", scen)))
	e := &env{c: c, op: op, scen: scen, ctl: &faultstore.Ctl{}}
	if err := e.prepare(rng); err != nil {
		c.Inconclusive("scenario setup: " + err.Error())
		return
	}
	defer e.s.Close()
	e.enumerate()
}

// prepare builds the base state: replicas A (0, owner, under test), B (1, source of
// remote changes), L (2, holds the space but not the tree).
func (e *env) prepare(rng *rand.Rand) error {
	s, err := netsim.New(netsim.Config{Dir: filepath.Join(e.c.TmpDir, "base"), Replicas: 3, Rng: rng, Encrypted: rng.Intn(2) == 0, LateJoiner: true})
	if err != nil {
		return err
	}
	e.s = s
	drain := func() {
		for len(s.InFlight) > 0 {
			if s.InFlight[0].To == 2 {
				s.Drop(0) // L must stay without the tree
				continue
			}
			s.Deliver(0, -1, false)
		}
	}
	size := func() int { return 1 + rng.Intn(200) }
	n1 := 1 + rng.Intn(4)
	for i := 0; i < n1; i++ {
		if _, err := s.LocalAdd(0, i > 0 && rng.Intn(4) == 0, size()); err != nil {
			return err
		}
	}
	drain()
	// diverge: B edits, A does not see it
	n2 := 1 + rng.Intn(5)
	for i := 0; i < n2; i++ {
		if _, err := s.LocalAdd(1, i > 0 && rng.Intn(4) == 0, size()); err != nil {
			return err
		}
	}
	s.InFlight = nil
	n3 := rng.Intn(3)
	if e.op == "remote-add-rebuild" {
		// A moves its in-memory tree to a later snapshot, so B's changes (based on the
		// earlier one) force a rebuild from storage
		if _, err := s.LocalAdd(0, false, size()); err != nil {
			return err
		}
		if _, err := s.LocalAdd(0, true, size()); err != nil {
			return err
		}
	}
	for i := 0; i < n3; i++ {
		if _, err := s.LocalAdd(0, false, size()); err != nil {
			return err
		}
	}
	s.InFlight = nil
	e.addData = make([]byte, size())
	rng.Read(e.addData)
	// remote payload: what B streams for A's state
	A, B := s.Replicas[0], s.Replicas[1]
	aHeads := A.Heads()
	aPath, err := A.SnapshotPath()
	if err != nil {
		return err
	}
	B.Tree.Lock()
	it, err := B.Tree.ChangesAfterCommonSnapshotLoader(aPath, aHeads)
	if err != nil {
		B.Tree.Unlock()
		return err
	}
	limit := []int{1, 300, 1 << 20}[rng.Intn(3)]
	for {
		b, err := it.NextBatch(limit)
		if err != nil {
			B.Tree.Unlock()
			return err
		}
		if len(b.Batch) == 0 {
			break
		}
		resp := &response.Response{SpaceId: s.SpaceId, ObjectId: s.TreeId, Heads: append([]string{}, b.Heads...), SnapshotPath: append([]string{}, b.SnapshotPath...), Root: b.Root}
		for _, ch := range b.Batch {
			resp.Changes = append(resp.Changes, &treechangeproto.RawTreeChangeWithId{Id: ch.Id, RawChange: append([]byte{}, ch.RawChange...)})
		}
		e.remote = append(e.remote, resp)
	}
	B.Tree.Unlock()
	// ACL record: built once by the owner on a scratch clone (so the base is untouched)
	scratch, err := A.Clone(filepath.Join(e.c.TmpDir, "acl-scratch"))
	if err != nil {
		return err
	}
	defer scratch.CloseDetached()
	scratch.Acl.Lock()
	res, err := scratch.Acl.RecordBuilder().BuildInviteAnyone(list.AclPermissionsReader)
	scratch.Acl.Unlock()
	if err != nil {
		return fmt.Errorf("build acl record: %w", err)
	}
	raw, err := res.InviteRec.MarshalVT()
	if err != nil {
		return err
	}
	id, err := cidutil.NewCidFromBytes(raw)
	if err != nil {
		return err
	}
	e.aclRec = &consensusproto.RawRecordWithId{Payload: raw, Id: id}
	knownIds = map[string]bool{id: true, s.TreeId: true}
	for _, r := range s.Replicas {
		for _, rec := range r.Acl.Records() {
			knownIds[rec.Id] = true
		}
		if st, err := r.Space.StateStorage().GetState(bg); err == nil {
			knownIds[st.AclId], knownIds[st.SettingsId] = true, true
		}
		if r.HasTree {
			ids, _ := r.StoredIds()
			for _, x := range ids {
				knownIds[x] = true
			}
		}
	}
	return nil
}

// subject returns a fresh copy of the database the operation runs on, with the fault controller installed.
func (e *env) subject() (*netsim.Replica, string, error) {
	e.seq++
	dir := filepath.Join(e.c.TmpDir, fmt.Sprintf("subj-%d", e.seq))
	e.ctl.Disarm()
	var base *netsim.Replica
	switch e.op {
	case "tree-create-eager", "tree-create-deferred":
		base = e.s.Replicas[2]
	default:
		base = e.s.Replicas[0]
	}
	e.s.Cfg.WrapDB = func(replica int, db anystore.DB) anystore.DB {
		return faultstore.Wrap(db, e.ctl)
	}
	cl, err := base.Clone(dir)
	e.s.Cfg.WrapDB = nil
	if err != nil {
		return nil, "", err
	}
	e.ctl.DBPath = cl.DBPath
	return cl, dir, nil
}

// perform runs the operation once on the subject.
func (e *env) perform(cl *netsim.Replica) (err error) {
	defer func() {
		if r := recover(); r != nil {
			err = fmt.Errorf("PANIC: %v", r)
			panic(r) // lib turns a panic in repository code into a violation with the frame
		}
	}()
	s := e.s
	switch e.op {
	case "tree-create-eager":
		return cl.PutTree()
	case "tree-create-deferred":
		return cl.Join(1)
	case "local-add", "snapshot-add":
		cl.Tree.Lock()
		defer cl.Tree.Unlock()
		actx := bg
		if e.opCtx != nil {
			actx = e.opCtx
		}
		_, err := cl.Tree.AddContent(actx, objecttree.SignableChangeContent{Data: e.addData, Key: cl.Keys.SignKey, IsSnapshot: e.op == "snapshot-add",
			ShouldBeEncrypted: s.Cfg.Encrypted, Timestamp: 1800000000, DataType: "verif"})
		return err
	case "remote-add", "remote-add-rebuild":
		for i, resp := range e.remote {
			cp := *resp
			if err := s.ApplyResponse(cl, s.Replicas[1].PeerId, &cp); err != nil {
				return err
			}
			if e.afterBatch != nil {
				e.afterBatch(i)
			}
		}
		return nil
	case "acl-add":
		cl.Acl.Lock()
		defer cl.Acl.Unlock()
		err := cl.Acl.AddRawRecord(e.aclRec)
		return err
	case "tree-delete":
		return cl.Tree.Delete()
	}
	return errors.New("unknown op")
}

// ---------------------------------------------------------------- observation of a durable state

type durable struct {
	Text       string
	Invariants []string
}

// observeDir opens the database files in dir (a crash image or a closed subject) and describes the durable state.
func (e *env) observeDir(dir string, keys *netsim.Replica) durable {
	var d durable
	var sb strings.Builder
	dbPath := filepath.Join(dir, "space.db")
	db, err := anystore.Open(bg, dbPath, nil)
	if err != nil {
		d.Text = "db-open-error:" + err.Error()
		d.Invariants = append(d.Invariants, "database does not reopen: "+err.Error())
		return d
	}
	defer db.Close()
	if err := db.QuickCheck(bg); err != nil {
		d.Invariants = append(d.Invariants, "sqlite quick_check failed: "+err.Error())
	}
	ss, err := spacestorage.New(bg, e.s.SpaceId, db)
	if err != nil {
		d.Text = "space-absent"
		// distinguish "nothing there" from a half-created space
		names, _ := db.GetCollectionNames(bg)
		sort.Strings(names)
		nonEmpty := []string{}
		for _, n := range names {
			if coll, err := db.OpenCollection(bg, n); err == nil {
				if cnt, _ := coll.Count(bg); cnt > 0 {
					nonEmpty = append(nonEmpty, fmt.Sprintf("%s=%d", n, cnt))
				}
			}
		}
		if len(nonEmpty) > 0 {
			d.Text += " but non-empty collections: " + strings.Join(nonEmpty, ",")
		}
		return d
	}
	st, err := ss.StateStorage().GetState(bg)
	fmt.Fprintf(&sb, "state(acl=%s,settings=%s,err=%v);", tail6(st.AclId), tail6(st.SettingsId), err)
	// ACL
	aclSt, err := ss.AclStorage()
	if err != nil {
		d.Invariants = append(d.Invariants, "acl storage: "+err.Error())
	} else {
		head, herr := aclSt.Head(bg)
		fmt.Fprintf(&sb, "aclHead=%s(%v);", tail6(head), herr)
		acl, berr := list.BuildAclListWithIdentity(keys.Keys, aclSt, recordverifier.NewValidateFull())
		if berr != nil {
			d.Invariants = append(d.Invariants, "acl list does not rebuild: "+berr.Error())
		} else {
			fmt.Fprintf(&sb, "aclRecords=%d;", len(acl.Records()))
			if acl.Head().Id != head {
				d.Invariants = append(d.Invariants, "acl head is not the last stored record")
			}
			// tree
			e.observeTree(&d, &sb, ss, acl, e.s.TreeId, "tree")
			e.observeTree(&d, &sb, ss, acl, st.SettingsId, "settings")
		}
	}
	d.Text = sb.String()
	return d
}

// known ids keep their (shortened) name; ids created by the operation itself (a locally
// built change gets a fresh id on every run: random encryption nonce) are named NEW.
var knownIds = map[string]bool{}

func tail6(s string) string {
	if s == "" {
		return s
	}
	if !knownIds[s] {
		return "NEW"
	}
	if len(s) > 6 {
		return s[len(s)-6:]
	}
	return s
}

func (e *env) observeTree(d *durable, sb *strings.Builder, ss spacestorage.SpaceStorage, acl list.AclList, id, label string) {
	entry, eerr := ss.HeadStorage().GetEntry(bg, id)
	if eerr != nil {
		fmt.Fprintf(sb, "%s:no-entry;", label)
	} else {
		hs := append([]string{}, entry.Heads...)
		sort.Strings(hs)
		fmt.Fprintf(sb, "%s:entry(heads=%s,snap=%s,del=%d);", label, tails(hs), tail6(entry.CommonSnapshot), entry.DeletedStatus)
	}
	ts, terr := ss.TreeStorage(bg, id)
	if terr != nil {
		fmt.Fprintf(sb, "%s:no-storage;", label)
		// (a heads entry without stored changes is the repository's representation of a tree
		// whose storage was removed; the tombstone status is written separately by the deletion worker)
		_ = terr
		return
	}
	var seq []string
	have := map[string]bool{}
	type sc struct {
		id    string
		prev  []string
		snap  string
		order string
	}
	var chs []sc
	ts.GetAfterOrder(bg, "", func(ctx context.Context, ch objecttree.StorageChange) (bool, error) {
		chs = append(chs, sc{ch.Id, append([]string{}, ch.PrevIds...), ch.SnapshotId, ch.OrderId})
		seq = append(seq, tail6(ch.Id))
		have[ch.Id] = true
		return true, nil
	})
	fmt.Fprintf(sb, "%s:stored=%s;", label, strings.Join(seq, ","))
	seen := map[string]bool{}
	for i, ch := range chs {
		for _, p := range ch.prev {
			if !have[p] {
				d.Invariants = append(d.Invariants, label+": stored change's parent is not stored")
			} else if !seen[p] {
				d.Invariants = append(d.Invariants, label+": stored order places a change before its parent")
			}
		}
		if ch.snap != "" && !have[ch.snap] {
			d.Invariants = append(d.Invariants, label+": stored change's snapshot base is not stored")
		}
		if i > 0 && ch.order <= chs[i-1].order {
			d.Invariants = append(d.Invariants, label+": order ids not increasing")
		}
		seen[ch.id] = true
	}
	if eerr == nil {
		for _, h := range entry.Heads {
			if !have[h] {
				d.Invariants = append(d.Invariants, label+": recorded head names a change that is not stored")
			}
		}
		if entry.CommonSnapshot != "" && !have[entry.CommonSnapshot] {
			d.Invariants = append(d.Invariants, label+": recorded common snapshot is not stored")
		}
	} else if len(chs) > 0 {
		d.Invariants = append(d.Invariants, label+": changes are stored but there is no heads entry")
	}
	if len(chs) > 0 {
		ot, err := objecttree.BuildObjectTree(ts, acl)
		if err != nil {
			d.Invariants = append(d.Invariants, label+": reopening does not yield a valid tree: "+err.Error())
		} else if eerr == nil {
			h := append([]string{}, ot.Heads()...)
			sort.Strings(h)
			eh := append([]string{}, entry.Heads...)
			sort.Strings(eh)
			if strings.Join(h, ",") != strings.Join(eh, ",") {
				d.Invariants = append(d.Invariants, label+": reopened tree's heads differ from the recorded heads")
			}
		}
	}
}

func tails(ids []string) string {
	var out []string
	for _, id := range ids {
		out = append(out, tail6(id))
	}
	return strings.Join(out, ",")
}

// snapshotDir copies a closed/quiescent subject for observation.
func (e *env) snapshotOf(cl *netsim.Replica, name string) (string, error) {
	dst := filepath.Join(e.c.TmpDir, fmt.Sprintf("obs-%d-%s", e.seq, name))
	return dst, faultstore.CopyImage(cl.DBPath, dst)
}

// ---------------------------------------------------------------- enumeration

func (e *env) enumerate() {
	c := e.c
	if e.op == "space-create" {
		e.enumerateSpaceCreate()
		return
	}
	// dry run: count boundaries, before/after observations
	cl, _, err := e.subject()
	if err != nil {
		c.Inconclusive("subject: " + err.Error())
		return
	}
	beforeDir, err := e.snapshotOf(cl, "before")
	if err != nil {
		c.Inconclusive(err.Error())
		return
	}
	e.allowed = map[string]bool{}
	var midDirs []string
	e.afterBatch = func(i int) {
		// every response batch is its own storage transaction: the state after batch i is a legal durable state
		armed := e.ctl.Armed
		e.ctl.Disarm()
		if d, err := e.snapshotOf(cl, fmt.Sprintf("batch%d", i)); err == nil {
			midDirs = append(midDirs, d)
		}
		e.ctl.Armed = armed
	}
	e.ctl.Reset(faultstore.Pass, -1, "")
	err = e.perform(cl)
	e.ctl.Disarm()
	e.afterBatch = nil
	if err != nil {
		c.Inconclusive(fmt.Sprintf("operation %s failed without any fault: %v", e.op, err))
		cl.CloseDetached()
		return
	}
	n := e.ctl.N
	names := append([]string{}, e.ctl.Names...)
	afterDir, err := e.snapshotOf(cl, "after")
	keys := cl
	cl.CloseDetached()
	if err != nil {
		c.Inconclusive(err.Error())
		return
	}
	before := e.observeDir(beforeDir, keys)
	after := e.observeDir(afterDir, keys)
	for _, d := range midDirs {
		m := e.observeDir(d, keys)
		e.allowed[m.Text] = true
		for _, inv := range m.Invariants {
			c.Violation("invariant-without-fault:"+e.op, "a structural invariant fails on a state reached without any fault", map[string]any{"invariant": inv, "op": e.op})
		}
		os.RemoveAll(d)
	}
	c.Count("legal_intermediate_states", int64(len(e.allowed)))
	os.RemoveAll(beforeDir)
	os.RemoveAll(afterDir)
	c.Count("boundaries."+e.op, int64(n))
	c.Sample(e.op, map[string]any{"scenario": e.scen, "boundaries": names, "before": before.Text, "after": after.Text})
	for _, inv := range append(before.Invariants, after.Invariants...) {
		c.Violation("invariant-without-fault:"+e.op, "a structural invariant fails on a state reached without any fault", map[string]any{"invariant": inv, "op": e.op})
	}
	if before.Text == after.Text {
		c.Inconclusive(fmt.Sprintf("operation %s left no durable trace (before == after): %s", e.op, before.Text))
		return
	}
	if n == 0 {
		c.Inconclusive("no storage boundary observed for " + e.op)
		return
	}
	for k := 0; k < n; k++ {
		e.imageAt(k, names[k], before, after, keys)
		e.errorAt(k, names[k], before, after, keys, false)
		if e.op == "local-add" || e.op == "snapshot-add" {
			e.errorAt(k, names[k], before, after, keys, true)
		}
	}
}

func (e *env) point(k int, name, mode string) string {
	return fmt.Sprintf("s%d/%s/%d:%s/%s", e.scen, e.op, k, name, mode)
}

func (e *env) imageAt(k int, name string, before, after durable, keys *netsim.Replica) {
	c := e.c
	cl, _, err := e.subject()
	if err != nil {
		c.Inconclusive("subject: " + err.Error())
		return
	}
	img := filepath.Join(c.TmpDir, fmt.Sprintf("img-%d", e.seq))
	e.ctl.Reset(faultstore.ImageAt, k, img)
	perr := e.perform(cl)
	e.ctl.Disarm()
	fired, ierr := e.ctl.Fired, e.ctl.ImageErr
	cl.CloseDetached()
	c.Eval(1)
	if perr != nil {
		c.Inconclusive(fmt.Sprintf("image mode: operation failed although no error was injected: %v", perr))
		return
	}
	if !fired || ierr != nil {
		c.Inconclusive(fmt.Sprintf("image at boundary %d not taken (fired=%v err=%v)", k, fired, ierr))
		return
	}
	c.Nontrivial(e.point(k, name, "image"))
	c.Count("images_reopened", 1)
	got := e.observeDir(img, keys)
	os.RemoveAll(img)
	det := map[string]any{"scenario": e.scen, "op": e.op, "boundary": k, "boundary_name": name, "observed": got.Text, "before": before.Text, "after": after.Text}
	for _, inv := range got.Invariants {
		c.Violation("crash-image:invariant:"+e.op+":"+invKey(inv), "a crash image violates a structural invariant: "+inv, det)
	}
	switch got.Text {
	case before.Text:
		c.Count("image_equals_before", 1)
	case after.Text:
		c.Count("image_equals_after", 1)
	default:
		if e.allowed[got.Text] {
			c.Count("image_equals_batch_boundary", 1)
			break
		}
		c.Violation("crash-image:intermediate-state:"+e.op, "the durable state after a crash is neither the state before the operation nor the state after it", det)
	}
}

func invKey(inv string) string {
	if i := strings.Index(inv, ": "); i > 0 && i < 12 {
		inv = inv[i+2:]
	}
	w := strings.Fields(inv)
	if len(w) > 6 {
		w = w[:6]
	}
	return strings.Join(w, "-")
}

// liveAgrees compares the live objects of the subject with what its storage holds now.
func (e *env) liveAgrees(cl *netsim.Replica) []string {
	var out []string
	if cl.HasTree && cl.Tree != nil {
		func() {
			defer func() {
				if r := recover(); r != nil {
					out = append(out, fmt.Sprintf("live tree unusable after the failed write: %v", r))
				}
			}()
			mem := cl.Heads()
			sth, err := cl.Tree.Storage().Heads(bg)
			if err != nil {
				if e.op == "tree-delete" {
					return
				}
				out = append(out, "stored heads unreadable: "+err.Error())
				return
			}
			sort.Strings(sth)
			if strings.Join(mem, ",") != strings.Join(sth, ",") {
				out = append(out, fmt.Sprintf("live tree heads %s differ from stored heads %s", tails(mem), tails(sth)))
			}
			pres, _ := cl.Presented()
			for _, id := range pres {
				ok, _ := cl.Tree.Storage().Has(bg, id)
				if !ok {
					out = append(out, "live tree presents a change that is not stored: "+tail6(id))
					break
				}
			}
		}()
	}
	if cl.Acl != nil {
		cl.Acl.RLock()
		liveHead := cl.Acl.Head().Id
		cl.Acl.RUnlock()
		aclSt, err := cl.Space.AclStorage()
		if err == nil {
			if sh, err := aclSt.Head(bg); err == nil && sh != liveHead {
				out = append(out, fmt.Sprintf("live acl head %s differs from stored acl head %s", tail6(liveHead), tail6(sh)))
			}
		}
	}
	return out
}

func (e *env) errorAt(k int, name string, before, after durable, keys *netsim.Replica, cancelCaller bool) {
	pfx := "error"
	if cancelCaller {
		// the fault is the CALLER's context being cancelled at this boundary (added after seeded change C10-6 -
		// the rollback rebuild run under the caller's dead context - was missed)
		pfx = "cancelled-caller"
	}
	c := e.c
	cl, _, err := e.subject()
	if err != nil {
		c.Inconclusive("subject: " + err.Error())
		return
	}
	defer cl.CloseDetached()
	e.ctl.Reset(faultstore.ErrorAt, k, "")
	if cancelCaller {
		cctx, cancel := context.WithCancel(bg)
		defer cancel()
		e.opCtx = cctx
		e.ctl.OnFire = cancel
	}
	perr := e.perform(cl)
	e.opCtx = nil
	e.ctl.Disarm()
	fired := e.ctl.Fired
	c.Eval(1)
	if !fired {
		c.Inconclusive(fmt.Sprintf("error at boundary %d not injected", k))
		return
	}
	c.Nontrivial(e.point(k, name, pfx))
	det := map[string]any{"scenario": e.scen, "op": e.op, "boundary": k, "boundary_name": name, "first_result": fmt.Sprint(perr), "before": before.Text, "after": after.Text}
	if perr == nil {
		c.Count("error_swallowed."+e.op, 1)
	} else {
		c.Count("error_returned."+e.op, 1)
		if !errors.Is(perr, faultstore.ErrInjected) && !strings.Contains(perr.Error(), "injected storage fault") {
			c.Count("error_replaced."+e.op, 1)
		}
	}
	// (1) the live object agrees with storage
	if e.op != "tree-create-eager" && e.op != "tree-create-deferred" || perr == nil {
		for _, d := range e.liveAgrees(cl) {
			det2 := copyMap(det)
			det2["disagreement"] = d
			c.Violation(pfx+":live-disagrees-with-storage:"+e.op, "after a failed (non-fatal) write the live object no longer agrees with storage", det2)
			return
		}
	}
	// (2) durable state is before or after
	midDir, err := e.snapshotOf(cl, "mid")
	if err == nil {
		mid := e.observeDir(midDir, keys)
		os.RemoveAll(midDir)
		for _, inv := range mid.Invariants {
			c.Violation(pfx+":invariant:"+e.op+":"+invKey(inv), "after an injected storage error the durable state violates a structural invariant: "+inv, det)
		}
		if mid.Text != before.Text && mid.Text != after.Text && !e.allowed[mid.Text] {
			det2 := copyMap(det)
			det2["observed"] = mid.Text
			c.Violation(pfx+":intermediate-state:"+e.op, "after an injected storage error the durable state is neither the before- nor the after-state", det2)
			return
		}
		if perr != nil && mid.Text == after.Text && name != "rollback" {
			c.Count("error_reported_but_applied."+e.op, 1)
		}
		if perr == nil && mid.Text != after.Text {
			det2 := copyMap(det)
			det2["observed"] = mid.Text
			c.Violation(pfx+":success-reported-but-not-stored:"+e.op, "the operation reported success although the write failed and the durable state is unchanged", det2)
			return
		}
		if mid.Text == after.Text {
			return // nothing to re-submit
		}
	}
	// (3) the same input is accepted again and yields the after-state
	if e.op == "tree-create-eager" || e.op == "tree-create-deferred" {
		// creation is retried from a fresh open, as a restarting client would
		if rerr := cl.Restart(); rerr != nil {
			c.Violation(pfx+":reopen-failed:"+e.op, "after a failed creation the space cannot be reopened", det)
			return
		}
	}
	rerr := e.perform(cl)
	c.Count("resubmissions", 1)
	if rerr != nil {
		det2 := copyMap(det)
		det2["resubmit_error"] = rerr.Error()
		c.Violation(pfx+":resubmit-rejected:"+e.op, "after a failed write the same input is not accepted again", det2)
		return
	}
	finDir, err := e.snapshotOf(cl, "fin")
	if err != nil {
		return
	}
	fin := e.observeDir(finDir, keys)
	os.RemoveAll(finDir)
	if fin.Text != after.Text {
		det2 := copyMap(det)
		det2["observed"] = fin.Text
		c.Violation(pfx+":resubmit-wrong-state:"+e.op, "re-submitting the input after a failed write does not yield the state a fault-free run yields", det2)
	}
	for _, inv := range fin.Invariants {
		c.Violation(pfx+":invariant-after-resubmit:"+e.op+":"+invKey(inv), "after re-submission the durable state violates a structural invariant: "+inv, det)
	}
}

func copyMap(m map[string]any) map[string]any {
	out := map[string]any{}
	for k, v := range m {
		out[k] = v
	}
	return out
}

// space creation runs on an empty database instead of a clone.
func (e *env) enumerateSpaceCreate() {
	c := e.c
	keys := e.s.Replicas[0]
	run := func(mode faultstore.Mode, k int, img string) (dir string, err error, n int, names []string, fired bool, reperr error, closed func()) {
		e.seq++
		dir = filepath.Join(c.TmpDir, fmt.Sprintf("create-%d", e.seq))
		os.MkdirAll(dir, 0o755)
		real, oerr := anystore.Open(bg, filepath.Join(dir, "space.db"), nil)
		if oerr != nil {
			return dir, oerr, 0, nil, false, nil, func() {}
		}
		e.ctl.Disarm()
		e.ctl.DBPath = filepath.Join(dir, "space.db")
		db := faultstore.Wrap(real, e.ctl)
		e.ctl.Reset(mode, k, img)
		_, err = spacestorage.Create(bg, db, e.s.Payload)
		e.ctl.Disarm()
		n, names, fired = e.ctl.N, append([]string{}, e.ctl.Names...), e.ctl.Fired
		if mode == faultstore.ErrorAt && err != nil {
			// a failed creation is retried the way a client does: on a freshly opened database
			real.Close()
			real, oerr = anystore.Open(bg, filepath.Join(dir, "space.db"), nil)
			if oerr != nil {
				return dir, err, n, names, fired, oerr, func() {}
			}
			_, reperr = spacestorage.Create(bg, real, e.s.Payload)
		}
		return dir, err, n, names, fired, reperr, func() { real.Close() }
	}
	dir, err, n, names, _, _, closeDB := run(faultstore.Pass, -1, "")
	closeDB()
	if err != nil {
		c.Inconclusive("space create failed without fault: " + err.Error())
		return
	}
	after := e.observeDir(dir, keys)
	before := durable{Text: "space-absent"}
	c.Count("boundaries.space-create", int64(n))
	c.Sample("space-create", map[string]any{"boundaries": names, "after": after.Text})
	for k := 0; k < n; k++ {
		img := filepath.Join(c.TmpDir, fmt.Sprintf("img-create-%d", k))
		_, err, _, _, fired, _, closeDB := run(faultstore.ImageAt, k, img)
		closeDB()
		c.Eval(1)
		det := map[string]any{"op": "space-create", "boundary": k, "boundary_name": names[k]}
		if err != nil || !fired {
			c.Inconclusive(fmt.Sprintf("space-create image %d: err=%v fired=%v", k, err, fired))
		} else {
			c.Nontrivial(e.point(k, names[k], "image"))
			c.Count("images_reopened", 1)
			got := e.observeDir(img, keys)
			det["observed"] = got.Text
			for _, inv := range got.Invariants {
				c.Violation("crash-image:invariant:space-create:"+invKey(inv), "a crash image violates a structural invariant: "+inv, det)
			}
			if got.Text != before.Text && got.Text != after.Text {
				det["after"] = after.Text
				c.Violation("crash-image:intermediate-state:space-create", "a crash during space creation leaves a partially created space", det)
			}
		}
		os.RemoveAll(img)
		dir2, err2, _, _, fired2, reperr, closeDB2 := run(faultstore.ErrorAt, k, "")
		c.Eval(1)
		if !fired2 {
			closeDB2()
			c.Inconclusive("space-create error not injected")
			continue
		}
		c.Nontrivial(e.point(k, names[k], "error"))
		closeDB2()
		got := e.observeDir(dir2, keys)
		det2 := map[string]any{"op": "space-create", "boundary": k, "boundary_name": names[k], "first_result": fmt.Sprint(err2), "resubmit_result": fmt.Sprint(reperr), "observed": got.Text, "after": after.Text}
		if err2 == nil {
			if got.Text != after.Text {
				c.Violation("error:success-reported-but-not-stored:space-create", "space creation reported success although a write failed", det2)
			}
			continue
		}
		if reperr != nil {
			c.Violation("error:resubmit-rejected:space-create", "after a failed space creation the same payload is not accepted again", det2)
			continue
		}
		if got.Text != after.Text {
			c.Violation("error:resubmit-wrong-state:space-create", "re-creating the space after a failed write does not yield the fault-free state", det2)
		}
		for _, inv := range got.Invariants {
			c.Violation("error:invariant-after-resubmit:space-create:"+invKey(inv), "after re-submission the durable state violates a structural invariant: "+inv, det2)
		}
	}
}
