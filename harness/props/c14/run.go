package c14

import (
	"context"
	"encoding/hex"
	"fmt"
	"math/rand"
	"os"
	"runtime"
	"strconv"
	"strings"
	"time"

	"github.com/anyproto/any-sync/net/secureservice/handshake"

	"verifharness/lib"
)

const (
	roleOut = 0 // end 0 runs OutgoingHandshake ("A")
	roleIn  = 1 // end 1 runs IncomingHandshake ("B")
)

var roleNames = []string{"outgoing", "incoming"}

// watchdogDur: real-time bound after which a connection that has neither
// finished nor become quiescent is examined (normal latency is < 1 ms).
var watchdogDur = func() time.Duration {
	if ms, err := strconv.Atoi(os.Getenv("C14_WATCHDOG_MS")); err == nil && ms > 0 {
		return time.Duration(ms) * time.Millisecond // development only: validating the hang monitor quickly
	}
	return 20 * time.Second
}()

type cancelPlan struct {
	side        int  // whose context is cancelled
	holdFrame   int  // 1..4: this frame is held back; the cancel happens once nobody can progress
	releaseHeld bool // when the sender of the held frame closes, the frame is still delivered (as TCP would)
	// racing variant: cancel the moment frame passFrame passes the middle, without holding anything
	passFrame int
}

type runOpts struct {
	a, b sideCfg
	// peer ids the two calls are told (the transport-authenticated remote id)
	aRemote, bRemote string
	chunk            int
	icpt             [2]func(l *link, ord int, frame []byte)
	incCloseOnErr    bool // the accepting transport closes the conn when the handshake fails (yamux does not, quic does)
	cancel           *cancelPlan
	// checkers to use instead of the configs' own (concurrency workload shares them)
	ccA, ccB handshake.CredentialChecker
	// held frames are still delivered when their sender closes
	releaseOnClose bool
	// rng for the pipe (default: the case's; concurrent connections bring their own)
	rng *rand.Rand
}

type runOut struct {
	r         [2]*sideResult
	deliv     [2][]byte // delivered to end i up to the moment its call returned
	delivAll  [2][]byte
	sent      [2][]byte
	frames    [2]int
	stalled   bool // nobody could progress: the deadline had to end it
	byDL      [2]bool
	cancelled [2]bool
	hang      string
	peerLeft  bool // cancellation: the peer was still parked after the cancelled end had closed
	reached   bool // cancel plan: the boundary was reached
	fired     bool // cancel plan: the cancellation was issued while everybody was parked
}

func frameNo(dir, ord int) int { return 1 + dir + 2*ord }

// execute runs one connection: both ends run the real handshake calls.
func execute(c *lib.Case, o *runOpts) *runOut {
	rng := o.rng
	if rng == nil {
		rng = c.Rng
	}
	w := newWorld(rng, o.chunk)
	out := &runOut{}
	for d := 0; d < 2; d++ {
		w.links[d].icpt = o.icpt[d]
		w.links[d].releaseOnClose = o.releaseOnClose
	}
	if o.aRemote == "" {
		o.aRemote = o.b.id.peerId
	}
	if o.bRemote == "" {
		o.bRemote = o.a.id.peerId
	}
	var ctx [2]context.Context
	var cancel [2]context.CancelFunc
	for i := range ctx {
		ctx[i], cancel[i] = context.WithCancel(context.Background())
	}
	if cp := o.cancel; cp != nil {
		for d := 0; d < 2; d++ {
			d := d
			inner := o.icpt[d]
			w.links[d].icpt = func(l *link, ord int, fr []byte) {
				k := frameNo(d, ord)
				if cp.holdFrame == k {
					out.reached = true
					l.held = append(l.held, fr)
					return
				}
				if cp.passFrame == k {
					out.reached = true
					out.cancelled[cp.side] = true
					cancel[cp.side]()
				}
				if inner != nil {
					inner(l, ord, fr)
				} else {
					l.deliver(fr)
				}
			}
		}
	}
	ccA, ccB := o.ccA, o.ccB
	if ccA == nil {
		ccA = o.a.checker()
	}
	if ccB == nil {
		ccB = o.b.checker()
	}
	call := func(i int) {
		var res handshake.Result
		var err error
		if i == roleOut {
			res, err = handshake.OutgoingHandshake(ctx[i], w.ends[i], o.aRemote, ccA)
		} else {
			res, err = handshake.IncomingHandshake(ctx[i], w.ends[i], o.bRemote, ccB)
		}
		sr := &sideResult{res: res, err: err, idSnap: append([]byte(nil), res.Identity...), verSnap: res.ProtoVersion, clSnap: strings.Clone(res.ClientVersion)}
		w.mu.Lock()
		in := w.links[1-i]
		out.r[i] = sr
		out.deliv[i] = in.deliv[:in.consumed:in.consumed] // the consumed prefix never changes
		w.mu.Unlock()
		// what the transport does next
		if err != nil && (i == roleOut || o.incCloseOnErr) {
			w.ends[i].Close()
		}
		w.mu.Lock()
		w.ends[i].returned = true
		w.cond.Broadcast()
		w.mu.Unlock()
	}
	go call(roleOut)
	go call(roleIn)

	wd := time.AfterFunc(watchdogDur, func() {
		w.mu.Lock()
		w.watchdog = true
		w.cond.Broadcast()
		w.mu.Unlock()
	})
	defer wd.Stop()

	w.mu.Lock()
	stage := 0
	for !(w.ends[0].returned && w.ends[1].returned) {
		if w.watchdog {
			buf := make([]byte, 1<<20)
			n := runtime.Stack(buf, true)
			var who []string
			for i := 0; i < 2; i++ {
				if !w.ends[i].returned {
					who = append(who, fmt.Sprintf("%s(ctx-cancelled=%v conn-closed=%v)", roleNames[i], ctx[i].Err() != nil, w.ends[i].closed))
				}
			}
			out.hang = strings.Join(who, ",") + "\n" + clipStr(string(buf[:n]), 6000)
			break
		}
		if w.quiescent() {
			cp := o.cancel
			fireDeadline := func() {
				out.stalled = true
				for i := 0; i < 2; i++ {
					if !w.ends[i].returned {
						out.byDL[i] = true
						cancel[i]() // stands for the conn / context deadline
					}
				}
			}
			switch {
			case cp != nil && cp.holdFrame > 0 && out.reached && stage == 0:
				// boundary reached and everybody is parked: cancel the chosen end
				stage = 1
				out.fired = true
				out.cancelled[cp.side] = true
				cancel[cp.side]()
				continue
			case stage == 1 && !w.ends[cp.side].returned:
				// waiting for the cancelled end to return
			case stage == 1:
				// the cancelled end has returned (and closed); its peer is still parked
				stage = 2
				out.peerLeft = w.ends[cp.side].closed
				fireDeadline()
			case stage == 0:
				stage = 3
				fireDeadline()
			}
		}
		w.cond.Wait()
	}
	for d := 0; d < 2; d++ {
		out.sent[d] = w.links[d].sent[:len(w.links[d].sent):len(w.links[d].sent)]
		out.delivAll[1-d] = w.links[d].deliv[:len(w.links[d].deliv):len(w.links[d].deliv)]
		out.frames[d] = w.links[d].frames
	}
	w.mu.Unlock()
	// tear down: whatever is still parked inside the handshake gets its conn closed
	cancel[0]()
	cancel[1]()
	w.ends[0].Close()
	w.ends[1].Close()
	return out
}

func clipStr(s string, n int) string {
	if len(s) > n {
		return s[:n] + "…"
	}
	return s
}

func hexClip(b []byte) string {
	if len(b) > 160 {
		return hex.EncodeToString(b[:160]) + fmt.Sprintf("…(%d bytes)", len(b))
	}
	return hex.EncodeToString(b)
}

// outcome is a small JSON-able summary of a run for witnesses.
func (o *runOut) summary() map[string]any {
	m := map[string]any{"stalled_until_deadline": o.stalled}
	for i := 0; i < 2; i++ {
		if o.r[i] != nil {
			m[roleNames[i]] = map[string]any{"verdict": errStr(o.r[i].err), "identity": hex.EncodeToString(o.r[i].idSnap), "proto_version": o.r[i].verSnap,
				"client_version": clip(o.r[i].clSnap), "by_deadline": o.byDL[i], "ctx_cancelled": o.cancelled[i]}
		} else {
			m[roleNames[i]] = "did not return"
		}
		m["delivered_to_"+roleNames[i]] = hexClip(o.delivAll[i])
	}
	return m
}

// leakCheck: after a case no goroutine may still be parked inside the
// handshake package (every conn was closed and every context cancelled).
func leakCheck(c *lib.Case, baseline int) {
	deadline := 4000
	for i := 0; i < deadline; i++ {
		if runtime.NumGoroutine() <= baseline {
			return
		}
		time.Sleep(time.Millisecond)
	}
	buf := make([]byte, 1<<20)
	n := runtime.Stack(buf, true)
	dump := string(buf[:n])
	for _, g := range strings.Split(dump, "\n\n") {
		if strings.Contains(g, "any-sync/net/secureservice/handshake.") {
			fr := lib.FirstRepoFrame(g)
			c.Violation("goroutine-parked-after-close:"+fr, "a handshake goroutine is still parked although its conn was closed and its context cancelled (unbounded wait)",
				map[string]any{"goroutine": clipStr(g, 3000)})
			return
		}
	}
	c.Count("leakcheck.extra_goroutines_outside_handshake", 1)
}
