package c14

import (
	"encoding/binary"
	"io"
	"math/rand"
	"sync"
)

// world is one in-memory duplex connection between the outgoing end (0, "A")
// and the incoming end (1, "B") with a man-in-the-middle per direction.
//
// Every byte the real handshake code writes is parsed into frames by the
// sending link (the sender is unmodified code, so its stream is well framed);
// the link's interceptor decides what the receiver gets instead (the frame,
// a mutant, a prefix, nothing, extra frames, an EOF) and the receiver's Read
// calls are cut into chunks chosen by a per-link PRNG. All state is guarded by
// one mutex so that "nobody can make progress any more" (quiescence) is a
// well defined predicate; it stands for "the conn/ctx deadline is the only
// thing that can still happen".
type world struct {
	mu    sync.Mutex
	cond  *sync.Cond
	links [2]*link // links[i] carries bytes written by end i
	ends  [2]*end
	// watchdog is set by a timer goroutine (real time, generous) to break waits
	watchdog bool
}

type link struct {
	w        *world
	from     int
	parse    []byte // written, not yet framed
	frames   int    // complete frames taken from the sender so far
	sent     []byte // everything the sender wrote
	deliv    []byte // everything made available to the receiver (model input); deliv[consumed:] is unread
	consumed int    // bytes the receiver has actually read
	eof      bool   // nothing more will be delivered
	// icpt is called (world locked) for every complete frame of the sender.
	// nil = deliver unchanged.
	icpt func(l *link, ord int, frame []byte)
	// chunk returns how many bytes (1..max) one Read call may return.
	chunk func(max int) int
	// held frames (cancellation boundaries). When the sender closes they are
	// either still delivered before the EOF (as TCP would) or lost.
	held           [][]byte
	releaseOnClose bool
}

type end struct {
	w       *world
	idx     int
	closed  bool // this end called Close
	reading bool // a goroutine is parked in Read
	// returned is set by the driver when the handshake call on this end returned
	returned bool
	reads    int
}

func newWorld(rng *rand.Rand, chunkMode int) *world {
	w := &world{}
	w.cond = sync.NewCond(&w.mu)
	for i := 0; i < 2; i++ {
		w.links[i] = &link{w: w, from: i, chunk: chunker(&xrand{s: rng.Uint64() | 1}, chunkMode)}
		w.ends[i] = &end{w: w, idx: i}
	}
	return w
}

// chunk modes
const (
	chunkWhole  = iota // Read returns everything requested that is available
	chunkOne           // 1 byte per Read
	chunkRandom        // 1..7 bytes
	chunkMixed         // sometimes 1, sometimes whole, sometimes random
	numChunkModes
)

var chunkNames = []string{"whole", "1-byte", "random-1-7", "mixed"}

// xrand: xorshift64*, enough for choosing chunk sizes (math/rand sources cost 5 KiB each).
type xrand struct{ s uint64 }

func (x *xrand) Intn(n int) int {
	x.s ^= x.s >> 12
	x.s ^= x.s << 25
	x.s ^= x.s >> 27
	return int((x.s * 2685821657736338717 >> 33) % uint64(n))
}

func chunker(r *xrand, mode int) func(max int) int {
	return func(max int) int {
		n := max
		switch mode {
		case chunkOne:
			n = 1
		case chunkRandom:
			n = 1 + r.Intn(7)
		case chunkMixed:
			switch r.Intn(3) {
			case 0:
				n = 1
			case 1:
				n = 1 + r.Intn(64)
			}
		}
		if n > max {
			n = max
		}
		return n
	}
}

// deliver makes bytes readable by the receiver (world locked).
func (l *link) deliver(b []byte) {
	if l.eof || len(b) == 0 {
		return
	}
	l.deliv = append(l.deliv, b...)
}

func (l *link) avail() int { return len(l.deliv) - l.consumed }

// finish: the receiver will see EOF after draining what was delivered.
func (l *link) finish() { l.eof = true }

func (e *end) Read(p []byte) (int, error) {
	w := e.w
	in := w.links[1-e.idx]
	w.mu.Lock()
	defer w.mu.Unlock()
	for {
		if e.closed {
			return 0, io.ErrClosedPipe
		}
		if len(p) == 0 {
			return 0, nil
		}
		if av := in.avail(); av > 0 {
			max := len(p)
			if av < max {
				max = av
			}
			n := in.chunk(max)
			copy(p, in.deliv[in.consumed:in.consumed+n])
			in.consumed += n
			e.reads++
			w.cond.Broadcast()
			return n, nil
		}
		if in.eof {
			return 0, io.EOF
		}
		e.reading = true
		w.cond.Broadcast()
		w.cond.Wait()
		e.reading = false
	}
}

func (e *end) Write(p []byte) (int, error) {
	w := e.w
	out := w.links[e.idx]
	w.mu.Lock()
	defer w.mu.Unlock()
	if e.closed {
		return 0, io.ErrClosedPipe
	}
	if w.ends[1-e.idx].closed {
		return 0, io.ErrClosedPipe // EPIPE
	}
	out.sent = append(out.sent, p...)
	out.parse = append(out.parse, p...)
	out.drainFrames()
	w.cond.Broadcast()
	return len(p), nil
}

func (l *link) drainFrames() {
	for len(l.parse) >= 5 {
		sz := int(binary.LittleEndian.Uint32(l.parse[1:5]))
		if len(l.parse) < 5+sz {
			return
		}
		fr := append([]byte(nil), l.parse[:5+sz]...)
		l.parse = l.parse[5+sz:]
		ord := l.frames
		l.frames++
		if l.icpt != nil {
			l.icpt(l, ord, fr)
		} else {
			l.deliver(fr)
		}
	}
}

func (e *end) Close() error {
	w := e.w
	w.mu.Lock()
	defer w.mu.Unlock()
	if e.closed {
		return nil
	}
	e.closed = true
	out := w.links[e.idx]
	if len(out.parse) > 0 { // unframed leftover goes out raw (never happens with the real sender)
		out.deliver(out.parse)
		out.parse = nil
	}
	if out.releaseOnClose {
		for _, fr := range out.held {
			out.deliver(fr)
		}
	}
	out.held = nil
	out.finish()
	w.cond.Broadcast()
	return nil
}

// quiescent (world locked): no end can make progress without an external
// event (deadline, cancellation, release of a held frame).
func (w *world) quiescent() bool {
	for i := 0; i < 2; i++ {
		e := w.ends[i]
		if e.returned {
			continue
		}
		in := w.links[1-i]
		if e.reading && in.avail() == 0 && !in.eof && !e.closed {
			continue
		}
		return false
	}
	return true
}

func frameOf(tp byte, payload []byte) []byte {
	b := make([]byte, 5+len(payload))
	b[0] = tp
	binary.LittleEndian.PutUint32(b[1:5], uint32(len(payload)))
	copy(b[5:], payload)
	return b
}
