package c14

import (
	"fmt"
	"math/rand"
	"runtime"
	"strings"
	"sync"

	"github.com/anyproto/any-sync/net/secureservice/handshake"

	"verifharness/lib"
)

// runPoolReuse: connections one after the other through the shared pool of
// handshake objects. Earlier connections ("donors") carry a version and a
// client version; later ones carry credentials in which those fields are the
// proto3 default and therefore absent on the wire. Every connection is judged
// on its own by the same oracle as everywhere else.
func runPoolReuse(c *lib.Case) {
	base := runtime.NumGoroutine()
	if c.Index%2 == 0 {
		// one P: sync.Pool hands the object of the previous connection to the next
		// one deterministically (a one-CPU machine); odd cases run with all Ps.
		old := runtime.GOMAXPROCS(1)
		defer runtime.GOMAXPROCS(old)
		c.Count("poolreuse.cases_on_one_P", 1)
	}
	var later []func()
	run := func(a, b sideCfg, label string, m *mutation) (judged, *runOut) {
		o := &runOpts{a: a, b: b, chunk: c.Rng.Intn(numChunkModes), incCloseOnErr: true}
		ctxKey := "undisturbed"
		if m != nil {
			o.icpt = disturber(rand.New(rand.NewSource(c.Rng.Int63())), m)
			ctxKey = fmt.Sprintf("disturb:%s:frame%d", m.Class, m.Frame)
		}
		out := execute(c, o)
		c.Eval(1)
		c.Count("poolreuse.connections."+label, 1)
		c.Count("frames.seen", int64(out.frames[0]+out.frames[1]))
		j, clean := judge(c, o, out, ctxKey, nil)
		if out.hang == "" && m == nil {
			checkUndisturbed(c, o, out, j, clean, "poolreuse."+label)
		}
		later = append(later, func() { recheckAliasing(c, o, out, ctxKey) })
		return j, out
	}
	rounds := 4
	for r := 0; r < rounds; r++ {
		// donors
		nd := 1 + c.Rng.Intn(3)
		for k := 0; k < nd; k++ {
			mode := c.Rng.Intn(2)
			v := []uint32{12, 13, 14}[c.Rng.Intn(3)]
			a := sideCfg{Version: v, Accept: []uint32{12, 13, 14}, Mode: mode, Client: fmt.Sprintf("donor-out-%d-%s", k, strings.Repeat("o", c.Rng.Intn(1500))), id: newIdent(c.Rng)}
			b := sideCfg{Version: v, Accept: []uint32{12, 13, 14}, Mode: mode, Client: fmt.Sprintf("donor-in-%d-%s", k, strings.Repeat("i", c.Rng.Intn(1500))), id: newIdent(c.Rng)}
			var m *mutation
			if c.Rng.Intn(3) == 0 { // a donor that ends in an error half way
				m = &mutation{Class: []string{"flip", "garbage", "truncate-eof", "cred-reencode", "ack-error-injected"}[c.Rng.Intn(5)], Frame: 1 + c.Rng.Intn(4)}
			}
			run(a, b, "donor", m)
		}
		// connections whose credentials omit a field
		mode := c.Rng.Intn(2)
		var a, b sideCfg
		kind := ""
		switch c.Rng.Intn(4) {
		case 0: // version 0 is NOT accepted by the peer: must be rejected
			kind = "version0-not-accepted"
			a = sideCfg{Version: 0, Accept: []uint32{12, 13, 14}, Mode: mode, Client: "omit-a"}
			b = sideCfg{Version: 13, Accept: []uint32{12, 13, 14}, Mode: mode, Client: "omit-b"}
		case 1: // version 0 is accepted: result must say 0
			kind = "version0-accepted"
			a = sideCfg{Version: 0, Accept: []uint32{0, 13}, Mode: mode, Client: "omit-a"}
			b = sideCfg{Version: 13, Accept: []uint32{0, 13}, Mode: mode, Client: "omit-b"}
		case 2: // empty client version
			kind = "empty-client-version"
			a = sideCfg{Version: 13, Accept: []uint32{12, 13, 14}, Mode: mode, Client: ""}
			b = sideCfg{Version: 12, Accept: []uint32{12, 13, 14}, Mode: mode, Client: ""}
		case 3: // the incoming end is the one that omits
			kind = "incoming-version0-not-accepted"
			a = sideCfg{Version: 13, Accept: []uint32{12, 13, 14}, Mode: mode, Client: "omit-a"}
			b = sideCfg{Version: 0, Accept: []uint32{12, 13, 14}, Mode: mode, Client: ""}
		}
		a.id, b.id = newIdent(c.Rng), newIdent(c.Rng)
		j, _ := run(a, b, "omitting."+kind, nil)
		c.Nontrivial(fmt.Sprintf("%s/%d/%s/%d", kind, mode, outcomeClass(j), nd))
	}
	for _, f := range later {
		f()
	}
	leakCheck(c, base)
}

// ---------------------------------------------------------------- concurrency

type node struct {
	cfg sideCfg
	cc  handshake.CredentialChecker // one instance shared by all its connections, as in secureService
}

// runConcurrent: 64 connections at once (3 waves per case) under the race
// detector; every result must be the one of its own connection.
func runConcurrent(c *lib.Case) {
	base := runtime.NumGoroutine()
	const conns = 64
	waves := 2
	if !c.Quick() {
		waves = 3
	}
	type job struct {
		o        *runOpts
		out      *runOut
		ctxKey   string
		expectOK bool
		racing   bool
	}
	var all []*job
	// identities are distinct within a wave and reused by the next wave
	var srvId [4]*ident
	var cliId, peerId [conns]*ident
	for i := range srvId {
		srvId[i] = newIdent(c.Rng)
	}
	for i := 0; i < conns; i++ {
		cliId[i] = newIdent(c.Rng)
		if i%2 == 1 {
			peerId[i] = newIdent(c.Rng)
		}
	}
	for wv := 0; wv < waves; wv++ {
		// four listening nodes with shared checker instances
		var servers []*node
		for s := 0; s < 4; s++ {
			cfg := sideCfg{Version: uint32(500 + s), Mode: modePeerSign, Client: fmt.Sprintf("server-%d-%s", s, strings.Repeat("s", s*400)), id: srvId[s]}
			for i := 0; i < conns; i++ {
				if i%8 != 7 { // versions 1000+i with i%8==7 are not accepted anywhere
					cfg.Accept = append(cfg.Accept, uint32(1000+i))
				}
			}
			cfg.Accept = append(cfg.Accept, 500, 501, 502, 503)
			servers = append(servers, &node{cfg: cfg, cc: cfg.checker()})
		}
		jobs := make([]*job, conns)
		for i := 0; i < conns; i++ {
			pad := (i * 53) % 1700
			a := sideCfg{Version: uint32(1000 + i), Accept: []uint32{500, 501, 502, 503, uint32(2000 + i)}, Mode: modePeerSign,
				Client: fmt.Sprintf("client-%d-%d-%s", wv, i, strings.Repeat("c", pad)), id: cliId[i]}
			jb := &job{ctxKey: "concurrent", expectOK: i%8 != 7}
			o := &runOpts{a: a, chunk: i % numChunkModes, incCloseOnErr: i%3 != 0, rng: rand.New(rand.NewSource(c.Rng.Int63()))}
			if i%2 == 0 {
				srv := servers[(i/2)%4]
				o.b, o.ccB = srv.cfg, srv.cc
			} else {
				// a private peer with its own identity; every fourth pair does not verify
				mode := modePeerSign
				if i%4 == 1 {
					mode = modeNoVerify
					o.a.Mode = modeNoVerify
				}
				o.b = sideCfg{Version: uint32(2000 + i), Accept: []uint32{uint32(1000 + i)}, Mode: mode, Client: fmt.Sprintf("peer-%d-%s", i, strings.Repeat("p", (i*31)%1300)), id: peerId[i]}
				if i%8 == 7 {
					o.b.Accept = []uint32{uint32(999)}
				}
			}
			if i%16 == 5 {
				jb.racing = true
				jb.ctxKey = "concurrent:cancel-racing"
				o.cancel = &cancelPlan{side: i / 16 % 2, passFrame: 1 + i/16%4}
			}
			jb.o = o
			jobs[i] = jb
		}
		var wg sync.WaitGroup
		start := make(chan struct{})
		for _, jb := range jobs {
			wg.Add(1)
			go func(jb *job) {
				defer wg.Done()
				<-start
				jb.out = execute(c, jb.o)
			}(jb)
		}
		close(start)
		wg.Wait()
		all = append(all, jobs...)
		c.Count("concurrent.waves", 1)
		c.Count("concurrent.simultaneous_handshakes", conns)
	}
	okCount := 0
	for _, jb := range all {
		c.Eval(1)
		o, out := jb.o, jb.out
		c.Count("frames.seen", int64(out.frames[0]+out.frames[1]))
		j, clean := judge(c, o, out, jb.ctxKey, nil)
		if out.hang != "" {
			continue
		}
		if !jb.racing {
			checkUndisturbed(c, o, out, j, clean, "concurrent")
		} else {
			c.Count("concurrent.racing_cancel."+outcomeClass(j), 1)
		}
		// explicit cross-talk check against the connection's own peer configuration
		for i := 0; i < 2; i++ {
			if !j.ok[i] {
				continue
			}
			me, peer := o.cfg(i), o.cfg(1-i)
			r := out.r[i]
			if r.verSnap == peer.Version && r.clSnap == peer.Client && (me.Mode != modePeerSign || sameBytes(r.idSnap, peer.id.pubMar)) {
				continue
			}
			detail := map[string]any{"connection": o.describe(), "observed": out.summary(), "end": roleNames[i]}
			if r.verSnap != peer.Version {
				c.Violation("concurrent:result-not-own-peers:proto-version", fmt.Sprintf("result carries proto version %d, this connection's peer has %d", r.verSnap, peer.Version), detail)
			}
			if r.clSnap != peer.Client {
				c.Violation("concurrent:result-not-own-peers:client-version", "result carries another client version than this connection's peer", detail)
			}
			if me.Mode == modePeerSign && !sameBytes(r.idSnap, peer.id.pubMar) {
				c.Violation("concurrent:result-not-own-peers:identity", "result carries another identity than this connection's peer", detail)
			}
		}
		if j.ok[0] && j.ok[1] {
			okCount++
		}
		recheckAliasing(c, o, out, jb.ctxKey)
	}
	c.Count("concurrent.connections_both_success", int64(okCount))
	if okCount >= conns {
		c.Nontrivial(fmt.Sprintf("case-%d", c.Index))
	}
	leakCheck(c, base)
}
