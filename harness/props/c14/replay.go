package c14

import (
	"fmt"
	"runtime"

	"github.com/anyproto/any-sync/util/crypto"

	"verifharness/lib"
)

// replaceFrame returns interceptors that substitute frame number k by rec.
func replaceFrame(k int, rec []byte, applied *bool) [2]func(l *link, ord int, fr []byte) {
	var res [2]func(l *link, ord int, fr []byte)
	for d := 0; d < 2; d++ {
		d := d
		res[d] = func(l *link, ord int, fr []byte) {
			if frameNo(d, ord) == k && fr[0] == 1 {
				*applied = true
				l.deliver(rec)
				return
			}
			l.deliver(fr)
		}
	}
	return res
}

func firstFrame(stream []byte) []byte {
	_, pay, _, st := nextFrame(stream)
	if st != frameOK {
		return nil
	}
	return append([]byte(nil), stream[:5+len(pay)]...)
}

func runReplay(c *lib.Case) {
	base := runtime.NumGoroutine()
	std := func(id *ident, mode int) sideCfg {
		vs := []uint32{12, 13, 14}
		return sideCfg{Version: vs[c.Rng.Intn(3)], Accept: []uint32{12, 13, 14}, Mode: mode, Client: pickNonEmptyClient(c.Rng), id: id}
	}
	idA, idB, idC, idM := newIdent(c.Rng), newIdent(c.Rng), newIdent(c.Rng), newIdent(c.Rng)
	// another device of A's account: same account key, different transport key
	pk2, _, _ := crypto.GenerateEd25519Key(c.Rng)
	idA2 := identFrom(pk2, idA.acc.SignKey)

	A, B, C, M, A2 := std(idA, modePeerSign), std(idB, modePeerSign), std(idC, modePeerSign), std(idM, modePeerSign), std(idA2, modePeerSign)

	// the recorded connection A -> B
	rec := &runOpts{a: A, b: B, chunk: c.Rng.Intn(numChunkModes), incCloseOnErr: true}
	rout := execute(c, rec)
	c.Eval(1)
	j, clean := judge(c, rec, rout, "undisturbed", nil)
	if rout.hang != "" {
		return
	}
	checkUndisturbed(c, rec, rout, j, clean, "replay.recording")
	if !(j.ok[0] && j.ok[1]) {
		c.Count("replay.recording_connection_failed", 1)
		leakCheck(c, base)
		return
	}
	credAB := firstFrame(rout.sent[0]) // A's credential, signed for B
	credBA := firstFrame(rout.sent[1]) // B's credential, signed for A
	if credAB == nil || credBA == nil || credAB[0] != 1 || credBA[0] != 1 {
		c.Inconclusive("could not record the two credential frames")
		return
	}

	type variant struct {
		name     string
		out, in  sideCfg
		frame    int // which frame of the new connection is replaced
		rec      []byte
		differs  bool // an endpoint differs from the recorded connection: must be rejected
		verifier int  // end that receives the replayed credential
	}
	vars := []variant{
		{"other-dialer-same-listener", M, B, 1, credAB, true, roleIn},
		{"same-account-other-device", A2, B, 1, credAB, true, roleIn},
		{"same-dialer-other-listener", A, C, 1, credAB, true, roleIn},
		{"both-endpoints-differ", M, C, 1, credAB, true, roleIn},
		{"listener-impersonates-recorded-listener", A, M, 2, credBA, true, roleOut},
		{"other-dialer-gets-recorded-listener-cred", C, B, 2, credBA, true, roleOut},
		{"reflection-of-own-credential", A, B, 2, credAB, true, roleOut},
		{"control:same-endpoints-same-roles", A, B, 1, credAB, false, roleIn},
		{"control:same-endpoints-swapped-roles", B, A, 1, credBA, false, roleIn},
	}
	// "reflection": the endpoints of the replay connection are the same, but the
	// credential is presented by the other endpoint than the one it was made by,
	// i.e. the (sender, verifier) pair differs: A verifies a credential signed for (A, B) as if from B.
	for _, v := range vars {
		applied := false
		o := &runOpts{a: v.out, b: v.in, chunk: c.Rng.Intn(numChunkModes), incCloseOnErr: c.Rng.Intn(2) == 0}
		o.icpt = replaceFrame(v.frame, v.rec, &applied)
		out := execute(c, o)
		c.Eval(1)
		c.Count("frames.seen", int64(out.frames[0]+out.frames[1]))
		ctxKey := "replay:" + v.name
		jj, _ := judge(c, o, out, ctxKey, map[string]any{"replayed_credential": hexClip(v.rec), "replaces_frame": v.frame})
		if out.hang != "" || !applied {
			c.Count("replay.not_applied", 1)
			continue
		}
		oc := outcomeClass(jj)
		c.Count("replay."+v.name+"."+oc, 1)
		if v.differs && jj.ok[v.verifier] {
			// judge has already reported it through the reference acceptor; make the class explicit
			c.Count("replay."+v.name+".ACCEPTED", 1)
		}
		if v.differs && !jj.ok[v.verifier] {
			c.Count("replay.rejected_on_other_endpoints", 1)
			c.Count("replay.reject_reason."+errClass(out.r[v.verifier].err), 1)
		}
		c.Nontrivial(fmt.Sprintf("%s/%s/%s/close=%v", v.name, oc, chunkNames[o.chunk], o.incCloseOnErr))
		c.Sample(v.name, map[string]any{"outgoing_verdict": errStr(out.r[0].err), "incoming_verdict": errStr(out.r[1].err)})
	}

	// a verifier that does not verify: the replay "works" but no identity may be attached
	Bn := std(idB, modeNoVerify)
	Mn := std(idM, modeNoVerify)
	applied := false
	o := &runOpts{a: Mn, b: Bn, chunk: chunkWhole, incCloseOnErr: true}
	o.icpt = replaceFrame(1, credAB, &applied)
	out := execute(c, o)
	c.Eval(1)
	jj, _ := judge(c, o, out, "replay:to-non-verifying-listener", nil)
	if out.hang == "" {
		c.Count("replay.to_non_verifying_listener."+outcomeClass(jj)+"(identity must stay empty)", 1)
	}
	leakCheck(c, base)
}
