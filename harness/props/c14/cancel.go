package c14

import (
	"fmt"
	"runtime"

	"verifharness/lib"
)

func runCancel(c *lib.Case) {
	base := runtime.NumGoroutine()
	var a, b sideCfg
	if c.Rng.Intn(10) < 8 {
		a, b = successCfg(c.Rng)
	} else {
		a, b = cfgFromIndex(c.Rng.Intn(mxSide)), cfgFromIndex(c.Rng.Intn(mxSide))
		a.Client, b.Client = pickClient(c.Rng), pickClient(c.Rng)
	}
	a.id, b.id = newIdent(c.Rng), newIdent(c.Rng)
	for frame := 1; frame <= 4; frame++ {
		for side := 0; side < 2; side++ {
			for variant := 0; variant < 3; variant++ {
				cp := &cancelPlan{side: side}
				name := ""
				switch variant {
				case 0:
					cp.holdFrame, cp.releaseHeld = frame, false
					name = "held-frame-lost"
				case 1:
					cp.holdFrame, cp.releaseHeld = frame, true
					name = "held-frame-delivered-on-close"
				case 2:
					cp.passFrame = frame
					name = "racing"
				}
				o := &runOpts{a: a, b: b, chunk: c.Rng.Intn(numChunkModes), incCloseOnErr: c.Rng.Intn(2) == 0, cancel: cp}
				ctxKey := fmt.Sprintf("cancel:%s:before-frame%d:%s-cancelled", name, frame, roleNames[side])
				out := executeCancel(c, o)
				c.Eval(1)
				c.Count("cancel.runs", 1)
				c.Count("frames.seen", int64(out.frames[0]+out.frames[1]))
				j, _ := judge(c, o, out, ctxKey, map[string]any{"cancel_plan": map[string]any{"cancelled_end": roleNames[side], "frame": frame, "variant": name}})
				if out.hang != "" {
					continue
				}
				if !out.reached {
					c.Count("cancel.boundary_not_reached", 1)
					continue
				}
				oc := outcomeClass(j)
				c.Count("cancel."+name+"."+oc, 1)
				detail := map[string]any{"connection": o.describe(), "observed": out.summary(), "cancelled_end": roleNames[side], "frame": frame, "variant": name}
				if cp.holdFrame > 0 && !out.fired {
					c.Count("cancel.connection_ended_before_the_cancel", 1)
					continue
				}
				if cp.holdFrame > 0 {
					// the cancelled end could not have finished before the cancel unless it
					// is the incoming end whose last action was writing the held frame 4
					finishedBefore := side == roleIn && frame == 4
					if finishedBefore {
						c.Count("cancel.cancel_after_completion", 1)
					} else if j.ok[side] {
						c.Violation(ctxKey+":cancelled-end-success", "the end whose context was cancelled while it was waiting returned success", detail)
					} else {
						c.Count("cancel.cancelled_end_returned."+errClass(out.r[side].err), 1)
					}
					if out.peerLeft {
						c.Violation(ctxKey+":peer-left-parked", "after the cancelled end closed its conn the peer was still parked and only its own deadline ended it", detail)
					}
				}
				if out.stalled {
					c.Count("cancel.peer_ended_by_deadline", 1)
				} else {
					c.Count("cancel.peer_ended_without_deadline", 1)
				}
				c.Count("cancel.peer_returned."+errClass(out.r[1-side].err), 1)
				c.Nontrivial(fmt.Sprintf("%s/f%d/%s/%d%d/%s", name, frame, roleNames[side], a.Mode, b.Mode, oc))
				if variant == 0 {
					c.Sample(fmt.Sprintf("frame%d-%s", frame, roleNames[side]), map[string]any{"variant": name, "cancelled_end_verdict": errStr(out.r[side].err), "peer_verdict": errStr(out.r[1-side].err)})
				}
			}
		}
	}
	leakCheck(c, base)
}

func executeCancel(c *lib.Case, o *runOpts) *runOut {
	o.releaseOnClose = o.cancel.releaseHeld
	return execute(c, o)
}
