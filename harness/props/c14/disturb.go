package c14

import (
	"encoding/binary"
	"fmt"
	"math/rand"
	"runtime"

	"github.com/anyproto/any-sync/net/secureservice/handshake/handshakeproto"

	"verifharness/lib"
)

var disturbClasses = []string{
	"flip", "truncate-drop", "truncate-eof", "len-oversize", "len-longer", "len-shorter", "oversize-real",
	"wrong-type", "ooo-dup", "ooo-swap-kind", "ooo-early-ack", "ooo-drop", "ooo-replay-own-earlier",
	"trailing-after", "trailing-inside", "garbage", "void-unknown-field", "ack-error-injected", "cred-reencode",
}

type mutation struct {
	Class   string `json:"class"`
	Sub     string `json:"sub,omitempty"`
	Frame   int    `json:"frame"`
	applied bool
	orig    []byte
	mutant  []byte
	eof     bool
}

func (m *mutation) info() map[string]any {
	return map[string]any{"class": m.Class, "sub": m.Sub, "frame": m.Frame, "applied": m.applied,
		"original_frame": hexClip(m.orig), "delivered_instead": hexClip(m.mutant), "then_eof": m.eof}
}

// disturber returns the interceptors that hit frame m.Frame with m.Class.
func disturber(r *rand.Rand, m *mutation) [2]func(l *link, ord int, fr []byte) {
	var first [2][]byte
	var res [2]func(l *link, ord int, fr []byte)
	for d := 0; d < 2; d++ {
		d := d
		res[d] = func(l *link, ord int, fr []byte) {
			if first[d] == nil {
				first[d] = fr
			}
			if frameNo(d, ord) != m.Frame || m.applied {
				l.deliver(fr)
				return
			}
			m.applied = true
			m.orig = fr
			out := mutate(r, m, fr, first[d])
			m.mutant = out
			l.deliver(out)
			if m.eof {
				l.finish()
			}
		}
	}
	return res
}

// bigScratch is reused for the > 1 MiB frames (one worker process runs its cases sequentially)
var bigScratch []byte

func randBytes(r *rand.Rand, n int) []byte {
	b := make([]byte, n)
	r.Read(b)
	return b
}

func setLen(fr []byte, n uint32) []byte {
	out := append([]byte(nil), fr...)
	binary.LittleEndian.PutUint32(out[1:5], n)
	return out
}

func mutate(r *rand.Rand, m *mutation, fr, firstOfLink []byte) []byte {
	pay := fr[5:]
	switch m.Class {
	case "flip":
		out := append([]byte(nil), fr...)
		n := 1 + r.Intn(3)
		for i := 0; i < n; i++ {
			p := r.Intn(len(out))
			if i == 0 {
				switch {
				case p == 0:
					m.Sub = "type-byte"
				case p < 5:
					m.Sub = "length-field"
				default:
					m.Sub = "payload"
				}
			}
			if r.Intn(2) == 0 {
				out[p] ^= 1 << uint(r.Intn(8))
			} else {
				out[p] ^= byte(1 + r.Intn(255))
			}
		}
		return out
	case "truncate-drop", "truncate-eof":
		keep := r.Intn(len(fr))
		m.Sub = "header"
		if keep >= 5 {
			m.Sub = "payload"
		}
		if keep == 0 {
			m.Sub = "nothing"
		}
		m.eof = m.Class == "truncate-eof"
		return append([]byte(nil), fr[:keep]...)
	case "len-oversize":
		v := []uint32{200*1024 + 1, 1<<20 + 1, 0x7fffffff, 0xffffffff}[r.Intn(4)]
		m.Sub = fmt.Sprint(v)
		return setLen(fr, v)
	case "len-longer":
		return setLen(fr, uint32(len(pay)+1+r.Intn(16)))
	case "len-shorter":
		if len(pay) == 0 {
			m.Sub = "empty-payload-unchanged"
			return append([]byte(nil), fr...)
		}
		return setLen(fr, uint32(len(pay)-1-r.Intn(len(pay))))
	case "oversize-real":
		// a well-formed frame of the same type that decodes to the same message but is > 1 MiB
		if cap(bigScratch) < 5+len(pay)+oversizeAny+32 {
			bigScratch = make([]byte, 0, 5+len(pay)+oversizeAny+4096)
		}
		clear(bigScratch[:cap(bigScratch)])
		out := bigScratch[:5]
		out = appendUnknownBytesField(append(out, pay...), oversizeAny+16)
		out[0] = fr[0]
		binary.LittleEndian.PutUint32(out[1:5], uint32(len(out)-5))
		return out
	case "wrong-type":
		for {
			t := []byte{0, 1, 2, 3, 4, 0x7f, 0xff}[r.Intn(7)]
			if t != fr[0] {
				out := append([]byte(nil), fr...)
				out[0] = t
				m.Sub = fmt.Sprint(t)
				return out
			}
		}
	case "ooo-dup":
		return append(append([]byte(nil), fr...), fr...)
	case "ooo-swap-kind":
		if fr[0] == 1 {
			m.Sub = "ack-instead-of-cred"
			return frameOf(2, nil)
		}
		m.Sub = "cred-instead-of-ack"
		if firstOfLink != nil && firstOfLink[0] == 1 {
			return append([]byte(nil), firstOfLink...)
		}
		return frameOf(1, pay)
	case "ooo-early-ack":
		return append(frameOf(2, nil), fr...)
	case "ooo-drop":
		return nil
	case "ooo-replay-own-earlier":
		if firstOfLink != nil && &firstOfLink[0] != &fr[0] {
			return append(append([]byte(nil), firstOfLink...), fr...)
		}
		m.Sub = "no-earlier-frame:dup"
		return append(append([]byte(nil), fr...), fr...)
	case "trailing-after":
		return append(append([]byte(nil), fr...), randBytes(r, 1+r.Intn(32))...)
	case "trailing-inside":
		g := randBytes(r, 1+r.Intn(32))
		return frameOf(fr[0], append(append([]byte(nil), pay...), g...))
	case "garbage":
		n := len(fr)
		if r.Intn(2) == 0 {
			n = 1 + r.Intn(64)
		}
		return randBytes(r, n)
	case "void-unknown-field":
		// field 15, varint: skipped by every protobuf decoder
		return frameOf(fr[0], append(append([]byte(nil), pay...), 0x78, byte(r.Intn(128))))
	case "ack-error-injected":
		e := handshakeproto.Error(1 + r.Intn(7))
		if r.Intn(4) == 0 {
			e = handshakeproto.Error(1000 + r.Intn(1000))
		}
		b, _ := (&handshakeproto.Ack{Error: e}).MarshalVT()
		m.Sub = fmt.Sprint(int32(e))
		return frameOf(2, b)
	case "cred-reencode":
		if fr[0] != 1 {
			m.Sub = "not-a-cred:ack-error"
			b, _ := (&handshakeproto.Ack{Error: handshakeproto.Error(1 + r.Intn(7))}).MarshalVT()
			return frameOf(2, b)
		}
		cr := &handshakeproto.Credentials{}
		if err := cr.UnmarshalVT(pay); err != nil {
			return append([]byte(nil), fr...)
		}
		sel := r.Intn(8)
		unknownType := sel >= 6
		if unknownType {
			sel = 2
		}
		switch sel {
		case 0:
			m.Sub = "version"
			cr.Version = []uint32{0, 12, 13, 14, 99, 4294967295}[r.Intn(6)]
		case 1:
			m.Sub = "client-version"
			cr.ClientVersion = []string{"", "edited", "x:middle:v0.36.6"}[r.Intn(3)]
		case 2:
			m.Sub = "type"
			if !unknownType {
				cr.Type = 1 - cr.Type
			} else {
				// the field is an open proto3 enum: values that name no credential type at all
				// (added after seeded change C14-6 - a type switch without default - was missed)
				cr.Type = handshakeproto.CredentialsType([]int32{2, 3, 7, 127, -1, 1 << 20}[r.Intn(6)])
				m.Sub = "type-unknown"
				if r.Intn(2) == 0 {
					cr.Payload = nil
					m.Sub = "type-unknown,payload-empty"
				}
			}
		case 3:
			m.Sub = "payload-bit"
			if len(cr.Payload) > 0 {
				cr.Payload = append([]byte(nil), cr.Payload...)
				cr.Payload[r.Intn(len(cr.Payload))] ^= 1 << uint(r.Intn(8))
			} else {
				cr.Payload = randBytes(r, 8)
			}
		case 4:
			m.Sub = "payload-empty"
			cr.Payload = nil
		case 5:
			m.Sub = "payload-sign-truncated"
			p := &handshakeproto.PayloadSignedPeerIds{}
			if p.UnmarshalVT(cr.Payload) == nil && len(p.Sign) > 0 {
				p.Sign = p.Sign[:r.Intn(len(p.Sign))]
				cr.Payload, _ = p.MarshalVT()
			}
		}
		b, _ := cr.MarshalVT()
		return frameOf(1, b)
	}
	panic("unknown disturbance class " + m.Class)
}

// appendUnknownBytesField appends field 14 (length-delimited) with n zero bytes.
func appendUnknownBytesField(b []byte, n int) []byte {
	b = append(b, 0x72)
	x := uint64(n)
	for x >= 0x80 {
		b = append(b, byte(x)|0x80)
		x >>= 7
	}
	b = append(b, byte(x))
	if cap(b)-len(b) >= n {
		return b[:len(b)+n] // fresh zeroed capacity
	}
	return append(b, make([]byte, n)...)
}

// sameMeaning: the bytes delivered instead of the frame start with a frame of
// the same type that decodes to the same message (the disturbance is void).
func sameMeaning(orig, delivered []byte) bool {
	tp, pay, _, st := nextFrame(delivered)
	if st == frameShort || st == frameOversize || tp != orig[0] {
		return false
	}
	switch tp {
	case 1:
		a, e1 := decodeCred(orig[5:])
		b, e2 := decodeCred(pay)
		return e1 == nil && e2 == nil && a.Type == b.Type && a.Version == b.Version && a.Client == b.Client && sameBytes(a.Payload, b.Payload)
	case 2:
		a, b := &handshakeproto.Ack{}, &handshakeproto.Ack{}
		return a.UnmarshalVT(orig[5:]) == nil && b.UnmarshalVT(pay) == nil && a.Error == b.Error
	}
	return false
}

// successCfg returns a pair of configurations that succeeds when undisturbed.
func successCfg(r *rand.Rand) (a, b sideCfg) {
	mode := r.Intn(4)
	if mode > 1 {
		mode = modePeerSign
	}
	vs := []uint32{12, 13, 14}
	a = sideCfg{Version: vs[r.Intn(3)], Accept: []uint32{12, 13, 14}, Mode: mode, Client: pickNonEmptyClient(r)}
	b = sideCfg{Version: vs[r.Intn(3)], Accept: []uint32{12, 13, 14}, Mode: mode, Client: pickNonEmptyClient(r)}
	return
}

func pickNonEmptyClient(r *rand.Rand) string {
	for {
		s := pickClient(r)
		if s != "" && !hotfixBanned(s) {
			return s
		}
	}
}

func runDisturb(c *lib.Case) {
	base := runtime.NumGoroutine()
	runs := 8
	if !c.Quick() {
		runs = 50
	}
	var later []func()
	for k := 0; k < runs; k++ {
		var a, b sideCfg
		if c.Rng.Intn(10) < 7 {
			a, b = successCfg(c.Rng)
		} else {
			a, b = cfgFromIndex(c.Rng.Intn(mxSide)), cfgFromIndex(c.Rng.Intn(mxSide))
			a.Client, b.Client = pickClient(c.Rng), pickClient(c.Rng)
		}
		a.id, b.id = newIdent(c.Rng), newIdent(c.Rng)
		slot := c.Index*runs + k
		m := &mutation{Class: disturbClasses[slot%len(disturbClasses)], Frame: 1 + c.Rng.Intn(4)}
		if m.Class == "oversize-real" && (slot/len(disturbClasses))%3 != 0 {
			m.Class = "len-oversize" // the 1 MiB frames are expensive to shuffle around: every third slot is enough
		}
		mr := c.Rng
		o := &runOpts{a: a, b: b, chunk: c.Rng.Intn(numChunkModes), incCloseOnErr: c.Rng.Intn(3) != 0}
		o.icpt = disturber(mr, m)
		out := execute(c, o)
		c.Eval(1)
		c.Count("disturb.runs", 1)
		c.Count("frames.seen", int64(out.frames[0]+out.frames[1]))
		ctxKey := fmt.Sprintf("disturb:%s:frame%d", m.Class, m.Frame)
		if !m.applied {
			// the connection ended before the target frame existed: an undisturbed run
			c.Count("disturb.target_frame_not_reached", 1)
			j, clean := judge(c, o, out, "undisturbed", nil)
			if out.hang == "" {
				checkUndisturbed(c, o, out, j, clean, "disturb.unreached")
			}
			continue
		}
		j, _ := judge(c, o, out, ctxKey, map[string]any{"disturbance": m.info()})
		if out.hang != "" {
			continue
		}
		later = append(later, func() { recheckAliasing(c, o, out, ctxKey) })
		void := sameMeaning(m.orig, m.mutant) && !m.eof
		oc := outcomeClass(j)
		cls := "disturb." + m.Class + "."
		switch {
		case oc == "both_fail":
			c.Count(cls+"both_fail", 1)
		case void:
			c.Count(cls+"success_semantically_void."+oc, 1)
		case oc == "only_incoming_success" && m.Frame == 4:
			c.Count(cls+"one_success.sender_of_destroyed_last_frame(not judged)", 1)
		case j.mv[0].OK == j.ok[0] && j.mv[1].OK == j.ok[1]:
			c.Count(cls+"success_delivered_bytes_are_valid_credentials."+oc, 1)
		default:
			c.Count(cls+"one_success."+oc, 1)
		}
		if out.stalled {
			c.Count(cls+"ended_by_deadline", 1)
		} else {
			c.Count(cls+"ended_by_error_or_verdict", 1)
		}
		for i := 0; i < 2; i++ {
			if out.r[i].err != nil {
				c.Count("disturb.fail_reason."+roleNames[i]+"."+errClass(out.r[i].err), 1)
			}
			if !j.ok[i] && j.mv[i].OK {
				c.Count("disturb.rejected_although_delivered_bytes_valid(not judged)", 1)
			}
		}
		c.Nontrivial(fmt.Sprintf("%s/f%d/%d%d/%s/%s/%s/%s", m.Class, m.Frame, a.Mode, b.Mode, oc, j.mv[0].Why, j.mv[1].Why, m.Sub))
		c.Sample(m.Class, map[string]any{"disturbance": m.info(), "outgoing_verdict": errStr(out.r[0].err), "incoming_verdict": errStr(out.r[1].err),
			"ended_by_deadline": out.stalled, "semantically_void": void})
	}
	for _, f := range later {
		f()
	}
	leakCheck(c, base)
}
