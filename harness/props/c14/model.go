package c14

import (
	"bytes"
	"crypto/ed25519"
	"encoding/binary"
	"fmt"
	"math/rand"
	"strings"

	"github.com/anyproto/any-sync/commonspace/object/accountdata"
	"github.com/anyproto/any-sync/net/secureservice"
	"github.com/anyproto/any-sync/net/secureservice/handshake"
	"github.com/anyproto/any-sync/net/secureservice/handshake/handshakeproto"
	"github.com/anyproto/any-sync/util/crypto"
	"github.com/anyproto/any-sync/util/crypto/cryptoproto"
)

const (
	modeNoVerify = 0
	modePeerSign = 1
)

var modeNames = []string{"noVerify", "peerSign"}

// oversizeAny: a frame whose declared payload is larger than this is
// "oversized" under any reading of the statement (the code's limit is
// 200 KiB; sizes between the two are counted, not judged).
const oversizeAny = 1 << 20

// ident is one endpoint identity: transport peer key + account sign key.
type ident struct {
	acc    *accountdata.AccountKeys
	peerId string
	pub    ed25519.PublicKey // raw account public key (oracle side)
	pubMar []byte            // marshalled identity as the repo encodes it
}

func newIdent(r *rand.Rand) *ident {
	pk, _, err := crypto.GenerateEd25519Key(r)
	if err != nil {
		panic(err)
	}
	sk, _, err := crypto.GenerateEd25519Key(r)
	if err != nil {
		panic(err)
	}
	return identFrom(pk, sk)
}

func identFrom(pk, sk crypto.PrivKey) *ident {
	acc := accountdata.New(pk, sk)
	raw, _ := sk.GetPublic().Raw()
	mar, _ := sk.GetPublic().Marshall()
	return &ident{acc: acc, peerId: acc.PeerId, pub: ed25519.PublicKey(append([]byte(nil), raw...)), pubMar: append([]byte(nil), mar...)}
}

// sideCfg is the configuration of one end.
type sideCfg struct {
	Version uint32   `json:"version"`
	Accept  []uint32 `json:"accept"`
	Mode    int      `json:"mode"`
	Client  string   `json:"client_version"`
	id      *ident
}

func (s sideCfg) String() string {
	cl := s.Client
	if len(cl) > 24 {
		cl = fmt.Sprintf("%s…(%d)", cl[:16], len(cl))
	}
	return fmt.Sprintf("v%d accept%v %s client=%q", s.Version, s.Accept, modeNames[s.Mode], cl)
}

func (s sideCfg) checker() handshake.CredentialChecker {
	nv, ps := secureservice.VerifNewCheckers(s.Version, append([]uint32(nil), s.Accept...), s.Client, s.id.acc)
	if s.Mode == modePeerSign {
		return ps
	}
	return nv
}

func containsU32(l []uint32, v uint32) bool {
	for _, x := range l {
		if x == v {
			return true
		}
	}
	return false
}

// ---------------------------------------------------------------- decoding

type decCred struct {
	Type     int32
	Version  uint32
	Client   string
	Payload  []byte
	Identity []byte // PayloadSignedPeerIds.Identity (when Payload decodes)
	Sign     []byte
	payOK    bool
}

// decodeCred decodes a credential payload into a FRESH message (what the
// bytes say, independent of any previously decoded message).
func decodeCred(b []byte) (*decCred, error) {
	m := &handshakeproto.Credentials{}
	if err := m.UnmarshalVT(b); err != nil {
		return nil, err
	}
	d := &decCred{Type: int32(m.Type), Version: m.Version, Client: m.ClientVersion, Payload: m.Payload}
	p := &handshakeproto.PayloadSignedPeerIds{}
	if err := p.UnmarshalVT(m.Payload); err == nil {
		d.payOK = true
		d.Identity, d.Sign = p.Identity, p.Sign
	}
	return d, nil
}

// rawKey extracts the 32-byte ed25519 public key from a marshalled identity.
func rawKey(identity []byte) (ed25519.PublicKey, bool) {
	k := &cryptoproto.Key{}
	if err := k.UnmarshalVT(identity); err != nil {
		return nil, false
	}
	if k.Type != cryptoproto.KeyType_Ed25519Public || len(k.Data) != ed25519.PublicKeySize {
		return nil, false
	}
	return ed25519.PublicKey(k.Data), true
}

// sigProves: identity's key verifies sign over (senderPeerId ‖ verifierPeerId).
func sigProves(identity, sign []byte, senderPeerId, verifierPeerId string) bool {
	k, ok := rawKey(identity)
	if !ok {
		return false
	}
	return ed25519.Verify(k, []byte(senderPeerId+verifierPeerId), sign)
}

// wireStrictOK cross-checks a payload with an independent walk over the
// standard protobuf wire format (canonical-length varints, known wire types);
// only used to count decoder disagreements, never to judge.
func wireStrictOK(b []byte) bool {
	varint := func() (uint64, bool) {
		var x uint64
		for i := 0; i < 10; i++ {
			if len(b) == 0 {
				return 0, false
			}
			c := b[0]
			b = b[1:]
			if i == 9 && c > 1 {
				return 0, false
			}
			x |= uint64(c&0x7f) << (7 * uint(i))
			if c < 0x80 {
				return x, true
			}
		}
		return 0, false
	}
	for len(b) > 0 {
		tag, ok := varint()
		if !ok || tag>>3 == 0 || tag>>3 > 1<<29-1 {
			return false
		}
		switch tag & 7 {
		case 0:
			if _, ok := varint(); !ok {
				return false
			}
		case 1:
			if len(b) < 8 {
				return false
			}
			b = b[8:]
		case 2:
			n, ok := varint()
			if !ok || n > uint64(len(b)) {
				return false
			}
			b = b[n:]
		case 5:
			if len(b) < 4 {
				return false
			}
			b = b[4:]
		default: // groups are not used by these messages
			return false
		}
	}
	return true
}

// ---------------------------------------------------------------- reference acceptor

type modelVerdict struct {
	OK      bool   `json:"may_succeed"`
	Why     string `json:"why"` // first reason success is impossible
	cred    *decCred
	Grey    bool   `json:"grey"` // frame size between the code's limit and oversizeAny: not judged
	Omitted bool   `json:"-"`    // delivered credential carries no Version field (decodes to 0)
	CredRaw []byte `json:"-"`
}

// mayAccept is the reference acceptor: given everything that was delivered to
// an end, may that end report success according to the property statement?
// role 0 = outgoing (first frame may also be an ack, which is always an error),
// role 1 = incoming. remotePeerId is the transport peer id of the other end.
func mayAccept(me sideCfg, role int, remotePeerId string, stream []byte) modelVerdict {
	v := modelVerdict{}
	tp, pay, rest, st := nextFrame(stream)
	switch st {
	case frameShort:
		v.Why = "first-frame-incomplete"
		return v
	case frameOversize:
		v.Why = "first-frame-oversize"
		return v
	case frameGrey:
		v.Grey = true
	}
	if tp != 1 {
		if tp == 2 && role == 0 {
			v.Why = "peer-answered-with-ack"
		} else {
			v.Why = "first-frame-wrong-type"
		}
		return v
	}
	d, err := decodeCred(pay)
	if err != nil {
		v.Why = "cred-undecodable"
		return v
	}
	v.cred = d
	v.CredRaw = pay
	v.Omitted = d.Version == 0
	if !containsU32(me.Accept, d.Version) {
		v.Why = "version-not-accepted"
		return v
	}
	if me.Mode == modePeerSign {
		if d.Type != int32(handshakeproto.CredentialsType_SignedPeerIds) {
			v.Why = "unsigned-credential-where-verification-required"
			return v
		}
		if !d.payOK {
			v.Why = "signed-payload-undecodable"
			return v
		}
		if !sigProves(d.Identity, d.Sign, remotePeerId, me.id.peerId) {
			v.Why = "signature-not-over-both-peer-ids"
			return v
		}
	}
	tp2, pay2, _, st2 := nextFrame(rest)
	switch st2 {
	case frameShort:
		v.Why = "ack-frame-incomplete"
		return v
	case frameOversize:
		v.Why = "ack-frame-oversize"
		return v
	case frameGrey:
		v.Grey = true
	}
	if tp2 != 2 {
		v.Why = "second-frame-not-ack"
		return v
	}
	a := &handshakeproto.Ack{}
	if err := a.UnmarshalVT(pay2); err != nil {
		v.Why = "ack-undecodable"
		return v
	}
	if a.Error != handshakeproto.Error_Null {
		v.Why = "peer-ack-carries-error"
		return v
	}
	v.OK = true
	return v
}

const (
	frameOK = iota
	frameShort
	frameOversize
	frameGrey
)

func nextFrame(s []byte) (tp byte, payload, rest []byte, st int) {
	if len(s) < 5 {
		return 0, nil, nil, frameShort
	}
	tp = s[0]
	sz := binary.LittleEndian.Uint32(s[1:5])
	if sz > oversizeAny {
		return tp, nil, nil, frameOversize
	}
	if uint32(len(s)-5) < sz {
		return tp, nil, nil, frameShort
	}
	st = frameOK
	if sz > 200*1024 {
		st = frameGrey
	}
	return tp, s[5 : 5+sz], s[5+sz:], st
}

// ---------------------------------------------------------------- result checks

type sideResult struct {
	res handshake.Result
	err error
	// snapshot taken right after the call returned (aliasing detector)
	idSnap  []byte
	verSnap uint32
	clSnap  string
}

func (r *sideResult) ok() bool { return r.err == nil }

func errStr(err error) string {
	if err == nil {
		return "success"
	}
	s := err.Error()
	if len(s) > 80 {
		s = s[:80]
	}
	return s
}

// resultProblems checks a successful result (as it was when the call returned;
// later changes are recheckAliasing's business) against the credential that was
// actually delivered: identity proven by the signature (or absent when this
// end does not verify), version and client version are the peer's.
func resultProblems(me sideCfg, remotePeerId string, r *sideResult, mv modelVerdict) (keys []string, what []string) {
	d := mv.cred
	if d == nil {
		return
	}
	pre := ""
	if me.Mode == modePeerSign {
		if !sigProves(r.idSnap, d.Sign, remotePeerId, me.id.peerId) {
			keys = append(keys, "result:identity-not-proven-by-signature")
			what = append(what, fmt.Sprintf("returned identity %x is not a key under which the presented signature verifies over (peer id ‖ verifier id)", r.idSnap))
		}
	} else if len(r.idSnap) != 0 {
		keys = append(keys, "result:identity-attached-without-verification")
		what = append(what, "an end that does not verify attached an identity to the connection")
	}
	if r.verSnap != d.Version {
		pre = ""
		if d.Version == 0 {
			pre = "cred-omits-version:"
		}
		keys = append(keys, pre+"result:proto-version-not-the-peers")
		what = append(what, fmt.Sprintf("result carries proto version %d, the delivered credential says %d", r.verSnap, d.Version))
	}
	if r.clSnap != d.Client {
		pre = ""
		if d.Client == "" {
			pre = "cred-omits-client-version:"
		}
		keys = append(keys, pre+"result:client-version-not-the-peers")
		what = append(what, fmt.Sprintf("result carries client version %q, the delivered credential says %q", clip(r.clSnap), clip(d.Client)))
	}
	return
}

func clip(s string) string {
	if len(s) > 40 {
		return fmt.Sprintf("%s…(%d bytes)", s[:32], len(s))
	}
	return s
}

func hotfixBanned(client string) bool { return strings.Contains(client, "middle:v0.36.6") }

func sameBytes(a, b []byte) bool { return bytes.Equal(a, b) }
