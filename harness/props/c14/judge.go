package c14

import (
	"fmt"
	"strings"

	"verifharness/lib"
)

type judged struct {
	mv [2]modelVerdict
	ok [2]bool
}

func (o *runOpts) cfg(i int) sideCfg {
	if i == roleOut {
		return o.a
	}
	return o.b
}

func (o *runOpts) remoteOf(i int) string {
	if i == roleOut {
		return o.aRemote
	}
	return o.bRemote
}

func (o *runOpts) describe() map[string]any {
	return map[string]any{
		"outgoing": o.a.String(), "incoming": o.b.String(),
		"outgoing_peer_id": o.a.id.peerId, "incoming_peer_id": o.b.id.peerId,
		"outgoing_told_remote": o.aRemote, "incoming_told_remote": o.bRemote,
		"chunking": chunkNames[o.chunk], "accepting_transport_closes_on_error": o.incCloseOnErr,
	}
}

// judge applies the clauses that hold for every connection, disturbed or not:
//   - both calls return (a call that is still parked after its context was
//     cancelled / its conn closed is a hang);
//   - an end reports success only if what was delivered to it justifies it
//     under the statement (reference acceptor);
//   - a successful result carries the proven identity (or none) and the peer's
//     versions as delivered.
//
// ctxKey names the input class ("undisturbed", "disturb:flip:frame2", ...).
func judge(c *lib.Case, o *runOpts, out *runOut, ctxKey string, extra map[string]any) (j judged, clean bool) {
	clean = true
	detail := func(more map[string]any) map[string]any {
		d := map[string]any{"connection": o.describe(), "observed": out.summary()}
		for k, v := range extra {
			d[k] = v
		}
		for k, v := range more {
			d[k] = v
		}
		return d
	}
	if out.hang != "" {
		clean = false
		first := strings.SplitN(out.hang, "\n", 2)[0]
		if strings.Contains(first, "ctx-cancelled=true") || strings.Contains(first, "conn-closed=true") {
			c.Violation("hang:"+ctxKey, "a handshake call did not return although its context was cancelled / its conn closed", detail(map[string]any{"parked": out.hang}))
		} else {
			c.Inconclusive("watchdog fired without a cancelled context or quiescence: " + first)
		}
		return
	}
	for i := 0; i < 2; i++ {
		me := o.cfg(i)
		r := out.r[i]
		if r == nil {
			clean = false
			continue
		}
		j.ok[i] = r.ok()
		mv := mayAccept(me, i, o.remoteOf(i), out.deliv[i])
		j.mv[i] = mv
		if mv.cred != nil && !wireStrictOK(mv.CredRaw) {
			c.Count("decoder.generated_accepts_but_strict_wire_walk_rejects", 1)
		}
		if !r.ok() {
			continue
		}
		if mv.Grey {
			c.Count("model.success_with_frame_between_200KiB_and_1MiB_not_judged", 1)
			continue
		}
		if !mv.OK {
			clean = false
			pre := ""
			if mv.Why == "version-not-accepted" && mv.cred != nil && mv.cred.Version == 0 {
				pre = "cred-omits-version:"
			}
			c.Violation(pre+ctxKey+":"+roleNames[i]+"-success:"+mv.Why,
				fmt.Sprintf("the %s end reported success although what was delivered to it cannot justify success (%s)", roleNames[i], mv.Why),
				detail(map[string]any{"end": roleNames[i], "model": mv.Why}))
			continue
		}
		keys, what := resultProblems(me, o.remoteOf(i), r, mv)
		for k := range keys {
			clean = false
			c.Violation(keys[k]+":"+roleNames[i], what[k], detail(map[string]any{"end": roleNames[i]}))
		}
	}
	return
}

// recheckAliasing: results handed out earlier must not change when the pooled
// handshake objects are reused by later connections.
func recheckAliasing(c *lib.Case, o *runOpts, out *runOut, ctxKey string) {
	for i := 0; i < 2; i++ {
		r := out.r[i]
		if r == nil || !r.ok() {
			continue
		}
		if !sameBytes(r.res.Identity, r.idSnap) || r.res.ProtoVersion != r.verSnap || r.res.ClientVersion != r.clSnap {
			c.Violation("result-changed-after-return:"+roleNames[i], "a returned result changed while later handshakes ran (it aliases pooled memory)",
				map[string]any{"connection": o.describe(), "class": ctxKey, "identity_at_return": fmt.Sprintf("%x", r.idSnap), "identity_now": fmt.Sprintf("%x", r.res.Identity),
					"client_version_at_return": clip(r.clSnap), "client_version_now": clip(r.res.ClientVersion)})
		}
	}
}

func outcomeClass(j judged) string {
	switch {
	case j.ok[0] && j.ok[1]:
		return "both_success"
	case j.ok[0]:
		return "only_outgoing_success"
	case j.ok[1]:
		return "only_incoming_success"
	}
	return "both_fail"
}

// errClass reduces an error to a short counter name.
func errClass(err error) string {
	if err == nil {
		return "success"
	}
	s := err.Error()
	switch {
	case strings.Contains(s, "context canceled"):
		return "context-canceled"
	case strings.Contains(s, "declined the credentials"):
		return "peer-declined-credentials"
	case s == "EOF" || strings.Contains(s, "unexpected EOF"):
		return "eof"
	case strings.Contains(s, "closed pipe"):
		return "closed-pipe"
	case strings.HasPrefix(s, "proto:") || strings.Contains(s, "wiretype") || strings.Contains(s, "wireType") || strings.Contains(s, "overflow") || strings.Contains(s, "invalid length") || strings.Contains(s, "negative length"):
		return "decode-error"
	}
	if len(s) > 40 {
		s = s[:40]
	}
	return strings.ReplaceAll(s, " ", "-")
}
