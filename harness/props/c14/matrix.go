package c14

import (
	"context"
	"fmt"
	"math/rand"
	"net"
	"runtime"
	"strings"

	"github.com/anyproto/any-sync/net/secureservice/handshake"

	"verifharness/lib"
)

var (
	mxVersions = []uint32{0, 12, 13, 14, 4294967295}
	mxAccepts  = [][]uint32{{}, {13}, {12, 13, 14}, {0, 14}, {4294967295, 12}, {0, 12, 13, 14, 4294967295}}
)

const mxSide = 5 * 6 * 2 // 60 configurations per end

func cfgFromIndex(x int) sideCfg {
	return sideCfg{Version: mxVersions[x/12], Accept: mxAccepts[(x%12)/2], Mode: x % 2}
}

var clientPool = []string{"", "v1", "harness/1.2.3 (linux)", "", "client:middle:v0.36.6/desktop"}

func pickClient(r *rand.Rand) string {
	switch k := r.Intn(8); {
	case k < len(clientPool):
		return clientPool[k]
	case k == 5:
		return "long-" + strings.Repeat("x", 1100+r.Intn(900)) // larger than the pooled 1 KiB buffer
	default:
		return fmt.Sprintf("any-sync-harness/%d.%d", r.Intn(100), r.Intn(100))
	}
}

// expectCfg: the statement's necessary conditions on the configuration level.
func expectCfg(a, b sideCfg) (cond bool, why string, omitted bool) {
	switch {
	case !containsU32(b.Accept, a.Version):
		return false, "outgoing-version-not-in-incoming-list", a.Version == 0
	case !containsU32(a.Accept, b.Version):
		return false, "incoming-version-not-in-outgoing-list", b.Version == 0
	case b.Mode == modePeerSign && a.Mode != modePeerSign:
		return false, "incoming-requires-identity-outgoing-unsigned", false
	case a.Mode == modePeerSign && b.Mode != modePeerSign:
		return false, "outgoing-requires-identity-incoming-unsigned", false
	}
	return true, "", false
}

func donorCfg(r *rand.Rand, id *ident, k int) sideCfg {
	return sideCfg{Version: 7001, Accept: []uint32{7001}, Mode: k % 2, Client: fmt.Sprintf("donor-%d-%s", k, strings.Repeat("d", r.Intn(40))), id: id}
}

func runMatrix(c *lib.Case) {
	base := runtime.NumGoroutine()
	ai, bi := c.Index/mxSide, c.Index%mxSide
	reps := 1
	if !c.Quick() {
		reps = 20
	}
	var later []func()
	for rep := 0; rep < reps; rep++ {
		a, b := cfgFromIndex(ai), cfgFromIndex(bi)
		a.id, b.id = newIdent(c.Rng), newIdent(c.Rng)
		a.Client, b.Client = pickClient(c.Rng), pickClient(c.Rng)
		c.Count("matrix.configurations", 1)

		// a connection with other values first, so that the pooled handshake
		// objects the configuration under test picks up are not pristine
		dk := c.Rng.Intn(2)
		d := &runOpts{a: donorCfg(c.Rng, newIdent(c.Rng), dk), b: donorCfg(c.Rng, newIdent(c.Rng), dk), chunk: chunkWhole, incCloseOnErr: true}
		dout := execute(c, d)
		c.Eval(1)
		if j, _ := judge(c, d, dout, "undisturbed", nil); !(j.ok[0] && j.ok[1]) {
			c.Count("matrix.donor_connection_failed", 1)
		}
		later = append(later, func() { recheckAliasing(c, d, dout, "undisturbed") })

		chunks := []int{chunkWhole, chunkOne, chunkRandom + c.Rng.Intn(2)}
		for _, ch := range chunks {
			o := &runOpts{a: a, b: b, chunk: ch, incCloseOnErr: c.Rng.Intn(4) != 0}
			out := execute(c, o)
			c.Eval(1)
			c.Count("matrix.handshakes", 1)
			c.Count("frames.seen", int64(out.frames[0]+out.frames[1]))
			j, clean := judge(c, o, out, "undisturbed", nil)
			if out.hang != "" {
				continue
			}
			checkUndisturbed(c, o, out, j, clean, "matrix")
			c.Nontrivial(fmt.Sprintf("%d/%d/%s", ai, bi, chunkNames[ch]))
			later = append(later, func() { recheckAliasing(c, o, out, "undisturbed") })
			if ch == chunkWhole {
				c.Sample("pair-"+outcomeClass(j), map[string]any{"outgoing": a.String(), "incoming": b.String(),
					"outgoing_verdict": errStr(out.r[0].err), "incoming_verdict": errStr(out.r[1].err), "frames": out.frames[0] + out.frames[1]})
			}
		}
		runNetPipe(c, a, b)
	}
	for _, f := range later {
		f()
	}
	leakCheck(c, base)
}

// checkUndisturbed: clauses that hold only on an undisturbed reliable stream.
func checkUndisturbed(c *lib.Case, o *runOpts, out *runOut, j judged, clean bool, wl string) {
	cond, why, omitted := expectCfg(o.a, o.b)
	oc := outcomeClass(j)
	c.Count(wl+".outcome."+oc, 1)
	if out.r[0].err != nil {
		c.Count(wl+".fail_reason.outgoing."+errClass(out.r[0].err), 1)
	}
	if out.r[1].err != nil {
		c.Count(wl+".fail_reason.incoming."+errClass(out.r[1].err), 1)
	}
	detail := func() map[string]any {
		return map[string]any{"connection": o.describe(), "observed": out.summary(), "conditions_hold": cond, "first_failing_condition": why}
	}
	if out.stalled {
		c.Violation("undisturbed-stall", "on an undisturbed stream neither end could progress and only the deadline ended the handshake", detail())
	}
	if j.ok[0] != j.ok[1] {
		c.Violation("verdict-mismatch:undisturbed:"+oc, "the two ends of an undisturbed connection reached different verdicts", detail())
	}
	if cond {
		c.Count(wl+".conditions_hold", 1)
		if !(j.ok[0] && j.ok[1]) {
			reason := errClass(out.r[0].err)
			if hotfixBanned(o.a.Client) || hotfixBanned(o.b.Client) {
				reason = "client-version-hotfix-ban"
			}
			c.Count(wl+".conditions_hold_but_rejected(not judged)."+reason, 1)
		}
		return
	}
	c.Count(wl+".conditions_fail."+why, 1)
	if clean { // the byte-level acceptor had nothing to say: the configuration-level model decides
		for i := 0; i < 2; i++ {
			if j.ok[i] {
				pre := ""
				if omitted {
					pre = "cred-omits-version:"
				}
				c.Violation(pre+"accept:"+why+":"+roleNames[i]+"-success", "an end reported success although a stated condition does not hold: "+why, detail())
			}
		}
	}
}

// runNetPipe: the same configuration over the standard library's synchronous
// net.Pipe (every Write blocks until the peer has read it).
func runNetPipe(c *lib.Case, a, b sideCfg) {
	ca, cb := net.Pipe()
	ctx, cancel := context.WithTimeout(context.Background(), watchdogDur)
	defer cancel()
	type res struct {
		r   handshake.Result
		err error
	}
	chA, chB := make(chan res, 1), make(chan res, 1)
	go func() {
		r, err := handshake.OutgoingHandshake(ctx, ca, b.id.peerId, a.checker())
		if err != nil {
			ca.Close()
		}
		chA <- res{r, err}
	}()
	go func() {
		r, err := handshake.IncomingHandshake(ctx, cb, a.id.peerId, b.checker())
		if err != nil {
			cb.Close()
		}
		chB <- res{r, err}
	}()
	ra, rb := <-chA, <-chB
	ca.Close()
	cb.Close()
	c.Eval(1)
	c.Count("matrix.netpipe_handshakes", 1)
	detail := map[string]any{"outgoing": a.String(), "incoming": b.String(), "outgoing_verdict": errStr(ra.err), "incoming_verdict": errStr(rb.err), "pipe": "net.Pipe"}
	if ctx.Err() != nil {
		c.Violation("undisturbed-stall:net.Pipe", "over net.Pipe the handshake only ended with the deadline", detail)
		return
	}
	cond, why, omitted := expectCfg(a, b)
	okA, okB := ra.err == nil, rb.err == nil
	if okA != okB {
		c.Violation("verdict-mismatch:undisturbed:net.Pipe", "the two ends of an undisturbed net.Pipe connection reached different verdicts", detail)
	}
	pre := ""
	if omitted {
		pre = "cred-omits-version:"
	}
	if !cond && (okA || okB) {
		c.Violation(pre+"accept:"+why+":net.Pipe", "an end reported success although a stated condition does not hold: "+why, detail)
	}
	check := func(role string, me, peer sideCfg, r handshake.Result) {
		if me.Mode == modePeerSign {
			if !sameBytes(r.Identity, peer.id.pubMar) {
				c.Violation("result:identity-not-the-peers:"+role, "returned identity is not the peer's account key", detail)
			}
		} else if len(r.Identity) != 0 {
			c.Violation("result:identity-attached-without-verification:"+role, "an end that does not verify attached an identity", detail)
		}
		if r.ProtoVersion != peer.Version {
			p := ""
			if peer.Version == 0 {
				p = "cred-omits-version:"
			}
			c.Violation(p+"result:proto-version-not-the-peers:"+role, fmt.Sprintf("result proto version %d, peer's is %d", r.ProtoVersion, peer.Version), detail)
		}
		if r.ClientVersion != peer.Client {
			p := ""
			if peer.Client == "" {
				p = "cred-omits-client-version:"
			}
			c.Violation(p+"result:client-version-not-the-peers:"+role, fmt.Sprintf("result client version %q, peer's is %q", clip(r.ClientVersion), clip(peer.Client)), detail)
		}
	}
	if okA {
		check("outgoing", a, b, ra.r)
	}
	if okB {
		check("incoming", b, a, rb.r)
	}
}
