// Package c14: connection handshake — mutual version gating, proven identity,
// same verdict on both ends. Both ends run the real handshake.OutgoingHandshake
// / IncomingHandshake with the real credential checkers of net/secureservice
// (constructed through the verif hook) over a harness duplex pipe with a
// man-in-the-middle per direction (re-chunk, mutate, truncate, inject, replay,
// hold, cancel). The oracle is a reference acceptor evaluated over the bytes
// that were actually delivered to each end, plus a configuration-level model
// for undisturbed connections.
package c14

import (
	"runtime"
	"runtime/debug"
	"sync"
	"time"

	"verifharness/lib"
)

const seqProcs = 3

var tuneOnce sync.Once

type Prop struct{}

func (Prop) ID() string    { return "C14" }
func (Prop) Level() string { return "exploration" }
func (Prop) Rule() string {
	return "matrix: every ordered pair of (proto version in {0,12,13,14,2^32-1} x accepted list in 6 lists x {noVerify,peerSign}) = 3600 configurations, each over a 1-byte / random / whole-read pipe and net.Pipe, fresh identities, client-version strings incl. empty, >1 KiB and the hot-fix-banned one; a configuration is non-trivial when both ends returned a verdict; distinct = (pair, chunking). " +
		"disturb: one of the four frames of a connection (70% otherwise-successful configurations) is hit by one of 19 disturbance classes (byte flips, truncation, length edits, oversize, wrong type, out-of-order/duplicate/dropped/injected frames, trailing garbage, garbage, void re-encodings, injected error acks, re-encoded credentials); non-trivial when the target frame was reached; distinct = (class, frame, modes, verdicts, model reason). " +
		"replay: credentials recorded on A->B presented on 9 kinds of other connections (other dialer, other device of the same account, other listener, both, impersonating listener, reflection, and two same-endpoint controls). " +
		"cancel: context cancellation of either end at each of the four frame boundaries (frame held back, frame lost or still delivered on close) and racing with each frame. " +
		"poolreuse: sequences of connections through the shared sync.Pool where later credentials omit fields earlier ones carried. " +
		"concurrent (-race): 64 simultaneous connections with distinct identities/versions/client versions, some through shared checker instances, some failing or cancelled."
}
func (Prop) Assumptions() []string {
	return []string{
		"transport peer ids given to the calls are the authenticated ones (real libp2p ids derived from the peer keys); credentials, not peer ids, are what an attacker controls",
		"every handshake call runs under a context deadline as in the transports (yamux/quic dial and accept use DialTimeoutSec); the harness fires that deadline exactly when no end can progress any more, so no oracle reads the wall clock",
		"an end is judged on what was delivered to it: the sender of the last frame (incoming end) cannot learn that its final ack was destroyed in transit, its success is counted, not judged",
		"success is necessary-condition only (statement: 'success only when'); rejections although all stated conditions hold (e.g. the client-version hot-fix ban) are counted, not judged",
		"'oversized' is judged for frames above 1 MiB; sizes between the code's 200 KiB limit and 1 MiB are counted only",
		"generated vtproto UnmarshalVT (into a fresh message) defines what a frame 'decodes to'; framing, gating, signature and identity checks of the oracle are re-implemented independently (stdlib ed25519)",
	}
}

func (Prop) Plan(tier string) []lib.Workload {
	q := tier != "thorough"
	n := func(quick, thorough int) int {
		if q {
			return quick
		}
		return thorough
	}
	// every connection has its own watchdog (run.go); the case watchdog only
	// guards against a wedged harness and is therefore inconclusive, not a verdict
	const ct = 5 * time.Minute
	bt := time.Duration(0) // lib default (20 min)
	if !q {
		bt = 60 * time.Minute
	}
	return []lib.Workload{
		{Name: "matrix", Cases: 3600, Exhaustive: true, MinNontrivial: 3600, CaseTimeout: ct, BatchTimeout: bt},
		{Name: "disturb", Cases: n(500, 2000), MinNontrivial: n(300, 1000), CaseTimeout: ct, BatchTimeout: bt},
		{Name: "replay", Cases: n(100, 1500), MinNontrivial: n(50, 200), CaseTimeout: ct, BatchTimeout: bt},
		{Name: "cancel", Cases: n(100, 1500), MinNontrivial: n(20, 24), CaseTimeout: ct, BatchTimeout: bt},
		{Name: "poolreuse", Cases: n(64, 640), MinNontrivial: n(20, 100), Batches: 8, CaseTimeout: ct, BatchTimeout: bt},
		{Name: "concurrent", Cases: n(20, 600), Race: true, MinNontrivial: n(20, 600), Batches: n(10, 16), CaseTimeout: ct, BatchTimeout: bt},
	}
}

func (Prop) RunCase(c *lib.Case) {
	tuneOnce.Do(func() { debug.SetGCPercent(800) }) // tiny heaps: do not spend the run in GC cycles
	if c.Workload != "concurrent" {
		// a connection is lock-step between two ends; 16 worker processes with 16 Ps
		// each only make the scheduler spin (the concurrent workload keeps all Ps)
		// (set once per worker process: changing it stops the world)
		if runtime.GOMAXPROCS(0) > seqProcs {
			runtime.GOMAXPROCS(seqProcs)
		}
	}
	switch c.Workload {
	case "matrix":
		runMatrix(c)
	case "disturb":
		runDisturb(c)
	case "replay":
		runReplay(c)
	case "cancel":
		runCancel(c)
	case "poolreuse":
		runPoolReuse(c)
	case "concurrent":
		runConcurrent(c)
	}
}
