// Package c09: full-sync responses are complete, causally ordered and size-bounded.
package c09

import (
	"context"
	"fmt"
	"hash/fnv"
	"path/filepath"
	"sort"
	"strings"

	"github.com/anyproto/any-sync/commonspace/object/tree/objecttree"
	"github.com/anyproto/any-sync/commonspace/object/tree/synctree/response"
	"github.com/anyproto/any-sync/commonspace/object/tree/treechangeproto"

	"verifharness/engines/netsim"
	"verifharness/lib"
	"verifharness/props/c01"
)

type Prop struct{}

func (Prop) ID() string    { return "C09" }
func (Prop) Level() string { return "exploration" }
func (Prop) Rule() string {
	return "state pairs (responder i, requester j) are sampled mid-run and at the end of C01-style simulated schedules of real sync trees (diverged, one ahead, reduced to later snapshots, concurrent snapshots, requester heads partly unknown); for each pair and each batch limit in {1,64,300,2000,1MiB,1GiB} the real load iterator's batches are checked (completeness vs stored-set difference, causal placement, size bound, announced heads) and applied in order through the wire encoding and the real response handler to a clone of the requester's database; plus the empty-heads request; workload snap-pairs runs the same checks on schedules with snapshot probability 0.3-0.6 by 3-4 writers under 30-60 % loss (replicas reduced to different, often concurrent same-base snapshots). Non-trivial = the responder holds >=1 change the requester lacks; distinct = hash(responder stored ids, requester heads, limit)."
}
func (Prop) Assumptions() []string {
	return []string{"both states were reached through honest participation in the simulator (ancestor-closed stored sets)", "size of a change = length of its raw bytes (what the statement's limit is applied to)"}
}

func (Prop) Plan(tier string) []lib.Workload {
	n := 90
	if tier == "thorough" {
		n = 1200
	}
	// snap-pairs (added after seeded change C09-5 was caught by a single pair only): the same pair checks on
	// schedules with many snapshots by several writers under heavy loss
	return []lib.Workload{{Name: "pairs", Cases: n, MinNontrivial: n}, {Name: "snap-pairs", Cases: n * 2 / 3, MinNontrivial: n / 2}}
}

var limits = []int{1, 64, 300, 2000, 1 << 20, 1 << 30}
var bg = context.Background()

func (Prop) RunCase(c *lib.Case) {
	samples := 0
	maxSamples, every := 4, 12
	if c.Workload == "snap-pairs" {
		maxSamples, every = 6, 8
	}
	hook := &c01.Hook{
		AfterStep: func(s *netsim.Sim, step int) {
			if samples < maxSamples && c.Rng.Intn(every) == 0 {
				if checkRandomPair(c, s) {
					samples++
				}
			}
		},
	}
	// C01 monitors stay on: a violation of theirs is reported under C01's keys too
	// (it is the same simulator); the pair checks come from the hook.
	c01.RunScheduleOpts(c, hook, c01.Opts{NoAntiEntropy: false, Quiet: true})
}

func checkRandomPair(c *lib.Case, s *netsim.Sim) bool {
	var with []int
	for _, r := range s.Replicas {
		if r.HasTree {
			with = append(with, r.Idx)
		}
	}
	if len(with) < 2 {
		return false
	}
	i := with[c.Rng.Intn(len(with))]
	j := i
	for j == i {
		j = with[c.Rng.Intn(len(with))]
	}
	CheckPair(c, s, s.Replicas[i], s.Replicas[j])
	return true
}

func idsOf(st []netsim.StoredChange) map[string]netsim.StoredChange {
	m := map[string]netsim.StoredChange{}
	for _, ch := range st {
		m[ch.Id] = ch
	}
	return m
}

// CheckPair checks every limit for responder ri answering requester rj.
func CheckPair(c *lib.Case, s *netsim.Sim, ri, rj *netsim.Replica) {
	si, err := ri.Stored()
	if err != nil {
		c.Inconclusive("scan: " + err.Error())
		return
	}
	sj, err := rj.Stored()
	if err != nil {
		c.Inconclusive("scan: " + err.Error())
		return
	}
	mi, mj := idsOf(si), idsOf(sj)
	jHeads := rj.Heads()
	jPath, err := rj.SnapshotPath()
	if err != nil {
		c.Inconclusive("snapshot path: " + err.Error())
		return
	}
	var missing []string
	for id := range mi {
		if _, ok := mj[id]; !ok {
			missing = append(missing, id)
		}
	}
	sort.Strings(missing)
	unknownHeads := 0
	for _, h := range jHeads {
		if _, ok := mi[h]; !ok {
			unknownHeads++
		}
	}
	class := "equal"
	switch {
	case len(missing) > 0 && unknownHeads > 0:
		class = "diverged"
	case len(missing) > 0:
		class = "responder-ahead"
	case unknownHeads > 0:
		class = "requester-ahead"
	}
	c.Count("pairs."+class, 1)
	c.Sample(class, map[string]any{"responder": ri.Idx, "requester": rj.Idx, "responder_stored": len(si), "requester_stored": len(sj),
		"requester_lacks": len(missing), "requester_heads_unknown_to_responder": unknownHeads, "requester_path_len": len(jPath), "limits": limits})
	iPath, _ := ri.SnapshotPath()
	if len(iPath) > 0 && len(jPath) > 0 && iPath[0] != jPath[0] {
		c.Count("pairs.different_current_snapshot", 1)
	}
	detail := func(limit int, extra map[string]any) map[string]any {
		d := map[string]any{"responder": ri.Idx, "requester": rj.Idx, "limit": limit, "class": class, "requester_heads": jHeads, "requester_path": jPath,
			"responder_path": iPath, "missing_at_requester": len(missing), "step": s.Step}
		for k, v := range extra {
			d[k] = v
		}
		return d
	}
	for _, limit := range limits {
		c.Eval(1)
		batches, err := loadBatches(ri, jPath, jHeads, limit)
		if err != nil {
			c.Violation("loader-error:"+class, "the responder could not produce a response for an honest requester state", detail(limit, map[string]any{"err": err.Error()}))
			continue
		}
		if len(missing) > 0 {
			h := fnv.New64a()
			for _, ch := range si {
				h.Write([]byte(ch.Id))
			}
			fmt.Fprintf(h, "|%v|%d", jHeads, limit)
			c.Nontrivial(fmt.Sprintf("%x", h.Sum64()))
		}
		c.Count("batches", int64(len(batches)))
		sent := map[string]int{} // id -> position
		pos := 0
		for k, b := range batches {
			size := 0
			for _, ch := range b.Batch {
				size += len(ch.RawChange)
			}
			if size > limit && len(b.Batch) > 1 {
				c.Violation("batch-over-limit", "a response batch with more than one change exceeds the size limit", detail(limit, map[string]any{"batch": k, "size": size, "changes": len(b.Batch)}))
			}
			if len(b.Batch) > 1 {
				c.Count("multi_change_batches", 1)
			}
			for _, ch := range b.Batch {
				sc, ok := mi[ch.Id]
				if !ok {
					c.Violation("streamed-unknown-change", "the stream contains a change the responder does not store", detail(limit, map[string]any{"id": ch.Id}))
					continue
				}
				if _, dup := sent[ch.Id]; dup {
					c.Count("duplicates_in_stream", 1)
				}
				for _, p := range sc.PrevIds {
					if _, has := mj[p]; has {
						continue
					}
					if _, before := sent[p]; !before {
						c.Violation("child-before-parent", "a change is streamed before a parent the requester does not hold", detail(limit, map[string]any{"change": ch.Id, "parent": p, "batch": k}))
					}
				}
				sent[ch.Id] = pos
				pos++
			}
			// announced heads
			for _, h := range b.Heads {
				_, s1 := sent[h]
				_, both := mj[h]
				if _, inI := mi[h]; !inI {
					both = false
				}
				if !s1 && !both {
					c.Violation("announced-head-not-sent", "a batch announces a head that was neither sent so far nor held by both sides", detail(limit, map[string]any{"head": h, "batch": k}))
				}
			}
			for id := range sent {
				for _, p := range mi[id].PrevIds {
					for _, h := range b.Heads {
						if h == p {
							c.Violation("announced-head-is-parent", "a batch announces as head a change that is a parent of an already sent change", detail(limit, map[string]any{"head": h, "child": id, "batch": k}))
						}
					}
				}
			}
		}
		for _, id := range missing {
			if _, ok := sent[id]; !ok {
				c.Violation("incomplete-response:"+class, "the stream omits a change the responder holds and the requester lacks", detail(limit, map[string]any{"omitted": id, "streamed": len(sent)}))
				break
			}
		}
		// apply to a clone of the requester
		if len(sent) > 0 {
			applyToClone(c, s, ri, rj, batches, mi, limit, detail)
		}
	}
	// the responder grows while it streams (the real handler releases the tree lock before pulling batches)
	growingResponder(c, s, ri, rj, mi, mj, jPath, jHeads, class, detail)

	// empty path + empty heads: the whole tree
	c.Eval(1)
	batches, err := loadBatches(ri, nil, nil, 1<<30)
	if err != nil {
		c.Violation("loader-error:empty-request", "empty-heads request failed", detail(0, map[string]any{"err": err.Error()}))
		return
	}
	got := map[string]bool{}
	for _, b := range batches {
		for _, ch := range b.Batch {
			got[ch.Id] = true
		}
	}
	for id := range mi {
		if id != s.TreeId && !got[id] {
			c.Violation("empty-request-incomplete", "an empty-heads request does not return the whole tree", detail(0, map[string]any{"omitted": id, "returned": len(got), "stored": len(mi)}))
			break
		}
	}
	c.Count("empty_requests", 1)
}

func loadBatches(ri *netsim.Replica, path, heads []string, limit int) ([]objecttree.IteratorBatch, error) {
	ri.Tree.Lock()
	defer ri.Tree.Unlock()
	it, err := ri.Tree.ChangesAfterCommonSnapshotLoader(path, heads)
	if err != nil {
		return nil, err
	}
	var out []objecttree.IteratorBatch
	for n := 0; n < 100000; n++ {
		b, err := it.NextBatch(limit)
		if err != nil {
			return nil, err
		}
		if len(b.Batch) == 0 {
			return out, nil
		}
		// copy the slices: the iterator may reuse them
		cp := objecttree.IteratorBatch{Root: b.Root, Heads: append([]string{}, b.Heads...), SnapshotPath: append([]string{}, b.SnapshotPath...)}
		for _, ch := range b.Batch {
			cp.Batch = append(cp.Batch, &treechangeproto.RawTreeChangeWithId{Id: ch.Id, RawChange: append([]byte{}, ch.RawChange...)})
		}
		out = append(out, cp)
	}
	return nil, fmt.Errorf("iterator did not terminate within 100000 batches")
}

var cloneSeq int

func applyToClone(c *lib.Case, s *netsim.Sim, ri, rj *netsim.Replica, batches []objecttree.IteratorBatch, mi map[string]netsim.StoredChange, limit int, detail func(int, map[string]any) map[string]any) {
	cloneSeq++
	cl, err := rj.Clone(filepath.Join(c.TmpDir, fmt.Sprintf("clone-%d", cloneSeq)))
	if err != nil {
		c.Inconclusive("clone: " + err.Error())
		return
	}
	defer cl.CloseDetached()
	c.Count("clones_applied", 1)
	for k, b := range batches {
		resp := &response.Response{SpaceId: s.SpaceId, ObjectId: s.TreeId, Heads: b.Heads, SnapshotPath: b.SnapshotPath, Changes: b.Batch, Root: b.Root}
		if err := s.ApplyResponse(cl, ri.PeerId, resp); err != nil {
			c.Violation("apply-error", "applying the streamed batches in order to the requester's state failed",
				detail(limit, map[string]any{"batch": k, "of": len(batches), "err": trimIds(err.Error())}))
			return
		}
	}
	after, err := cl.StoredIds()
	if err != nil {
		c.Inconclusive("scan clone: " + err.Error())
		return
	}
	have := map[string]bool{}
	for _, id := range after {
		have[id] = true
	}
	for _, b := range batches {
		for _, ch := range b.Batch {
			if !have[ch.Id] {
				c.Violation("streamed-change-not-attached", "after applying all batches in order a streamed change is not part of the requester's tree", detail(limit, map[string]any{"change": ch.Id}))
				return
			}
		}
	}
	for id := range mi {
		if !have[id] {
			c.Violation("requester-still-behind", "after applying all batches the requester still lacks a change the responder holds", detail(limit, map[string]any{"change": id}))
			return
		}
	}
}

func trimIds(s string) string {
	f := strings.Fields(s)
	for i, w := range f {
		if len(w) > 40 {
			f[i] = "<id>"
		}
	}
	return strings.Join(f, " ")
}

// growingResponder: on a clone of the responder, the iterator is created, one batch is pulled, then
// the clone receives changes it lacked (streamed by a third replica), then the remaining batches are
// pulled. The stream must still be a consistent cut: everything the responder held at request time
// that the requester lacks is streamed, every streamed change comes after its parents the requester
// lacks, and applying the batches in order attaches all of them. Changes that arrived after the
// request may or may not be included. (Added after seeded change C09-3 - NextBatch streaming changes
// stored after the iterator was loaded - was missed: all other checks pull the batches atomically.)
func growingResponder(c *lib.Case, s *netsim.Sim, ri, rj *netsim.Replica, mi, mj map[string]netsim.StoredChange, jPath, jHeads []string, class string,
	detail func(int, map[string]any) map[string]any) {
	// a third replica holding changes the responder lacks
	var rk *netsim.Replica
	for _, r := range s.Replicas {
		if !r.HasTree || r.Idx == ri.Idx {
			continue
		}
		ids, err := r.StoredIds()
		if err != nil {
			continue
		}
		for _, id := range ids {
			if _, ok := mi[id]; !ok {
				rk = r
				break
			}
		}
		if rk != nil {
			break
		}
	}
	if rk == nil {
		return
	}
	for _, limit := range []int{1, 300} {
		cloneSeq++
		cl, err := ri.Clone(filepath.Join(c.TmpDir, fmt.Sprintf("grow-%d", cloneSeq)))
		if err != nil {
			c.Inconclusive("clone responder: " + err.Error())
			return
		}
		func() {
			defer cl.CloseDetached()
			iPath, _ := cl.SnapshotPath()
			extra, err := loadBatches(rk, iPath, cl.Heads(), 1<<20)
			if err != nil || len(extra) == 0 {
				return
			}
			cl.Tree.Lock()
			it, err := cl.Tree.ChangesAfterCommonSnapshotLoader(jPath, jHeads)
			cl.Tree.Unlock()
			if err != nil {
				return
			}
			var batches []objecttree.IteratorBatch
			pull := func(max int) bool {
				for n := 0; n < max; n++ {
					b, err := it.NextBatch(limit)
					if err != nil {
						c.Violation("loader-error:growing-responder", "NextBatch failed while the responder's tree grew", detail(limit, map[string]any{"err": err.Error()}))
						return false
					}
					if len(b.Batch) == 0 {
						return false
					}
					cp := objecttree.IteratorBatch{Root: b.Root, Heads: append([]string{}, b.Heads...), SnapshotPath: append([]string{}, b.SnapshotPath...)}
					for _, ch := range b.Batch {
						cp.Batch = append(cp.Batch, &treechangeproto.RawTreeChangeWithId{Id: ch.Id, RawChange: append([]byte{}, ch.RawChange...)})
					}
					batches = append(batches, cp)
				}
				return true
			}
			if !pull(1 + c.Rng.Intn(2)) {
				return // nothing (more) to stream: no window to grow in
			}
			// the responder grows
			grew := 0
			for _, b := range extra {
				resp := &response.Response{SpaceId: s.SpaceId, ObjectId: s.TreeId, Heads: b.Heads, SnapshotPath: b.SnapshotPath, Changes: b.Batch, Root: b.Root}
				if err := s.ApplyResponse(cl, rk.PeerId, resp); err == nil {
					grew += len(b.Batch)
				}
			}
			pull(100000)
			c.Eval(1)
			c.Count("growing_responder.streams", 1)
			c.Count("growing_responder.changes_arrived_mid_stream", int64(grew))
			after, _ := cl.Stored()
			all := idsOf(after) // parents are looked up in the grown state
			sent := map[string]bool{}
			for k, b := range batches {
				for _, ch := range b.Batch {
					sc, ok := all[ch.Id]
					if !ok {
						continue
					}
					for _, p := range sc.PrevIds {
						if _, has := mj[p]; has {
							continue
						}
						if !sent[p] {
							c.Violation("child-before-parent:growing-responder", "while the responder's tree grew mid-stream, a change was streamed without (before) a parent the requester does not hold",
								detail(limit, map[string]any{"change": ch.Id, "parent": p, "batch": k, "arrived_mid_stream": grew}))
							return
						}
					}
					sent[ch.Id] = true
				}
			}
			for id := range mi {
				if _, has := mj[id]; !has && !sent[id] {
					c.Violation("incomplete-response:growing-responder", "a change the responder held at request time and the requester lacks was not streamed", detail(limit, map[string]any{"omitted": id}))
					return
				}
			}
			// apply to a clone of the requester
			cloneSeq++
			cj, err := rj.Clone(filepath.Join(c.TmpDir, fmt.Sprintf("growj-%d", cloneSeq)))
			if err != nil {
				return
			}
			defer cj.CloseDetached()
			for k, b := range batches {
				resp := &response.Response{SpaceId: s.SpaceId, ObjectId: s.TreeId, Heads: b.Heads, SnapshotPath: b.SnapshotPath, Changes: b.Batch, Root: b.Root}
				if err := s.ApplyResponse(cj, ri.PeerId, resp); err != nil {
					c.Violation("apply-error:growing-responder", "applying the batches of a stream whose responder grew mid-stream failed", detail(limit, map[string]any{"batch": k, "err": trimIds(err.Error())}))
					return
				}
			}
			have, _ := cj.StoredIds()
			hs := map[string]bool{}
			for _, id := range have {
				hs[id] = true
			}
			for id := range sent {
				if !hs[id] {
					c.Violation("streamed-change-not-attached:growing-responder", "a streamed change is not part of the requester's tree after applying all batches in order", detail(limit, map[string]any{"change": id, "arrived_mid_stream": grew}))
					return
				}
			}
		}()
	}
}
