// Package c19: outbound messaging through the stream pool is bounded and
// isolated - a stuck peer blocks nobody. A real standalone stream pool is
// driven with harness-owned fake drpc streams (healthy / slow / blocked
// forever / failing); monitors observe what every fake stream is handed, the
// call/return of every pool call, and the pool's indexes.
package c19

import (
	"time"

	"verifharness/lib"
)

type Prop struct{}

func (Prop) ID() string    { return "C19" }
func (Prop) Level() string { return "exploration" }
func (Prop) Rule() string {
	return "scenario: queue size = {1,2,7,100}[i mod 4], stream mix = one of 16 fixed mixes of healthy/slow/blocked-forever/failing streams [(i/4) mod 16], random peer sharing, tags, dial workers {1,2,4}, dial queue {1,4,64} and 30-160 scheduler steps (Broadcast / SendById / Send / burst > queue+1 / tag add+remove / stream end by read error or Close / token grants / index snapshot / isolation barrier / dial-queue jam), all calls issued by one scheduler against a reference model of the indexes; non-trivial = a blocked, slow or failing stream is present or a stream ended; distinct = (queue size, workers, mix, end kinds, op-sequence signature). race: 8 goroutines x 40-160 random calls (same op set incl. stream ends) on 4-7 streams under the race detector, quiescence leak check; non-trivial = a blocked stream was present or a stream ended during the round. mq: util/multiqueue (and the sync service's receive queue built on it) with a stuck / slow / healthy handler per thread id, queue sizes {1,2,7,100}; non-trivial = a stuck thread was present."
}
func (Prop) Assumptions() []string {
	return []string{
		"a stuck peer is a stream whose MsgSend never returns while the stream is alive; Close of the stream makes a pending MsgSend/MsgRecv return an error (as a real drpc stream does); dialing (StreamHandler.OpenStream) itself is never stuck",
		"acceptance of a frame by a per-stream queue is not observable from return values, so delivery is demanded only where the scheduler kept fewer than queueSize frames outstanding; elsewhere order, bounds and nothing-after-the-end are demanded",
		"a frame already queued or in flight when a stream ends may still be offered to the closed stream object; 'later sends do not target it' is checked for sends that start after the pool's close hook for that stream has run",
		"the order of frames sent with Send (asynchronous, through the dial pool) is checked only with one dial worker",
		"SendById with several peer ids: only the call's return and the common checks are judged (the implementation stops after the first successful write; the statement does not cover it)",
	}
}

func (Prop) Plan(tier string) []lib.Workload {
	sc, race, mq, mqr := 304, 32, 96, 8
	rb, mb := 4, 2 // the race binary is slow to start: fewer, longer batches
	if tier == "thorough" {
		sc, race, mq, mqr = 20000, 3000, 6000, 400
		rb, mb = 16, 16
	}
	return []lib.Workload{
		{Name: "scenario", Cases: sc, MinNontrivial: sc / 2, CaseTimeout: 4 * time.Minute},
		{Name: "race", Cases: race, Race: true, Batches: rb, MinNontrivial: race / 2, CaseTimeout: 4 * time.Minute},
		{Name: "mq", Cases: mq, MinNontrivial: mq / 2, CaseTimeout: 4 * time.Minute},
		{Name: "mqrace", Cases: mqr, Race: true, Batches: mb, MinNontrivial: mqr / 2, CaseTimeout: 4 * time.Minute},
	}
}

func (Prop) RunCase(c *lib.Case) {
	switch c.Workload {
	case "scenario":
		runScenario(c)
	case "race":
		runRace(c)
	case "mq":
		runMQ(c, false)
	case "mqrace":
		runMQ(c, true)
	}
}
