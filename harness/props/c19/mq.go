package c19

import (
	"context"
	"errors"
	"fmt"
	"math/rand"
	"runtime/debug"
	"strings"
	"sync"
	"sync/atomic"
	"time"

	"github.com/cheggaaa/mb/v3"
	"google.golang.org/protobuf/proto"
	"storj.io/drpc"

	"github.com/anyproto/any-sync/app"
	"github.com/anyproto/any-sync/commonspace/peermanager"
	"github.com/anyproto/any-sync/commonspace/spacestate"
	"github.com/anyproto/any-sync/commonspace/spacesyncproto"
	commonsync "github.com/anyproto/any-sync/commonspace/sync"
	"github.com/anyproto/any-sync/commonspace/sync/syncdeps"
	"github.com/anyproto/any-sync/util/multiqueue"
	"github.com/anyproto/any-sync/util/syncqueues"

	"verifharness/lib"
)

// The mq workloads: util/multiqueue - the per-key bounded queue the sync
// service puts in front of its message handler - driven directly and through
// commonspace/sync's HandleMessage. A key whose handler is stuck must not
// block Add for any key, buffers at most its configured number of messages,
// and the other keys' accepted messages are all handled, in order.

type mqMsg struct {
	thread string
	inc    int // incarnation of the thread (CloseThread count when sent)
	prod   int
	seq    int
	marker int
	t0     int64
}

func (m *mqMsg) MsgSize() uint64                       { return 8 }
func (m *mqMsg) ObjectId() string                      { return m.thread }
func (m *mqMsg) ObjectType() spacesyncproto.ObjectType { return spacesyncproto.ObjectType_Tree }
func (m *mqMsg) String() string {
	return fmt.Sprintf("%s/%d p%d#%d", m.thread, m.inc, m.prod, m.seq)
}

type mqThread struct {
	id       string
	mode     int
	tokens   int
	free     bool
	released bool
	relT     int64
	handled  []*mqMsg
	inH      int
	overlap  bool
	closes   int
	markers  map[int]bool
	wakeT    chan struct{}
}

func (t *mqThread) kick() { close(t.wakeT); t.wakeT = make(chan struct{}) }

type mqEnv struct {
	c       *lib.Case
	size    int
	mu      sync.Mutex
	wake    chan struct{}
	threads map[string]*mqThread
	torn    bool
	clock   atomic.Int64
	sizeBal int64 // UpdateQueueSize balance
	add     func(thread string, m *mqMsg) error
	known   bool // acceptance observable from the return value
	closeT  func(thread string) error
	ids     func() []string
	closeQ  func() error
}

func (e *mqEnv) notifyLocked() { close(e.wake); e.wake = make(chan struct{}) }

func (e *mqEnv) UpdateQueueSize(size uint64, msgType int, add bool) {
	if add {
		atomic.AddInt64(&e.sizeBal, int64(size))
	} else {
		atomic.AddInt64(&e.sizeBal, -int64(size))
	}
}

// handle is the queue's handler; it runs on the thread's goroutine.
func (e *mqEnv) handle(m *mqMsg) {
	e.mu.Lock()
	t := e.threads[m.thread]
	t.inH++
	if t.inH > 1 && t.closes == 0 {
		t.overlap = true
	}
	t.handled = append(t.handled, m)
	if m.marker != 0 {
		t.markers[m.marker] = true
	}
	e.notifyLocked()
	for !e.torn {
		ok := false
		switch t.mode {
		case modeHealthy:
			ok = true
		case modeSlow:
			if t.free {
				ok = true
			} else if t.tokens > 0 {
				t.tokens--
				ok = true
			}
		case modeBlocked:
			ok = t.released
		}
		if ok {
			break
		}
		ch := t.wakeT
		e.mu.Unlock()
		<-ch
		e.mu.Lock()
	}
	t.inH--
	e.notifyLocked()
	e.mu.Unlock()
}

func (e *mqEnv) waitFor(pred func() bool) bool {
	tm := time.NewTimer(waitWatchdog)
	defer tm.Stop()
	for {
		e.mu.Lock()
		ok := pred()
		ch := e.wake
		e.mu.Unlock()
		if ok {
			return true
		}
		select {
		case <-ch:
		case <-tm.C:
			return false
		}
	}
}

const mqCallMarker = "c19.mqCall"

//go:noinline
func mqCall(f func() error) error { return f() }

// call runs one queue call under the call watchdog (verdict from the dump).
func (e *mqEnv) call(kind string, f func() error) (error, bool) {
	type res struct {
		err error
		bad bool
	}
	done := make(chan res, 1)
	go func() {
		defer func() {
			if r := recover(); r != nil {
				st := debug.Stack()
				key, inRepo := lib.PanicKey(r, st)
				if inRepo {
					e.c.Violation(key, fmt.Sprintf("panic in repository code during %s: %v", kind, r), map[string]any{"stack": trim(string(st), 4000)})
				} else {
					e.c.Inconclusive(fmt.Sprintf("HARNESS-PANIC in %s: %v\n%s", kind, r, trim(string(st), 3000)))
				}
				done <- res{bad: true}
			}
		}()
		done <- res{err: mqCall(f)}
	}()
	tm := time.NewTimer(callWatchdog)
	defer tm.Stop()
	select {
	case r := <-done:
		return r.err, !r.bad
	case <-tm.C:
	}
	e.judgeStuck(kind, mqCallMarker)
	return nil, false
}

func (e *mqEnv) judgeStuck(kind, marker string) {
	dump := goroutineDump()
	n := 0
	for _, g := range strings.Split(dump, "\n\n") {
		if !strings.Contains(g, marker) {
			continue
		}
		n++
		st := goroutineState(g)
		fr := lib.FirstRepoFrame(g)
		if fr != "" && isParked(st) {
			e.c.Violation("blocked-call:"+kind+":"+fr, "a queue call did not return while another key's handler was stuck; the caller is parked in repository code",
				map[string]any{"state": st, "goroutine": trim(g, 3000), "threads": e.describe()})
			return
		}
	}
	e.c.Inconclusive(fmt.Sprintf("call watchdog fired for %s but no caller is parked in repository code (%d candidates)", kind, n))
}

func (e *mqEnv) describe() []string {
	e.mu.Lock()
	defer e.mu.Unlock()
	var out []string
	for _, t := range e.threads {
		out = append(out, fmt.Sprintf("%s(%s) handled=%d inHandler=%d released=%v closes=%d", t.id, modeNames[t.mode], len(t.handled), t.inH, t.released, t.closes))
	}
	return out
}

func (e *mqEnv) teardown() {
	e.mu.Lock()
	e.torn = true
	for _, t := range e.threads {
		t.kick()
	}
	e.notifyLocked()
	e.mu.Unlock()
	if e.closeQ != nil {
		_ = e.closeQ()
	}
}

// ---- the sync service on top of the queue

type fakeSyncHandler struct{ e *mqEnv }

func (h *fakeSyncHandler) Init(a *app.App) error { return nil }
func (h *fakeSyncHandler) Name() string          { return syncdeps.CName }
func (h *fakeSyncHandler) HandleHeadUpdate(ctx context.Context, headUpdate drpc.Message) (syncdeps.Request, error) {
	h.e.handle(headUpdate.(*mqMsg))
	return nil, nil
}
func (h *fakeSyncHandler) HandleStreamRequest(ctx context.Context, rq syncdeps.Request, updater syncdeps.QueueSizeUpdater, sendResponse func(resp proto.Message) error) (syncdeps.Request, error) {
	return nil, nil
}
func (h *fakeSyncHandler) ApplyRequest(ctx context.Context, rq syncdeps.Request, requestSender syncdeps.RequestSender) error {
	return nil
}
func (h *fakeSyncHandler) SendStreamRequest(ctx context.Context, rq syncdeps.Request, receive func(stream drpc.Stream) error) error {
	return nil
}

type fakePeerManager struct{ peermanager.PeerManager }

func (fakePeerManager) Init(a *app.App) error { return nil }
func (fakePeerManager) Name() string          { return peermanager.CName }

type fakeSyncQueues struct{}

func (fakeSyncQueues) Init(a *app.App) error                           { return nil }
func (fakeSyncQueues) Name() string                                    { return syncqueues.CName }
func (fakeSyncQueues) Run(ctx context.Context) error                   { return nil }
func (fakeSyncQueues) Close(ctx context.Context) error                 { return nil }
func (fakeSyncQueues) ActionPool(spaceId string) syncqueues.ActionPool { return nil }
func (fakeSyncQueues) Limit(spaceId string) *syncqueues.Limit          { return nil }

func (e *mqEnv) useSyncService() error {
	a := new(app.App)
	a.Register(&spacestate.SpaceState{SpaceId: "space.verif"})
	a.Register(&fakeSyncHandler{e: e})
	a.Register(fakePeerManager{})
	a.Register(fakeSyncQueues{})
	svc := commonsync.NewSyncService()
	if err := svc.Init(a); err != nil {
		return err
	}
	e.size = 100 // fixed by the sync service
	e.known = false
	e.add = func(thread string, m *mqMsg) error { return svc.HandleMessage(context.Background(), m) }
	e.closeT = func(thread string) error { return svc.CloseReceiveQueue(thread) }
	e.ids = nil
	e.closeQ = func() error {
		if cl, ok := svc.(interface{ Close(ctx context.Context) error }); ok {
			return cl.Close(context.Background())
		}
		return nil
	}
	return nil
}

func (e *mqEnv) useQueue() {
	q := multiqueue.New[*mqMsg](e.handle, e, 0, e.size)
	e.known = true
	e.add = func(thread string, m *mqMsg) error { return q.Add(context.Background(), thread, m) }
	e.closeT = q.CloseThread
	e.ids = q.ThreadIds
	e.closeQ = q.Close
}

// ---- the workload

type mqProducer struct {
	e        *mqEnv
	id       int
	seq      int
	accepted map[string][]*mqMsg // per thread, in sending order, frames known to be accepted
	sent     map[string][]*mqMsg
	refused  map[*mqMsg]bool
}

func runMQ(c *lib.Case, conc bool) {
	setupProcess()
	rng := c.Rng
	e := &mqEnv{c: c, size: queueSizes[c.Index%4], wake: make(chan struct{}), threads: map[string]*mqThread{}}
	viaSync := c.Index%5 == 4
	if viaSync {
		if err := e.useSyncService(); err != nil {
			c.Inconclusive("sync service could not be constructed: " + err.Error())
			return
		}
	} else {
		e.useQueue()
	}
	defer e.teardown()
	c.Eval(1)
	level := "multiqueue"
	if viaSync {
		level = "syncservice"
	}
	c.Count("mq.level."+level, 1)
	c.Count(fmt.Sprintf("mq.queue_size.%d", e.size), 1)

	nT := 2 + rng.Intn(4)
	var ids []string
	var sig []string
	blocked := 0
	for i := 0; i < nT; i++ {
		mode := []int{modeHealthy, modeHealthy, modeSlow, modeBlocked}[rng.Intn(4)]
		if i == 0 {
			mode = modeHealthy
		}
		if i == 1 && c.Index%7 != 6 {
			mode = modeBlocked
		}
		if mode == modeBlocked {
			blocked++
		}
		id := fmt.Sprintf("k%d", i)
		e.threads[id] = &mqThread{id: id, mode: mode, markers: map[int]bool{}, wakeT: make(chan struct{})}
		ids = append(ids, id)
		sig = append(sig, modeNames[mode])
	}
	closable := map[string]bool{}
	var closableIds []string
	for _, id := range ids {
		if e.threads[id].mode == modeHealthy && rng.Intn(3) == 0 && id != "k0" {
			closable[id] = true
			closableIds = append(closableIds, id)
		}
	}
	nProd := 1
	if conc {
		nProd = raceWorkers
	}
	prods := make([]*mqProducer, nProd)
	for i := range prods {
		prods[i] = &mqProducer{e: e, id: i + 1, accepted: map[string][]*mqMsg{}, sent: map[string][]*mqMsg{}, refused: map[*mqMsg]bool{}}
	}
	var stop atomic.Bool
	var cmu sync.Mutex
	counts := map[string]int64{}
	cnt := func(k string, n int64) { cmu.Lock(); counts[k] += n; cmu.Unlock() }

	// one producer step; in the single-producer form every call runs under the call watchdog
	doAdd := func(p *mqProducer, thread string) bool {
		e.mu.Lock()
		inc := e.threads[thread].closes
		e.mu.Unlock()
		p.seq++
		m := &mqMsg{thread: thread, inc: inc, prod: p.id, seq: p.seq, t0: e.clock.Add(1)}
		var err error
		if conc {
			err = mqCall(func() error { return e.add(thread, m) })
		} else {
			var ok bool
			err, ok = e.call("Add", func() error { return e.add(thread, m) })
			if !ok {
				stop.Store(true)
				return false
			}
		}
		cnt("mq.calls.Add", 1)
		p.sent[thread] = append(p.sent[thread], m)
		switch {
		case err == nil && e.known:
			p.accepted[thread] = append(p.accepted[thread], m)
			cnt("mq.add.accepted", 1)
		case err == nil:
			cnt("mq.add.returned_nil_acceptance_unknown", 1)
		case errors.Is(err, mb.ErrOverflowed):
			p.refused[m] = true
			cnt("mq.add.refused_queue_full", 1)
		case errors.Is(err, mb.ErrClosed) || errors.Is(err, multiqueue.ErrClosed):
			p.refused[m] = true
			cnt("mq.add.refused_closed", 1)
		default:
			p.refused[m] = true
			cnt("mq.add.other_error", 1)
		}
		return true
	}
	step := func(p *mqProducer, rng *rand.Rand) {
		r := rng.Intn(100)
		switch {
		case r < 70:
			doAdd(p, ids[rng.Intn(len(ids))])
		case r < 78:
			// burst beyond the bound towards a stuck key
			var bl []string
			for _, id := range ids {
				if e.threads[id].mode == modeBlocked {
					bl = append(bl, id)
				}
			}
			if len(bl) == 0 {
				return
			}
			id := bl[rng.Intn(len(bl))]
			n := e.size + 3
			if conc && n > 20 {
				n = 20
			}
			for i := 0; i < n && !stop.Load(); i++ {
				doAdd(p, id)
			}
			cnt("mq.bursts", 1)
		case r < 88:
			e.mu.Lock()
			for _, t := range e.threads {
				if t.mode == modeSlow {
					t.tokens += 1 + rng.Intn(3)
					t.kick()
				}
			}
			e.mu.Unlock()
		case r < 93:
			if len(closableIds) == 0 {
				return
			}
			id := closableIds[rng.Intn(len(closableIds))]
			e.mu.Lock()
			e.threads[id].closes++
			e.mu.Unlock()
			if conc {
				_ = mqCall(func() error { return e.closeT(id) })
			} else if _, ok := e.call("CloseThread", func() error { return e.closeT(id) }); !ok {
				stop.Store(true)
			}
			cnt("mq.calls.CloseThread", 1)
		default:
			if e.ids != nil {
				if conc {
					_ = mqCall(func() error { e.ids(); return nil })
				} else if _, ok := e.call("ThreadIds", func() error { e.ids(); return nil }); !ok {
					stop.Store(true)
				}
				cnt("mq.calls.ThreadIds", 1)
			}
		}
	}

	if !conc {
		nOps := 60 + rng.Intn(200)
		for i := 0; i < nOps && !stop.Load(); i++ {
			step(prods[0], rng)
		}
	} else {
		var wg sync.WaitGroup
		done := make(chan struct{})
		for _, p := range prods {
			wg.Add(1)
			nOps := 60 + rng.Intn(200)
			wrng := rand.New(rand.NewSource(rng.Int63()))
			go func(p *mqProducer) {
				defer wg.Done()
				defer func() {
					if r := recover(); r != nil {
						st := debug.Stack()
						key, inRepo := lib.PanicKey(r, st)
						if inRepo {
							c.Violation(key, fmt.Sprintf("panic in repository code in a concurrent queue call: %v", r), map[string]any{"stack": trim(string(st), 4000)})
						} else {
							c.Inconclusive(fmt.Sprintf("HARNESS-PANIC in mq worker: %v\n%s", r, trim(string(st), 3000)))
						}
						stop.Store(true)
					}
				}()
				mqWorkerLoop(func() {
					for i := 0; i < nOps && !stop.Load(); i++ {
						step(p, wrng)
					}
				})
			}(p)
		}
		go func() { wg.Wait(); close(done) }()
		tm := time.NewTimer(5 * callWatchdog)
		select {
		case <-done:
			tm.Stop()
		case <-tm.C:
			e.judgeStuck("concurrent", "c19.mqWorkerLoop")
			stop.Store(true)
		}
	}
	for k, v := range counts {
		c.Count(k, v)
	}
	if stop.Load() {
		c.Count("mq.stopped_early", 1)
		return
	}

	// ---- quiescence and verdicts
	// 1. isolation: with the stuck keys still stuck, every other key handles a marker (FIFO: and so everything accepted before it)
	markerN := 0
	drain := func(id string) bool {
		t := e.threads[id]
		e.mu.Lock()
		t.free = true
		t.kick()
		e.mu.Unlock()
		for attempt := 0; attempt < 8; attempt++ {
			e.mu.Lock()
			n0 := len(t.handled)
			inc := t.closes
			e.mu.Unlock()
			markerN++
			mk := markerN
			m := &mqMsg{thread: id, inc: inc, prod: -1, marker: mk, t0: e.clock.Add(1)}
			err, ok := e.call("Add", func() error { return e.add(id, m) })
			if !ok {
				return false
			}
			if err != nil && !errors.Is(err, mb.ErrOverflowed) {
				c.Inconclusive("marker refused: " + err.Error())
				return false
			}
			refusedKnown := err != nil
			if !e.waitFor(func() bool {
				return t.markers[mk] || (refusedKnown && len(t.handled) > n0) || (!e.known && len(t.handled) >= n0+e.size)
			}) {
				// verdict from state: the key's handler is idle, the queue accepted the marker, nothing is handed over
				e.mu.Lock()
				idle := t.inH == 0
				e.mu.Unlock()
				if idle && !refusedKnown && e.known {
					c.Violation("mq:undelivered:accepted-message-never-handled", "a message accepted for a key whose handler is idle was never handled",
						map[string]any{"thread": id, "threads": e.describe()})
				} else {
					c.Inconclusive("marker watchdog on key " + id)
				}
				return false
			}
			e.mu.Lock()
			got := t.markers[mk]
			e.mu.Unlock()
			if got {
				return true
			}
		}
		c.Violation("mq:undelivered:marker-never-accepted", "a key with a progressing handler kept refusing messages", map[string]any{"thread": id, "threads": e.describe()})
		return false
	}
	for _, id := range ids {
		if e.threads[id].mode == modeBlocked {
			continue
		}
		if !drain(id) {
			return
		}
		if blocked > 0 {
			c.Count("mq.isolation.key_drained_while_another_key_stuck", 1)
		}
	}
	// 2. stuck keys: at most one message handed while stuck; after release at most size+1 of the ones sent while stuck, at least min(size, sent)
	for _, id := range ids {
		t := e.threads[id]
		if t.mode != modeBlocked {
			continue
		}
		e.mu.Lock()
		before := len(t.handled)
		t.released = true
		t.relT = e.clock.Add(1)
		t.kick()
		e.mu.Unlock()
		if before > 1 {
			c.Violation("mq:bound:second-message-while-handler-stuck", "a key whose handler never returned was handed a second message", map[string]any{"thread": id, "handled": before})
			return
		}
		if !drain(id) {
			return
		}
		e.mu.Lock()
		n := 0
		for _, m := range t.handled {
			if m.marker == 0 && m.t0 < t.relT {
				n++
			}
		}
		e.mu.Unlock()
		offered, acc := 0, 0
		for _, p := range prods {
			offered += len(p.sent[id])
			acc += len(p.accepted[id])
		}
		rel := "lt_size"
		switch {
		case n == e.size+1:
			rel = "eq_size+1"
		case n == e.size:
			rel = "eq_size"
		case n > e.size+1:
			rel = "gt_size+1"
		}
		c.Count(fmt.Sprintf("mq.stuck.size%d.handled_%s", e.size, rel), 1)
		c.Count("mq.stuck.offered", int64(offered))
		c.Count("mq.stuck.dropped", int64(offered-n))
		if n > e.size+1 || (e.known && acc > e.size+1) {
			c.Violation("mq:bound:stuck-key-buffered-more-than-size+1", "a key whose handler was stuck accepted more than its configured number of messages (+1 in the handler)",
				map[string]any{"thread": id, "size": e.size, "handled": n, "accepted": acc, "offered": offered})
			return
		}
		want := offered
		if want > e.size {
			want = e.size
		}
		if n < want {
			c.Violation("mq:bound:dropped-below-size", "messages for a stuck key were dropped although fewer than the configured number were buffered",
				map[string]any{"thread": id, "size": e.size, "handled": n, "offered": offered})
			return
		}
	}
	// 3. per key and producer: handled == accepted, in order (keys never closed); refused never handled; nothing twice
	e.mu.Lock()
	defer e.mu.Unlock()
	for _, id := range ids {
		t := e.threads[id]
		if t.overlap {
			c.Violation("mq:concurrent-handler", "two handler invocations overlapped for one key", map[string]any{"thread": id})
		}
		seen := map[*mqMsg]bool{}
		byProd := map[int][]*mqMsg{}
		for _, m := range t.handled {
			if m.marker != 0 {
				continue
			}
			if seen[m] {
				c.Violation("mq:duplicate", "a message was handled twice", map[string]any{"msg": m.String()})
			}
			seen[m] = true
			byProd[m.prod] = append(byProd[m.prod], m)
		}
		c.Count("mq.handled", int64(len(seen)))
		for _, p := range prods {
			for m := range p.refused {
				if m.thread == id && seen[m] {
					c.Violation("mq:refused-but-handled", "a message whose Add returned an error was handled", map[string]any{"msg": m.String()})
				}
			}
			got := byProd[p.id]
			if t.closes == 0 {
				last := 0
				for _, m := range got {
					if m.seq <= last {
						c.Violation("mq:order", "messages of one producer for one key were handled out of sending order", map[string]any{"thread": id, "msg": m.String(), "previous_seq": last})
						break
					}
					last = m.seq
				}
				if e.known {
					acc := p.accepted[id]
					if len(acc) != len(got) {
						c.Violation("mq:lost-accepted-message", "a message accepted for a key (Add returned nil) was never handled although a later message of that key was",
							map[string]any{"thread": id, "mode": modeNames[t.mode], "accepted": len(acc), "handled": len(got), "producer": p.id})
					}
				}
			}
		}
	}
	if blocked > 0 {
		c.Nontrivial(fmt.Sprintf("%s size=%d conc=%v mix=%s sig=%d", level, e.size, conc, strings.Join(sig, ""), rng.Int63()))
	}
	c.Count("mq.cases_completed", 1)
	c.Sample("mq-"+level, map[string]any{"size": e.size, "keys": strings.Join(sig, ""), "concurrent": conc})
}

//go:noinline
func mqWorkerLoop(f func()) { f() }
