package c19

import (
	"context"
	"errors"
	"fmt"
	"os"
	"runtime"
	"runtime/debug"
	"sort"
	"strings"
	"sync"
	"sync/atomic"
	"time"

	"go.uber.org/zap"
	"go.uber.org/zap/zapcore"
	"storj.io/drpc"

	"github.com/anyproto/any-sync/app"
	"github.com/anyproto/any-sync/app/logger"
	"github.com/anyproto/any-sync/net/peer"
	"github.com/anyproto/any-sync/net/streampool"
	"github.com/anyproto/any-sync/net/streampool/streamhandler"

	"verifharness/lib"
)

// ---------------------------------------------------------------- watchdogs
//
// Wall-clock is used only as a trigger to look at a goroutine dump; a verdict
// is always derived from the dump / recorded state, never from the timer alone.

const (
	callWatchdog = 8 * time.Second  // one pool API call (normal latency: microseconds)
	waitWatchdog = 25 * time.Second // harness waiting for an event produced by pool goroutines
)

// ---------------------------------------------------------------- logging / fatal path

var (
	setupOnce sync.Once
	curEnv    atomic.Pointer[env]
)

type fatalHook struct{}

// OnWrite is called by zap instead of os.Exit when the stream pool logs at
// Fatal level (its index-inconsistency path). The event is recorded as a
// violation of the running case and only the calling goroutine is ended.
func (fatalHook) OnWrite(ce *zapcore.CheckedEntry, _ []zapcore.Field) {
	st := string(debug.Stack())
	if e := curEnv.Load(); e != nil {
		e.onFatal(ce.Message, st)
	} else {
		fmt.Fprintf(os.Stderr, "fatal error: stream pool fatal path outside a case: %s\n\n%s\n", ce.Message, st)
		os.Exit(1)
	}
	runtime.Goexit()
}

func setupProcess() {
	setupOnce.Do(func() {
		core := zapcore.NewCore(zapcore.NewConsoleEncoder(zap.NewDevelopmentEncoderConfig()), zapcore.Lock(os.Stderr), zapcore.ErrorLevel)
		logger.SetDefault(zap.New(core))
		logger.SetNamedLevels(nil) // rebuild the named loggers on the new core
		// the pool's package logger is the cached named logger; give it a fatal
		// hook so that the inconsistency path is observed instead of killing
		// the worker (stream loggers are derived from it with With()).
		l := logger.NewNamed(streampool.CName)
		*l.Logger = *l.Logger.WithOptions(zap.WithFatalHook(fatalHook{}))
	})
}

// ---------------------------------------------------------------- frames

type frame struct {
	Prod  int    // producer id
	Seq   int    // per (producer, class) sequence number, increasing in call order
	Async bool   // sent through Send (dial pool) rather than SendById/Broadcast
	Kind  string // send | byid | bcast | burst | barrier | jam
	T0    int64  // logical time before the API call started
	Bar   int    // barrier id (Kind == barrier)
	Dest  string // human readable destination
}

func (f *frame) String() string {
	return fmt.Sprintf("%s p%d#%d@%d->%s", f.Kind, f.Prod, f.Seq, f.T0, f.Dest)
}

// pframe additionally implements the pool's peerMessage interface (Copy +
// SetPeerId), so the copy-per-stream path of stream.write is driven as well.
type pframe struct {
	f      *frame
	peerId string
}

func (p *pframe) Copy() drpc.Message      { return &pframe{f: p.f} }
func (p *pframe) SetPeerId(peerId string) { p.peerId = peerId }
func (p *pframe) Size() int               { return 16 }

func toFrame(msg drpc.Message) (*frame, string) {
	switch v := msg.(type) {
	case *frame:
		return v, ""
	case *pframe:
		return v.f, v.peerId
	}
	return nil, ""
}

type inMsg struct{ fs *fakeStream }

// ---------------------------------------------------------------- fake stream

const (
	modeHealthy = iota
	modeSlow
	modeBlocked
	modeFailing
)

var modeNames = []string{"H", "S", "B", "F"}

var (
	errInjectedWrite = errors.New("verif: injected write error")
	errInjectedRead  = errors.New("verif: injected read error")
	errStreamClosed  = errors.New("verif: stream closed")
	errSyncWrite     = errors.New("verif: write on caller goroutine refused")
	errDialRefused   = errors.New("verif: dial refused")
)

type handedRec struct {
	f          *frame
	t          int64
	afterClose bool
	stampOK    bool
}

type fakeStream struct {
	e      *env
	idx    int
	peerId string
	priv   string // private tag, unique per fake stream, never removed
	mode   int
	failAt int // modeFailing: the failAt-th MsgSend returns an error
	dialed bool
	ctx    context.Context
	cancel context.CancelFunc

	// all fields below are guarded by e.mu
	handed     []handedRec
	nSend      int
	inSend     bool
	concurrent bool
	tokens     int
	free       bool // slow: unlimited tokens
	released   bool // blocked: released (acts healthy from then on)
	releaseT   int64
	closed     bool
	closeCalls int
	closeT     int64
	recvErr    error
	helloSent  bool
	helloDone  bool
	poolCtx    context.Context
	poolId     uint32
	sendErr    bool
	endedT     int64 // logical time at which the pool's close hook ran for this stream
	hookTags   []string
	sawBar     map[int]bool
	endKind    string
	trigT      int64 // logical time of the first event that makes the stream end (0 = none yet)
	// slowClose: the transport's Close does not return at once (a close frame that cannot be flushed yet).
	// Close marks the stream closed, then parks until the harness has completed two further pool calls,
	// starts waiting for something, or tears the case down. A pool that holds its lock across the
	// transport's Close parks every one of those calls, which the call watchdog reports
	// (added after seeded change C19-5 was missed).
	slowClose   bool
	closeParked bool
	closeAtCall int64
	wakeS      chan struct{} // closed+replaced whenever something a parked MsgSend/MsgRecv waits for changes
}

// kickLocked wakes the stream's parked MsgSend / MsgRecv (e.mu held).
func (fs *fakeStream) kickLocked() {
	close(fs.wakeS)
	fs.wakeS = make(chan struct{})
	fs.e.notifyLocked()
}

func (fs *fakeStream) trigLocked() {
	if fs.trigT == 0 {
		fs.trigT = fs.e.tick()
	}
}

func (fs *fakeStream) Context() context.Context { return fs.ctx }
func (fs *fakeStream) CloseSend() error         { return nil }

func (fs *fakeStream) Close() error {
	e := fs.e
	e.mu.Lock()
	fs.closeCalls++
	if !fs.closed {
		fs.closed = true
		fs.closeT = e.tick()
		fs.trigLocked()
	}
	fs.kickLocked()
	if fs.slowClose && !fs.closeParked && !e.torn {
		fs.closeParked = true
		fs.closeAtCall = e.callsDone
		e.slowClosesParked++
		for !e.torn && e.waiters == 0 && e.callsDone < fs.closeAtCall+2 {
			ch := e.wake
			e.mu.Unlock()
			<-ch
			e.mu.Lock()
		}
		e.slowClosesReturned++
	}
	e.mu.Unlock()
	fs.cancel()
	return nil
}

// closeFromOutside is the harness ending the transport (the remote side going away): it never parks.
func (fs *fakeStream) closeFromOutside() error {
	fs.e.mu.Lock()
	fs.slowClose = false
	fs.e.mu.Unlock()
	return fs.Close()
}

func (fs *fakeStream) MsgRecv(msg drpc.Message, _ drpc.Encoding) error {
	e := fs.e
	e.mu.Lock()
	if !fs.helloSent && !fs.closed && fs.recvErr == nil {
		fs.helloSent = true
		if m, ok := msg.(*inMsg); ok {
			m.fs = fs
		}
		e.mu.Unlock()
		return nil
	}
	for {
		if fs.recvErr != nil {
			err := fs.recvErr
			e.mu.Unlock()
			return err
		}
		if fs.closed || e.torn {
			e.mu.Unlock()
			return errStreamClosed
		}
		ch := fs.wakeS
		e.mu.Unlock()
		<-ch
		e.mu.Lock()
	}
}

// apiCallMarker is the function name looked for in stacks: a stream write that
// runs on a goroutine which is inside a pool API call made by the harness.
const apiCallMarker = "c19.apiCall"

func (fs *fakeStream) MsgSend(msg drpc.Message, _ drpc.Encoding) (err error) {
	e := fs.e
	f, stamp := toFrame(msg)
	e.mu.Lock()
	if fs.inSend {
		fs.concurrent = true
	}
	fs.inSend = true
	fs.nSend++
	n := fs.nSend
	if f != nil {
		fs.handed = append(fs.handed, handedRec{f: f, t: e.tick(), afterClose: fs.closed, stampOK: stamp == "" || stamp == fs.peerId})
		if f.Kind == "barrier" {
			fs.sawBar[f.Bar] = true
		}
	}
	e.notifyLocked()
	checkedSync := false
	for {
		if fs.closed || e.torn {
			err = errStreamClosed
			break
		}
		ok := false
		switch fs.mode {
		case modeHealthy:
			ok = true
		case modeFailing:
			if n >= fs.failAt {
				err = errInjectedWrite
				fs.sendErr = true
				fs.trigLocked()
			}
			ok = true
		case modeSlow:
			if fs.free {
				ok = true
			} else if fs.tokens > 0 {
				fs.tokens--
				ok = true
			}
		case modeBlocked:
			ok = fs.released
		}
		if ok {
			break
		}
		// about to park: is this write running on the goroutine of a caller of
		// Send/SendById/Broadcast? Then the caller is exposed to this stream.
		if !checkedSync {
			checkedSync = true
			e.mu.Unlock()
			buf := make([]byte, 16<<10)
			st := string(buf[:runtime.Stack(buf, false)])
			e.mu.Lock()
			if strings.Contains(st, apiCallMarker) {
				e.syncWrites = append(e.syncWrites, syncWrite{stream: fs.describe(), stack: st})
				err = errSyncWrite
				break
			}
			continue
		}
		ch := fs.wakeS
		e.mu.Unlock()
		<-ch
		e.mu.Lock()
	}
	fs.inSend = false
	e.notifyLocked()
	e.mu.Unlock()
	return err
}

func (fs *fakeStream) describe() string {
	return fmt.Sprintf("s%d(%s,peer=%s)", fs.idx, modeNames[fs.mode], fs.peerId)
}

// ---------------------------------------------------------------- fake peer, handler

type fakePeer struct {
	peer.Peer
	id  string
	ctx context.Context
}

func (p *fakePeer) Id() string               { return p.id }
func (p *fakePeer) Context() context.Context { return p.ctx }

func newFakePeer(id string) *fakePeer {
	return &fakePeer{id: id, ctx: peer.CtxWithPeerId(context.Background(), id)}
}

type handler struct{ e *env }

func (h *handler) Init(a *app.App) error { return nil }
func (h *handler) Name() string          { return streamhandler.CName }
func (h *handler) NewReadMessage() drpc.Message {
	return &inMsg{}
}

func (h *handler) HandleMessage(ctx context.Context, peerId string, msg drpc.Message) error {
	m, ok := msg.(*inMsg)
	if !ok || m.fs == nil {
		return nil
	}
	e := h.e
	e.mu.Lock()
	m.fs.poolCtx = ctx
	if id, ok := streampool.CtxStreamId(ctx); ok {
		m.fs.poolId = id
	}
	m.fs.helloDone = true
	e.notifyLocked()
	e.mu.Unlock()
	return nil
}

type dialPolicy struct {
	refuse bool
	// refuseErr: what a refused dial returns. A dial of its own can time out or be cancelled while the
	// sender's context is alive, so context-flavoured errors are among them (added after seeded change
	// C19-6 - Send gives up on the remaining peers when one dial fails with such an error - was missed)
	refuseErr error
	tags      []string
}

var dialErrs = []error{errDialRefused, fmt.Errorf("verif: dial timed out: %w", context.DeadlineExceeded), fmt.Errorf("verif: shared dial cancelled: %w", context.Canceled)}

// OpenStream is the harness's dial function.
func (h *handler) OpenStream(ctx context.Context, p peer.Peer) (drpc.Stream, []string, int, error) {
	e := h.e
	e.mu.Lock()
	pol := e.dialPol[p.Id()]
	e.dials[p.Id()]++
	e.dialTotal++
	if pol.refuse || e.torn {
		e.dialRefused++
		e.notifyLocked()
		e.mu.Unlock()
		if pol.refuseErr != nil && !e.torn {
			return nil, nil, 0, pol.refuseErr
		}
		return nil, nil, 0, errDialRefused
	}
	fs := e.newStreamLocked(p.Id(), modeHealthy, 0)
	fs.dialed = true
	tags := append([]string{fs.priv}, pol.tags...)
	e.notifyLocked()
	e.mu.Unlock()
	return fs, tags, e.q, nil
}

// ---------------------------------------------------------------- env

type syncWrite struct {
	stream string
	stack  string
}

type env struct {
	callsDone          int64 // completed pool calls made through call() (guarded by mu)
	waiters            int   // harness goroutines inside waitFor: parked slow Closes may return (guarded by mu)
	slowClosesParked   int
	slowClosesReturned int
	c    *lib.Case
	pool streampool.StreamPool
	q    int
	cfg  streampool.StreamConfig
	bg   context.Context

	clock atomic.Int64

	mu           sync.Mutex
	wake         chan struct{}
	streams      []*fakeStream
	byPriv       map[string]*fakeStream
	dialPol      map[string]dialPolicy
	dials        map[string]int
	dialTotal    int
	dialRefused  int
	getterStarts int
	parkedGet    int
	holdGetters  bool
	torn         bool
	fatalMsg     string
	fatalStack   string
	syncWrites   []syncWrite
	unknownHooks int
	readReturns  int
	nextBar      int

	fatalCh   chan struct{}
	fatalOnce sync.Once
}

func newEnv(c *lib.Case, q int, cfg streampool.StreamConfig) *env {
	setupProcess()
	e := &env{c: c, q: q, cfg: cfg, bg: context.Background(), wake: make(chan struct{}), byPriv: map[string]*fakeStream{},
		dialPol: map[string]dialPolicy{}, dials: map[string]int{}, fatalCh: make(chan struct{})}
	curEnv.Store(e)
	e.pool = streampool.NewStreamPool(&handler{e: e}, cfg, streampool.WithStreamCloseHook(e.closeHook))
	_ = e.pool.Run(e.bg)
	return e
}

func (e *env) tick() int64 { return e.clock.Add(1) }

func (e *env) notifyLocked() {
	close(e.wake)
	e.wake = make(chan struct{})
}

func (e *env) notify() {
	e.mu.Lock()
	e.notifyLocked()
	e.mu.Unlock()
}

func (e *env) newStreamLocked(peerId string, mode, failAt int) *fakeStream {
	ctx, cancel := context.WithCancel(peer.CtxWithPeerId(context.Background(), peerId))
	fs := &fakeStream{e: e, idx: len(e.streams), peerId: peerId, mode: mode, failAt: failAt, ctx: ctx, cancel: cancel, sawBar: map[int]bool{}, wakeS: make(chan struct{})}
	fs.priv = fmt.Sprintf("s%d", fs.idx)
	e.streams = append(e.streams, fs)
	e.byPriv[fs.priv] = fs
	return fs
}

func (e *env) newStream(peerId string, mode, failAt int) *fakeStream {
	e.mu.Lock()
	defer e.mu.Unlock()
	return e.newStreamLocked(peerId, mode, failAt)
}

// closeHook is registered with the pool; it runs after the stream has been
// removed from the indexes, so a send that starts after endedT cannot find it.
var hookProbeFired atomic.Bool

func (e *env) closeHook(streamId uint32, peerId string, tags []string) {
	// The hook is documented to run outside the pool lock, so a hook may use the pool (the in-repo
	// hook user, pubsub, takes a lock that is held around AddTagsCtx elsewhere). A pool that holds its
	// lock across the hook parks right here and every later pool call is then reported by the call
	// watchdog (added after seeded change C19-2 was missed).
	if e.pool != nil && !hookProbeFired.Load() {
		done := make(chan struct{})
		go func() {
			_ = e.pool.Streams("verif-close-hook-probe")
			close(done)
		}()
		t := time.NewTimer(callWatchdog)
		select {
		case <-done:
			t.Stop()
		case <-t.C:
			// the probe can only be parked on the pool's own lock, which the goroutine running this hook holds
			dump := goroutineDump()
			parked := false
			for _, g := range strings.Split(dump, "\n\n") {
				if strings.Contains(g, "(*streamPool).Streams") && strings.Contains(g, "closeHook") && isParked(goroutineState(g)) {
					parked = true
				}
			}
			if !parked {
				e.c.Inconclusive("close-hook probe watchdog fired but the probe is not parked inside the pool")
			} else if hookProbeFired.CompareAndSwap(false, true) {
				e.c.Violation("close-hook:pool-lock-held-across-hook", "a pool call made from the stream close hook does not return: the pool holds its lock while the hook runs, so any hook that takes a lock also held around a pool call (or uses the pool) blocks every later send",
					map[string]any{"goroutines": trim(dump, 6000)})
			}
		}
	}
	e.mu.Lock()
	defer e.mu.Unlock()
	var fs *fakeStream
	for _, t := range tags {
		if s, ok := e.byPriv[t]; ok {
			fs = s
			break
		}
	}
	if fs == nil {
		for _, s := range e.streams {
			if s.helloDone && s.poolId == streamId && s.peerId == peerId {
				fs = s
			}
		}
	}
	if fs == nil {
		e.unknownHooks++
		e.notifyLocked()
		return
	}
	if fs.endedT == 0 {
		fs.endedT = e.tick()
		fs.hookTags = append([]string(nil), tags...)
	}
	e.notifyLocked()
}

func (e *env) onFatal(msg, stack string) {
	e.mu.Lock()
	if e.fatalMsg == "" {
		e.fatalMsg = msg
		e.fatalStack = stack
	}
	e.mu.Unlock()
	e.fatalOnce.Do(func() { close(e.fatalCh) })
}

func (e *env) fatalSeen() bool {
	select {
	case <-e.fatalCh:
		return true
	default:
		return false
	}
}

// waitFor waits until pred (evaluated under e.mu) holds. It returns false when
// the watchdog fired or the pool's fatal path was hit.
func (e *env) waitFor(pred func() bool) bool {
	// whatever the harness waits for may depend on a stream's end: parked slow Closes return now
	e.mu.Lock()
	e.waiters++
	e.notifyLocked()
	e.mu.Unlock()
	defer func() {
		e.mu.Lock()
		e.waiters--
		e.mu.Unlock()
	}()
	t := time.NewTimer(waitWatchdog)
	defer t.Stop()
	for {
		e.mu.Lock()
		ok := pred()
		ch := e.wake
		e.mu.Unlock()
		if ok {
			return true
		}
		select {
		case <-ch:
		case <-t.C:
			return false
		case <-e.fatalCh:
			return false
		}
	}
}

// apiCall is the frame looked for in goroutine dumps (see apiCallMarker).
//
//go:noinline
func apiCall(f func() error) error { return f() }

type callResult struct {
	err      error
	panicked bool
}

// call runs one pool API call on its own goroutine under the call watchdog.
// ok=false: the call did not return (or panicked, or the fatal path was hit);
// the verdict has been recorded and the case must stop.
func (e *env) call(kind string, f func() error) (err error, ok bool) {
	done := make(chan callResult, 1)
	go func() {
		defer func() {
			if r := recover(); r != nil {
				st := debug.Stack()
				key, inRepo := lib.PanicKey(r, st)
				if inRepo {
					e.c.Violation(key, fmt.Sprintf("panic in repository code during %s: %v", kind, r), map[string]any{"stack": trim(string(st), 4000)})
				} else {
					e.c.Inconclusive(fmt.Sprintf("HARNESS-PANIC in %s: %v\n%s", kind, r, trim(string(st), 3000)))
				}
				done <- callResult{panicked: true}
			}
		}()
		done <- callResult{err: apiCall(f)}
	}()
	t := time.NewTimer(callWatchdog)
	defer t.Stop()
	select {
	case r := <-done:
		if r.panicked {
			return nil, false
		}
		e.mu.Lock()
		e.callsDone++
		e.notifyLocked()
		e.mu.Unlock()
		return r.err, true
	case <-e.fatalCh:
		return nil, false
	case <-t.C:
	}
	e.judgeStuck(kind, apiCallMarker)
	return nil, false
}

// judgeStuck looks at the goroutine dump for goroutines that contain marker
// and are parked below a repository frame.
func (e *env) judgeStuck(kind, marker string) {
	dump := goroutineDump()
	var blocks []string
	for _, g := range strings.Split(dump, "\n\n") {
		if strings.Contains(g, marker) {
			blocks = append(blocks, g)
		}
	}
	found := false
	for _, g := range blocks {
		st := goroutineState(g)
		fr := lib.FirstRepoFrame(g)
		if fr != "" && isParked(st) {
			found = true
			e.c.Violation("blocked-call:"+kind+":"+fr, "a pool call did not return while a stream was blocked; the caller is parked in repository code",
				map[string]any{"state": st, "goroutine": trim(g, 3000), "streams": e.describeStreams()})
			break
		}
	}
	if !found {
		e.c.Inconclusive(fmt.Sprintf("call watchdog fired for %s but no caller is parked in repository code (%d candidate goroutines)", kind, len(blocks)))
	}
}

func goroutineDump() string {
	buf := make([]byte, 4<<20)
	return string(buf[:runtime.Stack(buf, true)])
}

func goroutineState(block string) string {
	first := block
	if i := strings.Index(block, "\n"); i >= 0 {
		first = block[:i]
	}
	a := strings.Index(first, "[")
	b := strings.LastIndex(first, "]")
	if a < 0 || b < a {
		return ""
	}
	return first[a+1 : b]
}

func isParked(state string) bool {
	if state == "" {
		return false
	}
	for _, p := range []string{"running", "runnable", "syscall"} {
		if strings.HasPrefix(state, p) {
			return false
		}
	}
	return true
}

func trim(s string, n int) string {
	if len(s) > n {
		return s[:n] + "…"
	}
	return s
}

func (e *env) describeStreams() []string {
	e.mu.Lock()
	defer e.mu.Unlock()
	var out []string
	for _, fs := range e.streams {
		out = append(out, fmt.Sprintf("%s handed=%d inSend=%v closed=%v ended=%v released=%v", fs.describe(), fs.nSend, fs.inSend, fs.closed, fs.endedT != 0, fs.released))
	}
	return out
}

// teardown releases every harness-owned blocking point so that pool
// goroutines of this case can finish.
func (e *env) teardown() {
	e.mu.Lock()
	e.torn = true
	e.holdGetters = false
	for _, fs := range e.streams {
		fs.kickLocked()
	}
	e.notifyLocked()
	e.mu.Unlock()
	_ = e.pool.Close(e.bg)
}

// ---------------------------------------------------------------- index snapshot invariants

type snapshot struct {
	n      int
	byPeer map[string][]uint32
	byTag  map[string][]uint32
}

func (e *env) snap() snapshot {
	n, bp, bt := streampool.VerifIndexSnapshot(e.pool)
	return snapshot{n: n, byPeer: bp, byTag: bt}
}

// internalConsistency checks what must hold in every atomic snapshot of the
// indexes, whatever the interleaving: ids are unique per list, every id
// under a tag is also registered under exactly one peer, the number of ids
// under peers equals the number of streams, no empty lists are kept.
func (s snapshot) internalConsistency() []string {
	var out []string
	peerOf := map[uint32]string{}
	total := 0
	for p, ids := range s.byPeer {
		if len(ids) == 0 {
			out = append(out, "empty id list kept for peer "+p)
		}
		for _, id := range ids {
			if q, dup := peerOf[id]; dup {
				out = append(out, fmt.Sprintf("stream id %d listed twice under peers (%s, %s)", id, q, p))
			}
			peerOf[id] = p
			total++
		}
	}
	if total != s.n {
		out = append(out, fmt.Sprintf("peer index lists %d ids but the pool holds %d streams", total, s.n))
	}
	for t, ids := range s.byTag {
		if len(ids) == 0 {
			out = append(out, "empty id list kept for tag "+t)
		}
		seen := map[uint32]bool{}
		for _, id := range ids {
			if seen[id] {
				out = append(out, fmt.Sprintf("stream id %d listed twice under tag %s", id, t))
			}
			seen[id] = true
			if _, ok := peerOf[id]; !ok {
				out = append(out, fmt.Sprintf("tag %s refers to stream id %d which is not registered under any peer", t, id))
			}
		}
	}
	sort.Strings(out)
	return out
}

func (s snapshot) json() map[string]any {
	return map[string]any{"streams": s.n, "by_peer": s.byPeer, "by_tag": s.byTag}
}

func hasId(ids []uint32, id uint32) bool {
	for _, x := range ids {
		if x == id {
			return true
		}
	}
	return false
}

// ---------------------------------------------------------------- offline checks shared by the pool workloads

type offlineStats struct {
	delivered, afterClose, barriers int
}

// offlineChecks scans what every fake stream was handed.
func (e *env) offlineChecks(where string, asyncOrdered bool) offlineStats {
	c := e.c
	e.mu.Lock()
	defer e.mu.Unlock()
	var st offlineStats
	for _, sw := range e.syncWrites {
		c.Violation("sync-write:"+where+":"+lib.FirstRepoFrame(sw.stack), "a stream's MsgSend ran on the goroutine of a Send/SendById/Broadcast caller while that stream was not writable: the caller is exposed to the stuck peer",
			map[string]any{"stream": sw.stream, "stack": trim(sw.stack, 3000)})
		break
	}
	if e.fatalMsg != "" {
		c.Violation("pool-fatal:"+where+":"+e.fatalMsg, "the stream pool reached its fatal index-inconsistency path (would terminate the process)",
			map[string]any{"message": e.fatalMsg, "stack": trim(e.fatalStack, 3000)})
	}
	type pk struct {
		prod  int
		async bool
	}
	for _, fs := range e.streams {
		last := map[pk]int{}
		seen := map[*frame]bool{}
		for _, r := range fs.handed {
			if r.afterClose {
				st.afterClose++
			}
			f := r.f
			if f.Kind == "barrier" {
				st.barriers++
				continue
			}
			st.delivered++
			if seen[f] {
				c.Violation("duplicate-frame:"+where+":"+f.Kind, "one frame was handed to the same stream twice", map[string]any{"stream": fs.describe(), "frame": f.String()})
			}
			seen[f] = true
			if fs.endedT != 0 && f.T0 > fs.endedT {
				c.Violation("sent-after-end:"+where+":"+f.Kind+":"+fs.endKindOr(), "a frame whose send call started after the stream had been removed from the pool was handed to that stream",
					map[string]any{"stream": fs.describe(), "frame": f.String(), "ended_at": fs.endedT, "end": fs.endKindOr()})
			}
			if !r.stampOK {
				c.Count("frames.peer_stamp_mismatch", 1)
			}
			if f.Async && !asyncOrdered {
				continue
			}
			k := pk{f.Prod, f.Async}
			if prev, ok := last[k]; ok && f.Seq <= prev {
				cls := "sync"
				if f.Async {
					cls = "async-1worker"
				}
				c.Violation("order:"+where+":"+cls, "frames of one producer were written to one stream out of sending order",
					map[string]any{"stream": fs.describe(), "frame": f.String(), "previous_seq": prev, "handed": fs.handedStrings(40)})
			}
			last[k] = f.Seq
		}
		if fs.concurrent {
			c.Violation("concurrent-msgsend:"+where, "two MsgSend calls overlapped on one stream (writes to a stream must be sequential to be ordered)", map[string]any{"stream": fs.describe()})
		}
	}
	return st
}

func (fs *fakeStream) endKindOr() string {
	if fs.endKind != "" {
		return fs.endKind
	}
	if fs.sendErr {
		return "writeerr"
	}
	return "other"
}

func (fs *fakeStream) handedStrings(max int) []string {
	var out []string
	for i, r := range fs.handed {
		if i >= max {
			out = append(out, "…")
			break
		}
		out = append(out, r.f.String())
	}
	return out
}

// ---------------------------------------------------------------- dial pool helpers

// getter is the PeerGetter of an ordinary Send: it runs on a dial worker.
func (e *env) getter(ids []string) streampool.PeerGetter {
	return func(ctx context.Context) ([]peer.Peer, error) {
		e.mu.Lock()
		e.getterStarts++
		e.notifyLocked()
		e.mu.Unlock()
		var out []peer.Peer
		for _, id := range ids {
			out = append(out, newFakePeer(id))
		}
		return out, nil
	}
}

func (e *env) markerGetter() streampool.PeerGetter {
	return func(ctx context.Context) ([]peer.Peer, error) {
		e.mu.Lock()
		e.getterStarts++
		e.parkedGet++
		e.notifyLocked()
		for e.holdGetters && !e.torn {
			ch := e.wake
			e.mu.Unlock()
			<-ch
			e.mu.Lock()
		}
		e.parkedGet--
		e.notifyLocked()
		e.mu.Unlock()
		return nil, nil
	}
}

// parkWorkers parks all dial workers in harness-owned marker getters (the
// PeerGetter of a Send is called on the worker). When all are parked, every
// task submitted earlier has completed, because each worker is sequential.
// why != "" means inconclusive; ok=false with why=="" means a verdict was recorded.
func (e *env) parkWorkers() (ok bool, why string) {
	e.mu.Lock()
	e.holdGetters = true
	e.mu.Unlock()
	W := e.cfg.DialQueueWorkers
	for i := 0; i < W; i++ {
		for {
			e.mu.Lock()
			before := e.getterStarts
			e.mu.Unlock()
			err, ok := e.call("Send", func() error { return e.pool.Send(e.bg, &frame{Kind: "marker", Prod: -2}, e.markerGetter()) })
			if !ok {
				return false, ""
			}
			if err == nil {
				break
			}
			e.c.Count("send.marker_refused", 1)
			if !e.waitFor(func() bool { return e.getterStarts != before }) {
				if e.fatalSeen() {
					return false, ""
				}
				return false, "dial queue full but no queued task started (flush)"
			}
		}
		want := i + 1
		if !e.waitFor(func() bool { return e.parkedGet >= want }) {
			if e.fatalSeen() {
				return false, ""
			}
			return false, fmt.Sprintf("dial worker %d/%d never picked up the marker task", want, W)
		}
	}
	return true, ""
}

func (e *env) releaseWorkers() bool {
	e.mu.Lock()
	e.holdGetters = false
	e.notifyLocked()
	e.mu.Unlock()
	return e.waitFor(func() bool { return e.parkedGet == 0 })
}

// ---------------------------------------------------------------- drain (barrier)

const (
	drainOK = iota
	drainEnded
	drainTimeout
	drainCallStuck
	drainFatal
	drainRefused
)

// drain waits, by FIFO, until everything queued so far for the stream has
// been handed to it. Precondition: nobody else sends to the stream during the
// call. Barrier frames are broadcast to the stream's private tag until one
// arrives; a refused barrier (queue full at that instant - the return value
// does not tell) is recognised by the stream having been handed queueSize
// further frames, after which the queue has room again. extra = number of
// barriers sent after the one that arrived (upper bound of what may still be
// queued).
func (e *env) drain(fs *fakeStream) (status int, extra int) {
	e.mu.Lock()
	wasFree := fs.free
	fs.free = true
	fs.kickLocked()
	e.mu.Unlock()
	defer func() {
		e.mu.Lock()
		fs.free = wasFree
		e.mu.Unlock()
	}()
	var ids []int
	sawAny := func() int {
		for i, id := range ids {
			if fs.sawBar[id] {
				return i
			}
		}
		return -1
	}
	for attempt := 0; attempt < 6; attempt++ {
		e.mu.Lock()
		n0 := fs.nSend
		e.nextBar++
		id := e.nextBar
		e.mu.Unlock()
		ids = append(ids, id)
		f := &frame{Prod: -1, Kind: "barrier", Bar: id, T0: e.tick(), Dest: fs.priv}
		_, ok := e.call("Broadcast", func() error { return e.pool.Broadcast(e.bg, f, fs.priv) })
		if !ok {
			return drainCallStuck, 0
		}
		e.c.Count("barrier.frames_sent", 1)
		ok = e.waitFor(func() bool { return sawAny() >= 0 || fs.nSend >= n0+e.q || fs.endedT != 0 || fs.closed || fs.sendErr })
		if !ok {
			if e.fatalSeen() {
				return drainFatal, 0
			}
			return drainTimeout, 0
		}
		e.mu.Lock()
		first := sawAny()
		ended := fs.endedT != 0 || fs.closed || fs.sendErr
		e.mu.Unlock()
		if first >= 0 {
			e.c.Count("barrier.completed", 1)
			return drainOK, len(ids) - 1 - first
		}
		if ended {
			return drainEnded, 0
		}
		e.c.Count("barrier.refused_retry", 1)
	}
	return drainRefused, 0
}
