package c19

import (
	"errors"
	"fmt"
	"math/rand"
	"sort"
	"strings"

	"storj.io/drpc"

	anynet "github.com/anyproto/any-sync/net"
	"github.com/anyproto/any-sync/net/streampool"

	"verifharness/lib"
)

// The scenario workload: one goroutine (the scheduler) issues every pool call
// and every harness-side event (token grants, stream ends); the pool's own
// read/write/dial goroutines run concurrently. A reference model of the
// indexes says which streams a call certainly targets; for flow-controlled
// streams (the scheduler never lets more than queueSize frames be outstanding)
// acceptance is certain, so delivery is demanded; everywhere else only order,
// bounds and "nothing after the end" are demanded.

var queueSizes = []int{1, 2, 7, 100}

var mixes = [][]int{
	{modeHealthy, modeBlocked},
	{modeHealthy, modeHealthy, modeBlocked},
	{modeHealthy, modeSlow, modeBlocked},
	{modeHealthy, modeFailing, modeBlocked},
	{modeHealthy, modeBlocked, modeBlocked},
	{modeHealthy, modeSlow, modeFailing, modeBlocked},
	{modeHealthy, modeHealthy, modeSlow, modeBlocked, modeBlocked, modeFailing},
	{modeSlow, modeBlocked},
	{modeHealthy, modeSlow},
	{modeHealthy, modeFailing, modeFailing},
	{modeBlocked},
	{modeHealthy, modeSlow, modeSlow, modeBlocked},
	{modeFailing, modeBlocked, modeHealthy, modeHealthy},
	{modeHealthy},
	{modeBlocked, modeBlocked, modeBlocked, modeHealthy},
	{modeSlow, modeFailing, modeBlocked},
}

func mixName(m []int) string {
	cnt := [4]int{}
	for _, x := range m {
		cnt[x]++
	}
	var sb strings.Builder
	for i, n := range cnt {
		if n > 0 {
			fmt.Fprintf(&sb, "%s%d", modeNames[i], n)
		}
	}
	return sb.String()
}

type mstream struct {
	fs        *fakeStream
	alive     bool
	uncertain bool // failing stream: may end asynchronously at any time
	tags      map[string]bool
	fc        bool
	pend      int      // upper bound of frames possibly queued for it since the last barrier arrival
	must      []*frame // frames whose acceptance is certain, not yet confirmed
	certain   int      // frames certainly offered to it (lower bound check of blocked streams)
	viaRead   bool
}

func (m *mstream) fcActive() bool {
	if !m.alive || m.uncertain || !m.fc {
		return false
	}
	switch m.fs.mode {
	case modeHealthy, modeSlow:
		return true
	case modeBlocked:
		return m.fs.released
	}
	return false
}

type scen struct {
	c          *lib.Case
	e          *env
	rng        *rand.Rand
	q, W, D    int
	peers      []string
	shared     []string
	model      []*mstream
	byFs       map[*fakeStream]*mstream
	seqSync    int
	seqAsync   int
	asyncDirty bool
	stop       bool
	oplog      []string
	mix        string
	ends       map[string]int
	nRead      int
}

func (sc *scen) logf(format string, a ...any) {
	s := fmt.Sprintf(format, a...)
	if len(sc.oplog) < 400 {
		sc.oplog = append(sc.oplog, s)
	}
	sc.c.Logf("%s", s)
}

func (sc *scen) witness(extra map[string]any) map[string]any {
	w := map[string]any{"queue_size": sc.q, "dial_workers": sc.W, "dial_queue": sc.D, "mix": sc.mix, "streams": sc.e.describeStreams(), "ops": tailStrings(sc.oplog, 60)}
	for k, v := range extra {
		w[k] = v
	}
	return w
}

func tailStrings(s []string, n int) []string {
	if len(s) > n {
		return s[len(s)-n:]
	}
	return s
}

func runScenario(c *lib.Case) {
	rng := c.Rng
	q := queueSizes[c.Index%4]
	mix := mixes[(c.Index/4)%len(mixes)]
	W := []int{1, 1, 2, 4}[rng.Intn(4)]
	D := []int{1, 4, 64}[rng.Intn(3)]
	cfg := streampool.StreamConfig{SendQueueSize: q, DialQueueWorkers: W, DialQueueSize: D}
	e := newEnv(c, q, cfg)
	sc := &scen{c: c, e: e, rng: rng, q: q, W: W, D: D, shared: []string{"t0", "t1", "t2"}, byFs: map[*fakeStream]*mstream{}, mix: mixName(mix),
		ends: map[string]int{}}
	defer e.teardown()
	c.Eval(1)

	// streams
	order := rng.Perm(len(mix))
	prevPeer := ""
	for i, oi := range order {
		mode := mix[oi]
		peerId := fmt.Sprintf("p%d", i)
		if prevPeer != "" && rng.Intn(10) < 3 {
			peerId = prevPeer // two streams of one peer
		}
		prevPeer = peerId
		failAt := 0
		if mode == modeFailing {
			failAt = 1 + rng.Intn(2*q+3)
		}
		fs := e.newStream(peerId, mode, failAt)
		if mode == modeFailing && rng.Intn(2) == 0 {
			fs.slowClose = true
			c.Count("scenario.streams_with_slow_transport_close", 1)
		}
		m := &mstream{fs: fs, alive: true, uncertain: mode == modeFailing, tags: map[string]bool{fs.priv: true}}
		if mode == modeHealthy || mode == modeSlow {
			m.fc = rng.Intn(10) < 8
		}
		if mode == modeBlocked {
			m.fc = true // takes effect once released
		}
		tags := []string{fs.priv}
		for _, t := range sc.shared {
			if rng.Intn(2) == 0 {
				tags = append(tags, t)
				m.tags[t] = true
			}
		}
		qs := q
		if q == 100 && rng.Intn(5) == 0 {
			qs = 0 // the pool's default queue size is 100
		}
		sc.model = append(sc.model, m)
		sc.byFs[fs] = m
		if rng.Intn(4) == 0 {
			m.viaRead = true
			sc.nRead++
			tg := append([]string(nil), tags...)
			go func() {
				_ = e.pool.ReadStream(fs, qs, tg...)
				e.mu.Lock()
				e.readReturns++
				e.notifyLocked()
				e.mu.Unlock()
			}()
		} else if err := e.pool.AddStream(fs, qs, append([]string(nil), tags...)...); err != nil {
			c.Inconclusive("AddStream failed: " + err.Error())
			return
		}
		// registration order in the peer index matters for SendById failover: wait for the hello
		if !e.waitFor(func() bool { return fs.helloDone }) {
			c.Inconclusive("stream hello was not handled (read loop did not start)")
			return
		}
	}
	seenPeer := map[string]bool{}
	for _, m := range sc.model {
		if !seenPeer[m.fs.peerId] {
			seenPeer[m.fs.peerId] = true
			sc.peers = append(sc.peers, m.fs.peerId)
		}
	}
	sc.peers = append(sc.peers, "pd", "pr")
	for _, p := range sc.peers {
		pol := dialPolicy{refuse: rng.Intn(2) == 0}
		if p == "pd" {
			pol.refuse = false
		}
		if p == "pr" {
			pol.refuse = true
		}
		if rng.Intn(2) == 0 {
			pol.tags = []string{sc.shared[rng.Intn(len(sc.shared))]}
		}
		if pol.refuse {
			pol.refuseErr = dialErrs[rng.Intn(len(dialErrs))]
		}
		e.mu.Lock()
		e.dialPol[p] = pol
		e.mu.Unlock()
	}
	c.Count("scenario.mix."+sc.mix, 1)
	c.Count(fmt.Sprintf("scenario.queue_size.%d", q), 1)
	sc.logf("scenario q=%d W=%d D=%d mix=%s streams=%v", q, W, D, sc.mix, e.describeStreams())

	nOps := 40 + rng.Intn(120)
	if q == 100 {
		nOps = 30 + rng.Intn(50)
	}
	burstDone := false
	for i := 0; i < nOps && !sc.stop; i++ {
		if e.fatalSeen() {
			sc.stop = true
			break
		}
		sc.syncEnds()
		if sc.stop {
			break
		}
		r := rng.Intn(100)
		switch {
		case r < 30:
			sc.opBroadcast("bcast", sc.randTags())
		case r < 48:
			sc.opSendById(sc.randPeers())
		case r < 62:
			sc.opSend(sc.randPeers())
		case r < 68:
			sc.opBurst()
			burstDone = true
		case r < 76:
			sc.opTags(true)
		case r < 82:
			sc.opTags(false)
		case r < 86:
			sc.opEnd()
		case r < 91:
			sc.opGrant()
		case r < 95:
			sc.checkSnapshot("op")
		case r < 98:
			sc.opIsolation()
		default:
			sc.opDialJam()
		}
	}
	if !sc.stop && !burstDone {
		sc.opBurst()
	}
	if !sc.stop {
		sc.finalPhase()
	}
	st := e.offlineChecks("scenario", sc.W == 1)
	c.Count("frames.delivered", int64(st.delivered))
	c.Count("frames.handed_after_close", int64(st.afterClose))
	c.Count("frames.barriers_delivered", int64(st.barriers))
	if sc.stop {
		c.Count("scenario.stopped_early", 1)
		return
	}
	// distinct non-trivial: a blocked or slow stream was present together with traffic to another stream, or a stream ended
	endKeys := make([]string, 0, len(sc.ends))
	for k := range sc.ends {
		endKeys = append(endKeys, k)
	}
	sort.Strings(endKeys)
	if strings.ContainsAny(sc.mix, "BSF") || len(endKeys) > 0 {
		c.Nontrivial(fmt.Sprintf("q=%d W=%d D=%d mix=%s ends=%v ops=%d sig=%d", q, W, D, sc.mix, endKeys, nOps, rng.Int63()))
	}
	c.Sample("scenario-"+sc.mix, map[string]any{"queue_size": q, "dial_workers": W, "mix": sc.mix, "streams": e.describeStreams(), "first_ops": headStrings(sc.oplog, 25)})
}

func headStrings(s []string, n int) []string {
	if len(s) > n {
		return s[:n]
	}
	return s
}

// ---------------------------------------------------------------- helpers

func (sc *scen) randTags() []string {
	n := 1 + sc.rng.Intn(2)
	var out []string
	for i := 0; i < n; i++ {
		if sc.rng.Intn(3) == 0 {
			out = append(out, sc.model[sc.rng.Intn(len(sc.model))].fs.priv)
		} else {
			out = append(out, sc.shared[sc.rng.Intn(len(sc.shared))])
		}
	}
	return out
}

func (sc *scen) randPeers() []string {
	n := 1
	if sc.rng.Intn(5) == 0 {
		n = 2 + sc.rng.Intn(2)
	}
	var out []string
	seen := map[string]bool{}
	for i := 0; i < n; i++ {
		p := sc.peers[sc.rng.Intn(len(sc.peers))]
		if !seen[p] {
			seen[p] = true
			out = append(out, p)
		}
	}
	return out
}

func (sc *scen) targetsForTags(tags []string) []*mstream {
	var out []*mstream
	for _, m := range sc.model {
		if !m.alive {
			continue
		}
		for _, t := range tags {
			if m.tags[t] {
				out = append(out, m)
				break
			}
		}
	}
	return out
}

func (sc *scen) candsForPeer(p string) []*mstream {
	var out []*mstream
	for _, m := range sc.model {
		if m.alive && m.fs.peerId == p {
			out = append(out, m)
		}
	}
	return out
}

func (sc *scen) newFrame(kind string, async bool, dest string) *frame {
	f := &frame{Prod: 0, Kind: kind, Async: async, Dest: dest}
	if async {
		sc.seqAsync++
		f.Seq = sc.seqAsync
	} else {
		sc.seqSync++
		f.Seq = sc.seqSync
	}
	f.T0 = sc.e.tick()
	return f
}

func (sc *scen) wrap(f *frame) drpc.Message {
	if sc.rng.Intn(2) == 0 {
		return &pframe{f: f}
	}
	return f
}

// account registers what a frame may / must reach.
func (sc *scen) account(f *frame, m *mstream, certainTarget bool) {
	m.pend++
	if certainTarget && m.alive && !m.uncertain {
		if m.fcActive() {
			m.must = append(m.must, f)
		}
		if m.fs.mode == modeBlocked && !m.fs.released {
			m.certain++
		}
	}
}

func (sc *scen) ensureRoom(m *mstream) bool {
	// a barrier may leave later barrier frames of its own in the queue (pend > 0
	// afterwards), so repeat until there is room for one more frame
	for i := 0; m.fcActive() && m.pend >= sc.q; i++ {
		if !sc.barrier(m, "room") || sc.stop {
			return false
		}
		if i > 8 {
			sc.stop = true
			sc.c.Inconclusive("could not make room on " + m.fs.describe())
			return false
		}
	}
	return true
}

// barrier waits, by FIFO, until everything previously queued for the stream
// has been handed to it (see env.drain), then confirms the frames whose
// acceptance was certain.
func (sc *scen) barrier(m *mstream, why string) bool {
	e := sc.e
	if sc.asyncDirty && !sc.flushDial() {
		return false
	}
	status, extra := e.drain(m.fs)
	switch status {
	case drainOK:
		m.pend = extra
		sc.checkMust(m, why)
		return !sc.stop
	case drainEnded:
		m.must = nil
		return true
	case drainCallStuck, drainFatal:
		sc.stop = true
		return false
	case drainTimeout:
		sc.stop = true
		sc.judgeUndelivered(m, why)
		return false
	default: // drainRefused
		sc.stop = true
		sc.c.Violation("undelivered:barrier-never-accepted:"+modeNames[m.fs.mode], "a writable stream with room in its queue kept refusing frames",
			sc.witness(map[string]any{"stream": m.fs.describe(), "why": why}))
		return false
	}
}

// judgeUndelivered: the barrier watchdog fired. Verdict from state + dump.
func (sc *scen) judgeUndelivered(m *mstream, why string) {
	e := sc.e
	fs := m.fs
	dump := goroutineDump()
	e.mu.Lock()
	inSend := fs.inSend
	e.mu.Unlock()
	snap := e.snap()
	indexed := hasId(snap.byTag[fs.priv], fs.poolId)
	poolRunning := false
	var poolBlocks []string
	for _, g := range strings.Split(dump, "\n\n") {
		if strings.Contains(g, "any-sync/net/streampool.") {
			if !isParked(goroutineState(g)) {
				poolRunning = true
			}
			if len(poolBlocks) < 6 {
				poolBlocks = append(poolBlocks, trim(g, 1200))
			}
		}
	}
	if !inSend && indexed && !poolRunning {
		blocked := 0
		for _, x := range sc.model {
			if x.alive && x.fs.mode == modeBlocked && !x.fs.released {
				blocked++
			}
		}
		key := "undelivered:writable-stream"
		if blocked > 0 {
			key += ":while-another-stream-blocked"
		}
		sc.c.Violation(key, "a frame broadcast to a writable, indexed stream with room in its queue was not handed to it; no pool goroutine is making progress",
			sc.witness(map[string]any{"stream": fs.describe(), "why": why, "pool_goroutines": poolBlocks}))
		return
	}
	sc.c.Inconclusive(fmt.Sprintf("barrier watchdog on %s (inSend=%v indexed=%v poolRunning=%v)", fs.describe(), inSend, indexed, poolRunning))
}

func (sc *scen) checkMust(m *mstream, why string) {
	e := sc.e
	e.mu.Lock()
	got := map[*frame]bool{}
	for _, r := range m.fs.handed {
		got[r.f] = true
	}
	e.mu.Unlock()
	for _, f := range m.must {
		if !got[f] {
			mode := modeNames[m.fs.mode]
			sc.c.Violation("lost-frame:"+f.Kind+":"+mode, "a frame sent to a writable stream whose queue had room was never handed to it although a later frame was",
				sc.witness(map[string]any{"stream": m.fs.describe(), "frame": f.String(), "why": why, "handed": m.fs.handedStrings(60)}))
			sc.stop = true
			break
		}
	}
	sc.c.Count("frames.must_deliver_confirmed", int64(len(m.must)))
	m.must = nil
}

// ---------------------------------------------------------------- dial pool helpers

func (sc *scen) getter(ids []string) streampool.PeerGetter { return sc.e.getter(ids) }

func (sc *scen) parkWorkers() bool {
	ok, why := sc.e.parkWorkers()
	if !ok {
		sc.stop = true
		if why != "" {
			sc.c.Inconclusive(why)
		}
	}
	return ok
}

func (sc *scen) releaseWorkers() bool {
	if !sc.e.releaseWorkers() {
		sc.stop = true
		return false
	}
	return true
}

func (sc *scen) flushDial() bool {
	if !sc.parkWorkers() || !sc.releaseWorkers() {
		return false
	}
	sc.asyncDirty = false
	sc.c.Count("dial.flushes", 1)
	return sc.adoptDialed()
}

// adoptDialed adds streams created by the harness's dial function to the model.
func (sc *scen) adoptDialed() bool {
	e := sc.e
	e.mu.Lock()
	var fresh []*fakeStream
	for _, fs := range e.streams {
		if _, ok := sc.byFs[fs]; !ok {
			fresh = append(fresh, fs)
		}
	}
	e.mu.Unlock()
	for _, fs := range fresh {
		if !e.waitFor(func() bool { return fs.helloDone || fs.endedT != 0 }) {
			sc.stop = true
			if !e.fatalSeen() {
				sc.c.Inconclusive("dialed stream was never read")
			}
			return false
		}
		m := &mstream{fs: fs, alive: true, fc: true, tags: map[string]bool{fs.priv: true}, pend: sc.q}
		e.mu.Lock()
		for _, t := range e.dialPol[fs.peerId].tags {
			m.tags[t] = true
		}
		e.mu.Unlock()
		sc.model = append(sc.model, m)
		sc.byFs[fs] = m
		sc.c.Count("dial.streams_opened", 1)
		sc.logf("dialed %s tags=%v", fs.describe(), keys(m.tags))
	}
	return true
}

func keys(m map[string]bool) []string {
	var out []string
	for k := range m {
		out = append(out, k)
	}
	sort.Strings(out)
	return out
}

// ---------------------------------------------------------------- operations

func (sc *scen) opBroadcast(kind string, tags []string) bool {
	e := sc.e
	for _, m := range sc.targetsForTags(tags) {
		if !sc.ensureRoom(m) || sc.stop {
			return false
		}
	}
	targets := sc.targetsForTags(tags)
	f := sc.newFrame(kind, false, "tags:"+strings.Join(tags, ","))
	msg := sc.wrap(f)
	err, ok := e.call("Broadcast", func() error { return e.pool.Broadcast(e.bg, msg, tags...) })
	if !ok {
		sc.stop = true
		return false
	}
	sc.c.Count("calls.Broadcast", 1)
	if err != nil {
		sc.c.Count("calls.Broadcast.error", 1)
	}
	var names []string
	for _, m := range targets {
		sc.account(f, m, true)
		names = append(names, m.fs.describe())
	}
	if kind == "bcast" {
		sc.logf("Broadcast %s -> %v", f, names)
	}
	return true
}

func (sc *scen) opSendById(peers []string) bool {
	e := sc.e
	var all []*mstream
	for _, p := range peers {
		all = append(all, sc.candsForPeer(p)...)
	}
	single := len(peers) == 1 && len(all) == 1 && !all[0].uncertain
	// every stream the frame may reach keeps room (a frame that is only possibly
	// queued there must not take the place of an earlier, still unwritten Send frame)
	for _, m := range all {
		if !sc.ensureRoom(m) || sc.stop {
			return false
		}
	}
	f := sc.newFrame("byid", false, "peers:"+strings.Join(peers, ","))
	msg := sc.wrap(f)
	err, ok := e.call("SendById", func() error { return e.pool.SendById(e.bg, msg, peers...) })
	if !ok {
		sc.stop = true
		return false
	}
	sc.c.Count("calls.SendById", 1)
	anyCertain := false
	for _, m := range all {
		if !m.uncertain {
			anyCertain = true
		}
	}
	switch {
	case len(all) == 0:
		sc.c.Count("calls.SendById.no_stream", 1)
		if !errors.Is(err, anynet.ErrUnableToConnect) {
			sc.c.Violation("sendbyid:no-error-without-stream", "SendById to peers none of which has a stream in the pool did not report unable-to-connect",
				sc.witness(map[string]any{"peers": peers, "err": fmt.Sprint(err), "snapshot": e.snap().json()}))
		}
	case anyCertain && err != nil:
		sc.c.Violation("sendbyid:error-with-live-stream", "SendById reported an error although the peer has a live stream",
			sc.witness(map[string]any{"peers": peers, "err": err.Error()}))
	}
	for _, m := range all {
		sc.account(f, m, single)
	}
	sc.logf("SendById %s err=%v single=%v", f, err, single)
	return true
}

func (sc *scen) opSend(peers []string) bool {
	e := sc.e
	needSync := false
	type pc struct {
		cands  []*mstream
		single bool
	}
	var per []pc
	for _, p := range peers {
		cands := sc.candsForPeer(p)
		certainAlive := false
		for _, m := range cands {
			if !m.uncertain {
				certainAlive = true
			}
		}
		if !certainAlive {
			needSync = true
		}
		x := pc{cands: cands, single: len(cands) == 1 && !cands[0].uncertain}
		// a peer listed twice gets two writes: only the first is certain to fit
		for _, y := range per {
			if len(y.cands) > 0 && len(cands) > 0 && y.cands[0].fs.peerId == cands[0].fs.peerId {
				x.single = false
			}
		}
		for _, m := range cands {
			if !sc.ensureRoom(m) || sc.stop {
				return false
			}
		}
		per = append(per, x)
	}
	f := sc.newFrame("send", true, "peers:"+strings.Join(peers, ","))
	msg := sc.wrap(f)
	err, ok := e.call("Send", func() error { return e.pool.Send(e.bg, msg, sc.getter(peers)) })
	if !ok {
		sc.stop = true
		return false
	}
	sc.c.Count("calls.Send", 1)
	sc.logf("Send %s err=%v", f, err)
	if err != nil {
		sc.c.Count("calls.Send.refused_dial_queue_full", 1)
		return true
	}
	sc.asyncDirty = true
	for _, x := range per {
		for _, m := range x.cands {
			sc.account(f, m, x.single)
		}
	}
	if needSync {
		return sc.flushDial()
	}
	return true
}

// opBurst sends more than queueSize+1 frames in a row towards a blocked (or
// any) stream.
func (sc *scen) opBurst() bool {
	var blocked []*mstream
	for _, m := range sc.model {
		if m.alive && m.fs.mode == modeBlocked && !m.fs.released {
			blocked = append(blocked, m)
		}
	}
	var tags []string
	var peerOnly string
	if len(blocked) > 0 {
		b := blocked[sc.rng.Intn(len(blocked))]
		tags = []string{b.fs.priv}
		if len(sc.candsForPeer(b.fs.peerId)) == 1 && sc.rng.Intn(3) == 0 {
			peerOnly = b.fs.peerId
		}
		if sc.rng.Intn(3) == 0 {
			tags = append(tags, sc.shared[sc.rng.Intn(len(sc.shared))])
		}
	} else {
		tags = sc.randTags()
	}
	n := sc.q + 2 + sc.rng.Intn(4)
	sc.logf("burst of %d to %v %s", n, tags, peerOnly)
	sc.c.Count("bursts", 1)
	for i := 0; i < n && !sc.stop; i++ {
		if peerOnly != "" {
			if !sc.opSendById([]string{peerOnly}) {
				return false
			}
		} else if !sc.opBroadcast("burst", tags) {
			return false
		}
	}
	return !sc.stop
}

func (sc *scen) opTags(add bool) bool {
	e := sc.e
	m := sc.model[sc.rng.Intn(len(sc.model))]
	if m.fs.poolCtx == nil {
		return true
	}
	var tags []string
	for i, n := 0, 1+sc.rng.Intn(2); i < n; i++ {
		tags = append(tags, sc.shared[sc.rng.Intn(len(sc.shared))])
	}
	name := "RemoveTagsCtx"
	if add {
		name = "AddTagsCtx"
	}
	err, ok := e.call(name, func() error {
		if add {
			return e.pool.AddTagsCtx(m.fs.poolCtx, append([]string(nil), tags...)...)
		}
		return e.pool.RemoveTagsCtx(m.fs.poolCtx, append([]string(nil), tags...)...)
	})
	if !ok {
		sc.stop = true
		return false
	}
	sc.c.Count("calls."+name, 1)
	sc.logf("%s %s %v err=%v", name, m.fs.describe(), tags, err)
	if !m.alive {
		sc.c.Count("calls."+name+".on_ended_stream", 1)
		if err == nil {
			sc.c.Count("calls."+name+".on_ended_stream.nil_error", 1)
		}
		sc.checkSnapshot("tags-on-ended-stream")
		return true
	}
	if err != nil {
		if !m.uncertain {
			sc.c.Violation("tags:error-on-live-stream", name+" failed for a live stream", sc.witness(map[string]any{"stream": m.fs.describe(), "err": err.Error()}))
		}
		return true
	}
	for _, t := range tags {
		if add {
			m.tags[t] = true
		} else {
			delete(m.tags, t)
		}
	}
	return true
}

func (sc *scen) opGrant() {
	e := sc.e
	e.mu.Lock()
	for _, m := range sc.model {
		if m.alive && m.fs.mode == modeSlow && sc.rng.Intn(2) == 0 {
			m.fs.tokens += 1 + sc.rng.Intn(3)
			m.fs.kickLocked()
		}
	}
	e.mu.Unlock()
	sc.c.Count("slow.token_grants", 1)
}

// opIsolation: while blocked streams stay blocked, everything accepted by a
// writable stream gets delivered.
func (sc *scen) opIsolation() {
	var cands []*mstream
	blocked := 0
	for _, m := range sc.model {
		if m.fcActive() {
			cands = append(cands, m)
		}
		if m.alive && m.fs.mode == modeBlocked && !m.fs.released {
			blocked++
		}
	}
	if len(cands) == 0 {
		return
	}
	m := cands[sc.rng.Intn(len(cands))]
	if sc.barrier(m, "isolation") && blocked > 0 {
		sc.c.Count("isolation.delivery_confirmed_while_blocked_stream_present", 1)
	}
}

func (sc *scen) opDialJam() {
	e := sc.e
	if !sc.parkWorkers() {
		return
	}
	// target: a peer none of whose streams is under flow control (the jam frames are sent without keeping room)
	p := "pr"
	for _, i := range sc.rng.Perm(len(sc.peers)) {
		ok := true
		for _, m := range sc.candsForPeer(sc.peers[i]) {
			if m.fcActive() {
				ok = false
			}
		}
		if ok {
			p = sc.peers[i]
			break
		}
	}
	cands := sc.candsForPeer(p)
	accepted := 0
	n := sc.D + 2
	if n > 12 {
		n = 12
	}
	for i := 0; i < n; i++ {
		f := sc.newFrame("jam", true, "peers:"+p)
		err, ok := e.call("Send", func() error { return e.pool.Send(e.bg, f, sc.getter([]string{p})) })
		if !ok {
			sc.stop = true
			return
		}
		sc.c.Count("calls.Send", 1)
		if err == nil {
			accepted++
			for _, m := range cands {
				sc.account(f, m, false)
			}
		} else {
			sc.c.Count("calls.Send.refused_dial_queue_full", 1)
		}
	}
	sc.logf("dial jam: %d/%d Sends accepted with all %d workers parked, dial queue %d", accepted, n, sc.W, sc.D)
	sc.c.Count("dialjam.rounds", 1)
	if accepted > sc.D {
		sc.c.Count("dialjam.accepted_more_than_dial_queue", 1)
	}
	sc.asyncDirty = true
	if !sc.releaseWorkers() {
		return
	}
	sc.flushDial()
}

// opEnd ends one stream (read error, or Close on the object returned by
// Streams) and checks that the pool forgot it.
func (sc *scen) opEnd() {
	var cands []*mstream
	for _, m := range sc.model {
		if m.alive {
			cands = append(cands, m)
		}
	}
	if len(cands) <= 1 {
		return
	}
	m := cands[sc.rng.Intn(len(cands))]
	if m.fs.mode == modeBlocked && sc.rng.Intn(3) != 0 {
		return // keep most blocked streams blocked until the end
	}
	sc.endStream(m, true)
}

func (sc *scen) endStream(m *mstream, withChecks bool) bool {
	e := sc.e
	if sc.asyncDirty && !sc.flushDial() {
		return false
	}
	fs := m.fs
	if m.fcActive() && sc.rng.Intn(2) == 0 {
		if !sc.barrier(m, "before-end") {
			return false
		}
	}
	m.must = nil
	kind := "readerr"
	if sc.rng.Intn(2) == 0 {
		kind = "close"
	}
	sc.logf("end %s by %s", fs.describe(), kind)
	e.mu.Lock()
	already := fs.endedT != 0
	if fs.endKind == "" {
		fs.endKind = kind
	}
	e.mu.Unlock()
	if !already {
		if kind == "close" {
			var got []drpc.Stream
			_, ok := e.call("Streams", func() error { got = e.pool.Streams(fs.priv); return nil })
			if !ok {
				sc.stop = true
				return false
			}
			if len(got) == 1 && got[0] == drpc.Stream(fs) {
				_ = fs.closeFromOutside()
			} else if !m.uncertain {
				sc.c.Violation("streams-by-tag:live-stream-missing", "Streams(tag) does not return exactly the live stream carrying that tag",
					sc.witness(map[string]any{"stream": fs.describe(), "returned": len(got)}))
				_ = fs.closeFromOutside()
			} else {
				_ = fs.closeFromOutside()
			}
		} else {
			e.mu.Lock()
			fs.recvErr = errInjectedRead
			fs.trigLocked()
			fs.kickLocked()
			e.mu.Unlock()
		}
	}
	if !sc.awaitEnded(m) {
		return false
	}
	sc.ends[kind]++
	sc.c.Count("ends."+kind+"."+modeNames[fs.mode], 1)
	if withChecks {
		sc.afterEndChecks(m)
	}
	return !sc.stop
}

// awaitEnded waits for the pool's close hook of the stream.
func (sc *scen) awaitEnded(m *mstream) bool {
	e := sc.e
	fs := m.fs
	if e.waitFor(func() bool { return fs.endedT != 0 }) {
		m.alive = false
		m.uncertain = false
		return true
	}
	if e.fatalSeen() {
		sc.stop = true
		return false
	}
	snap := e.snap()
	still := false
	for _, ids := range snap.byPeer {
		still = still || hasId(ids, fs.poolId)
	}
	for _, ids := range snap.byTag {
		still = still || hasId(ids, fs.poolId)
	}
	if !still {
		// removed, but the hook did not run: not part of the statement
		sc.c.Count("closehook.missing", 1)
		e.mu.Lock()
		fs.endedT = e.tick()
		e.mu.Unlock()
		m.alive = false
		m.uncertain = false
		return true
	}
	sc.stop = true
	dump := goroutineDump()
	running := false
	var blocks []string
	for _, g := range strings.Split(dump, "\n\n") {
		if strings.Contains(g, "any-sync/net/streampool.") {
			if !isParked(goroutineState(g)) {
				running = true
			}
			if len(blocks) < 6 {
				blocks = append(blocks, trim(g, 1200))
			}
		}
	}
	if running {
		sc.c.Inconclusive("stream end not yet propagated but pool goroutines are still running: " + fs.describe())
		return false
	}
	sc.c.Violation("end-not-propagated:"+fs.endKindOr(), "a stream ended but stays in the pool's indexes and no pool goroutine is working on its removal",
		sc.witness(map[string]any{"stream": fs.describe(), "snapshot": snap.json(), "pool_goroutines": blocks}))
	return false
}

// syncEnds brings the model up to date with streams that ended on their own
// (write error of a failing stream).
func (sc *scen) syncEnds() {
	e := sc.e
	for _, m := range sc.model {
		if !m.alive || !m.uncertain {
			continue
		}
		e.mu.Lock()
		gone := m.fs.sendErr || m.fs.endedT != 0
		e.mu.Unlock()
		if !gone {
			continue
		}
		if sc.asyncDirty && !sc.flushDial() {
			return
		}
		if !sc.awaitEnded(m) {
			return
		}
		m.must = nil
		sc.ends["writeerr"]++
		sc.c.Count("ends.writeerr."+modeNames[m.fs.mode], 1)
		sc.logf("stream %s ended by write error", m.fs.describe())
		sc.afterEndChecks(m)
		if sc.stop {
			return
		}
	}
}

func (sc *scen) afterEndChecks(m *mstream) {
	e := sc.e
	fs := m.fs
	sc.c.Count("end.checks", 1)
	if !sc.checkSnapshot("after-end") {
		return
	}
	// Streams(tag) omits it
	tags := append([]string{fs.priv}, sc.shared...)
	for _, t := range tags {
		var got []drpc.Stream
		_, ok := e.call("Streams", func() error { got = e.pool.Streams(t); return nil })
		if !ok {
			sc.stop = true
			return
		}
		sc.c.Count("calls.Streams", 1)
		for _, g := range got {
			if g == drpc.Stream(fs) {
				sc.c.Violation("streams-by-tag:ended-stream-listed", "Streams(tag) returns a stream that has ended",
					sc.witness(map[string]any{"stream": fs.describe(), "tag": t, "end": fs.endKindOr()}))
				sc.stop = true
				return
			}
		}
	}
	// SendById to its peer: unable-to-connect when that was the peer's only stream (checked inside), and the ended stream gets nothing (offline check)
	sc.opSendById([]string{fs.peerId})
	if sc.stop {
		return
	}
	// Broadcast to its private tag reaches nobody (offline check: nothing after the end)
	sc.opBroadcast("bcast", []string{fs.priv})
	if sc.stop {
		return
	}
	// a Send to its peer dials anew through the harness's dial function (or reports nothing): the old stream is not a target
	if sc.rng.Intn(2) == 0 {
		before := 0
		e.mu.Lock()
		before = e.dials[fs.peerId]
		e.mu.Unlock()
		others := len(sc.candsForPeer(fs.peerId))
		sc.opSend([]string{fs.peerId})
		if sc.stop {
			return
		}
		if !sc.asyncDirty && others == 0 {
			e.mu.Lock()
			after := e.dials[fs.peerId]
			e.mu.Unlock()
			if after > before {
				sc.c.Count("end.send_redialed", 1)
			} else {
				sc.c.Count("end.send_not_redialed", 1)
			}
		}
	}
}

// checkSnapshot compares the pool's indexes with the reference model.
func (sc *scen) checkSnapshot(where string) bool {
	e := sc.e
	if sc.asyncDirty && !sc.flushDial() {
		return false
	}
	snap := e.snap()
	ids, poolTags := streampool.VerifStreamIds(e.pool)
	sc.c.Count("snapshot.checks", 1)
	if bad := snap.internalConsistency(); len(bad) > 0 {
		sc.c.Violation("index:inconsistent", "the pool's indexes are not consistent with each other", sc.witness(map[string]any{"where": where, "problems": bad, "snapshot": snap.json()}))
		sc.stop = true
		return false
	}
	certain, uncertain := 0, 0
	for _, m := range sc.model {
		fs := m.fs
		e.mu.Lock()
		id, known := fs.poolId, fs.helloDone
		e.mu.Unlock()
		if !known {
			continue
		}
		if m.alive && m.uncertain {
			uncertain++
			continue
		}
		if m.alive {
			certain++
			if !hasId(snap.byPeer[fs.peerId], id) {
				sc.c.Violation("index:live-stream-missing-from-peer-index", "a live stream is not listed under its peer", sc.witness(map[string]any{"where": where, "stream": fs.describe(), "snapshot": snap.json()}))
				sc.stop = true
				return false
			}
			for _, t := range append([]string{fs.priv}, sc.shared...) {
				if hasId(snap.byTag[t], id) != m.tags[t] {
					sc.c.Violation("index:tag-mismatch", "the tag index disagrees with the tags added to / removed from a live stream",
						sc.witness(map[string]any{"where": where, "stream": fs.describe(), "tag": t, "model_has_tag": m.tags[t], "snapshot": snap.json()}))
					sc.stop = true
					return false
				}
			}
			continue
		}
		// ended
		var refs []string
		for p, l := range snap.byPeer {
			if hasId(l, id) {
				refs = append(refs, "peer:"+p)
			}
		}
		for t, l := range snap.byTag {
			if hasId(l, id) {
				refs = append(refs, "tag:"+t)
			}
		}
		for _, x := range ids {
			if x == id {
				refs = append(refs, "streams")
			}
		}
		if len(refs) > 0 {
			sort.Strings(refs)
			kind := "tag"
			if strings.HasPrefix(refs[0], "peer:") {
				kind = "peer"
			} else if refs[0] == "streams" {
				kind = "streams"
			}
			sc.c.Violation("index:ended-stream-still-indexed:"+kind, "an index entry or tag still refers to a stream that has ended",
				sc.witness(map[string]any{"where": where, "stream": fs.describe(), "end": fs.endKindOr(), "refs": refs, "snapshot": snap.json()}))
			sc.stop = true
			return false
		}
	}
	if snap.n < certain || snap.n > certain+uncertain {
		sc.c.Violation("index:stream-count", "the pool holds a different number of streams than were added and not ended",
			sc.witness(map[string]any{"where": where, "pool": snap.n, "model_live": certain, "model_maybe": uncertain, "pool_tags": fmt.Sprint(poolTags)}))
		sc.stop = true
		return false
	}
	return true
}

// finalPhase: isolation while blocked, release + bound checks, end everything, leak check.
func (sc *scen) finalPhase() {
	e := sc.e
	c := sc.c
	sc.syncEnds()
	if sc.stop {
		return
	}
	if sc.asyncDirty && !sc.flushDial() {
		return
	}
	blockedPresent := 0
	for _, m := range sc.model {
		if m.alive && m.fs.mode == modeBlocked && !m.fs.released {
			blockedPresent++
		}
	}
	// 1. every writable flow-controlled stream got everything while the blocked ones are still blocked
	for _, m := range sc.model {
		if m.fcActive() {
			if !sc.barrier(m, "final-isolation") {
				if sc.stop {
					return
				}
				continue
			}
			if blockedPresent > 0 {
				c.Count("isolation.delivery_confirmed_while_blocked_stream_present", 1)
			}
		}
	}
	// 2. blocked streams: at most one frame handed while blocked; after release at most q+1 and at least min(q, offered)
	for _, m := range sc.model {
		fs := m.fs
		if fs.mode != modeBlocked || !m.alive {
			continue
		}
		e.mu.Lock()
		before := fs.nSend
		e.mu.Unlock()
		if before > 1 {
			c.Violation("bound:second-write-while-blocked", "a stream whose first write never returned was handed a second frame", sc.witness(map[string]any{"stream": fs.describe(), "handed": before}))
			sc.stop = true
			return
		}
		e.mu.Lock()
		fs.released = true
		fs.releaseT = e.tick()
		fs.kickLocked()
		e.mu.Unlock()
		m.pend = sc.q // unknown occupancy
		if !sc.barrier(m, "drain-released") {
			if sc.stop {
				return
			}
			continue
		}
		e.mu.Lock()
		n := 0
		for _, r := range fs.handed {
			if r.f.Kind != "barrier" && r.f.T0 < fs.releaseT {
				n++
			}
		}
		e.mu.Unlock()
		rel := "lt_q"
		switch {
		case n == sc.q+1:
			rel = "eq_q+1"
		case n == sc.q:
			rel = "eq_q"
		case n > sc.q+1:
			rel = "gt_q+1"
		}
		c.Count(fmt.Sprintf("blocked.q%d.handed_%s", sc.q, rel), 1)
		c.Count("blocked.bound_checks", 1)
		c.Count("blocked.frames_offered", int64(m.certain))
		dropped := m.certain - n
		if dropped > 0 {
			c.Count("frames.dropped_by_full_queue_of_blocked_stream", int64(dropped))
		}
		if n > sc.q+1 {
			c.Violation("bound:blocked-stream-handed-more-than-queue+1", "a stream that was blocked from its first write received more than queueSize+1 of the frames sent while it was blocked",
				sc.witness(map[string]any{"stream": fs.describe(), "queue_size": sc.q, "handed": n, "offered_for_certain": m.certain}))
			sc.stop = true
			return
		}
		want := m.certain
		if want > sc.q {
			want = sc.q
		}
		if n < want {
			c.Violation("bound:dropped-below-queue-size", "frames offered to a blocked stream were dropped although fewer than queueSize were buffered",
				sc.witness(map[string]any{"stream": fs.describe(), "queue_size": sc.q, "handed": n, "offered_for_certain": m.certain, "handed_frames": fs.handedStrings(20)}))
			sc.stop = true
			return
		}
	}
	// 3. undelivered (dropped / refused) frames, for evidence
	// 4. end everything and check for leaks
	if !sc.checkSnapshot("before-teardown") {
		return
	}
	for _, m := range sc.model {
		if m.alive {
			if !sc.endStream(m, sc.rng.Intn(4) == 0) {
				return
			}
		}
	}
	if sc.asyncDirty && !sc.flushDial() {
		return
	}
	// streams dialed during the after-end checks of the last streams
	for again := true; again; {
		again = false
		for _, m := range sc.model {
			if m.alive {
				again = true
				if !sc.endStream(m, false) {
					return
				}
			}
		}
	}
	if !e.waitFor(func() bool { return e.readReturns >= sc.nRead }) {
		if !e.fatalSeen() {
			c.Inconclusive("ReadStream did not return after its stream ended")
		}
		return
	}
	snap := e.snap()
	ids, _ := streampool.VerifStreamIds(e.pool)
	c.Count("leak.checks_at_quiescence", 1)
	if snap.n != 0 || len(snap.byPeer) != 0 || len(snap.byTag) != 0 || len(ids) != 0 {
		c.Violation("leak:index-not-empty-at-quiescence", "all streams have ended but the pool's indexes are not empty", sc.witness(map[string]any{"snapshot": snap.json()}))
		return
	}
	for _, t := range sc.shared {
		if got := e.pool.Streams(t); len(got) != 0 {
			c.Violation("leak:streams-by-tag-at-quiescence", "Streams(tag) returns streams after all streams ended", sc.witness(map[string]any{"tag": t}))
			return
		}
	}
	if err := e.pool.SendById(e.bg, &frame{Kind: "byid", Prod: -3, T0: e.tick()}, sc.peers...); !errors.Is(err, anynet.ErrUnableToConnect) {
		c.Violation("sendbyid:no-error-without-stream", "SendById did not report unable-to-connect after all streams ended", sc.witness(map[string]any{"err": fmt.Sprint(err)}))
	}
	e.mu.Lock()
	if e.unknownHooks > 0 {
		c.Count("closehook.unidentified", int64(e.unknownHooks))
	}
	c.Count("dial.attempts", int64(e.dialTotal))
	c.Count("dial.refused_by_harness", int64(e.dialRefused))
	e.mu.Unlock()
}

