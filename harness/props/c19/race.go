package c19

import (
	"errors"
	"fmt"
	"math/rand"
	"runtime/debug"
	"sort"
	"strings"
	"sync"
	"time"

	"storj.io/drpc"

	anynet "github.com/anyproto/any-sync/net"
	"github.com/anyproto/any-sync/net/streampool"

	"verifharness/lib"
)

// The race workload: 8 goroutines issue random pool calls (sends, tag
// changes, Streams, stream ends) concurrently on one pool, under the race
// detector. Judged: every call returns while blocked streams stay blocked,
// every atomic index snapshot is consistent and never lists a stream whose
// removal was already observed, per-producer order per stream, nothing is
// handed to a stream for a send that started after its removal, the blocked
// streams' bound, and an empty index at quiescence.

const raceWorkers = 8

type byidRec struct {
	peers  []string
	t0, t1 int64
	err    error
}

type raceRound struct {
	c      *lib.Case
	e      *env
	q      int
	shared []string
	peers  []string
	init   []*fakeStream
	mu     sync.Mutex
	byid   []byidRec
	ends   int
	maxEnd int
	counts map[string]int64
	viol   bool
}

func (rr *raceRound) count(k string, n int64) {
	rr.mu.Lock()
	rr.counts[k] += n
	rr.mu.Unlock()
}

// raceWorkerLoop is the frame looked for in goroutine dumps when the round's
// progress watchdog fires.
//
//go:noinline
func raceWorkerLoop(rr *raceRound, gid int, rng *rand.Rand, nOps int) {
	e := rr.e
	seqS, seqA := 0, 0
	newFrame := func(kind string, async bool, dest string) *frame {
		f := &frame{Prod: gid, Kind: kind, Async: async, Dest: dest}
		if async {
			seqA++
			f.Seq = seqA
		} else {
			seqS++
			f.Seq = seqS
		}
		f.T0 = e.tick()
		return f
	}
	wrap := func(f *frame) drpc.Message {
		if rng.Intn(2) == 0 {
			return &pframe{f: f}
		}
		return f
	}
	randTags := func() []string {
		n := 1 + rng.Intn(2)
		var out []string
		for i := 0; i < n; i++ {
			if rng.Intn(3) == 0 {
				out = append(out, fmt.Sprintf("s%d", rng.Intn(len(rr.init)+2)))
			} else {
				out = append(out, rr.shared[rng.Intn(len(rr.shared))])
			}
		}
		return out
	}
	randPeers := func() []string {
		n := 1
		if rng.Intn(5) == 0 {
			n = 2
		}
		seen := map[string]bool{}
		var out []string
		for i := 0; i < n; i++ {
			p := rr.peers[rng.Intn(len(rr.peers))]
			if !seen[p] {
				seen[p] = true
				out = append(out, p)
			}
		}
		return out
	}
	randStream := func() *fakeStream {
		e.mu.Lock()
		defer e.mu.Unlock()
		return e.streams[rng.Intn(len(e.streams))]
	}
	endedBefore := func() map[*fakeStream]bool {
		e.mu.Lock()
		defer e.mu.Unlock()
		m := map[*fakeStream]bool{}
		for _, fs := range e.streams {
			if fs.endedT != 0 {
				m[fs] = true
			}
		}
		return m
	}
	for i := 0; i < nOps; i++ {
		if e.fatalSeen() {
			return
		}
		r := rng.Intn(100)
		switch {
		case r < 30:
			tags := randTags()
			f := newFrame("bcast", false, "tags:"+strings.Join(tags, ","))
			msg := wrap(f)
			_ = apiCall(func() error { return e.pool.Broadcast(e.bg, msg, tags...) })
			rr.count("calls.Broadcast", 1)
		case r < 50:
			peers := randPeers()
			f := newFrame("byid", false, "peers:"+strings.Join(peers, ","))
			msg := wrap(f)
			err := apiCall(func() error { return e.pool.SendById(e.bg, msg, peers...) })
			t1 := e.tick()
			rr.mu.Lock()
			rr.byid = append(rr.byid, byidRec{peers: peers, t0: f.T0, t1: t1, err: err})
			rr.mu.Unlock()
			rr.count("calls.SendById", 1)
		case r < 65:
			peers := randPeers()
			f := newFrame("send", true, "peers:"+strings.Join(peers, ","))
			msg := wrap(f)
			err := apiCall(func() error { return e.pool.Send(e.bg, msg, e.getter(peers)) })
			rr.count("calls.Send", 1)
			if err != nil {
				rr.count("calls.Send.refused_dial_queue_full", 1)
			}
		case r < 81:
			fs := randStream()
			e.mu.Lock()
			ctx := fs.poolCtx
			e.mu.Unlock()
			if ctx == nil {
				continue
			}
			tags := []string{rr.shared[rng.Intn(len(rr.shared))]}
			if rng.Intn(3) == 0 {
				tags = append(tags, rr.shared[rng.Intn(len(rr.shared))])
			}
			if r < 73 {
				_ = apiCall(func() error { return e.pool.AddTagsCtx(ctx, tags...) })
				rr.count("calls.AddTagsCtx", 1)
			} else {
				_ = apiCall(func() error { return e.pool.RemoveTagsCtx(ctx, tags...) })
				rr.count("calls.RemoveTagsCtx", 1)
			}
		case r < 86:
			gone := endedBefore()
			tag := randTags()[0]
			var got []drpc.Stream
			_ = apiCall(func() error { got = e.pool.Streams(tag); return nil })
			rr.count("calls.Streams", 1)
			for _, g := range got {
				if fs, ok := g.(*fakeStream); ok && gone[fs] {
					rr.c.Violation("streams-by-tag:ended-stream-listed", "Streams(tag) returns a stream whose removal had completed before the call",
						map[string]any{"stream": fs.describe(), "tag": tag})
				}
			}
			// closing a stream object obtained from the pool is one way a stream ends
			if len(got) > 0 && rng.Intn(6) == 0 && rr.takeEnd() {
				fs := got[rng.Intn(len(got))].(*fakeStream)
				e.mu.Lock()
				if fs.endKind == "" {
					fs.endKind = "close"
				}
				e.mu.Unlock()
				_ = fs.Close()
				rr.count("ends.close", 1)
			}
		case r < 91:
			gone := endedBefore()
			snap := e.snap()
			rr.count("snapshot.checks", 1)
			if bad := snap.internalConsistency(); len(bad) > 0 {
				rr.c.Violation("index:inconsistent", "an atomic snapshot of the pool's indexes is not consistent", map[string]any{"problems": bad, "snapshot": snap.json()})
			}
			for fs := range gone {
				e.mu.Lock()
				id, known := fs.poolId, fs.helloDone
				e.mu.Unlock()
				if !known {
					continue
				}
				var refs []string
				for p, l := range snap.byPeer {
					if hasId(l, id) {
						refs = append(refs, "peer:"+p)
					}
				}
				for t, l := range snap.byTag {
					if hasId(l, id) {
						refs = append(refs, "tag:"+t)
					}
				}
				if len(refs) > 0 {
					sort.Strings(refs)
					kind := "tag"
					if strings.HasPrefix(refs[0], "peer:") {
						kind = "peer"
					}
					rr.c.Violation("index:ended-stream-still-indexed:"+kind, "an index entry or tag refers to a stream whose removal had completed", map[string]any{"stream": fs.describe(), "refs": refs, "snapshot": snap.json()})
				}
			}
		case r < 94:
			if !rr.takeEnd() {
				continue
			}
			fs := randStream()
			e.mu.Lock()
			if fs.endKind == "" {
				fs.endKind = "readerr"
			}
			fs.recvErr = errInjectedRead
			fs.trigLocked()
			fs.kickLocked()
			e.mu.Unlock()
			rr.count("ends.readerr", 1)
		default:
			e.mu.Lock()
			for _, fs := range e.streams {
				if fs.mode == modeSlow {
					fs.tokens += 1 + rng.Intn(4)
					fs.kickLocked()
				}
			}
			e.mu.Unlock()
			rr.count("slow.token_grants", 1)
		}
	}
}

func (rr *raceRound) takeEnd() bool {
	rr.mu.Lock()
	defer rr.mu.Unlock()
	if rr.ends >= rr.maxEnd {
		return false
	}
	rr.ends++
	return true
}

func runRace(c *lib.Case) {
	rng := c.Rng
	q := queueSizes[c.Index%4]
	W := []int{1, 2, 4}[rng.Intn(3)]
	D := []int{4, 64}[rng.Intn(2)]
	cfg := streampool.StreamConfig{SendQueueSize: q, DialQueueWorkers: W, DialQueueSize: D}
	e := newEnv(c, q, cfg)
	defer e.teardown()
	c.Eval(1)
	rr := &raceRound{c: c, e: e, q: q, shared: []string{"t0", "t1", "t2"}, counts: map[string]int64{}}

	n := 4 + rng.Intn(4)
	modes := make([]int, n)
	for i := range modes {
		modes[i] = []int{modeHealthy, modeHealthy, modeSlow, modeBlocked, modeBlocked, modeFailing}[rng.Intn(6)]
	}
	modes[0] = modeHealthy
	if c.Index%8 != 7 {
		modes[1] = modeBlocked
	}
	nPeers := 2 + rng.Intn(3)
	for i := 0; i < nPeers; i++ {
		rr.peers = append(rr.peers, fmt.Sprintf("p%d", i))
	}
	blocked := 0
	var mixSig []string
	for i, mode := range modes {
		peerId := rr.peers[i%nPeers]
		failAt := 0
		if mode == modeFailing {
			failAt = 1 + rng.Intn(3*q+10)
		}
		if mode == modeBlocked {
			blocked++
		}
		mixSig = append(mixSig, modeNames[mode])
		fs := e.newStream(peerId, mode, failAt)
		tags := []string{fs.priv}
		for _, t := range rr.shared {
			if rng.Intn(2) == 0 {
				tags = append(tags, t)
			}
		}
		if err := e.pool.AddStream(fs, q, tags...); err != nil {
			c.Inconclusive("AddStream failed: " + err.Error())
			return
		}
		rr.init = append(rr.init, fs)
	}
	rr.peers = append(rr.peers, "pd", "pr")
	e.mu.Lock()
	for _, p := range rr.peers {
		pol := dialPolicy{refuse: rng.Intn(3) == 0}
		if p == "pd" {
			pol.refuse = false
		}
		if p == "pr" {
			pol.refuse = true
		}
		if rng.Intn(2) == 0 {
			pol.tags = []string{rr.shared[rng.Intn(len(rr.shared))]}
		}
		if pol.refuse {
			pol.refuseErr = dialErrs[rng.Intn(len(dialErrs))]
		}
		e.dialPol[p] = pol
	}
	e.mu.Unlock()
	for _, fs := range rr.init {
		fs := fs
		if !e.waitFor(func() bool { return fs.helloDone }) {
			c.Inconclusive("stream hello was not handled")
			return
		}
	}
	rr.maxEnd = rng.Intn(n)
	t0 := e.tick()

	// the workers
	done := make(chan struct{})
	var wg sync.WaitGroup
	for g := 1; g <= raceWorkers; g++ {
		wg.Add(1)
		nOps := 40 + rng.Intn(120)
		wrng := rand.New(rand.NewSource(rng.Int63()))
		go func(g int) {
			defer wg.Done()
			defer func() {
				if r := recover(); r != nil {
					st := debug.Stack()
					key, inRepo := lib.PanicKey(r, st)
					if inRepo {
						c.Violation(key, fmt.Sprintf("panic in repository code in a concurrent pool call: %v", r), map[string]any{"stack": trim(string(st), 4000)})
					} else {
						c.Inconclusive(fmt.Sprintf("HARNESS-PANIC in race worker: %v\n%s", r, trim(string(st), 3000)))
					}
					rr.mu.Lock()
					rr.viol = true
					rr.mu.Unlock()
				}
			}()
			raceWorkerLoop(rr, g, wrng, nOps)
		}(g)
	}
	go func() { wg.Wait(); close(done) }()
	timer := time.NewTimer(5 * callWatchdog)
	select {
	case <-done:
		timer.Stop()
	case <-e.fatalCh:
		timer.Stop()
	case <-timer.C:
		e.judgeStuck("concurrent", "c19.raceWorkerLoop")
		rr.flushCounts()
		e.offlineChecks("race", W == 1)
		return
	}
	rr.flushCounts()
	sig := fmt.Sprintf("q=%d W=%d mix=%s ends=%d sig=%d", q, W, strings.Join(mixSig, ""), rr.ends, rng.Int63())
	if e.fatalSeen() || rr.viol {
		e.offlineChecks("race", W == 1)
		return
	}

	// quiescence: flush the dial pool, release blocked streams, drain, end everything
	finish := func() bool {
		if ok, why := e.parkWorkers(); !ok {
			if why != "" {
				c.Inconclusive(why)
			}
			return false
		}
		if !e.releaseWorkers() {
			return false
		}
		e.mu.Lock()
		all := append([]*fakeStream(nil), e.streams...)
		e.mu.Unlock()
		for _, fs := range all {
			fs := fs
			if !e.waitFor(func() bool { return fs.helloDone || fs.endedT != 0 || fs.closed || fs.recvErr != nil }) {
				if !e.fatalSeen() {
					c.Inconclusive("dialed stream was never read")
				}
				return false
			}
		}
		// blocked streams: bound
		for _, fs := range all {
			if fs.mode != modeBlocked {
				continue
			}
			e.mu.Lock()
			before := fs.nSend
			alive := fs.trigT == 0 && fs.endedT == 0
			fs.released = true
			fs.releaseT = e.tick()
			fs.kickLocked()
			e.mu.Unlock()
			if before > 1 {
				c.Violation("bound:second-write-while-blocked", "a stream whose first write never returned was handed a second frame", map[string]any{"stream": fs.describe(), "handed": before})
				return false
			}
			if !alive {
				continue
			}
			switch st, _ := e.drain(fs); st {
			case drainOK:
			case drainEnded:
				continue
			case drainTimeout:
				c.Inconclusive("drain watchdog on released stream " + fs.describe())
				return false
			case drainRefused:
				c.Violation("undelivered:barrier-never-accepted:B", "a released stream with room in its queue kept refusing frames", map[string]any{"stream": fs.describe()})
				return false
			default:
				return false
			}
			e.mu.Lock()
			cnt := 0
			for _, r := range fs.handed {
				if r.f.Kind != "barrier" && r.f.T0 < fs.releaseT {
					cnt++
				}
			}
			e.mu.Unlock()
			rel := "le_q"
			if cnt == q+1 {
				rel = "eq_q+1"
			} else if cnt > q+1 {
				rel = "gt_q+1"
			}
			c.Count(fmt.Sprintf("race.blocked.q%d.handed_%s", q, rel), 1)
			if cnt > q+1 {
				c.Violation("bound:blocked-stream-handed-more-than-queue+1", "a stream that was blocked from its first write received more than queueSize+1 of the frames sent while it was blocked",
					map[string]any{"stream": fs.describe(), "queue_size": q, "handed": cnt})
				return false
			}
		}
		// drain the writable ones (FIFO barrier), then end all
		for _, fs := range all {
			e.mu.Lock()
			alive := fs.trigT == 0 && fs.endedT == 0
			e.mu.Unlock()
			if !alive || fs.mode == modeBlocked {
				continue
			}
			switch st, _ := e.drain(fs); st {
			case drainOK, drainEnded:
			case drainTimeout:
				c.Inconclusive("drain watchdog on " + fs.describe())
				return false
			case drainRefused:
				c.Violation("undelivered:barrier-never-accepted:"+modeNames[fs.mode], "a writable stream with room in its queue kept refusing frames", map[string]any{"stream": fs.describe()})
				return false
			default:
				return false
			}
		}
		e.mu.Lock()
		for _, fs := range all {
			if fs.recvErr == nil {
				fs.recvErr = errInjectedRead
				fs.trigLocked()
				if fs.endKind == "" {
					fs.endKind = "readerr-final"
				}
				fs.kickLocked()
			}
		}
		e.mu.Unlock()
		for _, fs := range all {
			fs := fs
			if !e.waitFor(func() bool { return fs.endedT != 0 }) {
				if e.fatalSeen() {
					return false
				}
				snap := e.snap()
				c.Inconclusive(fmt.Sprintf("end of %s not propagated at quiescence; snapshot %v", fs.describe(), snap.json()))
				return false
			}
		}
		snap := e.snap()
		c.Count("leak.checks_at_quiescence", 1)
		if snap.n != 0 || len(snap.byPeer) != 0 || len(snap.byTag) != 0 {
			c.Violation("leak:index-not-empty-at-quiescence", "all streams have ended but the pool's indexes are not empty", map[string]any{"snapshot": snap.json(), "streams": e.describeStreams()})
			return false
		}
		if err := e.pool.SendById(e.bg, &frame{Kind: "byid", Prod: -3, T0: e.tick()}, rr.peers...); !errors.Is(err, anynet.ErrUnableToConnect) {
			c.Violation("sendbyid:no-error-without-stream", "SendById did not report unable-to-connect after all streams ended", map[string]any{"err": fmt.Sprint(err)})
		}
		return true
	}
	ok := finish()
	st := e.offlineChecks("race", W == 1)
	c.Count("race.frames.delivered", int64(st.delivered))
	c.Count("race.frames.handed_after_close", int64(st.afterClose))
	// SendById must not report unable-to-connect for a peer with a stream that was indexed during the whole call
	e.mu.Lock()
	for _, r := range rr.byid {
		if !errors.Is(r.err, anynet.ErrUnableToConnect) {
			continue
		}
		for _, fs := range rr.init {
			for _, p := range r.peers {
				if fs.peerId == p && (fs.trigT == 0 || fs.trigT > r.t1) && r.t0 > t0 {
					c.Violation("sendbyid:error-with-live-stream", "SendById reported unable-to-connect although the peer had a stream that was alive during the whole call",
						map[string]any{"stream": fs.describe(), "peers": r.peers, "call": []int64{r.t0, r.t1}, "stream_end_trigger": fs.trigT})
				}
			}
		}
	}
	nStreams := len(e.streams)
	e.mu.Unlock()
	if ok {
		c.Count("race.rounds_completed", 1)
		c.Count("race.streams_total", int64(nStreams))
		if blocked > 0 || rr.ends > 0 {
			c.Nontrivial(sig)
		}
		c.Sample("race", map[string]any{"queue_size": q, "dial_workers": W, "mix": strings.Join(mixSig, ""), "ends_during_round": rr.ends, "streams_incl_dialed": nStreams})
	}
}

func (rr *raceRound) flushCounts() {
	rr.mu.Lock()
	defer rr.mu.Unlock()
	for k, v := range rr.counts {
		rr.c.Count("race."+k, v)
	}
	rr.counts = map[string]int64{}
}
