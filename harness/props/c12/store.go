package c12

import (
	"context"
	"errors"
	"fmt"
	"io"
	"os"
	"path/filepath"
	"sync"

	anystore "github.com/anyproto/any-store"
	"storj.io/drpc"

	"github.com/anyproto/any-sync/accountservice"
	"github.com/anyproto/any-sync/app"
	"github.com/anyproto/any-sync/app/ldiff"
	"github.com/anyproto/any-sync/commonspace/headsync/headstorage"
	"github.com/anyproto/any-sync/commonspace/object/accountdata"
	"github.com/anyproto/any-sync/commonspace/object/acl/list"
	"github.com/anyproto/any-sync/commonspace/object/acl/syncacl"
	"github.com/anyproto/any-sync/commonspace/object/keyvalue"
	"github.com/anyproto/any-sync/commonspace/object/keyvalue/keyvaluestorage"
	"github.com/anyproto/any-sync/commonspace/object/keyvalue/keyvaluestorage/innerstorage"
	"github.com/anyproto/any-sync/commonspace/object/keyvalue/kvinterfaces"
	"github.com/anyproto/any-sync/commonspace/spacestate"
	"github.com/anyproto/any-sync/commonspace/spacestorage"
	"github.com/anyproto/any-sync/commonspace/spacesyncproto"
	csync "github.com/anyproto/any-sync/commonspace/sync"
	"github.com/anyproto/any-sync/commonspace/sync/objectsync/objectmessages"
	"github.com/anyproto/any-sync/commonspace/sync/syncdeps"
	"github.com/anyproto/any-sync/net/peer"
	"github.com/anyproto/any-sync/net/rpc/rpctest"
)

var bg = context.Background()

// ---------------------------------------------------------------- stub components (harness-owned collaborators)

type accountStub struct{ keys *accountdata.AccountKeys }

func (a *accountStub) Init(*app.App) error               { return nil }
func (a *accountStub) Name() string                      { return accountservice.CName }
func (a *accountStub) Account() *accountdata.AccountKeys { return a.keys }

type aclComp struct{ list.AclList }

func (a *aclComp) Init(*app.App) error { return nil }
func (a *aclComp) Name() string        { return syncacl.CName }

type spaceStorageStub struct {
	spacestorage.SpaceStorage
	db    anystore.DB
	heads headstorage.HeadStorage
	id    string
}

func (s *spaceStorageStub) Init(*app.App) error                  { return nil }
func (s *spaceStorageStub) Name() string                         { return spacestorage.CName }
func (s *spaceStorageStub) Run(context.Context) error            { return nil }
func (s *spaceStorageStub) Close(context.Context) error          { return nil }
func (s *spaceStorageStub) Id() string                           { return s.id }
func (s *spaceStorageStub) AnyStore() anystore.DB                { return s.db }
func (s *spaceStorageStub) HeadStorage() headstorage.HeadStorage { return s.heads }

// syncStub is the sync service the store broadcasts through. It records every
// broadcast as the wire message the transport would carry.
type syncStub struct {
	mu   sync.Mutex
	msgs []*spacesyncproto.ObjectSyncMessage
	n    int
	keep bool
}

func (s *syncStub) Init(*app.App) error { return nil }
func (s *syncStub) Name() string        { return csync.CName }
func (s *syncStub) BroadcastMessage(ctx context.Context, msg drpc.Message) error {
	hu, ok := msg.(*objectmessages.HeadUpdate)
	if !ok {
		return fmt.Errorf("unexpected broadcast %T", msg)
	}
	pm, err := hu.ProtoMessage()
	if err != nil {
		return err
	}
	s.mu.Lock()
	s.n++
	if s.keep {
		s.msgs = append(s.msgs, pm.(*spacesyncproto.ObjectSyncMessage))
	}
	s.mu.Unlock()
	return nil
}
func (s *syncStub) HandleStreamRequest(context.Context, syncdeps.Request, drpc.Stream) error {
	return errors.New("not used")
}
func (s *syncStub) HandleMessage(context.Context, drpc.Message) error { return errors.New("not used") }
func (s *syncStub) SendRequest(context.Context, syncdeps.Request, syncdeps.ResponseCollector) error {
	return errors.New("not used")
}
func (s *syncStub) QueueRequest(context.Context, syncdeps.Request) error {
	return errors.New("not used")
}
func (s *syncStub) CloseReceiveQueue(string) error { return nil }

func (s *syncStub) take() []*spacesyncproto.ObjectSyncMessage {
	s.mu.Lock()
	defer s.mu.Unlock()
	out := s.msgs
	s.msgs = nil
	return out
}

// recIndexer counts what the store hands to the indexer.
type recIndexer struct {
	mu sync.Mutex
	n  int
}

func (r *recIndexer) Init(*app.App) error { return nil }
func (r *recIndexer) Name() string        { return keyvaluestorage.IndexerCName }
func (r *recIndexer) Index(_ keyvaluestorage.Decryptor, kvs ...innerstorage.KeyValue) error {
	r.mu.Lock()
	r.n += len(kvs)
	r.mu.Unlock()
	return nil
}

// ---------------------------------------------------------------- node = one real key-value service on a real any-store database

type node struct {
	name      string
	svc       kvinterfaces.KeyValueService
	store     keyvaluestorage.Storage
	heads     headstorage.HeadStorage
	db        anystore.DB
	spaceId   string
	storageId string
	keys      *accountdata.AccountKeys
	acl       list.AclList
	bcast     *syncStub
	server    *rpctest.TestServer
	closers   []func()
	// hostilePeerBack is the hostile remote's handle on this node (stream-push path)
	hostilePeerBack peer.Peer
	// handlers in flight on this node's server (harness-owned bookkeeping)
	hmu      sync.Mutex
	hcond    *sync.Cond
	inflight int
	// handlerErrs: errors returned by StoreElements handlers; useStreamCtx: pass the stream's own context
	handlerErrs  []string
	useStreamCtx bool
}

func (n *node) handlerEnter() {
	n.hmu.Lock()
	n.inflight++
	n.hmu.Unlock()
}

func (n *node) handlerLeave() {
	n.hmu.Lock()
	n.inflight--
	n.hcond.Broadcast()
	n.hmu.Unlock()
}

// serverIdle waits until every StoreElements handler that was started on this
// node has returned: the handler stores the values pushed to it after it has
// sent its terminator, so the caller's exchange can return a moment earlier.
func (n *node) serverIdle() {
	n.hmu.Lock()
	for n.inflight > 0 {
		n.hcond.Wait()
	}
	n.hmu.Unlock()
}

func newHeads(db anystore.DB) (headstorage.HeadStorage, error) { return headstorage.New(bg, db) }

// headObserver records the last head entry the head storage announced per id.
type headObserver struct {
	mu sync.Mutex
	m  map[string]string
}

func (h *headObserver) OnUpdate(e headstorage.HeadsEntry) {
	h.mu.Lock()
	if h.m == nil {
		h.m = map[string]string{}
	}
	if len(e.Heads) == 1 {
		h.m[e.Id] = e.Heads[0]
	}
	h.mu.Unlock()
}

func (h *headObserver) last(id string) string {
	h.mu.Lock()
	defer h.mu.Unlock()
	return h.m[id]
}

// scratchDir returns a directory for the case's databases: on tmpfs when the
// machine has one (the databases are tiny and the checks are about logic, not
// about the disk), else the case's own scratch directory. The returned cleanup
// removes it.
func scratchDir(caseTmp string) (dir string, cleanup func()) {
	if st, err := os.Stat("/dev/shm"); err == nil && st.IsDir() {
		if d, err := os.MkdirTemp("/dev/shm", "verif-c12-"); err == nil {
			return d, func() { os.RemoveAll(d) }
		}
	}
	return caseTmp, func() {}
}

func openDB(dir, name string) anystore.DB {
	db, err := anystore.Open(bg, filepath.Join(dir, name), &anystore.Config{ReadConnections: 2, SQLiteGlobalPageCachePreallocateSizeBytes: -1})
	if err != nil {
		panic(fmt.Errorf("open any-store: %w", err))
	}
	return db
}

// newNode builds the service the way production does: keyvalue.New() and
// Init over an app container holding the collaborators (space state, account,
// ACL list, space storage = the given database + a real head storage, sync
// service stub, indexer), then Run (Prepare).
func newNode(name string, w *world, db anystore.DB, heads headstorage.HeadStorage, spaceId string, dev *device, acc *account) (*node, error) {
	keys := &accountdata.AccountKeys{PeerKey: dev.key, SignKey: acc.sign, PeerId: dev.peerId}
	n := &node{name: name, db: db, heads: heads, spaceId: spaceId, keys: keys, bcast: &syncStub{}}
	n.hcond = sync.NewCond(&n.hmu)
	n.acl = w.newList(keys)
	a := new(app.App)
	a.Register(&spacestate.SpaceState{SpaceId: spaceId})
	a.Register(&accountStub{keys})
	a.Register(&aclComp{n.acl})
	a.Register(&spaceStorageStub{db: db, heads: heads, id: spaceId})
	a.Register(n.bcast)
	a.Register(&recIndexer{})
	n.svc = keyvalue.New()
	if err := n.svc.Init(a); err != nil {
		return nil, err
	}
	if err := n.svc.Run(bg); err != nil {
		return nil, err
	}
	n.store = n.svc.DefaultStore()
	n.storageId = n.store.Id()
	n.server = rpctest.NewTestServer()
	if err := spacesyncproto.DRPCRegisterSpaceSync(n.server, &nodeServer{n: n}); err != nil {
		return nil, err
	}
	return n, nil
}

func (n *node) close() {
	for i := len(n.closers) - 1; i >= 0; i-- {
		n.closers[i]()
	}
	n.closers = nil
	_ = n.svc.Close(bg)
}

// nodeServer routes the two store RPCs to the service, like the application's
// space RPC handler does.
type nodeServer struct {
	spacesyncproto.DRPCSpaceSyncUnimplementedServer
	n *node
}

func (s *nodeServer) StoreDiff(ctx context.Context, req *spacesyncproto.StoreDiffRequest) (*spacesyncproto.StoreDiffResponse, error) {
	return s.n.svc.HandleStoreDiffRequest(ctx, req)
}

func (s *nodeServer) StoreElements(stream spacesyncproto.DRPCSpaceSync_StoreElementsStream) error {
	s.n.handlerEnter()
	defer s.n.handlerLeave()
	msg, err := stream.Recv()
	if err != nil {
		return err
	}
	if msg.SpaceId == "" {
		return errors.New("first message must carry the space id")
	}
	// The context is the embedding application's choice; like the package's own
	// tests the harness passes one that outlives the stream. (With
	// stream.Context() the values pushed by the caller are persisted after the
	// handler has sent its terminator, i.e. possibly after the caller has closed
	// the stream and thereby cancelled that context: see FINDINGS.md, O-C12-1.)
	ctx := bg
	if s.n.useStreamCtx {
		ctx = stream.Context()
	}
	err = s.n.svc.HandleStoreElementsRequest(ctx, stream)
	if err != nil {
		s.n.hmu.Lock()
		s.n.handlerErrs = append(s.n.handlerErrs, err.Error())
		s.n.hmu.Unlock()
	}
	return err
}

// connect returns a peer through which `from` reaches `to`'s server, and the
// reverse one.
func connect(a, b *node) (aToB, bToA peer.Peer) {
	connA, connB := rpctest.MultiConnPair(a.keys.PeerId+"-"+a.name, b.keys.PeerId+"-"+b.name)
	// the peer built on connA serves incoming streams with a's server and dials b
	pa, err := peer.NewPeer(connA, a.server)
	if err != nil {
		panic(err)
	}
	pb, err := peer.NewPeer(connB, b.server)
	if err != nil {
		panic(err)
	}
	a.closers = append(a.closers, func() { _ = pa.Close() })
	b.closers = append(b.closers, func() { _ = pb.Close() })
	return pa, pb
}

func (n *node) syncWith(p peer.Peer) error {
	return keyvalue.VerifSyncWithPeer(bg, n.svc, p)
}

// ---------------------------------------------------------------- delivery paths

// deliverSetRaw: pushed batch through Storage.SetRaw.
func (n *node) deliverSetRaw(batch []*item) error {
	ps := make([]*spacesyncproto.StoreKeyValue, len(batch))
	for i, it := range batch {
		ps[i] = cloneProto(it.proto)
	}
	return n.store.SetRaw(bg, ps...)
}

// deliverMessage: pushed batch as the head-update message the transport
// hands to KeyValueService.HandleMessage (marshalled and re-decoded).
func (n *node) deliverMessage(batch []*item) error {
	kvs := &spacesyncproto.StoreKeyValues{}
	for _, it := range batch {
		kvs.KeyValues = append(kvs.KeyValues, cloneProto(it.proto))
	}
	payload, err := kvs.MarshalVT()
	if err != nil {
		return err
	}
	return n.deliverWire(&spacesyncproto.ObjectSyncMessage{SpaceId: n.spaceId, ObjectId: n.storageId, Payload: payload, ObjectType: spacesyncproto.ObjectType_KeyValue})
}

func (n *node) deliverWire(m *spacesyncproto.ObjectSyncMessage) error {
	wire, err := m.MarshalVT()
	if err != nil {
		return err
	}
	msg := objectmessages.NewMessage()
	if err := msg.UnmarshalVT(wire); err != nil {
		return err
	}
	hu := &objectmessages.HeadUpdate{}
	if err := hu.SetProtoMessage(msg); err != nil {
		return err
	}
	return n.svc.HandleMessage(bg, hu)
}

// hostile is a harness-owned remote peer that serves an arbitrary batch of
// wire values through the real pull protocol: StoreDiff answers from an index
// over the advertised (id, head) pairs, StoreElements streams every value of
// the batch whose id was requested and records what it streamed and what the
// store pushed to it.
type hostile struct {
	mu       sync.Mutex
	diff     ldiff.Diff
	byId     map[string][]*item
	streamed []*item
	pushed   []*spacesyncproto.StoreKeyValue
	server   *rpctest.TestServer
	peer     peer.Peer
}

type hostileServer struct {
	spacesyncproto.DRPCSpaceSyncUnimplementedServer
	h *hostile
}

func (s *hostileServer) StoreDiff(ctx context.Context, req *spacesyncproto.StoreDiffRequest) (*spacesyncproto.StoreDiffResponse, error) {
	s.h.mu.Lock()
	d := s.h.diff
	s.h.mu.Unlock()
	return keyvalue.HandleRangeRequest(ctx, d, req)
}

func (s *hostileServer) StoreElements(stream spacesyncproto.DRPCSpaceSync_StoreElementsStream) error {
	if _, err := stream.Recv(); err != nil {
		return err
	}
	var want []string
	for {
		msg, err := stream.Recv()
		if err != nil {
			return err
		}
		if msg.KeyPeerId == "" {
			break
		}
		s.h.mu.Lock()
		if msg.Value != nil {
			s.h.pushed = append(s.h.pushed, msg)
		} else {
			want = append(want, msg.KeyPeerId)
		}
		s.h.mu.Unlock()
	}
	for _, id := range want {
		s.h.mu.Lock()
		its := s.h.byId[id]
		s.h.mu.Unlock()
		for _, it := range its {
			if err := stream.Send(cloneProto(it.proto)); err != nil {
				return err
			}
			s.h.mu.Lock()
			s.h.streamed = append(s.h.streamed, it)
			s.h.mu.Unlock()
		}
	}
	return stream.Send(&spacesyncproto.StoreKeyValue{})
}

func newHostile(n *node) *hostile {
	h := &hostile{server: rpctest.NewTestServer(), diff: ldiff.New(32, 256), byId: map[string][]*item{}}
	if err := spacesyncproto.DRPCRegisterSpaceSync(h.server, &hostileServer{h: h}); err != nil {
		panic(err)
	}
	connN, connH := rpctest.MultiConnPair(n.keys.PeerId+"-"+n.name, "hostile-of-"+n.name)
	pn, err := peer.NewPeer(connN, n.server)
	if err != nil {
		panic(err)
	}
	ph, err := peer.NewPeer(connH, h.server)
	if err != nil {
		panic(err)
	}
	h.peer = pn // the node's handle on the hostile peer
	n.closers = append(n.closers, func() { _ = pn.Close(); _ = ph.Close() })
	n.hostilePeerBack = ph
	return h
}

// offer sets the batch served at the next exchange. forced advertises the
// maximum head for every id so that the store requests it whatever it holds;
// otherwise the greatest timestamp of the batch per id is advertised.
func (h *hostile) offer(batch []*item, forced bool) {
	d := ldiff.New(32, 256)
	byId := map[string][]*item{}
	top := map[string]int64{}
	for _, it := range batch {
		id := it.proto.KeyPeerId
		byId[id] = append(byId[id], it)
		if t, ok := top[id]; !ok || it.ts > t {
			top[id] = it.ts
		}
	}
	var els []ldiff.Element
	for id, t := range top {
		hd := headOf(t)
		if forced {
			hd = "\xff\xff\xff\xff\xff\xff\xff\xff"
		}
		els = append(els, ldiff.Element{Id: id, Head: hd})
	}
	d.Set(els...)
	h.mu.Lock()
	h.diff, h.byId, h.streamed, h.pushed = d, byId, nil, nil
	h.mu.Unlock()
}

func (h *hostile) takeStreamed() []*item {
	h.mu.Lock()
	defer h.mu.Unlock()
	out := h.streamed
	h.streamed = nil
	return out
}

// deliverPull: the store pulls the batch from the hostile peer through its
// real synchronous exchange. Returns the items actually streamed to it.
func (n *node) deliverPull(h *hostile, batch []*item, forced bool) ([]*item, error) {
	h.offer(batch, forced)
	err := n.syncWith(h.peer)
	return h.takeStreamed(), err
}

// deliverStreamPush: a remote client pushes the batch to the store's
// StoreElements handler (the role the store plays when a peer syncs with it).
func (n *node) deliverStreamPush(batch []*item) error {
	if n.hostilePeerBack == nil {
		return errors.New("no hostile peer")
	}
	p := n.hostilePeerBack
	conn, err := p.AcquireDrpcConn(bg)
	if err != nil {
		return err
	}
	defer p.ReleaseDrpcConn(bg, conn)
	cl := spacesyncproto.NewDRPCSpaceSyncClient(conn)
	stream, err := cl.StoreElements(bg)
	if err != nil {
		return err
	}
	defer stream.CloseSend()
	if err = stream.Send(&spacesyncproto.StoreKeyValue{SpaceId: n.spaceId}); err != nil {
		return err
	}
	for _, it := range batch {
		if err = stream.Send(cloneProto(it.proto)); err != nil {
			return err
		}
	}
	if err = stream.Send(&spacesyncproto.StoreKeyValue{}); err != nil {
		return err
	}
	for {
		msg, err := stream.Recv()
		if err != nil {
			if errors.Is(err, io.EOF) {
				return nil
			}
			return err
		}
		if msg.KeyPeerId == "" {
			break
		}
	}
	// the handler stores the pushed values after it sent its terminator: wait
	// for the RPC to finish (the stream is closed by the server on return)
	for {
		if _, err := stream.Recv(); err != nil {
			return nil
		}
	}
}
