package c12

import (
	"context"
	"errors"
	"fmt"
	"sync"

	anystore "github.com/anyproto/any-store"
	"github.com/anyproto/any-store/anyenc"
	"github.com/anyproto/any-store/query"
)

// faultDB wraps a real any-store database. Every write boundary (write
// transaction begin, Insert / UpdateOne / UpdateId / UpsertOne / UpsertId /
// DeleteId on any collection, Commit, Rollback) is numbered while the wrapper
// is armed; in mode "fail at k" boundary k returns an injected error instead
// of taking effect (a failing Commit rolls the real transaction back, like a
// real failed commit does). Reads are passed through untouched.
type faultDB struct {
	anystore.DB
	mu      sync.Mutex
	armed   bool
	failAt  int // -1: count only
	n       int
	visited []string
	fired   string
}

var errInjected = errors.New("injected storage fault")

func newFaultDB(db anystore.DB) *faultDB { return &faultDB{DB: db, failAt: -1} }

// arm starts numbering boundaries; failAt < 0 only counts.
func (f *faultDB) arm(failAt int) {
	f.mu.Lock()
	f.armed, f.failAt, f.n, f.visited, f.fired = true, failAt, 0, nil, ""
	f.mu.Unlock()
}

func (f *faultDB) disarm() (visited []string, fired string) {
	f.mu.Lock()
	defer f.mu.Unlock()
	f.armed = false
	return f.visited, f.fired
}

// boundary returns an error when this boundary is the one to fail.
func (f *faultDB) boundary(kind string) error {
	f.mu.Lock()
	defer f.mu.Unlock()
	if !f.armed {
		return nil
	}
	k := f.n
	f.n++
	f.visited = append(f.visited, kind)
	if k == f.failAt {
		f.fired = kind
		return fmt.Errorf("%w at boundary %d (%s)", errInjected, k, kind)
	}
	return nil
}

func (f *faultDB) wrapColl(c anystore.Collection, err error) (anystore.Collection, error) {
	if err != nil {
		return nil, err
	}
	return &faultColl{Collection: c, f: f}, nil
}

func (f *faultDB) CreateCollection(ctx context.Context, name string) (anystore.Collection, error) {
	return f.wrapColl(f.DB.CreateCollection(ctx, name))
}
func (f *faultDB) OpenCollection(ctx context.Context, name string) (anystore.Collection, error) {
	return f.wrapColl(f.DB.OpenCollection(ctx, name))
}
func (f *faultDB) Collection(ctx context.Context, name string) (anystore.Collection, error) {
	return f.wrapColl(f.DB.Collection(ctx, name))
}

func (f *faultDB) WriteTx(ctx context.Context) (anystore.WriteTx, error) {
	if err := f.boundary("tx-begin"); err != nil {
		return nil, err
	}
	tx, err := f.DB.WriteTx(ctx)
	if err != nil {
		return nil, err
	}
	return &faultTx{WriteTx: tx, f: f}, nil
}

// faultTx embeds the real transaction value: its unexported methods are
// promoted, so the wrapper satisfies anystore.WriteTx, and Context() carries
// the real transaction for the collections.
type faultTx struct {
	anystore.WriteTx
	f *faultDB
}

func (t *faultTx) Commit() error {
	if err := t.f.boundary("commit"); err != nil {
		_ = t.WriteTx.Rollback()
		return err
	}
	return t.WriteTx.Commit()
}

func (t *faultTx) Rollback() error {
	// the rollback itself always happens; only its report may fail
	err := t.WriteTx.Rollback()
	if ierr := t.f.boundary("rollback"); ierr != nil {
		return ierr
	}
	return err
}

type faultColl struct {
	anystore.Collection
	f *faultDB
}

func (c *faultColl) kind(op string) string {
	n := c.Collection.Name()
	if n != "heads" {
		n = "values"
	}
	return op + ":" + n
}

func (c *faultColl) WriteTx(ctx context.Context) (anystore.WriteTx, error) {
	if err := c.f.boundary("tx-begin"); err != nil {
		return nil, err
	}
	tx, err := c.Collection.WriteTx(ctx)
	if err != nil {
		return nil, err
	}
	return &faultTx{WriteTx: tx, f: c.f}, nil
}

func (c *faultColl) Insert(ctx context.Context, docs ...*anyenc.Value) error {
	if err := c.f.boundary(c.kind("insert")); err != nil {
		return err
	}
	return c.Collection.Insert(ctx, docs...)
}
func (c *faultColl) UpdateOne(ctx context.Context, doc *anyenc.Value) error {
	if err := c.f.boundary(c.kind("update-one")); err != nil {
		return err
	}
	return c.Collection.UpdateOne(ctx, doc)
}
func (c *faultColl) UpdateId(ctx context.Context, id any, mod query.Modifier) (anystore.ModifyResult, error) {
	if err := c.f.boundary(c.kind("update-id")); err != nil {
		return anystore.ModifyResult{}, err
	}
	return c.Collection.UpdateId(ctx, id, mod)
}
func (c *faultColl) UpsertOne(ctx context.Context, doc *anyenc.Value) error {
	if err := c.f.boundary(c.kind("upsert-one")); err != nil {
		return err
	}
	return c.Collection.UpsertOne(ctx, doc)
}
func (c *faultColl) UpsertId(ctx context.Context, id any, mod query.Modifier) (anystore.ModifyResult, error) {
	if err := c.f.boundary(c.kind("upsert-id")); err != nil {
		return anystore.ModifyResult{}, err
	}
	return c.Collection.UpsertId(ctx, id, mod)
}
func (c *faultColl) DeleteId(ctx context.Context, id any) error {
	if err := c.f.boundary(c.kind("delete-id")); err != nil {
		return err
	}
	return c.Collection.DeleteId(ctx, id)
}
