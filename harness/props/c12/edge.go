package c12

import (
	"fmt"
	"math"

	"verifharness/lib"
)

// edgePairs are pairs of distinct timestamps of one slot outside the range of
// the controlled workloads (positive, below 2^53).
var edgePairs = []struct {
	class  string
	lo, hi int64
}{
	{"negative-timestamp", -1, 5},
	{"negative-timestamp", -7, -3},
	{"negative-timestamp", math.MinInt64, 1},
	{"negative-timestamp", -1, 1_700_000_000_000_000},
	{"zero-timestamp", 0, 1},
	{"negative-timestamp", -1, 0},
	{"timestamp-above-2^53", 1 << 53, 1<<53 + 1},
	{"timestamp-above-2^53", 1<<53 + 1, 1<<53 + 2},
	{"timestamp-above-2^53", 1<<60 + 1, 1<<60 + 3},
	{"timestamp-above-2^53", math.MaxInt64 - 1, math.MaxInt64},
	{"timestamp-above-2^53", 1, math.MaxInt64},
}

// runEdge: two valid values of one slot with edge timestamps, delivered in
// both orders (one by one and as one batch) to fresh stores; every store must
// keep the value with the greater (signed 64-bit) timestamp. Violations carry
// the timestamp class in their key so that they never mix with the controlled
// workloads.
func runEdge(c *lib.Case) {
	rng := c.Rng
	w := newWorld(rng, 4, 3, 3)
	db, heads, closeDB := openStoreDB(c, "edge.db")
	defer closeDB()
	for pi, pr := range edgePairs {
		dev := w.devices[rng.Intn(len(w.devices))]
		key := keyNames[rng.Intn(len(keyNames))]
		ms := &multiset{}
		lo := ms.add(w, valSpec{Key: key, Dev: dev.name, Acc: "owner", Rec: 0, Ts: pr.lo, Payload: "lo"}, "valid", -1, nil)
		hi := ms.add(w, valSpec{Key: key, Dev: dev.name, Acc: "owner", Rec: 0, Ts: pr.hi, Payload: "hi"}, "valid", -1, nil)
		schedules := map[string][][]*item{
			"ascending":        {{lo}, {hi}},
			"descending":       {{hi}, {lo}},
			"batch-ascending":  {{lo, hi}},
			"batch-descending": {{hi, lo}},
		}
		for _, name := range []string{"ascending", "descending", "batch-ascending", "batch-descending"} {
			n, err := newNode("e-"+name, w, db, heads, fmt.Sprintf("space-e%d-%s", pi, name), w.devices[0], w.acc("owner"))
			if err != nil {
				panic(err)
			}
			m := newModel()
			label := "setraw"
			ck := newChecker(c, w, func() any {
				return map[string]any{"timestamps": []int64{pr.lo, pr.hi}, "schedule": name}
			})
			ck.keyPrefix = "edge:" + pr.class + ":"
			for _, b := range schedules[name] {
				_ = n.deliverSetRaw(b)
				for _, it := range b {
					m.deliver(it)
				}
				o := n.observe(false)
				ck.checkContents(n.name, o, m, label)
				ck.checkIndex(n.name, o, "after-delivery:"+label)
			}
			c.Eval(1)
			c.Count("edge.schedules."+pr.class, 1)
			if ck.nViol == 0 {
				c.Count("edge.held."+pr.class, 1)
			}
			c.Nontrivial(fmt.Sprintf("%d|%d|%s", pr.lo, pr.hi, name))
			n.close()
		}
	}
}
