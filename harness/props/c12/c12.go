// Package c12: key-value store — last-writer-wins convergence and authentic
// entries only. Real keyvalue services (built through keyvalue.New().Init over
// an app container) on real any-store databases with real ACL lists receive
// hand-signed StoreKeyValue values through every delivery path; an
// independent reference model (per slot the valid value with the greatest
// timestamp, validity = the property's definition computed with the standard
// library's ed25519 and the harness' own replay of the ACL history) is
// compared with the collection contents, the advertised index, its hash and
// the head entry after every delivery.
package c12

import (
	"os"
	"runtime"
	"sync"
	"time"

	"github.com/anyproto/any-sync/app/logger"

	"verifharness/lib"
)

var setupOnce sync.Once

// setup: the library logs every refused value at WARN; the monitors observe
// refusals at the API, so the log is switched off (C12_LOGS=1 keeps it).
func setup() {
	setupOnce.Do(func() {
		if os.Getenv("C12_LOGS") == "" {
			logger.SetNamedLevels([]logger.NamedLevel{{Name: "*", Level: "fatal"}})
		}
	})
}

type Prop struct{}

func (Prop) ID() string    { return "C12" }
func (Prop) Level() string { return "exploration" }

func (Prop) Rule() string {
	return "orders: one case = one multiset (guided random ACL history of 4-10 records by the real builders; 3 devices x 4-5 accounts + outsider x 1-6 keys x 1-8 distinct timestamps per slot of valid values, plus 0-3 correctly signed values of accounts without write permission at the cited record / citing an unknown record, plus 0-4 mutants of valid values) delivered to fresh stores in 8 (quick) / 12 (thorough) arrival schedules each (ascending, descending, one batch, one sorted batch, the rest random permutations with repetitions cut into random batches; each batch through SetRaw, HandleMessage, the real pull exchange from a harness-owned peer (honest or forced advert) or a pushed StoreElements stream); a schedule is non-trivial when the multiset has >= 2 slots with >= 2 valid values and the schedule has >= 2 steps; distinct = (multiset, schedule). " +
		"mutants: every mutation class (4 relabels, 7 signature substitutions, 3 byte-flip fields; thorough: a flip at every byte position) of valid values x every delivery path x {empty slot, slot holding an older valid value}, plus every class of signer without write permission. " +
		"sync: two real services connected over an in-memory DRPC pair, each fed a random part of a multiset, one syncWithPeer exchange (3 rounds per case; in the third the callee's handler runs under the stream's own context and the outcome is only counted); non-trivial when values had to flow in both directions. " +
		"faults: a SetRaw batch / local Set on a store whose database fails at each write boundary (tx begin, every upsert, head entry update, commit) in turn. " +
		"local: Storage.Set with clock timestamps mixed with hand-signed values in the same slots. " +
		"race: concurrent Set / SetRaw / HandleMessage / sync in both directions / readers on two connected stores under the race detector."
}

func (Prop) Assumptions() []string {
	return []string{
		"a store's local account is a current member with read access (owner, writer or reader); a store run by a removed account is out of scope",
		"every store knows the complete ACL history; 'cited record known' is exercised with record ids outside the history, not with stores lagging behind",
		"an account is never re-added after removal (design observation O-1)",
		"timestamps of the controlled workloads are positive, below 2^53 and distinct per slot among valid values; the workload 'edge' explores timestamps outside that range under separate keys",
		"ed25519 signatures are unforgeable: a mutant that the oracle's own standard-library verification accepts would be treated as valid",
		"index sizes stay far below the index's range-split threshold (256 per bucket); range division itself belongs to C07/C08",
		"storage faults are errors returned before the failing operation takes effect (the transaction is rolled back by the failure of commit); power-loss images belong to C10",
	}
}

func n(tier string, quick, thorough int) int {
	if tier == "thorough" {
		return thorough
	}
	return quick
}

func (Prop) Plan(tier string) []lib.Workload {
	return []lib.Workload{
		{Name: "orders", Cases: n(tier, 200, 10000), MinNontrivial: n(tier, 800, 60000), BatchTimeout: 3 * time.Hour},
		{Name: "mutants", Cases: n(tier, 48, 600), MinNontrivial: n(tier, 100, 1500), BatchTimeout: 3 * time.Hour},
		{Name: "sync", Cases: n(tier, 64, 1500), MinNontrivial: n(tier, 40, 900), BatchTimeout: 3 * time.Hour},
		{Name: "faults", Cases: n(tier, 96, 2000), MinNontrivial: n(tier, 50, 1000), BatchTimeout: 3 * time.Hour},
		{Name: "local", Cases: n(tier, 64, 1000), MinNontrivial: n(tier, 20, 300), BatchTimeout: 3 * time.Hour},
		{Name: "edge", Cases: n(tier, 4, 40), MinNontrivial: 40, Batches: 4},
		{Name: "race", Cases: n(tier, 32, 400), Race: true, MinNontrivial: n(tier, 25, 350), CaseTimeout: 5 * time.Minute, BatchTimeout: 3 * time.Hour},
	}
}

func (Prop) RunCase(c *lib.Case) {
	setup()
	// up to 16 worker processes run side by side: keep each one narrow
	if c.Workload == "race" {
		runtime.GOMAXPROCS(4)
	} else {
		runtime.GOMAXPROCS(2)
	}
	switch c.Workload {
	case "orders":
		runOrders(c)
	case "mutants":
		runMutants(c)
	case "sync":
		runSync(c)
	case "faults":
		runFaults(c)
	case "local":
		runLocal(c)
	case "edge":
		runEdge(c)
	case "race":
		runRace(c)
	}
}
