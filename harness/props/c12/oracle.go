package c12

import (
	"bytes"
	"context"
	"crypto/ed25519"
	"encoding/binary"
	"fmt"
	"sort"
	"sync"

	"github.com/anyproto/any-sync/commonspace/object/keyvalue/keyvaluestorage"
	"github.com/anyproto/any-sync/commonspace/object/keyvalue/keyvaluestorage/innerstorage"
	"github.com/anyproto/any-sync/commonspace/spacesyncproto"
	"github.com/anyproto/any-sync/util/crypto"
	"github.com/anyproto/any-sync/util/crypto/cryptoproto"

	"verifharness/lib"
)

// ---------------------------------------------------------------- validity (the property's definition, computed independently)

func rawEd25519(b []byte) ([]byte, bool) {
	k := &cryptoproto.Key{}
	if err := k.UnmarshalVT(b); err != nil {
		return nil, false
	}
	if k.Type != cryptoproto.KeyType_Ed25519Public || len(k.Data) != ed25519.PublicKeySize {
		return nil, false
	}
	return k.Data, true
}

// judgeProto decides validity of a wire value exactly as the property states
// it: both signatures verify over exactly the carried bytes (standard library
// ed25519, not the library's wrappers); the slot label equals key + "-" +
// peer id named inside the signed bytes; the cited ACL record is one of the
// generated history; the signing account held write permission at that record
// according to the harness' own replay.
func (w *world) judgeProto(p *spacesyncproto.StoreKeyValue) (valid bool, why string, ts int64) {
	inner := &spacesyncproto.StoreKeyInner{}
	if err := inner.UnmarshalVT(p.Value); err != nil {
		return false, "signed bytes do not decode", 0
	}
	ts = inner.TimestampMicro
	peerPub, ok := rawEd25519(inner.Peer)
	if !ok {
		return false, "peer key does not decode", ts
	}
	idPub, ok := rawEd25519(inner.Identity)
	if !ok {
		return false, "identity key does not decode", ts
	}
	if !ed25519.Verify(idPub, p.Value, p.IdentitySignature) {
		return false, "identity signature does not verify", ts
	}
	if !ed25519.Verify(peerPub, p.Value, p.PeerSignature) {
		return false, "peer signature does not verify", ts
	}
	peerId := ""
	if d := w.devByPub[string(peerPub)]; d != nil {
		peerId = d.peerId
	} else {
		peerId = crypto.NewEd25519PubKey(peerPub).PeerId()
	}
	if p.KeyPeerId != inner.Key+"-"+peerId {
		return false, "slot label differs from key-peer named in the signed bytes", ts
	}
	rec, known := w.recIdx[inner.AclHeadId]
	if !known {
		return false, "cited acl record unknown", ts
	}
	a := w.accByPub[string(idPub)]
	if a == nil {
		return false, "signer never was a member", ts
	}
	if !w.permsAt[rec][a.name].canWrite() {
		return false, "signer had no write permission at the cited record (" + w.roleAt(a, rec) + ")", ts
	}
	return true, "", ts
}

func (w *world) judge(it *item) {
	it.valid, it.why, it.ts = w.judgeProto(it.proto)
}

// ---------------------------------------------------------------- reference model

func protoKey(p *spacesyncproto.StoreKeyValue) string {
	return fmt.Sprintf("%q|%x|%x|%x", p.KeyPeerId, p.Value, p.PeerSignature, p.IdentitySignature)
}

func kvKey(kv innerstorage.KeyValue) string {
	return fmt.Sprintf("%q|%x|%x|%x", kv.KeyPeerId, kv.Value.Value, kv.Value.PeerSignature, kv.Value.IdentitySignature)
}

// model is the last-writer-wins reference: per slot the valid item with the
// greatest timestamp among those delivered so far.
type model struct {
	best      map[string]*item // slot -> item
	delivered map[string]*item // protoKey -> item (every item ever delivered, valid or not)
}

func newModel() *model { return &model{best: map[string]*item{}, delivered: map[string]*item{}} }

func (m *model) deliver(it *item) {
	k := protoKey(it.proto)
	if ex := m.delivered[k]; ex != nil {
		it = ex // one canonical item per distinct wire value
	} else {
		m.delivered[k] = it
	}
	if !it.valid {
		return
	}
	cur := m.best[it.slot()]
	if cur == nil || it.ts > cur.ts {
		m.best[it.slot()] = it
	}
}

func (m *model) clone() *model {
	n := newModel()
	for k, v := range m.best {
		n.best[k] = v
	}
	for k, v := range m.delivered {
		n.delivered[k] = v
	}
	return n
}

func (m *model) canon() string {
	var ks []string
	for s, it := range m.best {
		ks = append(ks, fmt.Sprintf("%s@%d#%d", s, it.ts, it.id))
	}
	sort.Strings(ks)
	return fmt.Sprint(ks)
}

// ---------------------------------------------------------------- observation

type observation struct {
	docs     map[string]innerstorage.KeyValue // slot -> stored value (inner IterateValues)
	order    []string
	elements map[string]string // id -> head
	hash     string
	heads    []string
	headErr  error
	full     bool
	iterDocs map[string]innerstorage.KeyValue // union of Storage.Iterate groups
	getAll   map[string]innerstorage.KeyValue // union over keys of GetAll(key) filtered to that key
	err      error
}

func headOf(ts int64) string {
	b := make([]byte, 8)
	binary.BigEndian.PutUint64(b, uint64(ts))
	return string(b)
}

// observe reads the store through its API: collection contents, index
// elements, index hash, head entry. full additionally reads through
// Storage.Iterate and Storage.GetAll.
func (n *node) observe(full bool) *observation {
	ctx := context.Background()
	o := &observation{docs: map[string]innerstorage.KeyValue{}, elements: map[string]string{}, full: full}
	o.err = n.store.InnerStorage().IterateValues(ctx, func(kv innerstorage.KeyValue) (bool, error) {
		if _, dup := o.docs[kv.KeyPeerId]; dup {
			return false, fmt.Errorf("two documents with id %q", kv.KeyPeerId)
		}
		o.docs[kv.KeyPeerId] = kv
		o.order = append(o.order, kv.KeyPeerId)
		return true, nil
	})
	for _, el := range n.store.InnerStorage().Diff().Elements() {
		o.elements[el.Id] = el.Head
	}
	o.hash = n.store.InnerStorage().Diff().Hash()
	e, err := n.heads.GetEntry(ctx, n.storageId)
	o.heads, o.headErr = e.Heads, err
	if full && o.err == nil {
		o.iterDocs = map[string]innerstorage.KeyValue{}
		o.getAll = map[string]innerstorage.KeyValue{}
		keys := map[string]bool{}
		o.err = n.store.Iterate(ctx, func(_ keyvaluestorage.Decryptor, key string, values []innerstorage.KeyValue) (bool, error) {
			for _, kv := range values {
				o.iterDocs[kv.KeyPeerId] = kv
				keys[kv.Key] = true
			}
			return true, nil
		})
		for _, kv := range o.docs {
			keys[kv.Key] = true
		}
		for k := range keys {
			if o.err != nil {
				break
			}
			o.err = n.store.GetAll(ctx, k, func(_ keyvaluestorage.Decryptor, values []innerstorage.KeyValue) error {
				for _, kv := range values {
					if kv.Key == k {
						o.getAll[kv.KeyPeerId] = kv
					}
				}
				return nil
			})
		}
	}
	return o
}

func (o *observation) canon() string {
	var ks []string
	for s, kv := range o.docs {
		ks = append(ks, fmt.Sprintf("%s@%d:%x", s, kv.TimestampMicro, kv.Value.PeerSignature))
	}
	sort.Strings(ks)
	return fmt.Sprint(ks)
}

func (o *observation) elementsCanon() string {
	var ks []string
	for id, h := range o.elements {
		ks = append(ks, fmt.Sprintf("%q=%x", id, h))
	}
	sort.Strings(ks)
	return fmt.Sprint(ks)
}

// ---------------------------------------------------------------- checker

// checker compares observations of one store with the reference model and
// reduces every discrepancy to a stable key. reported avoids repeating the
// same (slot, value) discrepancy at every later step of the same store.
type checker struct {
	c        *lib.Case
	w        *world
	ctxInfo  func() any // witness context (ops, multiset, order)
	reported map[string]bool
	nViol    int
	// keyPrefix is put in front of every violation key (the edge workload
	// names its timestamp class there, so that its keys never mix with others)
	keyPrefix string
	// evidence
	everStored map[int]bool // item ids observed stored at least once
}

func newChecker(c *lib.Case, w *world, info func() any) *checker {
	return &checker{c: c, w: w, ctxInfo: info, reported: map[string]bool{}, everStored: map[int]bool{}}
}

// per-process bookkeeping of how often a key was recorded: the witness context
// (the whole multiset and schedule) is attached to the first few occurrences
// only, and beyond keyCap occurrences a key is only counted. Without this a
// thorough run on a tree with a stored-invalid defect would carry gigabytes of
// identical witnesses.
var (
	keySeenMu sync.Mutex
	keySeen   = map[string]int{}
)

const (
	keyCtxCap = 3
	keyCap    = 40
)

func (ck *checker) violation(key, what string, detail map[string]any) {
	ck.nViol++
	if ck.nViol > 12 {
		ck.c.Count("violations_beyond_cap_not_recorded", 1)
		return
	}
	key = ck.keyPrefix + key
	keySeenMu.Lock()
	keySeen[key]++
	seen := keySeen[key]
	keySeenMu.Unlock()
	if seen > keyCap {
		ck.c.Count("violations_beyond_cap_not_recorded", 1)
		return
	}
	if ck.ctxInfo != nil {
		if seen <= keyCtxCap {
			detail["context"] = ck.ctxInfo()
		} else {
			detail["context"] = "omitted (attached to the first occurrences of this key in each worker process)"
		}
	}
	ck.c.Violation(key, what, detail)
}

func kvDesc(kv innerstorage.KeyValue) map[string]any {
	return map[string]any{"key_peer_id": kv.KeyPeerId, "ts": kv.TimestampMicro, "key": kv.Key, "peer": kv.PeerId, "identity": kv.Identity}
}

// checkContents compares the stored documents with the reference, per slot.
// path names the delivery path of the step that preceded the observation.
// A slot occupied by an invalid value is reported once under
// "stored:<class>:<path>"; a slot holding a valid but stale value, or missing
// although a valid value was delivered, under "lww:*".
func (ck *checker) checkContents(store string, o *observation, m *model, path string) (ok bool) {
	ok = true
	if o.err != nil {
		ck.violation("observe-error:"+path, "reading the store failed", map[string]any{"store": store, "err": o.err.Error()})
		return false
	}
	for slot, kv := range o.docs {
		it := m.delivered[kvKey(kv)]
		if it != nil {
			ck.everStored[it.id] = true
		}
		want := m.best[slot]
		if want != nil && it == want {
			// the stored timestamp field must be the signed one
			if kv.TimestampMicro != want.ts {
				rk := "ts|" + store + "|" + slot
				if !ck.reported[rk] {
					ck.reported[rk] = true
					ck.violation("stored-timestamp-ne-signed-timestamp:"+path, "the stored timestamp differs from the timestamp inside the signed bytes",
						map[string]any{"store": store, "stored": kvDesc(kv), "signed_ts": want.ts})
				}
				ok = false
			}
			continue
		}
		ok = false
		rk := store + "|" + kvKey(kv)
		if ck.reported[rk] {
			continue
		}
		ck.reported[rk] = true
		switch {
		case it == nil:
			ck.violation("stored:undelivered-bytes:"+path, "the store holds a value that was never delivered to it in this form",
				map[string]any{"store": store, "stored": kvDesc(kv)})
		case !it.valid:
			var wd any
			if want != nil {
				wd = want.desc()
			}
			ck.violation("stored:"+it.class+":"+path, "a value that is invalid under the property's definition was stored ("+it.why+")",
				map[string]any{"store": store, "stored_item": it.desc(), "slot": slot, "reference_for_slot": wd})
		default:
			ck.violation("lww:stale-value-kept:"+path, "the slot holds a valid value although a valid value with a greater timestamp was delivered",
				map[string]any{"store": store, "stored_item": it.desc(), "reference_for_slot": want.desc()})
		}
	}
	for slot, want := range m.best {
		if _, has := o.docs[slot]; has {
			continue
		}
		ok = false
		rk := store + "|missing|" + slot + "|" + fmt.Sprint(want.id)
		if ck.reported[rk] {
			continue
		}
		ck.reported[rk] = true
		ck.violation("lww:valid-value-missing:"+path, "a valid value was delivered for the slot but the slot is empty",
			map[string]any{"store": store, "reference_for_slot": want.desc()})
	}
	if o.full && ok {
		for name, alt := range map[string]map[string]innerstorage.KeyValue{"iterate": o.iterDocs, "getall": o.getAll} {
			same := len(alt) == len(o.docs)
			if same {
				for s, kv := range o.docs {
					a, has := alt[s]
					if !has || !bytes.Equal(a.Value.Value, kv.Value.Value) || a.TimestampMicro != kv.TimestampMicro {
						same = false
						break
					}
				}
			}
			if !same {
				rk := store + "|channel|" + name
				if !ck.reported[rk] {
					ck.reported[rk] = true
					var a, b []string
					for s := range alt {
						a = append(a, s)
					}
					for s := range o.docs {
						b = append(b, s)
					}
					sort.Strings(a)
					sort.Strings(b)
					ck.violation("contents-channel-disagree:"+name, "Storage."+name+" shows other contents than the collection scan",
						map[string]any{"store": store, "via_" + name: a, "via_scan": b})
				}
				ok = false
			}
		}
	}
	return ok
}

// checkIndex checks index elements = stored (id, timestamp) pairs and head
// entry = [index hash]. when names the situation (after-delivery,
// after-failed-write:<boundary>, ...).
func (ck *checker) checkIndex(store string, o *observation, when string) (ok bool) {
	ok = true
	if o.err != nil {
		return false
	}
	var diffs []string
	for slot, kv := range o.docs {
		h, has := o.elements[slot]
		if !has {
			diffs = append(diffs, fmt.Sprintf("stored but not in index: %q ts=%d", slot, kv.TimestampMicro))
		} else if h != headOf(kv.TimestampMicro) {
			diffs = append(diffs, fmt.Sprintf("index head %x but stored ts=%d (%x): %q", h, kv.TimestampMicro, headOf(kv.TimestampMicro), slot))
		}
	}
	for id, h := range o.elements {
		if _, has := o.docs[id]; !has {
			diffs = append(diffs, fmt.Sprintf("in index but not stored: %q head=%x", id, h))
		}
	}
	if len(diffs) > 0 {
		ok = false
		sort.Strings(diffs)
		rk := store + "|index|" + when
		if !ck.reported[rk] {
			ck.reported[rk] = true
			ck.violation("index-ne-stored:"+when, "the advertised index differs from the stored (id, timestamp) pairs",
				map[string]any{"store": store, "differences": diffs})
		}
	}
	if o.headErr != nil || len(o.heads) != 1 || o.heads[0] != o.hash {
		ok = false
		rk := store + "|head|" + when
		if !ck.reported[rk] {
			ck.reported[rk] = true
			e := ""
			if o.headErr != nil {
				e = o.headErr.Error()
			}
			ck.violation("head-entry-ne-index-hash:"+when, "the head entry of the store does not correspond to the index hash",
				map[string]any{"store": store, "head_entry": o.heads, "head_entry_err": e, "index_hash": o.hash})
		}
	}
	return ok
}

// countOutcome records evidence counters for a finished store run.
func (ck *checker) countOutcome(items []*item, deliveredIds map[int]bool) {
	for _, it := range items {
		if !deliveredIds[it.id] {
			continue
		}
		cl := it.class
		if it.valid {
			ck.c.Count("values.delivered.valid", 1)
			if ck.everStored[it.id] {
				ck.c.Count("values.stored.valid", 1)
			} else {
				ck.c.Count("values.superseded_or_stale_on_arrival.valid", 1)
			}
			continue
		}
		ck.c.Count("values.delivered.invalid."+cl, 1)
		if ck.everStored[it.id] {
			ck.c.Count("values.stored.invalid."+cl, 1)
		} else {
			ck.c.Count("values.refused.invalid."+cl, 1)
		}
	}
}
