package c12

import (
	"errors"
	"fmt"
	"sort"
	"sync"
	"sync/atomic"

	"github.com/anyproto/any-sync/commonspace/object/acl/list"
	"github.com/anyproto/any-sync/commonspace/spacesyncproto"

	"verifharness/lib"
)

// ---------------------------------------------------------------- mutants

// newestPerSlot returns, per slot, the valid item with the greatest timestamp.
func newestPerSlot(items []*item) map[string]*item {
	out := map[string]*item{}
	for _, it := range items {
		if !it.valid {
			continue
		}
		if cur := out[it.slot()]; cur == nil || it.ts > cur.ts {
			out[it.slot()] = it
		}
	}
	return out
}

func deliverVia(c *lib.Case, n *node, h *hostile, path string, batch []*item, m *model, delivered map[int]bool) {
	var got []*item
	var err error
	switch path {
	case "setraw":
		err, got = n.deliverSetRaw(batch), batch
	case "message":
		err, got = n.deliverMessage(batch), batch
	case "pull":
		got, err = n.deliverPull(h, batch, false)
	case "pull-forced":
		got, err = n.deliverPull(h, batch, true)
	case "stream-push":
		err, got = n.deliverStreamPush(batch), batch
	}
	c.Count("deliveries."+path, 1)
	c.Count("deliveries.values."+path, int64(len(got)))
	if err != nil {
		c.Count("deliveries.returned_error."+path, 1)
		c.Logf("%s: error %v", path, err)
	}
	for _, it := range got {
		m.deliver(it)
		delivered[it.id] = true
	}
}

func runMutants(c *lib.Case) {
	rng := c.Rng
	w := newWorld(rng, 4+rng.Intn(2), 3, 3+rng.Intn(5))
	ms := &multiset{}
	w.genValid(ms, 2, 3)
	valid := append([]*item(nil), ms.items...)
	newest := newestPerSlot(valid)
	var slots []string
	for s := range newest {
		slots = append(slots, s)
	}
	sort.Strings(slots)
	var top *item
	var topTs int64
	for _, it := range valid {
		if it.ts > topTs {
			top, topTs = it, it.ts
		}
	}
	// every mutation class of the newest value of every slot
	var mutants []*item
	for _, s := range slots {
		src := newest[s]
		for _, mu := range mutators() {
			p := mu.f(w, ms, src)
			if p == nil {
				continue
			}
			if it := w.addMutant(ms, src, mu.class, p); it != nil {
				mutants = append(mutants, it)
			}
		}
	}
	// the globally newest value relabelled into every other slot (it would win there)
	for _, s := range slots {
		if s == top.slot() {
			continue
		}
		p := cloneProto(top.proto)
		p.KeyPeerId = s
		if it := w.addMutant(ms, top, "relabel:occupied-slot", p); it != nil {
			mutants = append(mutants, it)
		}
	}
	// every class of signer without write permission, newer than anything in an occupied slot and in a fresh slot
	pairs := w.aclInvalidPairs()
	var classes []string
	for cl := range pairs {
		classes = append(classes, cl)
	}
	sort.Strings(classes)
	for i, cl := range classes {
		p := pairs[cl][rng.Intn(len(pairs[cl]))]
		src := newest[slots[rng.Intn(len(slots))]]
		occupied := valSpec{Key: src.spec.Key, Dev: src.spec.Dev, Acc: w.accounts[p[0]].name, Rec: p[1], Ts: topTs + 10 + int64(i), Payload: "acl-invalid"}
		mutants = append(mutants, ms.add(w, occupied, cl, -1, nil))
		fresh := valSpec{Key: "fresh", Dev: w.devices[rng.Intn(len(w.devices))].name, Acc: w.accounts[p[0]].name, Rec: p[1], Ts: 5 + int64(i), Payload: "acl-invalid"}
		mutants = append(mutants, ms.add(w, fresh, cl, -1, nil))
	}
	// a flip at every byte position of one valid value (value bytes and both signatures)
	flipSrc := valid[rng.Intn(len(valid))]
	var flips []*item
	stride := 1
	for _, f := range []struct {
		name string
		get  func(p *spacesyncproto.StoreKeyValue) *[]byte
	}{
		{"byte-flip:value", func(p *spacesyncproto.StoreKeyValue) *[]byte { return &p.Value }},
		{"byte-flip:peer-signature", func(p *spacesyncproto.StoreKeyValue) *[]byte { return &p.PeerSignature }},
		{"byte-flip:identity-signature", func(p *spacesyncproto.StoreKeyValue) *[]byte { return &p.IdentitySignature }},
	} {
		for pos := 0; pos < len(*f.get(flipSrc.proto)); pos += stride {
			p := cloneProto(flipSrc.proto)
			(*f.get(p))[pos] ^= 1 << uint(rng.Intn(8))
			if it := w.addMutant(ms, flipSrc, f.name, p); it != nil {
				flips = append(flips, it)
			}
		}
	}
	c.Count("mutants.cases", 1)
	c.Count("mutants.class_instances", int64(len(mutants)))
	c.Count("mutants.byte_positions_flipped", int64(len(flips)))

	var older, newer []*item
	for _, it := range valid {
		if newest[it.slot()] == it {
			newer = append(newer, it)
		} else {
			older = append(older, it)
		}
	}
	db, heads, closeDB := openStoreDB(c, "mutants.db")
	defer closeDB()
	batches := func(items []*item, size int) [][]*item {
		var out [][]*item
		for len(items) > 0 {
			k := size
			if k > len(items) {
				k = len(items)
			}
			out = append(out, items[:k])
			items = items[k:]
		}
		return out
	}
	for pi, path := range allPaths {
		acc := storeAccount(w, rng)
		n, err := newNode(fmt.Sprintf("m-%s", path), w, db, heads, fmt.Sprintf("space-m%d", pi), w.devices[rng.Intn(len(w.devices))], acc)
		if err != nil {
			panic(err)
		}
		h := newHostile(n)
		m := newModel()
		delivered := map[int]bool{}
		phase := ""
		info := func() any {
			return map[string]any{"multiset": multisetDesc(w, append(append([]*item(nil), valid...), mutants...)), "path": path, "phase": phase, "store_account": acc.name}
		}
		ck := newChecker(c, w, info)
		check := func() {
			o := n.observe(false)
			ck.checkContents(n.name, o, m, path)
			ck.checkIndex(n.name, o, "after-delivery:"+path)
			c.Count("observations.after_delivery", 1)
		}
		size := 1 + rng.Intn(6)
		mix := func() []*item {
			x := append([]*item(nil), mutants...)
			rng.Shuffle(len(x), func(i, j int) { x[i], x[j] = x[j], x[i] })
			return x
		}
		phase = "mutants into an empty store"
		for _, b := range batches(mix(), size) {
			deliverVia(c, n, h, path, b, m, delivered)
			check()
		}
		phase = "byte flips into an empty store"
		for _, b := range batches(flips, 64) {
			deliverVia(c, n, h, path, b, m, delivered)
		}
		check()
		phase = "older valid values"
		if len(older) > 0 {
			deliverVia(c, n, h, "setraw", older, m, delivered)
			check()
		}
		phase = "mutants of newer values into slots holding older ones"
		for _, b := range batches(mix(), size) {
			deliverVia(c, n, h, path, b, m, delivered)
			check()
		}
		phase = "newest valid values after their mutants"
		deliverVia(c, n, h, path, newer, m, delivered)
		check()
		phase = "mutants again, mixed with the valid values"
		all := append(mix(), valid...)
		rng.Shuffle(len(all), func(i, j int) { all[i], all[j] = all[j], all[i] })
		for _, b := range batches(all, 2*size) {
			deliverVia(c, n, h, path, b, m, delivered)
			check()
		}
		final := n.observe(true)
		ck.checkContents(n.name, final, m, "final")
		ck.checkIndex(n.name, final, "final")
		ck.countOutcome(ms.items, delivered)
		c.Eval(1)
		c.Nontrivial(fmt.Sprintf("%d|%s", multisetCanon(ms.items), path))
		n.close()
	}
}

// ---------------------------------------------------------------- sync

func storesEqual(a, b *observation) (what string, ok bool) {
	switch {
	case a.canon() != b.canon():
		return "contents", false
	case a.elementsCanon() != b.elementsCanon():
		return "index-elements", false
	case a.hash != b.hash:
		return "index-hash", false
	case fmt.Sprint(a.heads) != fmt.Sprint(b.heads):
		return "head-entry", false
	}
	return "", true
}

func runSync(c *lib.Case) {
	rng := c.Rng
	w := newWorld(rng, 4+rng.Intn(2), 3, 3+rng.Intn(5))
	ms := &multiset{}
	w.genValid(ms, 5, 6)
	w.genAclInvalid(ms, rng.Intn(3))
	w.genMutants(ms, rng.Intn(4))
	db, heads, closeDB := openStoreDB(c, "sync.db")
	defer closeDB()
	rounds := 3
	for r := 0; r < rounds; r++ {
		accA, accB := storeAccount(w, rng), storeAccount(w, rng)
		a, err := newNode("A", w, db, heads, fmt.Sprintf("space-a%d", r), w.devices[0], accA)
		if err != nil {
			panic(err)
		}
		b, err := newNode("B", w, db, heads, fmt.Sprintf("space-b%d", r), w.devices[1], accB)
		if err != nil {
			panic(err)
		}
		// the two services must talk about the same space on the wire: the space
		// id only travels in requests and is not checked by the handlers
		ha, hb := newHostile(a), newHostile(b)
		mA, mB := newModel(), newModel()
		dA, dB := map[int]bool{}, map[int]bool{}
		var log []any
		info := func() any {
			return map[string]any{"multiset": multisetDesc(w, ms.items), "round": r, "deliveries": log, "store_accounts": []string{accA.name, accB.name}}
		}
		ck := newChecker(c, w, info)
		// split: each item goes to A, B, both (possibly), in random order and batches
		steps := genSchedule(rng, ms.items, 4)
		for _, s := range steps {
			to := rng.Intn(3) // 0: A, 1: B, 2: both
			if to == 0 || to == 2 {
				deliverVia(c, a, ha, s.path, s.batch, mA, dA)
				log = append(log, map[string]any{"to": "A", "step": s.desc()})
			}
			if to == 1 || to == 2 {
				deliverVia(c, b, hb, s.path, s.batch, mB, dB)
				log = append(log, map[string]any{"to": "B", "step": s.desc()})
			}
		}
		preA, preB := a.observe(false), b.observe(false)
		ck.checkContents("A", preA, mA, "before-exchange")
		ck.checkContents("B", preB, mB, "before-exchange")
		ck.checkIndex("A", preA, "before-exchange")
		ck.checkIndex("B", preB, "before-exchange")
		onlyA, onlyB, conflict, aToBFlow, bToAFlow := 0, 0, 0, 0, 0
		for s, kv := range preA.docs {
			if o, has := preB.docs[s]; !has {
				onlyA++
				aToBFlow++
			} else if o.TimestampMicro != kv.TimestampMicro {
				conflict++
				if kv.TimestampMicro > o.TimestampMicro {
					aToBFlow++
				} else {
					bToAFlow++
				}
			}
		}
		for s := range preB.docs {
			if _, has := preA.docs[s]; !has {
				onlyB++
				bToAFlow++
			}
		}
		// every third round the callee's handler runs under the stream's own
		// context (observation O-C12-1, counted, never judged)
		streamCtx := r == rounds-1
		b.useStreamCtx = streamCtx
		// one exchange: A pulls from / pushes to B
		aToB, _ := connect(a, b)
		err = a.syncWith(aToB)
		b.serverIdle()
		c.Count("exchanges.store_to_store", 1)
		if err != nil {
			c.Count("exchanges.store_to_store.returned_error", 1)
			c.Logf("exchange error: %v", err)
		}
		// union model: both have now received everything the other held
		mU := mA.clone()
		for _, it := range mB.delivered {
			mU.deliver(it)
		}
		for _, it := range mA.delivered {
			mU.deliver(it)
		}
		postA, postB := a.observe(true), b.observe(true)
		okA := ck.checkContents("A", postA, mU, "store-exchange")
		ck.checkIndex("A", postA, "after-exchange")
		ck.checkIndex("B", postB, "after-exchange")
		if streamCtx {
			c.Count("observation.stream_ctx.exchanges", 1)
			if _, eq := storesEqual(postA, postB); !eq {
				c.Count("observation.stream_ctx.callee_lost_pushed_values", 1)
			}
			if len(b.handlerErrs) > 0 {
				c.Count("observation.stream_ctx.callee_handler_errors", int64(len(b.handlerErrs)))
				c.Sample("stream-ctx-handler-error", b.handlerErrs[0])
			}
			c.Eval(1)
			a.close()
			b.close()
			continue
		}
		okB := ck.checkContents("B", postB, mU, "store-exchange")
		if what, eq := storesEqual(postA, postB); !eq {
			ck.violation("exchange:stores-differ:"+what, "after one completed sync exchange the two stores differ",
				map[string]any{"a": postA.canon(), "b": postB.canon(), "hash_a": postA.hash, "hash_b": postB.hash, "heads_a": postA.heads, "heads_b": postB.heads, "exchange_error": fmt.Sprint(err), "a_and_b_match_reference": []bool{okA, okB}})
		} else {
			c.Count("exchanges.store_to_store.equal_afterwards", 1)
		}
		c.Count("exchange.slots_only_on_caller", int64(onlyA))
		c.Count("exchange.slots_only_on_callee", int64(onlyB))
		c.Count("exchange.slots_conflicting", int64(conflict))
		c.Eval(1)
		if aToBFlow > 0 && bToAFlow > 0 {
			c.Nontrivial(fmt.Sprintf("%d|%d|%s", multisetCanon(ms.items), r, scheduleSig(steps)))
		}
		ck.countOutcome(ms.items, union(dA, dB))
		a.close()
		b.close()
	}
}

func union(a, b map[int]bool) map[int]bool {
	out := map[int]bool{}
	for k := range a {
		out[k] = true
	}
	for k := range b {
		out[k] = true
	}
	return out
}

// ---------------------------------------------------------------- faults

func runFaults(c *lib.Case) {
	rng := c.Rng
	w := newWorld(rng, 4, 3, 3+rng.Intn(3))
	ms := &multiset{}
	w.genValid(ms, 3, 4)
	// pre-state: a random half; operation batch: 1-6 of the rest plus some already delivered (stale / duplicates)
	items := append([]*item(nil), ms.items...)
	rng.Shuffle(len(items), func(i, j int) { items[i], items[j] = items[j], items[i] })
	cut := len(items) / 2
	pre, rest := items[:cut], items[cut:]
	nb := 1 + rng.Intn(6)
	if nb > len(rest) {
		nb = len(rest)
	}
	batch := append([]*item(nil), rest[:nb]...)
	for i := 0; i < rng.Intn(3) && len(pre) > 0; i++ {
		batch = append(batch, pre[rng.Intn(len(pre))])
	}
	rng.Shuffle(len(batch), func(i, j int) { batch[i], batch[j] = batch[j], batch[i] })
	opKind := []string{"setraw", "message", "local-set"}[rng.Intn(3)]

	dir, cleanup := scratchDir(c.TmpDir)
	defer cleanup()
	real := openDB(dir, "faults.db")
	defer real.Close()
	fdb := newFaultDB(real)
	heads, err := newHeads(fdb)
	if err != nil {
		panic(err)
	}
	obs := &headObserver{}
	heads.AddObserver(obs)

	acc := []*account{w.acc("owner"), w.acc("acc-w")}[rng.Intn(2)]
	dev := w.devices[rng.Intn(len(w.devices))]
	run := func(idx, failAt int) (visited []string, fired string, opErr error, n *node, m *model, ck *checker) {
		n, err := newNode(fmt.Sprintf("f%d", idx), w, fdb, heads, fmt.Sprintf("space-f%d", idx), dev, acc)
		if err != nil {
			panic(err)
		}
		n.bcast.keep = true
		m = newModel()
		info := func() any {
			var bd []any
			for _, it := range batch {
				bd = append(bd, it.desc())
			}
			return map[string]any{"acl_history": w.ops, "pre_state_values": len(pre), "operation": opKind, "batch": bd, "fail_at_boundary": failAt, "boundaries": visited, "fired": fired, "store_account": acc.name}
		}
		ck = newChecker(c, w, info)
		if len(pre) > 0 {
			if err := n.deliverSetRaw(pre); err != nil {
				panic(fmt.Errorf("pre-state delivery failed without faults: %w", err))
			}
			for _, it := range pre {
				m.deliver(it)
			}
		}
		fdb.arm(failAt)
		switch opKind {
		case "setraw":
			opErr = n.deliverSetRaw(batch)
		case "message":
			opErr = n.deliverMessage(batch)
		case "local-set":
			opErr = n.store.Set(bg, batch[0].spec.Key, []byte("local value"))
		}
		visited, fired = fdb.disarm()
		return
	}
	// dry run: count boundaries and check the fault-free outcome
	visited, _, opErr, n0, m0, ck0 := run(0, -1)
	if opErr != nil {
		ck0.violation("fault-free-write-error:"+opKind, "the write returned an error without any injected fault", map[string]any{"err": opErr.Error()})
	}
	applyOp := func(n *node, m *model) {
		if opKind == "local-set" {
			for _, it := range n.localItems(w) {
				m.deliver(it)
			}
			return
		}
		for _, it := range batch {
			m.deliver(it)
		}
	}
	applyOp(n0, m0)
	o0 := n0.observe(true)
	ck0.checkContents(n0.name, o0, m0, "fault-free:"+opKind)
	ck0.checkIndex(n0.name, o0, "fault-free:"+opKind)
	n0.close()
	c.Count("faults.operations."+opKind, 1)
	c.Count("faults.boundaries_per_operation_total", int64(len(visited)))
	if len(visited) >= 3 {
		c.Nontrivial(fmt.Sprintf("%d|%s|%v", multisetCanon(ms.items), opKind, visited))
	}
	for k := range visited {
		vis, fired, opErr, n, m, ck := run(k+1, k)
		_ = vis
		c.Eval(1)
		c.Count("faults.injected."+fired, 1)
		if fired == "" {
			c.Count("faults.boundary_not_reached", 1)
		}
		if opErr != nil {
			c.Count("faults.write_reported_error."+fired, 1)
		} else {
			c.Count("faults.write_reported_success."+fired, 1)
		}
		o := n.observe(false)
		// a failed write leaves the advertised index equal to what is stored
		ck.checkIndex(n.name, o, "after-failed-write:"+opKind+":"+fired)
		// what is stored is, per slot, either the value from before or the value the write would have left
		mAfter := m.clone()
		applyOp(n, mAfter)
		for slot, kv := range o.docs {
			k1, k2 := "", ""
			if it := m.best[slot]; it != nil {
				k1 = protoKey(it.proto)
			}
			if it := mAfter.best[slot]; it != nil {
				k2 = protoKey(it.proto)
			}
			if kk := kvKey(kv); kk != k1 && kk != k2 {
				ck.violation("after-failed-write:foreign-value:"+opKind+":"+fired, "after a failed write a slot holds neither its previous value nor the written one",
					map[string]any{"stored": kvDesc(kv)})
			}
		}
		if obs.last(n.storageId) != "" && len(o.heads) == 1 && obs.last(n.storageId) != o.heads[0] {
			c.Count("faults.observer_notified_of_uncommitted_head", 1)
		}
		// the same write, repeated without fault, must now succeed and converge
		n.bcast.take()
		var retryErr error
		switch opKind {
		case "setraw":
			retryErr = n.deliverSetRaw(batch)
		case "message":
			retryErr = n.deliverMessage(batch)
		case "local-set":
			retryErr = n.store.Set(bg, batch[0].spec.Key, []byte("local value"))
		}
		if retryErr != nil {
			ck.violation("retry-after-failed-write-error:"+opKind+":"+fired, "repeating the write without a fault returned an error", map[string]any{"err": retryErr.Error()})
		}
		// everything delivered so far, failed attempt included (a local Set that failed may still have been applied in part: the model takes whatever was broadcast)
		applyOp(n, m)
		o2 := n.observe(true)
		ck.checkContents(n.name, o2, m, "retry-after-failed-write:"+fired)
		ck.checkIndex(n.name, o2, "after-retry:"+opKind+":"+fired)
		n.close()
	}
}

// ---------------------------------------------------------------- local Set

// localItems turns the values the store broadcast (its own local Sets among
// them) into items judged by the oracle.
func (n *node) localItems(w *world) []*item {
	var out []*item
	for _, msg := range n.bcast.take() {
		kvs := &spacesyncproto.StoreKeyValues{}
		if err := kvs.UnmarshalVT(msg.Payload); err != nil {
			panic(fmt.Errorf("broadcast payload does not decode: %w", err))
		}
		for _, p := range kvs.KeyValues {
			it := &item{id: -1, class: "local-set", from: -1, proto: cloneProto(p)}
			w.judge(it)
			out = append(out, it)
		}
	}
	return out
}

func runLocal(c *lib.Case) {
	rng := c.Rng
	w := newWorld(rng, 4, 3, 3+rng.Intn(4))
	db, heads, closeDB := openStoreDB(c, "local.db")
	defer closeDB()
	acc := storeAccount(w, rng)
	dev := w.devices[rng.Intn(len(w.devices))]
	n, err := newNode("L", w, db, heads, "space-local", dev, acc)
	if err != nil {
		panic(err)
	}
	defer n.close()
	n.bcast.keep = true
	h := newHostile(n)
	m := newModel()
	var log []any
	ck := newChecker(c, w, func() any {
		return map[string]any{"acl_history": w.ops, "store_account": acc.name, "steps": log}
	})
	canWrite := w.permsAt[len(w.recIds)-1][acc.name].canWrite()
	keys := keyNames[:1+rng.Intn(3)]
	nextId := 0
	lastLocalTs := map[string]int64{}
	steps := 6 + rng.Intn(10)
	nSet, nHand := 0, 0
	for s := 0; s < steps; s++ {
		key := keys[rng.Intn(len(keys))]
		slot := key + "-" + dev.peerId
		if rng.Intn(3) != 0 {
			// local Set
			err := n.store.Set(bg, key, []byte(fmt.Sprintf("local-%d", s)))
			log = append(log, map[string]any{"op": "Set", "key": key, "err": fmt.Sprint(err)})
			nSet++
			got := n.localItems(w)
			if !canWrite {
				c.Count("local.set_by_reader", 1)
				if !errors.Is(err, list.ErrInsufficientPermissions) || len(got) > 0 {
					ck.violation("local-set:reader-not-refused", "Set by an account without write permission did not fail with ErrInsufficientPermissions",
						map[string]any{"err": fmt.Sprint(err), "broadcast_values": len(got)})
				}
			} else {
				c.Count("local.set_by_writer", 1)
				if err != nil {
					ck.violation("local-set:error", "Set by a writer returned an error", map[string]any{"err": err.Error()})
				}
				if len(got) != 1 {
					ck.violation("local-set:broadcast-count", "Set did not broadcast exactly its one value", map[string]any{"broadcast_values": len(got)})
				}
				for _, it := range got {
					it.id = 1000 + nextId
					nextId++
					if !it.valid || it.slot() != slot {
						// the value Storage.Set itself signs must satisfy the property's validity definition
						ck.violation("local-set:produces-invalid-value", "the value produced by Set is not valid under the property's definition: "+it.why,
							map[string]any{"item": it.desc(), "expected_slot": slot})
					}
					if it.ts <= lastLocalTs[slot] {
						c.Count("local.set_timestamp_not_increasing", 1)
					}
					lastLocalTs[slot] = it.ts
					m.deliver(it)
				}
			}
		} else {
			// a hand-signed value of the same device, relative to the clock values seen so far
			base := lastLocalTs[slot]
			if base == 0 {
				base = 1_600_000_000_000_000
			}
			var ts int64
			switch rng.Intn(3) {
			case 0:
				ts = base - 1 - rng.Int63n(1000) // older than the last local value
			case 1:
				ts = base + 1 + rng.Int63n(1000) // slightly newer
			default:
				ts = base + 3_600_000_000 + rng.Int63n(1000) // an hour ahead: later local Sets lose
			}
			if cur := m.best[slot]; cur != nil && cur.ts == ts {
				ts++
			}
			writer := w.acc("owner")
			it := &item{id: 2000 + nextId, class: "valid", from: -1, spec: valSpec{Key: key, Dev: dev.name, Acc: writer.name, Rec: rng.Intn(len(w.recIds)), Ts: ts, Payload: "hand"}}
			nextId++
			it.proto = w.sign(it.spec)
			w.judge(it)
			if !it.valid {
				panic("harness: hand-signed owner value judged invalid: " + it.why)
			}
			path := allPaths[rng.Intn(len(allPaths))]
			deliverVia(c, n, h, path, []*item{it}, m, map[int]bool{})
			n.bcast.take()
			log = append(log, map[string]any{"op": "deliver", "path": path, "item": it.desc()})
			nHand++
		}
		o := n.observe(false)
		ck.checkContents(n.name, o, m, "local-mix")
		ck.checkIndex(n.name, o, "after-delivery:local-mix")
		c.Count("observations.after_delivery", 1)
	}
	final := n.observe(true)
	ck.checkContents(n.name, final, m, "final")
	ck.checkIndex(n.name, final, "final")
	c.Eval(1)
	if nSet >= 2 && nHand >= 1 && canWrite {
		c.Nontrivial(fmt.Sprintf("%s|%d|%d|%v", acc.name, nSet, nHand, log))
	}
}

// ---------------------------------------------------------------- race

func errClass(err error) string {
	s := err.Error()
	if len(s) > 60 {
		s = s[:60]
	}
	return s
}

func runRace(c *lib.Case) {
	rng := c.Rng
	w := newWorld(rng, 4, 3, 3+rng.Intn(3))
	ms := &multiset{}
	w.genValid(ms, 4, 5)
	// signature-invalid mutants only: the concurrency workload is about races and
	// final equality, the classes of the known defects are covered elsewhere
	var valid []*item
	valid = append(valid, ms.items...)
	for i := 0; i < 6; i++ {
		src := valid[rng.Intn(len(valid))]
		mus := mutators()
		mu := mus[4+rng.Intn(len(mus)-4)]
		if p := mu.f(w, ms, src); p != nil {
			w.addMutant(ms, src, mu.class, p)
		}
	}
	dirA, cleanA := scratchDir(c.TmpDir)
	defer cleanA()
	dbA, dbB := openDB(dirA, "race-a.db"), openDB(dirA, "race-b.db")
	defer dbA.Close()
	defer dbB.Close()
	headsA, err := newHeads(dbA)
	if err != nil {
		panic(err)
	}
	headsB, err := newHeads(dbB)
	if err != nil {
		panic(err)
	}
	a, err := newNode("A", w, dbA, headsA, "space-race", w.devices[0], w.acc("owner"))
	if err != nil {
		panic(err)
	}
	b, err := newNode("B", w, dbB, headsB, "space-race", w.devices[1], w.acc("acc-w"))
	if err != nil {
		panic(err)
	}
	defer a.close()
	defer b.close()
	a.bcast.keep, b.bcast.keep = true, true
	aToB, bToA := connect(a, b)

	// split the items into per-goroutine scripts up front (the PRNG is not shared)
	type script struct {
		to    *node
		steps []step
	}
	mk := func(to *node) script {
		x := append([]*item(nil), ms.items...)
		rng.Shuffle(len(x), func(i, j int) { x[i], x[j] = x[j], x[i] })
		x = x[:len(x)/2+rng.Intn(len(x)/2+1)]
		var st []step
		for len(x) > 0 {
			k := 1 + rng.Intn(4)
			if k > len(x) {
				k = len(x)
			}
			st = append(st, step{path: []string{"setraw", "message"}[rng.Intn(2)], batch: x[:k]})
			x = x[k:]
		}
		return script{to: to, steps: st}
	}
	scripts := []script{mk(a), mk(b), mk(a), mk(b)}
	nLocal := 3 + rng.Intn(4)
	nSync := 2 + rng.Intn(3)
	localKeys := keyNames[:2]

	var wg sync.WaitGroup
	var errs atomic.Int64
	var stop atomic.Bool
	for _, sc := range scripts {
		wg.Add(1)
		go func(sc script) {
			defer wg.Done()
			for _, s := range sc.steps {
				var err error
				if s.path == "setraw" {
					err = sc.to.deliverSetRaw(s.batch)
				} else {
					err = sc.to.deliverMessage(s.batch)
				}
				if err != nil {
					errs.Add(1)
				}
			}
		}(sc)
	}
	for _, nd := range []*node{a, b} {
		wg.Add(1)
		go func(nd *node) {
			defer wg.Done()
			for i := 0; i < nLocal; i++ {
				if err := nd.store.Set(bg, localKeys[i%len(localKeys)], []byte(fmt.Sprintf("%s-%d", nd.name, i))); err != nil {
					errs.Add(1)
				}
			}
		}(nd)
	}
	var syncErrs atomic.Int64
	for _, from := range []*node{a, b} {
		wg.Add(1)
		go func(from *node) {
			defer wg.Done()
			for i := 0; i < nSync; i++ {
				var err error
				if from == a {
					err = from.syncWith(aToB)
				} else {
					err = from.syncWith(bToA)
				}
				if err != nil {
					syncErrs.Add(1)
					c.Sample("sync-error-during-concurrency", err.Error())
					c.Count("race.sync_error."+errClass(err), 1)
				}
			}
		}(from)
	}
	// readers
	var rwg sync.WaitGroup
	for _, nd := range []*node{a, b} {
		rwg.Add(1)
		go func(nd *node) {
			defer rwg.Done()
			for !stop.Load() {
				nd.observe(true)
			}
		}(nd)
	}
	wg.Wait()
	stop.Store(true)
	rwg.Wait()
	a.serverIdle()
	b.serverIdle()
	c.Count("race.concurrent_phases", 1)
	c.Count("race.write_errors", errs.Load())
	c.Count("race.sync_errors_during_concurrency", syncErrs.Load())

	// quiescent: a last exchange must make the stores equal, and equal to the reference over everything delivered to either
	err = a.syncWith(aToB)
	b.serverIdle()
	c.Count("exchanges.store_to_store", int64(2*nSync+1))
	m := newModel()
	for _, sc := range scripts {
		for _, s := range sc.steps {
			for _, it := range s.batch {
				m.deliver(it)
			}
		}
	}
	nl := 0
	for _, nd := range []*node{a, b} {
		for _, it := range nd.localItems(w) {
			// broadcasts repeat remote values too; the model keeps one item per distinct wire value
			m.deliver(it)
			nl++
		}
	}
	info := func() any {
		return map[string]any{"acl_history": w.ops, "values": len(ms.items), "local_sets_per_store": nLocal, "syncs_per_direction": nSync, "final_exchange_error": fmt.Sprint(err)}
	}
	ck := newChecker(c, w, info)
	oa, ob := a.observe(true), b.observe(true)
	ck.checkContents("A", oa, m, "concurrent")
	ck.checkContents("B", ob, m, "concurrent")
	ck.checkIndex("A", oa, "after-concurrency")
	ck.checkIndex("B", ob, "after-concurrency")
	if what, eq := storesEqual(oa, ob); !eq {
		ck.violation("exchange:stores-differ-after-concurrency:"+what, "after concurrent writes and a last completed exchange the two stores differ",
			map[string]any{"a": oa.canon(), "b": ob.canon(), "hash_a": oa.hash, "hash_b": ob.hash})
	} else {
		c.Count("race.equal_after_last_exchange", 1)
	}
	c.Count("race.values_seen_in_broadcasts", int64(nl))
	c.Eval(1)
	c.Nontrivial(fmt.Sprintf("%d|%d|%d", multisetCanon(ms.items), nLocal, nSync))
}
