package c12

import (
	"encoding/binary"
	"fmt"
	"math/rand"
	"sort"
	"strings"

	"github.com/anyproto/any-sync/commonspace/object/accountdata"
	"github.com/anyproto/any-sync/commonspace/object/acl/list"
	"github.com/anyproto/any-sync/commonspace/object/acl/list/listtest"
	"github.com/anyproto/any-sync/commonspace/object/acl/recordverifier"
	"github.com/anyproto/any-sync/commonspace/spacesyncproto"
	"github.com/anyproto/any-sync/consensus/consensusproto"
	"github.com/anyproto/any-sync/util/crypto"
)

// ---------------------------------------------------------------- permission model (harness-owned)

type perm int

const (
	pNone perm = iota
	pReader
	pWriter
	pAdmin
	pOwner
)

func (p perm) canWrite() bool { return p == pWriter || p == pAdmin || p == pOwner }

func (p perm) String() string {
	return [...]string{"none", "reader", "writer", "admin", "owner"}[p]
}

func (p perm) acl() list.AclPermissions {
	switch p {
	case pReader:
		return list.AclPermissionsReader
	case pWriter:
		return list.AclPermissionsWriter
	case pAdmin:
		return list.AclPermissionsAdmin
	case pOwner:
		return list.AclPermissionsOwner
	}
	return list.AclPermissionsNone
}

// account is one signing identity of the generated world.
type account struct {
	name    string
	sign    crypto.PrivKey
	pubRaw  string // raw 32 bytes of the ed25519 public key
	pubProt []byte // marshalled cryptoproto.Key
	// model state while the history is generated
	joined  bool
	removed bool
	cur     perm
}

// device is one signing peer key.
type device struct {
	name    string
	key     crypto.PrivKey
	peerId  string
	pubRaw  string
	pubProt []byte
}

type aclOp struct {
	Kind    string `json:"kind"` // root | add | change | remove
	Account string `json:"account,omitempty"`
	Perm    string `json:"perm,omitempty"`
}

// world is everything a case needs: a real ACL log generated through the real
// client-side builders, the harness' own replay of who could write at which
// record, signing devices and accounts.
type world struct {
	rng      *rand.Rand
	accounts []*account // [0] is the owner; the last one is an outsider that never joins
	devices  []*device
	accByPub map[string]*account
	devByPub map[string]*device
	ops      []aclOp
	recIds   []string          // record ids, [0] = root
	recIdx   map[string]int    // id -> index
	permsAt  []map[string]perm // per record index: account name -> permissions after that record
	raw      []*consensusproto.RawRecordWithId
	ownerAcl list.AclList
	// readKeys per record index: the read key in force (to encrypt payloads like Storage.Set does)
	unknownRecId string
}

type rngReader struct{ r *rand.Rand }

func (r rngReader) Read(p []byte) (int, error) { return r.r.Read(p) }

func newKey(rng *rand.Rand) crypto.PrivKey {
	k, _, err := crypto.GenerateEd25519Key(rngReader{rng})
	if err != nil {
		panic(err)
	}
	return k
}

func newAccount(rng *rand.Rand, name string) *account {
	k := newKey(rng)
	raw, _ := k.GetPublic().Raw()
	pp, err := k.GetPublic().Marshall()
	if err != nil {
		panic(err)
	}
	return &account{name: name, sign: k, pubRaw: string(raw), pubProt: pp}
}

func newDevice(rng *rand.Rand, name string) *device {
	k := newKey(rng)
	raw, _ := k.GetPublic().Raw()
	pp, err := k.GetPublic().Marshall()
	if err != nil {
		panic(err)
	}
	return &device{name: name, key: k, peerId: k.GetPublic().PeerId(), pubRaw: string(raw), pubProt: pp}
}

// newWorld generates an ACL history of nOps records after the root. The
// generation is guided by the harness' own model (only legal operations, all
// authored by the owner), and guarantees that at the end there is at least one
// non-owner writer, one reader and one removed former writer. An account is
// never re-added after removal (observation O-1 of the design: the re-add
// resets the account's permission history in the library).
func newWorld(rng *rand.Rand, nAccounts, nDevices, nOps int) *world {
	w := &world{rng: rng, accByPub: map[string]*account{}, devByPub: map[string]*device{}, recIdx: map[string]int{}}
	names := []string{"owner", "acc-w", "acc-r", "acc-x", "acc-u"}
	if nAccounts < 4 {
		nAccounts = 4
	}
	if nAccounts > len(names) {
		nAccounts = len(names)
	}
	for i := 0; i < nAccounts; i++ {
		w.accounts = append(w.accounts, newAccount(rng, names[i]))
	}
	w.accounts = append(w.accounts, newAccount(rng, "outsider"))
	for _, a := range w.accounts {
		w.accByPub[a.pubRaw] = a
	}
	for i := 0; i < nDevices; i++ {
		d := newDevice(rng, fmt.Sprintf("dev%d", i))
		w.devices = append(w.devices, d)
		w.devByPub[d.pubRaw] = d
	}
	owner := w.accounts[0]
	ownerKeys := &accountdata.AccountKeys{PeerKey: w.devices[0].key, SignKey: owner.sign, PeerId: w.devices[0].peerId}
	acl, err := list.NewInMemoryDerivedAcl("space-c12", ownerKeys)
	if err != nil {
		panic(fmt.Errorf("derive acl: %w", err))
	}
	w.ownerAcl = acl
	owner.joined, owner.cur = true, pOwner
	w.ops = append(w.ops, aclOp{Kind: "root"})
	w.snapshot(acl.Head().Id)

	members := w.accounts[1 : len(w.accounts)-1] // acc-w, acc-r, acc-x, [acc-u]
	accW, accR, accX := members[0], members[1], members[2]
	add := func(a *account, p perm) {
		res, err := acl.RecordBuilder().BuildAccountsAdd(list.AccountsAddPayload{Additions: []list.AccountAdd{{
			Identity: a.sign.GetPublic(), Permissions: p.acl(), Metadata: []byte(a.name)}}})
		if err != nil {
			panic(fmt.Errorf("build add %s: %w", a.name, err))
		}
		w.apply(res)
		a.joined, a.cur = true, p
		w.ops = append(w.ops, aclOp{Kind: "add", Account: a.name, Perm: p.String()})
		w.snapshot(acl.Head().Id)
	}
	change := func(a *account, p perm) {
		res, err := acl.RecordBuilder().BuildPermissionChanges(list.PermissionChangesPayload{Changes: []list.PermissionChangePayload{{
			Identity: a.sign.GetPublic(), Permissions: p.acl()}}})
		if err != nil {
			panic(fmt.Errorf("build change %s: %w", a.name, err))
		}
		w.apply(res)
		a.cur = p
		w.ops = append(w.ops, aclOp{Kind: "change", Account: a.name, Perm: p.String()})
		w.snapshot(acl.Head().Id)
	}
	remove := func(a *account) {
		mk, _, err := crypto.GenerateEd25519Key(rngReader{rng})
		if err != nil {
			panic(err)
		}
		res, err := acl.RecordBuilder().BuildAccountRemove(list.AccountRemovePayload{
			Identities: []crypto.PubKey{a.sign.GetPublic()},
			Change:     list.ReadKeyChangePayload{MetadataKey: mk, ReadKey: crypto.NewAES()},
		})
		if err != nil {
			panic(fmt.Errorf("build remove %s: %w", a.name, err))
		}
		w.apply(res)
		a.removed, a.cur = true, pNone
		w.ops = append(w.ops, aclOp{Kind: "remove", Account: a.name})
		w.snapshot(acl.Head().Id)
	}
	// random legal operations
	for len(w.ops)-1 < nOps {
		a := members[rng.Intn(len(members))]
		switch {
		case !a.joined:
			p := []perm{pWriter, pReader, pWriter, pAdmin}[rng.Intn(4)]
			if a == accX {
				p = pWriter
			}
			if a == accR {
				p = pReader
			}
			add(a, p)
		case a.removed:
			continue
		default:
			r := rng.Intn(10)
			switch {
			case r < 2 && a != accW && a != accR:
				remove(a)
			default:
				choices := []perm{pReader, pWriter, pAdmin}
				p := choices[rng.Intn(len(choices))]
				if p == a.cur {
					continue
				}
				change(a, p)
			}
		}
	}
	// forced completion: a writer, a reader, a removed former writer
	if !accW.joined {
		add(accW, pWriter)
	} else if !accW.cur.canWrite() {
		change(accW, pWriter)
	}
	if !accR.joined {
		add(accR, pReader)
	} else if accR.cur != pReader {
		change(accR, pReader)
	}
	if !accX.joined {
		add(accX, pWriter)
	}
	if !accX.removed {
		if !w.everWriter(accX) {
			change(accX, pWriter)
		}
		remove(accX)
	}
	// raw log for the stores' own lists (root + every wrapped record, as applied)
	w.raw = append([]*consensusproto.RawRecordWithId{acl.Root()}, w.raw...)
	if len(w.raw) != len(w.recIds) {
		panic(fmt.Sprintf("harness: raw log has %d records, model has %d", len(w.raw), len(w.recIds)))
	}
	for i, r := range w.raw {
		if r.Id != w.recIds[i] {
			panic("harness: raw log order differs from the model")
		}
	}
	// an id no store knows (well-formed CID of unrelated bytes)
	w.unknownRecId = listtest.WrapAclRecord(&consensusproto.RawRecord{Payload: []byte(fmt.Sprintf("unknown-%d", rng.Int63()))}).Id
	return w
}

func (w *world) everWriter(a *account) bool {
	for _, m := range w.permsAt {
		if m[a.name].canWrite() {
			return true
		}
	}
	return false
}

func (w *world) apply(rec *consensusproto.RawRecord) {
	wr := listtest.WrapAclRecord(rec)
	if err := w.ownerAcl.AddRawRecord(wr); err != nil {
		panic(fmt.Errorf("owner list refused its own record: %w", err))
	}
	w.raw = append(w.raw, wr)
}

func (w *world) snapshot(id string) {
	m := map[string]perm{}
	for _, a := range w.accounts {
		m[a.name] = a.cur
	}
	w.recIdx[id] = len(w.recIds)
	w.recIds = append(w.recIds, id)
	w.permsAt = append(w.permsAt, m)
}

// newList builds an independent validating ACL list over a copy of the log
// for the given local keys.
func (w *world) newList(keys *accountdata.AccountKeys) list.AclList {
	cp := make([]*consensusproto.RawRecordWithId, len(w.raw))
	for i, r := range w.raw {
		cp[i] = &consensusproto.RawRecordWithId{Id: r.Id, Payload: append([]byte(nil), r.Payload...)}
	}
	st, err := list.NewInMemoryStorage(cp[0].Id, cp)
	if err != nil {
		panic(err)
	}
	l, err := list.BuildAclListWithIdentity(keys, st, recordverifier.NewValidateFull())
	if err != nil {
		panic(fmt.Errorf("build store list: %w", err))
	}
	return l
}

func (w *world) acc(name string) *account {
	for _, a := range w.accounts {
		if a.name == name {
			return a
		}
	}
	panic("no account " + name)
}

// roleAt names the class of (account, record) for evidence and violation keys.
func (w *world) roleAt(a *account, rec int) string {
	if rec < 0 {
		return "unknown-record"
	}
	if a.name == "outsider" {
		return "outsider"
	}
	p := w.permsAt[rec][a.name]
	if p != pNone {
		return p.String()
	}
	// none: removed before, or not yet a member
	for i := 0; i <= rec; i++ {
		if w.permsAt[i][a.name] != pNone {
			return "removed"
		}
	}
	return "not-yet-member"
}

// ---------------------------------------------------------------- values

// valSpec is the harness' description of one signed value.
type valSpec struct {
	Key     string `json:"key"`
	Dev     string `json:"dev"`
	Acc     string `json:"acc"`
	Rec     int    `json:"rec"` // index of the cited ACL record; -1 = a record id nobody knows
	Ts      int64  `json:"ts"`
	Payload string `json:"payload,omitempty"`
}

// item is one deliverable wire value with the harness' label.
type item struct {
	id    int
	spec  valSpec
	class string // "valid" or the name of the invalid class (mutation class / acl class)
	from  int    // id of the valid item a mutant was derived from, -1 otherwise
	proto *spacesyncproto.StoreKeyValue
	// filled by the oracle (independent of class)
	valid bool
	why   string
	ts    int64
}

func (it *item) slot() string { return it.proto.KeyPeerId }

func (it *item) desc() map[string]any {
	return map[string]any{"id": it.id, "class": it.class, "spec": it.spec, "key_peer_id": it.proto.KeyPeerId, "oracle_valid": it.valid, "oracle_reason": it.why, "derived_from": it.from}
}

func (w *world) dev(name string) *device {
	for _, d := range w.devices {
		if d.name == name {
			return d
		}
	}
	panic("no device " + name)
}

// sign produces a StoreKeyValue in exactly the format of Storage.Set:
// StoreKeyInner{peer, identity, value, timestampMicro, aclHeadId, key}
// marshalled, signed by the device key and by the account key, filed under
// key + "-" + peer id.
func (w *world) sign(s valSpec) *spacesyncproto.StoreKeyValue {
	d := w.dev(s.Dev)
	a := w.acc(s.Acc)
	rec := w.unknownRecId
	if s.Rec >= 0 {
		rec = w.recIds[s.Rec]
	}
	inner := &spacesyncproto.StoreKeyInner{
		Peer:           d.pubProt,
		Identity:       a.pubProt,
		Value:          w.encrypt(s),
		TimestampMicro: s.Ts,
		AclHeadId:      rec,
		Key:            s.Key,
	}
	ib, err := inner.MarshalVT()
	if err != nil {
		panic(err)
	}
	ps, err := d.key.Sign(ib)
	if err != nil {
		panic(err)
	}
	is, err := a.sign.Sign(ib)
	if err != nil {
		panic(err)
	}
	return &spacesyncproto.StoreKeyValue{KeyPeerId: s.Key + "-" + d.peerId, Value: ib, PeerSignature: ps, IdentitySignature: is}
}

// encrypt mimics the ciphertext of Storage.Set (nonce-prefixed AES-GCM under a
// key nobody needs here: the stores never decrypt on the write path).
func (w *world) encrypt(s valSpec) []byte {
	out := make([]byte, 12, 12+len(s.Payload)+16)
	binary.BigEndian.PutUint64(out, uint64(s.Ts))
	out = append(out, s.Payload...)
	out = append(out, make([]byte, 16)...)
	return out
}

func cloneProto(p *spacesyncproto.StoreKeyValue) *spacesyncproto.StoreKeyValue {
	return &spacesyncproto.StoreKeyValue{
		KeyPeerId:         p.KeyPeerId,
		Value:             append([]byte(nil), p.Value...),
		PeerSignature:     append([]byte(nil), p.PeerSignature...),
		IdentitySignature: append([]byte(nil), p.IdentitySignature...),
		SpaceId:           p.SpaceId,
	}
}

// keyNames are chosen to stress slot naming: a key that is a prefix of
// another, keys containing the separator.
var keyNames = []string{"k1", "k10", "note", "a-b", "k1-x", "z"}

// ---------------------------------------------------------------- multisets

type multiset struct {
	items []*item
}

func (m *multiset) add(w *world, s valSpec, class string, from int, p *spacesyncproto.StoreKeyValue) *item {
	if p == nil {
		p = w.sign(s)
	}
	it := &item{id: len(m.items), spec: s, class: class, from: from, proto: p}
	w.judge(it)
	if (class == "valid") != it.valid {
		panic(fmt.Sprintf("harness: label %q disagrees with the oracle (%v: %s) for %+v", class, it.valid, it.why, s))
	}
	m.items = append(m.items, it)
	return it
}

// genValid draws valid values: 1..maxKeys keys, every device, authors that
// could write at the cited record, 1..maxTs distinct timestamps per slot.
func (w *world) genValid(m *multiset, maxKeys, maxTs int) {
	rng := w.rng
	nKeys := 1 + rng.Intn(maxKeys)
	keys := append([]string(nil), keyNames...)
	rng.Shuffle(len(keys), func(i, j int) { keys[i], keys[j] = keys[j], keys[i] })
	keys = keys[:nKeys]
	// all (account, record) pairs with write permission
	type ar struct {
		a   *account
		rec int
	}
	var writers []ar
	for rec := range w.recIds {
		for _, a := range w.accounts {
			if w.permsAt[rec][a.name].canWrite() {
				writers = append(writers, ar{a, rec})
			}
		}
	}
	for _, k := range keys {
		for _, d := range w.devices {
			if rng.Intn(4) == 0 && len(m.items) > 0 {
				continue // slot not written at all
			}
			n := 1 + rng.Intn(maxTs)
			seen := map[int64]bool{}
			for i := 0; i < n; i++ {
				var ts int64
				switch rng.Intn(3) {
				case 0: // dense: neighbouring timestamps
					ts = 1000 + int64(rng.Intn(2*maxTs))
				case 1:
					ts = 1 + rng.Int63n(1_000_000)
				default: // realistic microsecond clock values
					ts = 1_700_000_000_000_000 + rng.Int63n(1_000_000_000)
				}
				if seen[ts] {
					continue
				}
				seen[ts] = true
				x := writers[rng.Intn(len(writers))]
				m.add(w, valSpec{Key: k, Dev: d.name, Acc: x.a.name, Rec: x.rec, Ts: ts, Payload: fmt.Sprintf("v%d", len(m.items))}, "valid", -1, nil)
			}
		}
	}
}

// slotTimestamps returns the timestamps already used per slot.
func (m *multiset) slotTimestamps() map[string]map[int64]bool {
	out := map[string]map[int64]bool{}
	for _, it := range m.items {
		if out[it.slot()] == nil {
			out[it.slot()] = map[int64]bool{}
		}
		out[it.slot()][it.ts] = true
	}
	return out
}

// freshTs picks a timestamp not yet used in the slot, below / between / above
// the existing ones.
func (w *world) freshTs(used map[int64]bool) int64 {
	var all []int64
	for t := range used {
		all = append(all, t)
	}
	sort.Slice(all, func(i, j int) bool { return all[i] < all[j] })
	for try := 0; try < 100; try++ {
		var ts int64
		if len(all) == 0 {
			ts = 1 + w.rng.Int63n(1_000_000)
		} else {
			switch w.rng.Intn(3) {
			case 0:
				ts = all[len(all)-1] + 1 + w.rng.Int63n(50)
			case 1:
				ts = all[0] - 1 - w.rng.Int63n(50)
			default:
				ts = all[w.rng.Intn(len(all))] + 1
			}
		}
		if ts > 0 && !used[ts] {
			return ts
		}
	}
	return all[len(all)-1] + 1000 + w.rng.Int63n(1000)
}

// aclInvalidClasses enumerates the (account, record) pairs without write
// permission at the cited record, by class name.
func (w *world) aclInvalidPairs() map[string][][2]int {
	out := map[string][][2]int{}
	for ai, a := range w.accounts {
		for rec := range w.recIds {
			if w.permsAt[rec][a.name].canWrite() {
				continue
			}
			cl := "no-write-permission:" + w.roleAt(a, rec)
			out[cl] = append(out[cl], [2]int{ai, rec})
		}
		// an unknown record cited by anybody (also by accounts that can write elsewhere)
		out["unknown-acl-record:"+roleNow(w, a)] = append(out["unknown-acl-record:"+roleNow(w, a)], [2]int{ai, -1})
	}
	return out
}

func roleNow(w *world, a *account) string {
	return w.roleAt(a, len(w.recIds)-1)
}

// genAclInvalid adds n correctly signed values whose signer lacks write
// permission at the cited record (or cites an unknown record), each in a slot
// of the multiset (or a fresh one) with a fresh timestamp.
func (w *world) genAclInvalid(m *multiset, n int) {
	pairs := w.aclInvalidPairs()
	var classes []string
	for c := range pairs {
		classes = append(classes, c)
	}
	sort.Strings(classes)
	used := m.slotTimestamps()
	for i := 0; i < n; i++ {
		cl := classes[w.rng.Intn(len(classes))]
		p := pairs[cl][w.rng.Intn(len(pairs[cl]))]
		k := keyNames[w.rng.Intn(len(keyNames))]
		if len(m.items) > 0 && w.rng.Intn(4) != 0 {
			k = m.items[w.rng.Intn(len(m.items))].spec.Key
		}
		d := w.devices[w.rng.Intn(len(w.devices))]
		slot := k + "-" + d.peerId
		if used[slot] == nil {
			used[slot] = map[int64]bool{}
		}
		ts := w.freshTs(used[slot])
		used[slot][ts] = true
		m.add(w, valSpec{Key: k, Dev: d.name, Acc: w.accounts[p[0]].name, Rec: p[1], Ts: ts, Payload: "acl-invalid"}, cl, -1, nil)
	}
}

// ---------------------------------------------------------------- mutants

// mutation classes of a valid value. Each returns nil when not applicable.
type mutator struct {
	class string
	f     func(w *world, m *multiset, src *item) *spacesyncproto.StoreKeyValue
}

func otherItem(w *world, m *multiset, src *item, pred func(o *item) bool) *item {
	var c []*item
	for _, o := range m.items {
		if o != src && o.class == "valid" && pred(o) {
			c = append(c, o)
		}
	}
	if len(c) == 0 {
		return nil
	}
	return c[w.rng.Intn(len(c))]
}

func mutators() []mutator {
	flip := func(b []byte, rng *rand.Rand) []byte {
		out := append([]byte(nil), b...)
		if len(out) == 0 {
			return out
		}
		out[rng.Intn(len(out))] ^= 1 << uint(rng.Intn(8))
		return out
	}
	return []mutator{
		{"relabel:other-key", func(w *world, m *multiset, src *item) *spacesyncproto.StoreKeyValue {
			p := cloneProto(src.proto)
			k := keyNames[w.rng.Intn(len(keyNames))]
			for k == src.spec.Key {
				k = keyNames[w.rng.Intn(len(keyNames))]
			}
			p.KeyPeerId = k + "-" + w.dev(src.spec.Dev).peerId
			return p
		}},
		{"relabel:other-device", func(w *world, m *multiset, src *item) *spacesyncproto.StoreKeyValue {
			if len(w.devices) < 2 {
				return nil
			}
			p := cloneProto(src.proto)
			d := w.devices[w.rng.Intn(len(w.devices))]
			for d.name == src.spec.Dev {
				d = w.devices[w.rng.Intn(len(w.devices))]
			}
			p.KeyPeerId = src.spec.Key + "-" + d.peerId
			return p
		}},
		{"relabel:occupied-slot", func(w *world, m *multiset, src *item) *spacesyncproto.StoreKeyValue {
			o := otherItem(w, m, src, func(o *item) bool { return o.slot() != src.slot() })
			if o == nil {
				return nil
			}
			p := cloneProto(src.proto)
			p.KeyPeerId = o.slot()
			return p
		}},
		{"relabel:arbitrary-id", func(w *world, m *multiset, src *item) *spacesyncproto.StoreKeyValue {
			p := cloneProto(src.proto)
			p.KeyPeerId = []string{"zzz", src.proto.KeyPeerId + "x", strings.ToUpper(src.proto.KeyPeerId), src.spec.Key}[w.rng.Intn(4)]
			return p
		}},
		{"bad-signature:swapped-fields", func(w *world, m *multiset, src *item) *spacesyncproto.StoreKeyValue {
			p := cloneProto(src.proto)
			p.PeerSignature, p.IdentitySignature = p.IdentitySignature, p.PeerSignature
			return p
		}},
		{"bad-signature:peer-sig-of-other-value", func(w *world, m *multiset, src *item) *spacesyncproto.StoreKeyValue {
			o := otherItem(w, m, src, func(o *item) bool { return o.spec.Dev == src.spec.Dev })
			if o == nil {
				return nil
			}
			p := cloneProto(src.proto)
			p.PeerSignature = append([]byte(nil), o.proto.PeerSignature...)
			return p
		}},
		{"bad-signature:identity-sig-of-other-value", func(w *world, m *multiset, src *item) *spacesyncproto.StoreKeyValue {
			o := otherItem(w, m, src, func(o *item) bool { return o.spec.Acc == src.spec.Acc })
			if o == nil {
				return nil
			}
			p := cloneProto(src.proto)
			p.IdentitySignature = append([]byte(nil), o.proto.IdentitySignature...)
			return p
		}},
		{"bad-signature:identity-sig-by-other-account", func(w *world, m *multiset, src *item) *spacesyncproto.StoreKeyValue {
			p := cloneProto(src.proto)
			a := w.accounts[w.rng.Intn(len(w.accounts))]
			for a.name == src.spec.Acc {
				a = w.accounts[w.rng.Intn(len(w.accounts))]
			}
			sig, _ := a.sign.Sign(p.Value)
			p.IdentitySignature = sig
			return p
		}},
		{"bad-signature:peer-sig-by-other-device", func(w *world, m *multiset, src *item) *spacesyncproto.StoreKeyValue {
			if len(w.devices) < 2 {
				return nil
			}
			p := cloneProto(src.proto)
			d := w.devices[w.rng.Intn(len(w.devices))]
			for d.name == src.spec.Dev {
				d = w.devices[w.rng.Intn(len(w.devices))]
			}
			sig, _ := d.key.Sign(p.Value)
			p.PeerSignature = sig
			return p
		}},
		{"bad-signature:empty-peer-sig", func(w *world, m *multiset, src *item) *spacesyncproto.StoreKeyValue {
			p := cloneProto(src.proto)
			p.PeerSignature = nil
			return p
		}},
		{"bad-signature:empty-identity-sig", func(w *world, m *multiset, src *item) *spacesyncproto.StoreKeyValue {
			p := cloneProto(src.proto)
			p.IdentitySignature = nil
			return p
		}},
		{"byte-flip:value", func(w *world, m *multiset, src *item) *spacesyncproto.StoreKeyValue {
			p := cloneProto(src.proto)
			p.Value = flip(p.Value, w.rng)
			return p
		}},
		{"byte-flip:peer-signature", func(w *world, m *multiset, src *item) *spacesyncproto.StoreKeyValue {
			p := cloneProto(src.proto)
			p.PeerSignature = flip(p.PeerSignature, w.rng)
			return p
		}},
		{"byte-flip:identity-signature", func(w *world, m *multiset, src *item) *spacesyncproto.StoreKeyValue {
			p := cloneProto(src.proto)
			p.IdentitySignature = flip(p.IdentitySignature, w.rng)
			return p
		}},
	}
}

// genMutants adds n random mutants of valid items.
func (w *world) genMutants(m *multiset, n int) {
	var valid []*item
	for _, it := range m.items {
		if it.class == "valid" {
			valid = append(valid, it)
		}
	}
	if len(valid) == 0 {
		return
	}
	ms := mutators()
	for i := 0; i < n; i++ {
		src := valid[w.rng.Intn(len(valid))]
		mu := ms[w.rng.Intn(len(ms))]
		p := mu.f(w, m, src)
		if p == nil {
			continue
		}
		w.addMutant(m, src, mu.class, p)
	}
}

// addMutant files a mutant; a mutation that happens to leave the value valid
// under the property's definition (cannot happen for the classes above, but
// the oracle decides, not the label) is dropped.
func (w *world) addMutant(m *multiset, src *item, class string, p *spacesyncproto.StoreKeyValue) *item {
	it := &item{id: len(m.items), spec: src.spec, class: class, from: src.id, proto: p}
	w.judge(it)
	if it.valid {
		return nil
	}
	m.items = append(m.items, it)
	return it
}
