package c12

import (
	"fmt"
	"hash/fnv"
	"math/rand"
	"sort"
	"strings"

	anystore "github.com/anyproto/any-store"

	"github.com/anyproto/any-sync/commonspace/headsync/headstorage"

	"verifharness/lib"
)

// step is one delivery of a batch through one path.
type step struct {
	path  string // setraw | message | pull | pull-forced | stream-push
	batch []*item
}

func (s step) desc() map[string]any {
	var ids []int
	for _, it := range s.batch {
		ids = append(ids, it.id)
	}
	return map[string]any{"path": s.path, "item_ids": ids}
}

var allPaths = []string{"setraw", "message", "pull", "pull-forced", "stream-push"}

// genSchedule turns a multiset into an arrival schedule: a permutation with
// repetitions, cut into batches, each batch delivered through one path.
func genSchedule(rng *rand.Rand, items []*item, kind int) []step {
	seq := append([]*item(nil), items...)
	switch kind {
	case 0: // ascending timestamps, one by one
		sort.SliceStable(seq, func(i, j int) bool { return seq[i].ts < seq[j].ts })
	case 1: // descending timestamps, one by one
		sort.SliceStable(seq, func(i, j int) bool { return seq[i].ts > seq[j].ts })
	case 2, 3: // one batch holding everything
		rng.Shuffle(len(seq), func(i, j int) { seq[i], seq[j] = seq[j], seq[i] })
		if kind == 3 {
			sort.SliceStable(seq, func(i, j int) bool { return seq[i].ts > seq[j].ts })
		}
	default:
		rng.Shuffle(len(seq), func(i, j int) { seq[i], seq[j] = seq[j], seq[i] })
		// repetition: re-insert some items at random later positions
		nRep := rng.Intn(1 + len(seq)/2)
		for i := 0; i < nRep; i++ {
			it := seq[rng.Intn(len(seq))]
			pos := rng.Intn(len(seq) + 1)
			seq = append(seq[:pos], append([]*item{it}, seq[pos:]...)...)
		}
	}
	var steps []step
	path := func() string { return allPaths[rng.Intn(len(allPaths))] }
	switch kind {
	case 0, 1:
		p := []string{"setraw", "message"}[kind]
		for _, it := range seq {
			steps = append(steps, step{path: p, batch: []*item{it}})
		}
	case 2, 3:
		steps = append(steps, step{path: []string{"setraw", "stream-push"}[kind-2], batch: seq})
	default:
		maxBatch := []int{1, 2, 4, 8, 16, len(seq)}[rng.Intn(6)]
		if maxBatch < 1 {
			maxBatch = 1
		}
		for len(seq) > 0 {
			n := 1 + rng.Intn(maxBatch)
			if n > len(seq) {
				n = len(seq)
			}
			steps = append(steps, step{path: path(), batch: seq[:n]})
			seq = seq[n:]
		}
	}
	return steps
}

func scheduleSig(steps []step) string {
	var sb strings.Builder
	for _, s := range steps {
		sb.WriteString(s.path[:2])
		for _, it := range s.batch {
			fmt.Fprintf(&sb, ".%d", it.id)
		}
		sb.WriteByte(';')
	}
	h := fnv.New64a()
	h.Write([]byte(sb.String()))
	return fmt.Sprintf("%x", h.Sum64())
}

func multisetDesc(w *world, items []*item) map[string]any {
	var ds []any
	for _, it := range items {
		ds = append(ds, it.desc())
	}
	return map[string]any{"acl_history": w.ops, "items": ds}
}

// runSchedule delivers the steps to a node, checking after every delivery.
// Returns the final full observation, the model and whether every planned
// item was delivered at least once.
func runSchedule(c *lib.Case, ck *checker, n *node, h *hostile, steps []step, m *model, delivered map[int]bool) (final *observation) {
	for si, s := range steps {
		var got []*item
		var err error
		switch s.path {
		case "setraw":
			err = n.deliverSetRaw(s.batch)
			got = s.batch
		case "message":
			err = n.deliverMessage(s.batch)
			got = s.batch
		case "pull", "pull-forced":
			got, err = n.deliverPull(h, s.batch, s.path == "pull-forced")
			c.Count("exchanges.pull_from_harness_peer", 1)
		case "stream-push":
			err = n.deliverStreamPush(s.batch)
			got = s.batch
			c.Count("exchanges.push_stream_to_store", 1)
		default:
			panic("unknown path " + s.path)
		}
		c.Count("deliveries."+s.path, 1)
		c.Count("deliveries.values."+s.path, int64(len(got)))
		if err != nil {
			c.Count("deliveries.returned_error."+s.path, 1)
			c.Logf("step %d %s: error %v", si, s.path, err)
		}
		for _, it := range got {
			m.deliver(it)
			delivered[it.id] = true
		}
		o := n.observe(false)
		okc := ck.checkContents(n.name, o, m, s.path)
		oki := ck.checkIndex(n.name, o, "after-delivery:"+s.path)
		c.Count("observations.after_delivery", 1)
		if !okc || !oki {
			c.Logf("step %d %s: contents ok=%v index ok=%v", si, s.path, okc, oki)
		}
	}
	final = n.observe(true)
	ck.checkContents(n.name, final, m, "final")
	ck.checkIndex(n.name, final, "final")
	return final
}

// storeAccounts are the local accounts a store may run as: current members
// (see Assumptions).
func storeAccount(w *world, rng *rand.Rand) *account {
	return []*account{w.acc("owner"), w.acc("acc-w"), w.acc("acc-r")}[rng.Intn(3)]
}

func openStoreDB(c *lib.Case, name string) (anystore.DB, headstorage.HeadStorage, func()) {
	dir, cleanup := scratchDir(c.TmpDir)
	db := openDB(dir, name)
	heads, err := headstorage.New(bg, db)
	if err != nil {
		panic(err)
	}
	return db, heads, func() { _ = db.Close(); cleanup() }
}

// ordersPerMultiset: 4 fixed schedules + random ones (quick 8 in total, thorough 12).
func ordersPerMultiset(c *lib.Case) int {
	if c.Quick() {
		return 8
	}
	return 12
}

func runOrders(c *lib.Case) {
	rng := c.Rng
	w := newWorld(rng, 4+rng.Intn(2), 3, 3+rng.Intn(6))
	ms := &multiset{}
	w.genValid(ms, 6, 8)
	w.genAclInvalid(ms, rng.Intn(4))
	w.genMutants(ms, rng.Intn(5))
	db, heads, closeDB := openStoreDB(c, "orders.db")
	defer closeDB()

	// non-triviality: at least two slots that received two or more valid values
	perSlot := map[string]int{}
	nInvalid := 0
	for _, it := range ms.items {
		if it.valid {
			perSlot[it.slot()]++
		} else {
			nInvalid++
		}
	}
	contested := 0
	for _, k := range perSlot {
		if k >= 2 {
			contested++
		}
	}
	msKey := fmt.Sprintf("%v", multisetCanon(ms.items))
	c.Count("multisets", 1)
	c.Count("multisets.values", int64(len(ms.items)))
	c.Count("multisets.slots", int64(len(perSlot)))
	c.Count("multisets.acl_records", int64(len(w.recIds)))
	c.Sample("multiset", map[string]any{"acl_history": w.ops, "values": len(ms.items), "slots": len(perSlot), "contested_slots": contested, "invalid_values": nInvalid})

	var cleanCanon, cleanElems, cleanHash string
	cleanOrder := -1
	nOrders := ordersPerMultiset(c)
	for o := 0; o < nOrders; o++ {
		kind := o
		if o >= 4 {
			kind = 4
		}
		steps := genSchedule(rng, ms.items, kind)
		acc := storeAccount(w, rng)
		dev := w.devices[rng.Intn(len(w.devices))]
		n, err := newNode(fmt.Sprintf("s%d", o), w, db, heads, fmt.Sprintf("space-%d", o), dev, acc)
		if err != nil {
			panic(err)
		}
		h := newHostile(n)
		m := newModel()
		delivered := map[int]bool{}
		info := func() any {
			var sd []any
			for _, s := range steps {
				sd = append(sd, s.desc())
			}
			return map[string]any{"multiset": multisetDesc(w, ms.items), "order": o, "store_account": acc.name, "steps": sd}
		}
		ck := newChecker(c, w, info)
		final := runSchedule(c, ck, n, h, steps, m, delivered)
		ck.countOutcome(ms.items, delivered)
		c.Eval(1)
		c.Count("orders.run", 1)
		full := len(delivered) == len(ms.items)
		if full {
			c.Count("orders.full_multiset_delivered", 1)
		}
		clean := ck.nViol == 0
		if full && clean {
			// same multiset, other order / batching / repetition: same contents, same index
			if cleanOrder < 0 {
				cleanOrder, cleanCanon, cleanElems, cleanHash = o, final.canon(), final.elementsCanon(), final.hash
			} else {
				c.Count("orders.compared_pairwise", 1)
				if final.canon() != cleanCanon {
					ck.violation("order-dependence:contents", "two arrival orders of the same multiset ended in different contents",
						map[string]any{"order_a": cleanOrder, "order_b": o, "a": cleanCanon, "b": final.canon()})
				} else if final.elementsCanon() != cleanElems || final.hash != cleanHash {
					ck.violation("order-dependence:index", "two arrival orders of the same multiset ended in the same contents but a different advertised index",
						map[string]any{"order_a": cleanOrder, "order_b": o, "hash_a": cleanHash, "hash_b": final.hash})
				}
			}
		}
		if contested >= 2 && len(steps) >= 2 {
			c.Nontrivial(msKey + "|" + scheduleSig(steps))
		}
		n.close()
	}
}

func multisetCanon(items []*item) uint64 {
	h := fnv.New64a()
	for _, it := range items {
		fmt.Fprintf(h, "%s|%s|%s|%d|%d|%s;", it.spec.Key, it.spec.Dev, it.spec.Acc, it.spec.Rec, it.spec.Ts, it.class)
	}
	return h.Sum64()
}
