package c11

import (
	"encoding/hex"
	"fmt"
	"os"
	"path/filepath"
	"regexp"
	"runtime"
	"runtime/debug"
	"runtime/metrics"
	"strings"
	"syscall"
	"time"

	"verifharness/engines/mutate"
	"verifharness/lib"
)

// Oracle parameters (DESIGN C11 / property statement): a call on hostile
// input returns (value or error) without panicking, within the watchdog, and
// allocates at most allocBase + allocPerByte*len(input) bytes in total.
const (
	allocBase    = 8 << 20
	allocPerByte = 512
	// normal latency of every target is µs..ms; the first watchdog is > 1000x
	// that, and a hit is only called a hang after a further doubled budget.
	watchdog = 20 * time.Second
	hardCap  = 10 * time.Minute
)

// guard runs the calls of one target inside one case and accounts outcomes.
type guard struct {
	c       *lib.Case
	target  string
	errs    map[string]int
	acc     int
	rej     int
	inputs  int
	hung    bool
	lastDir string
	// allocExtra is added to the allowance of the next call only (targets whose
	// legitimate cost depends on harness-owned state, e.g. the size of the tree).
	allocExtra      uint64
	noAlloc         bool
	allocViolations int
	// postLen, when set, gives the input size after the call (targets whose
	// hostile input is produced interactively, e.g. a lying Remote).
	postLen func() int
	// postExtra, when set, adds to the allowance after the call: legitimate
	// cost that depends on harness-owned state (rounds x size of the local index).
	postExtra func() uint64
}

func newGuard(c *lib.Case, target string) *guard {
	return &guard{c: c, target: target, errs: map[string]int{}, lastDir: os.Getenv("C11_LAST_INPUT_DIR")}
}

type callResult struct {
	err      error
	panicked bool
	pval     any
	stack    []byte
}

func normErr(err error) string {
	s := err.Error()
	var sb strings.Builder
	lastDigit := false
	for _, r := range s {
		if r >= '0' && r <= '9' {
			if !lastDigit {
				sb.WriteByte('N')
			}
			lastDigit = true
			continue
		}
		lastDigit = false
		if r < 0x20 || r > 0x7e {
			r = '?'
		}
		sb.WriteRune(r)
	}
	out := sb.String()
	if len(out) > 70 {
		out = out[:70]
	}
	return out
}

func hexHead(b []byte) string {
	if len(b) > 4096 {
		return hex.EncodeToString(b[:4096]) + fmt.Sprintf("…(+%d bytes)", len(b)-4096)
	}
	return hex.EncodeToString(b)
}

// call runs f(input) under the oracle. sub refines the target name ("" = none).
// It returns false when the case must stop (a call hung: the goroutine is
// leaked and may hold locks).
func (g *guard) call(sub string, m mutate.Mutant, f func() error) bool {
	if g.hung {
		return false
	}
	name := g.target
	if sub != "" {
		name = g.target + "/" + sub
	}
	g.inputs++
	g.c.Eval(1)
	if g.lastDir != "" {
		os.WriteFile(filepath.Join(g.lastDir, fmt.Sprintf("last-input-%s-%d.hex", g.c.Workload, os.Getpid())),
			[]byte(fmt.Sprintf("%s case=%d n=%d class=%s\n%s\n", name, g.c.Index, g.inputs, m.Label(), hex.EncodeToString(m.Data))), 0o644)
	}
	if g.c.Verbose {
		g.c.Logf("input %d target=%s class=%s len=%d hex=%s", g.inputs, name, m.Label(), len(m.Data), hexHead(m.Data))
	}
	done := make(chan callResult, 1)
	before := heapAllocated()
	go func() {
		var res callResult
		defer func() {
			if r := recover(); r != nil {
				res.panicked = true
				res.pval = r
				res.stack = debug.Stack()
			}
			done <- res
		}()
		res.err = f()
	}()
	var res callResult
	t := time.NewTimer(watchdog)
	select {
	case res = <-done:
		t.Stop()
	case <-t.C:
		// Slow or hung. Wall-clock alone cannot tell a hang from a starved
		// process (the machine may be heavily oversubscribed), so the verdict
		// needs more: after a further doubled budget the call is a hang only
		// if its goroutine is parked (blocked on something) or the process has
		// burnt real CPU time in the meantime (a busy loop). A runnable but
		// starved call keeps waiting, up to a hard cap.
		g.c.Count(name+".watchdog_first_hit", 1)
		cpu0 := processCPU()
		start := time.Now()
		hung, dump := false, ""
		for !hung {
			tick := time.NewTimer(5 * time.Second)
			select {
			case res = <-done:
				tick.Stop()
				g.c.Count(name+".slow_calls", 1)
				goto finished
			case <-tick.C:
			}
			waited := time.Since(start)
			if waited < 2*watchdog {
				continue
			}
			buf := make([]byte, 1<<20)
			dump = string(buf[:runtime.Stack(buf, true)])
			state := callGoroutineState(dump)
			burnt := processCPU() - cpu0
			if (state != "running" && state != "runnable") || burnt > watchdog || waited > hardCap {
				hung = true
				g.c.Count(name+".hang_state:"+state, 1)
			}
		}
		frame := hangFrame(dump)
		g.c.Violation("hang:"+g.target+":"+frame, "call on hostile input at "+name+" did not return within the watchdog (20 s + 40 s, goroutine parked or process CPU burnt; normal latency is µs–ms)",
			map[string]any{"target": name, "class": m.Label(), "input_hex": hexHead(m.Data), "input_len": len(m.Data), "goroutines": trim(dump, 6000)})
		g.hung = true
		return false
	}
finished:
	alloc := heapAllocated() - before
	inLen := len(m.Data)
	if g.postLen != nil {
		inLen = g.postLen()
	}
	if g.postExtra != nil {
		g.allocExtra += g.postExtra()
	}
	allow := uint64(allocBase) + uint64(allocPerByte)*uint64(inLen) + g.allocExtra
	g.allocExtra = 0
	cls := m.Class
	if res.panicked {
		// the stack was taken inside the deferred recover: the frames of the
		// panicking call start after the "panic(" line
		pstack := string(res.stack)
		if i := strings.Index(pstack, "\npanic("); i >= 0 {
			pstack = pstack[i+1:]
		}
		key, inRepo := lib.PanicKey(res.pval, []byte(pstack))
		frame := lib.InnermostFrame(pstack)
		repoFrame := lib.FirstRepoFrame(pstack)
		if !inRepo && repoFrame != "" && !strings.HasPrefix(frame, "verifharness/") {
			// panicked inside a dependency called from the repository
			inRepo = true
			frame = repoFrame
		}
		msg := strings.TrimPrefix(key, "panic:"+lib.InnermostFrame(pstack)+":")
		// one key per call site and kind: drop quoted operands and the operands of bounds errors
		msg = quotedRe.ReplaceAllString(msg, "'?'")
		for _, cut := range []string{"slice bounds out of range", "index out of range"} {
			if i := strings.Index(msg, cut); i >= 0 {
				msg = msg[:i+len(cut)]
			}
		}
		if inRepo {
			frame = withInlineCaller(pstack, frame)
			g.c.Violation("panic:"+g.target+":"+shortFrame(frame)+":"+msg, fmt.Sprintf("panic on hostile input at %s: %v", name, res.pval),
				map[string]any{"target": name, "class": m.Label(), "input_hex": hexHead(m.Data), "input_len": len(m.Data), "stack": trim(string(res.stack), 5000)})
			g.c.Count(name+".panics", 1)
		} else {
			// harness code panicked: let lib report the run as broken
			panic(fmt.Sprintf("harness panic in target %s: %v\n%s", name, res.pval, res.stack))
		}
		g.rej++
		g.c.Count(name+".class."+cls+".panicked", 1)
		return true
	}
	if !g.noAlloc && alloc > allow {
		g.c.Violation("alloc:"+name, fmt.Sprintf("call at "+name+" allocated %d bytes for a %d-byte input (allowance %d)", alloc, inLen, allow),
			map[string]any{"target": name, "class": m.Label(), "input_hex": hexHead(m.Data), "input_len": len(m.Data), "allocated": alloc, "allowance": allow})
		g.c.Count(name+".alloc_violations", 1)
		g.allocViolations++
	}
	outcome := "accepted"
	if res.err != nil {
		outcome = normErr(res.err)
		g.rej++
		g.c.Count(name+".rejected", 1)
		g.c.Count(name+".class."+cls+".rejected", 1)
		if _, seen := g.errs[outcome]; !seen && len(g.errs) >= 60 {
			outcome = "other"
		}
		g.errs[outcome]++
		g.c.Count(name+".err:"+outcome, 1)
	} else {
		g.acc++
		g.c.Count(name+".accepted", 1)
		g.c.Count(name+".class."+cls+".accepted", 1)
	}
	g.c.Count(name+".inputs", 1)
	g.c.Nontrivial(name + "|" + cls + "|" + outcome)
	g.c.Sample(name+":"+cls, map[string]any{"class": m.Label(), "len": len(m.Data), "outcome": outcome, "hex": trim(hex.EncodeToString(m.Data), 160)})
	return true
}

// finish records the per-case shallow flag: a batch in which nothing was
// accepted and at most one distinct error string came back.
func (g *guard) finish() {
	g.c.Count(g.target+".cases", 1)
	if g.acc == 0 && len(g.errs) <= 1 && g.inputs > 0 {
		g.c.Count(g.target+".shallow_cases", 1)
	}
	// after a hang the rest of the case is skipped; every fixture is per case,
	// so the leaked goroutine cannot block later cases
}

func trim(s string, n int) string {
	if len(s) > n {
		return s[:n] + "…"
	}
	return s
}

func shortFrame(f string) string {
	f = strings.TrimPrefix(f, "github.com/anyproto/any-sync/")
	return f
}

// hangFrame: first repository frame of the goroutine that runs the guarded call.
func hangFrame(dump string) string {
	for _, gr := range strings.Split(dump, "\n\n") {
		if strings.Contains(gr, "c11.(*guard).call.func1") {
			if f := lib.FirstRepoFrame(gr); f != "" {
				return shortFrame(f)
			}
			return shortFrame(lib.InnermostFrame(gr))
		}
	}
	return "unknown"
}

// withInlineCaller: when the panicking frame is an inlined helper (the stack
// prints its arguments as "(...)"), the call site that matters is its caller:
// append it so that distinct call sites get distinct keys.
func withInlineCaller(stack, frame string) string {
	lines := strings.Split(stack, "\n")
	for i, ln := range lines {
		if strings.HasPrefix(ln, frame+"(...)") {
			for _, nx := range lines[i+1:] {
				if strings.HasPrefix(nx, "\t") || nx == "" {
					continue
				}
				if j := strings.LastIndex(nx, "("); j > 0 {
					nx = nx[:j]
				}
				if k := strings.LastIndex(nx, "."); k > 0 {
					return frame + "<" + nx[k+1:]
				}
				return frame
			}
		}
	}
	return frame
}

// processCPU returns user+system CPU time consumed by this process.
func processCPU() time.Duration {
	var ru syscall.Rusage
	if err := syscall.Getrusage(syscall.RUSAGE_SELF, &ru); err != nil {
		return 0
	}
	return time.Duration(ru.Utime.Nano() + ru.Stime.Nano())
}

// callGoroutineState returns the scheduler state ("running", "runnable",
// "chan receive", "select", ...) of the goroutine executing the guarded call.
func callGoroutineState(dump string) string {
	for _, gr := range strings.Split(dump, "\n\n") {
		if strings.Contains(gr, "c11.(*guard).call.func1") {
			if i := strings.Index(gr, "["); i >= 0 {
				if j := strings.Index(gr[i:], "]"); j > 0 {
					st := gr[i+1 : i+j]
					if k := strings.Index(st, ","); k >= 0 {
						st = st[:k]
					}
					return st
				}
			}
		}
	}
	return "unknown"
}

var quotedRe = regexp.MustCompile(`'[^']*'`)

var allocSample = []metrics.Sample{{Name: "/gc/heap/allocs:bytes"}}

// heapAllocated is the cumulative number of bytes allocated by the process
// (the runtime/metrics twin of MemStats.TotalAlloc). Unlike ReadMemStats it
// does not stop the world (360 µs per read on the loaded 16-core box vs 2 µs);
// large objects are counted at allocation, small-object counters may lag by at
// most one span per size class, orders of magnitude below the 8 MiB base allowance.
func heapAllocated() uint64 {
	metrics.Read(allocSample)
	return allocSample[0].Value.Uint64()
}
