package c11

import (
	"context"
	"fmt"
	"math/rand"

	"github.com/anyproto/any-sync/commonspace/object/accountdata"
	"github.com/anyproto/any-sync/commonspace/object/acl/aclrecordproto"
	"github.com/anyproto/any-sync/commonspace/object/acl/list"
	"github.com/anyproto/any-sync/commonspace/object/acl/recordverifier"
	"github.com/anyproto/any-sync/consensus/consensusproto"
	"github.com/anyproto/any-sync/util/cidutil"
	"github.com/anyproto/any-sync/util/crypto"

	"verifharness/engines/mutate"
	"verifharness/lib"
)

func init() {
	register(target{name: "acl.validating", per: 150, quick: 24, thorough: 2400, run: func(c *lib.Case, g *guard, n int) { runAcl(c, g, n, "validating") }})
	register(target{name: "acl.keepidentity", per: 150, quick: 24, thorough: 2400, run: func(c *lib.Case, g *guard, n int) { runAcl(c, g, n, "keepidentity") }})
	register(target{name: "acl.addressed", per: 150, quick: 24, thorough: 2400, run: func(c *lib.Case, g *guard, n int) { runAcl(c, g, n, "addressed") }})
	register(target{name: "acl.build-storage", per: 150, quick: 16, thorough: 1600, run: func(c *lib.Case, g *guard, n int) { runAcl(c, g, n, "build") }})
}

type rawRec = consensusproto.RawRecordWithId

// aclSeed is one valid next record: it applies on top of prefix and was built
// by the real client-side builder of its legitimate author.
type aclSeed struct {
	name   string
	prefix []*rawRec
	author *accountdata.AccountKeys
	data   []byte // the record's AclData
	rec    *rawRec
}

type aclWorld struct {
	r                                  *rand.Rand
	owner, admin, us, writer, outsider *accountdata.AccountKeys
	netKey                             crypto.PrivKey
	netIdentity                        []byte
	spaceId                            string
	seeds                              []aclSeed
	skipped                            []string
	clock                              int64
}

func (w *aclWorld) verifier(validating bool) recordverifier.AcceptorVerifier {
	if validating {
		return recordverifier.NewValidateFull()
	}
	return recordverifier.New(w.netKey.GetPublic())
}

func (w *aclWorld) storage(prefix []*rawRec) list.Storage {
	cp := make([]*rawRec, len(prefix))
	copy(cp, prefix)
	st, err := list.NewInMemoryStorage(prefix[0].Id, cp)
	if err != nil {
		panic(err)
	}
	return st
}

func (w *aclWorld) listFor(keys *accountdata.AccountKeys, prefix []*rawRec, validating bool) (list.AclList, error) {
	return list.BuildAclListWithIdentity(keys, w.storage(prefix), w.verifier(validating))
}

// wrap turns a signed record into what the consensus node hands out: acceptor
// identity + signature by the network key, marshalled, addressed by CID.
func (w *aclWorld) wrap(raw *consensusproto.RawRecord) *rawRec {
	sig, _ := w.netKey.Sign(raw.Payload)
	w.clock++
	full := &consensusproto.RawRecord{Payload: raw.Payload, Signature: raw.Signature, AcceptorIdentity: w.netIdentity, AcceptorSignature: sig, AcceptorTimestamp: 1700000000 + w.clock}
	b, err := full.MarshalVT()
	if err != nil {
		panic(err)
	}
	id, err := cidutil.NewCidFromBytes(b)
	if err != nil {
		panic(err)
	}
	return &rawRec{Payload: b, Id: id}
}

// forge builds a record with arbitrary data bytes, correctly signed by author
// (a legitimate account of the space) and chained after prevId.
func (w *aclWorld) forge(prevId string, author *accountdata.AccountKeys, identity []byte, data []byte) *rawRec {
	if identity == nil {
		identity, _ = author.SignKey.GetPublic().Marshall()
	}
	w.clock++
	rec := &consensusproto.Record{PrevId: prevId, Identity: identity, Data: data, Timestamp: 1700000000 + w.clock}
	payload, _ := rec.MarshalVT()
	return w.forgePayload(author, payload)
}

func (w *aclWorld) forgePayload(author *accountdata.AccountKeys, payload []byte) *rawRec {
	sig, _ := author.SignKey.Sign(payload)
	return w.wrap(&consensusproto.RawRecord{Payload: payload, Signature: sig})
}

func dataOf(rec *rawRec) []byte {
	raw := &consensusproto.RawRecord{}
	if raw.UnmarshalVT(rec.Payload) != nil {
		return nil
	}
	r := &consensusproto.Record{}
	if r.UnmarshalVT(raw.Payload) != nil {
		return nil
	}
	return r.Data
}

// build runs one real builder call of `author` on top of prefix.
func (w *aclWorld) build(name string, prefix []*rawRec, author *accountdata.AccountKeys, f func(b list.AclRecordBuilder, l list.AclList) (*consensusproto.RawRecord, error)) (rec *rawRec, ok bool) {
	defer func() {
		if r := recover(); r != nil {
			// client-side builder misuse is outside the property (DESIGN 2.2); the seed is skipped
			w.skipped = append(w.skipped, fmt.Sprintf("%s: builder panic %v", name, r))
			rec, ok = nil, false
		}
	}()
	l, err := w.listFor(author, prefix, true)
	if err != nil {
		w.skipped = append(w.skipped, fmt.Sprintf("%s: list: %v", name, err))
		return nil, false
	}
	raw, err := f(l.RecordBuilder(), l)
	if err != nil || raw == nil {
		w.skipped = append(w.skipped, fmt.Sprintf("%s: %v", name, err))
		return nil, false
	}
	return w.wrap(raw), true
}

func (w *aclWorld) seed(name string, prefix []*rawRec, author *accountdata.AccountKeys, f func(b list.AclRecordBuilder, l list.AclList) (*consensusproto.RawRecord, error)) (*rawRec, bool) {
	rec, ok := w.build(name, prefix, author, f)
	if !ok {
		return nil, false
	}
	w.seeds = append(w.seeds, aclSeed{name: name, prefix: prefix, author: author, data: dataOf(rec), rec: rec})
	return rec, true
}

func extend(prefix []*rawRec, rec *rawRec) []*rawRec {
	out := make([]*rawRec, 0, len(prefix)+1)
	out = append(out, prefix...)
	return append(out, rec)
}

func newAclWorld(r *rand.Rand) *aclWorld {
	w := &aclWorld{r: r, owner: newKeys(r), admin: newKeys(r), us: newKeys(r), writer: newKeys(r), outsider: newKeys(r)}
	w.netKey, _, _ = crypto.GenerateEd25519Key(rngReader{r})
	w.netIdentity, _ = w.netKey.GetPublic().Marshall()
	w.spaceId = "space." + randId(r, 10)
	newAes := func() crypto.SymKey {
		b := make([]byte, 32)
		r.Read(b)
		k, _ := crypto.UnmarshallAESKey(b)
		return k
	}
	newPriv := func() crypto.PrivKey {
		k, _, _ := crypto.GenerateEd25519Key(rngReader{r})
		return k
	}
	rb := list.NewAclRecordBuilder("", crypto.NewKeyStorage(), w.owner, recordverifier.NewValidateFull())
	root, err := rb.BuildRoot(list.RootContent{PrivKey: w.owner.SignKey, MasterKey: newPriv(), SpaceId: w.spaceId,
		Change: list.ReadKeyChangePayload{MetadataKey: newPriv(), ReadKey: newAes()}, Metadata: []byte("owner-metadata")})
	if err != nil {
		panic(err)
	}
	p0 := []*rawRec{root}
	type B = list.AclRecordBuilder
	type L = list.AclList
	type R = *consensusproto.RawRecord
	must := func(rec *rawRec, ok bool) *rawRec {
		if !ok {
			panic("acl world: base history could not be built: " + fmt.Sprint(w.skipped))
		}
		return rec
	}
	r1 := must(w.build("base.add", p0, w.owner, func(b B, l L) (R, error) {
		return b.BuildAccountsAdd(list.AccountsAddPayload{Additions: []list.AccountAdd{
			{Identity: w.admin.SignKey.GetPublic(), Permissions: list.AclPermissionsAdmin, Metadata: []byte("admin-meta")},
			{Identity: w.writer.SignKey.GetPublic(), Permissions: list.AclPermissionsWriter, Metadata: []byte("writer-meta")}}})
	}))
	p1 := extend(p0, r1)
	var inviteKey, anyoneKey crypto.PrivKey
	r2 := must(w.build("base.invite", p1, w.owner, func(b B, l L) (R, error) {
		res, err := b.BuildInvite()
		inviteKey = res.InviteKey
		return res.InviteRec, err
	}))
	p2 := extend(p1, r2)
	r3 := must(w.build("base.invite-anyone", p2, w.admin, func(b B, l L) (R, error) {
		res, err := b.BuildInviteAnyone(list.AclPermissionsReader)
		anyoneKey = res.InviteKey
		return res.InviteRec, err
	}))
	p3 := extend(p2, r3)
	// every base record is also a seed (valid at its own position)
	w.seeds = append(w.seeds,
		aclSeed{name: "accounts-add(admin,writer)", prefix: p0, author: w.owner, data: dataOf(r1), rec: r1},
		aclSeed{name: "invite", prefix: p1, author: w.owner, data: dataOf(r2), rec: r2},
		aclSeed{name: "invite-anyone", prefix: p2, author: w.admin, data: dataOf(r3), rec: r3})

	usPub := w.us.SignKey.GetPublic()
	addUs, okAdd := w.seed("accounts-add(us)", p3, w.admin, func(b B, l L) (R, error) {
		return b.BuildAccountsAdd(list.AccountsAddPayload{Additions: []list.AccountAdd{{Identity: usPub, Permissions: list.AclPermissionsWriter, Metadata: []byte("us-meta")}}})
	})
	reqJoin, okReq := w.seed("request-join(us)", p3, w.us, func(b B, l L) (R, error) {
		return b.BuildRequestJoin(list.RequestJoinPayload{InviteKey: inviteKey, Metadata: []byte("please")})
	})
	w.seed("request-join(outsider)", p3, w.outsider, func(b B, l L) (R, error) {
		return b.BuildRequestJoin(list.RequestJoinPayload{InviteKey: inviteKey, Metadata: []byte("outsider")})
	})
	w.seed("invite-join(us)", p3, w.us, func(b B, l L) (R, error) {
		return b.BuildInviteJoinWithoutApprove(list.InviteJoinPayload{InviteKey: anyoneKey, Metadata: []byte("joined")})
	})
	w.seed("invite-revoke", p3, w.owner, func(b B, l L) (R, error) { return b.BuildInviteRevoke(r2.Id) })
	w.seed("invite-change", p3, w.owner, func(b B, l L) (R, error) {
		return b.BuildInviteChange(list.InviteChangePayload{IniviteRecordId: r3.Id, Permissions: list.AclPermissionsWriter})
	})
	w.seed("options-change", p3, w.owner, func(b B, l L) (R, error) {
		return b.BuildSpaceOptionsChange(&aclrecordproto.AclSpaceOptions{DeleteRestricted: true})
	})
	w.seed("permission-change(writer)", p3, w.admin, func(b B, l L) (R, error) {
		return b.BuildPermissionChange(list.PermissionChangePayload{Identity: w.writer.SignKey.GetPublic(), Permissions: list.AclPermissionsReader})
	})
	w.seed("ownership-change(admin)", p3, w.owner, func(b B, l L) (R, error) {
		return b.BuildOwnershipChange(list.OwnershipChangePayload{NewOwner: w.admin.SignKey.GetPublic(), OldOwnerPermissions: list.AclPermissionsAdmin})
	})
	w.seed("request-remove(writer)", p3, w.writer, func(b B, l L) (R, error) { return b.BuildRequestRemove() })
	if okReq {
		p4 := extend(p3, reqJoin)
		w.seed("request-accept(us)", p4, w.admin, func(b B, l L) (R, error) {
			return b.BuildRequestAccept(list.RequestAcceptPayload{RequestRecordId: reqJoin.Id, Permissions: list.AclPermissionsWriter})
		})
		w.seed("request-decline(us)", p4, w.owner, func(b B, l L) (R, error) { return b.BuildRequestDecline(reqJoin.Id) })
		w.seed("request-cancel(us)", p4, w.us, func(b B, l L) (R, error) { return b.BuildRequestCancel(reqJoin.Id) })
		w.seed("batch(approve+add)", p4, w.owner, func(b B, l L) (R, error) {
			res, err := b.BuildBatchRequest(list.BatchRequestPayload{
				Approvals:  []list.RequestAcceptPayload{{RequestRecordId: reqJoin.Id, Permissions: list.AclPermissionsReader}},
				Additions:  []list.AccountAdd{{Identity: w.outsider.SignKey.GetPublic(), Permissions: list.AclPermissionsReader, Metadata: []byte("o")}},
				NewInvites: []list.AclPermissions{list.AclPermissionsReader}})
			return res.Rec, err
		})
	}
	if okAdd {
		p4 := extend(p3, addUs)
		w.seed("read-key-change", p4, w.owner, func(b B, l L) (R, error) {
			return b.BuildReadKeyChange(list.ReadKeyChangePayload{MetadataKey: newPriv(), ReadKey: newAes()})
		})
		rm, okRm := w.seed("account-remove(writer)", p4, w.owner, func(b B, l L) (R, error) {
			return b.BuildAccountRemove(list.AccountRemovePayload{Identities: []crypto.PubKey{w.writer.SignKey.GetPublic()},
				Change: list.ReadKeyChangePayload{MetadataKey: newPriv(), ReadKey: newAes()}})
		})
		w.seed("permission-change(us)", p4, w.admin, func(b B, l L) (R, error) {
			return b.BuildPermissionChange(list.PermissionChangePayload{Identity: usPub, Permissions: list.AclPermissionsReader})
		})
		w.seed("batch(revoke+rotate)", p4, w.owner, func(b B, l L) (R, error) {
			res, err := b.BuildBatchRequest(list.BatchRequestPayload{InviteRevokes: []string{r3.Id},
				ReadKeyChange: &list.ReadKeyChangePayload{MetadataKey: newPriv(), ReadKey: newAes()}})
			return res.Rec, err
		})
		if okRm {
			// a second key generation, so that unpackAllKeys walks a chain
			p5 := extend(p4, rm)
			w.seed("accounts-add(outsider) after rotation", p5, w.admin, func(b B, l L) (R, error) {
				return b.BuildAccountsAdd(list.AccountsAddPayload{Additions: []list.AccountAdd{{Identity: w.outsider.SignKey.GetPublic(), Permissions: list.AclPermissionsReader, Metadata: []byte("late")}}})
			})
			w.seed("read-key-change(2)", p5, w.owner, func(b B, l L) (R, error) {
				return b.BuildReadKeyChange(list.ReadKeyChangePayload{MetadataKey: newPriv(), ReadKey: newAes()})
			})
		}
	}
	return w
}

// mutantOf derives one hostile record from a seed. layer: "data" (AclData
// re-signed by the seed's author), "record" (the signed Record), "raw" (the
// RawRecord without re-signing), "outer" (payload bytes / id of RawRecordWithId).
func (w *aclWorld) mutantOf(s aclSeed, addressed bool) (*rawRec, mutate.Mutant) {
	r := w.r
	donor := w.seeds[r.Intn(len(w.seeds))]
	head := s.prefix[len(s.prefix)-1].Id
	x := r.Intn(100)
	if addressed {
		// only the "ciphertext" classes, at the data layer, by the legitimate author
		cls := []string{"pb.bytes-short", "pb.bytes-short", "pb.bytes-short", "pb.bytes-empty", "pb.bytes-1", "pb.bytes-garbage", "pb.trunc-field", "pb.drop-field", "pb.swap-donor"}[r.Intn(9)]
		m := mutate.OfClass(r, s.data, donor.data, cls)
		m.Class = "data:" + m.Class
		return w.forge(head, s.author, nil, m.Data), m
	}
	switch {
	case x < 3:
		return s.rec, mutate.Mutant{Data: s.rec.Payload, Class: "valid"}
	case x < 60:
		m := mutate.Any(r, s.data, donor.data)
		m.Class = "data:" + m.Class
		author := s.author
		if r.Intn(8) == 0 {
			// same content, another legitimate author
			author = []*accountdata.AccountKeys{w.owner, w.admin, w.us, w.writer, w.outsider}[r.Intn(5)]
			m.Class += "+author"
		}
		return w.forge(head, author, nil, m.Data), m
	case x < 75:
		// the signed Record itself (prevId, identity, timestamp, data framing), re-signed
		raw := &consensusproto.RawRecord{}
		_ = raw.UnmarshalVT(s.rec.Payload)
		draw := &consensusproto.RawRecord{}
		_ = draw.UnmarshalVT(donor.rec.Payload)
		m := mutate.Any(r, raw.Payload, draw.Payload)
		m.Class = "record:" + m.Class
		return w.forgePayload(s.author, m.Data), m
	case x < 85:
		// RawRecord (signatures, acceptor fields), CID recomputed
		m := mutate.Any(r, s.rec.Payload, donor.rec.Payload)
		m.Class = "raw:" + m.Class
		id, _ := cidutil.NewCidFromBytes(m.Data)
		return &rawRec{Payload: m.Data, Id: id}, m
	case x < 93:
		m := mutate.Any(r, s.rec.Payload, donor.rec.Payload)
		m.Class = "outer:" + m.Class
		id := s.rec.Id
		switch r.Intn(4) {
		case 0:
			id = ""
		case 1:
			id = s.prefix[0].Id // claims to be the root
		case 2:
			id = randId(r, r.Intn(80))
		}
		return &rawRec{Payload: m.Data, Id: id}, m
	default:
		m := mutate.Random(r, 2048)
		id, _ := cidutil.NewCidFromBytes(m.Data)
		if r.Intn(3) == 0 {
			id = s.prefix[0].Id
		}
		return &rawRec{Payload: m.Data, Id: id}, m
	}
}

// exercise reads back everything a client derives lazily from accepted records.
func exerciseAcl(c *lib.Case, l list.AclList) error {
	st := l.AclState()
	for _, acc := range st.CurrentAccounts() {
		if acc.PubKey == nil {
			// a non-validating list that applied a permission change for an unknown
			// identity holds an account entry without a key (observation O-C11-B);
			// handing that nil back to the API would be harness misuse
			c.Count("acl.observed_account_state_without_pubkey", 1)
			continue
		}
		_, _ = st.GetMetadata(acc.PubKey, true)
		_, _ = st.GetMetadata(acc.PubKey, false)
		_, _ = st.JoinRecord(acc.PubKey, true)
		_, _ = st.PermissionsAtRecord(l.Head().Id, acc.PubKey)
	}
	_, _ = st.JoinRecords(true)
	_ = st.RemoveRecords()
	_ = st.Invites()
	_, _ = st.CurrentReadKey()
	_, _ = st.CurrentMetadataKey()
	_, _ = st.OwnerPubKey()
	_ = st.CurrentOptions()
	_ = st.IsEmpty()
	if _, err := l.RecordsAfter(context.Background(), ""); err != nil {
		return err
	}
	_, err := l.RecordsBefore(context.Background(), "")
	return err
}

func runAcl(c *lib.Case, g *guard, n int, mode string) {
	r := c.Rng
	w := newAclWorld(r)
	c.Count(g.target+".seeds", int64(len(w.seeds)))
	c.Count(g.target+".seeds_skipped", int64(len(w.skipped)))
	for _, s := range w.skipped {
		c.Logf("seed skipped: %s", s)
	}
	// one cached victim list per (seed prefix, verifier); rebuilt after an accepted record
	cache := map[string]list.AclList{}
	getList := func(si int, validating bool) list.AclList {
		key := fmt.Sprintf("%d/%v", si, validating)
		if l, ok := cache[key]; ok {
			return l
		}
		l, err := w.listFor(w.us, w.seeds[si].prefix, validating)
		if err != nil {
			panic(fmt.Sprintf("victim list over a valid prefix cannot be built (seed %s): %v", w.seeds[si].name, err))
		}
		cache[key] = l
		return l
	}
	for i := 0; i < n; i++ {
		si := r.Intn(len(w.seeds))
		s := w.seeds[si]
		validating := mode == "validating"
		if mode == "addressed" || mode == "build" {
			validating = r.Intn(2) == 0
		}
		rec, m := w.mutantOf(s, mode == "addressed")
		// the delivered input is the whole record (payload + id), whatever layer was mutated
		m.Data = rec.Payload
		vname := "keep-identity"
		if validating {
			vname = "validating"
		}
		switch mode {
		case "build":
			// a storage that already holds the hostile record (written by an earlier version, a migrated db, or a peer's SpacePull)
			pos := r.Intn(4)
			recs := extend(s.prefix, rec)
			if pos == 0 && len(s.prefix) > 1 {
				// hostile record in the middle of the log
				k := 1 + r.Intn(len(s.prefix)-1)
				recs = append(append(append([]*rawRec{}, s.prefix[:k]...), rec), s.prefix[k:]...)
			} else if pos == 1 {
				// hostile bytes as the root
				recs = append([]*rawRec{{Payload: rec.Payload, Id: rec.Id}}, s.prefix[1:]...)
			}
			if !g.call("BuildAclListWithIdentity."+vname, m, func() error {
				st, err := list.NewInMemoryStorage(recs[0].Id, recs)
				if err != nil {
					return err
				}
				l, err := list.BuildAclListWithIdentity(w.us, st, w.verifier(validating))
				if err != nil {
					return err
				}
				return exerciseAcl(c, l)
			}) {
				return
			}
		default:
			l := getList(si, validating)
			op := r.Intn(10)
			sub := "AddRawRecord." + vname
			f := func() error { return l.AddRawRecord(rec) }
			if op == 0 {
				sub = "ValidateRawRecord." + vname
				f = func() error {
					raw := &consensusproto.RawRecord{}
					if err := raw.UnmarshalVT(rec.Payload); err != nil {
						return err
					}
					return l.ValidateRawRecord(raw, func(state *list.AclState) error { return nil })
				}
			} else if op == 1 {
				sub = "AddRawRecords." + vname
				rec2, _ := w.mutantOf(s, mode == "addressed")
				f = func() error { return l.AddRawRecords([]*rawRec{rec, s.rec, rec2}) }
			}
			before := l.Head().Id
			if !g.call(sub, m, f) {
				return
			}
			c.Count(g.target+".by_seed."+s.name, 1)
			if l.Head().Id != before {
				c.Count(g.target+".state_advanced", 1)
				// what the client reads back from an accepted hostile record, and a rebuild from its storage
				am := m
				am.Class = "accepted:" + m.Class
				if !g.call("accessors-after-accept."+vname, am, func() error { return exerciseAcl(c, l) }) {
					return
				}
				delete(cache, fmt.Sprintf("%d/%v", si, validating))
			}
		}
	}
}
