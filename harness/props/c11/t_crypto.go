package c11

import (
	"errors"
	"math/rand"

	"github.com/anyproto/any-sync/util/crypto"
	"github.com/anyproto/any-sync/util/strkey"

	"verifharness/engines/mutate"
	"verifharness/lib"
)

func init() {
	register(target{name: "crypto", per: 400, quick: 30, thorough: 2500, run: runCrypto})
}

type cryptoSub struct {
	name   string
	corpus [][]byte
	call   func(in []byte) error
	// short: inputs are ciphertexts — also draw from the "shorter than header" generator
	short bool
}

// genInput draws one input for a sub-target: valid seed, structure-aware or
// byte-level mutant, short ciphertext, or pure random bytes.
func genInput(r *rand.Rand, corpus [][]byte, short bool) mutate.Mutant {
	seed := pickBytes(r, corpus)
	donor := pickBytes(r, corpus)
	x := r.Intn(100)
	switch {
	case x < 3:
		return mutate.Mutant{Data: append([]byte(nil), seed...), Class: "valid"}
	case x < 15:
		return mutate.Random(r, 4096)
	case short && x < 45:
		n := mutate.ShortLens[r.Intn(len(mutate.ShortLens))]
		b := make([]byte, n)
		r.Read(b)
		if len(seed) >= n && r.Intn(2) == 0 {
			copy(b, seed)
		}
		return mutate.Mutant{Data: b, Class: "short-ciphertext"}
	default:
		cls := mutate.AllClasses()
		return mutate.OfClass(r, seed, donor, cls[r.Intn(len(cls))])
	}
}

func runCrypto(c *lib.Case, g *guard, n int) {
	r := c.Rng
	priv, pub, err := crypto.GenerateEd25519Key(rngReader{r})
	if err != nil {
		panic(err)
	}
	priv2, pub2, _ := crypto.GenerateEd25519Key(rngReader{r})
	aesRaw := make([]byte, 32)
	r.Read(aesRaw)
	aes, _ := crypto.UnmarshallAESKey(aesRaw)
	var x25519CT, aesCT [][]byte
	for _, l := range []int{0, 1, 16, 40, 300} {
		msg := make([]byte, l)
		r.Read(msg)
		ct, err := pub.Encrypt(msg)
		if err != nil {
			panic(err)
		}
		x25519CT = append(x25519CT, ct)
		ct2, err := aes.Encrypt(msg)
		if err != nil {
			panic(err)
		}
		aesCT = append(aesCT, ct2)
	}
	pubProto, _ := pub.Marshall()
	pub2Proto, _ := pub2.Marshall()
	privProto, _ := priv.Marshall()
	priv2Proto, _ := priv2.Marshall()
	aesProto, _ := aes.Marshall()
	pubRaw, _ := pub.Raw()
	privRaw, _ := priv.Raw()
	netId, accId, peerId := pub.Network(), pub.Account(), pub.PeerId()
	netId2, _ := strkey.Encode(strkey.NetworkAddressVersionByte, pubRaw[:16])
	b64, _ := crypto.EncodeKeyToString(pub)
	ks := crypto.NewKeyStorage()
	privCurve := crypto.Ed25519PrivateKeyToCurve25519(privRaw)
	pubCurveB, _ := crypto.Ed25519PublicKeyToCurve25519(pubRaw)
	var privCurveA, pubCurveA [32]byte
	copy(privCurveA[:], privCurve)
	copy(pubCurveA[:], pubCurveB)

	subs := []cryptoSub{
		{name: "Ed25519PrivKey.Decrypt", corpus: x25519CT, short: true, call: func(in []byte) error { _, err := priv.Decrypt(in); return err }},
		{name: "DecryptX25519", corpus: x25519CT, short: true, call: func(in []byte) error {
			_, err := crypto.DecryptX25519(&privCurveA, &pubCurveA, in)
			return err
		}},
		{name: "AESKey.Decrypt", corpus: aesCT, short: true, call: func(in []byte) error { _, err := aes.Decrypt(in); return err }},
		{name: "AESKey.DecryptReuse", corpus: aesCT, short: true, call: func(in []byte) error {
			_, err := aes.DecryptReuse(make([]byte, 0, 8), in)
			return err
		}},
		{name: "UnmarshalEd25519PublicKeyProto", corpus: [][]byte{pubProto, pub2Proto, privProto, aesProto}, call: func(in []byte) error {
			k, err := crypto.UnmarshalEd25519PublicKeyProto(in)
			if err != nil {
				return err
			}
			// whatever is accepted as a key must be usable like one
			k.Account()
			k.PeerId()
			k.Network()
			if _, err := k.Encrypt([]byte("m")); err != nil {
				return err
			}
			_, err = k.Verify([]byte("m"), in)
			return err
		}},
		{name: "UnmarshalEd25519PrivateKeyProto", corpus: [][]byte{privProto, priv2Proto, pubProto, aesProto}, call: func(in []byte) error {
			k, err := crypto.UnmarshalEd25519PrivateKeyProto(in)
			if err != nil {
				return err
			}
			// an accepted private key (e.g. a metadata key delivered inside an ACL record) is used to decrypt and sign
			k.GetPublic().Account()
			if _, err := k.Sign([]byte("m")); err != nil {
				return err
			}
			if _, err := k.Decrypt(x25519CT[1]); err != nil && !errors.Is(err, crypto.ErrX25519DecryptionFailed) {
				return err
			}
			return nil
		}},
		{name: "UnmarshallAESKeyProto", corpus: [][]byte{aesProto, pubProto}, call: func(in []byte) error {
			k, err := crypto.UnmarshallAESKeyProto(in)
			if err != nil {
				return err
			}
			ct, err := k.Encrypt([]byte("m"))
			if err != nil {
				return err
			}
			_, err = k.Decrypt(ct)
			return err
		}},
		{name: "UnmarshalEd25519PublicKey", corpus: [][]byte{pubRaw, privRaw}, call: func(in []byte) error {
			k, err := crypto.UnmarshalEd25519PublicKey(in)
			if err != nil {
				return err
			}
			_, err = k.Encrypt([]byte("m"))
			return err
		}},
		{name: "UnmarshalEd25519PrivateKey", corpus: [][]byte{privRaw, append(append([]byte{}, privRaw...), pubRaw...), pubRaw}, call: func(in []byte) error {
			k, err := crypto.UnmarshalEd25519PrivateKey(in)
			if err != nil {
				return err
			}
			k.GetPublic().PeerId()
			if _, err := k.Decrypt(x25519CT[0]); err != nil && !errors.Is(err, crypto.ErrX25519DecryptionFailed) {
				return err
			}
			return nil
		}},
		{name: "UnmarshallAESKey", corpus: [][]byte{aesRaw, pubRaw}, call: func(in []byte) error { _, err := crypto.UnmarshallAESKey(in); return err }},
		{name: "KeyStorage.PubKeyFromProto", corpus: [][]byte{pubProto, pub2Proto, privProto}, call: func(in []byte) error { _, err := ks.PubKeyFromProto(in); return err }},
		{name: "DecodeNetworkId", corpus: [][]byte{[]byte(netId), []byte(netId2), []byte(accId)}, call: func(in []byte) error { _, err := crypto.DecodeNetworkId(string(in)); return err }},
		{name: "DecodeAccountAddress", corpus: [][]byte{[]byte(accId), []byte(netId)}, call: func(in []byte) error { _, err := crypto.DecodeAccountAddress(string(in)); return err }},
		{name: "DecodePeerId", corpus: [][]byte{[]byte(peerId), []byte(accId), []byte("QmYyQSo1c1Ym7orWxLYvCrM2EmxFTANf8wXmmE7DWjhx5N")}, call: func(in []byte) error {
			_, err := crypto.DecodePeerId(string(in))
			return err
		}},
		{name: "DecodeKeyFromString", corpus: [][]byte{[]byte(b64)}, call: func(in []byte) error {
			_, err := crypto.DecodeKeyFromString(string(in), crypto.UnmarshalEd25519PublicKey, nil)
			return err
		}},
		{name: "UnmarshallAESKeyString", corpus: [][]byte{[]byte(aes.String())}, call: func(in []byte) error { _, err := crypto.UnmarshallAESKeyString(string(in)); return err }},
		{name: "strkey.Decode", corpus: [][]byte{[]byte(accId), []byte(netId)}, call: func(in []byte) error {
			_, err := strkey.Decode(strkey.AccountAddressVersionByte, string(in))
			return err
		}},
	}
	for i := 0; i < n; i++ {
		s := subs[i%len(subs)]
		m := genInput(r, s.corpus, s.short)
		in := m.Data
		if !g.call(s.name, m, func() error { return s.call(in) }) {
			return
		}
	}
}
