package c11

import (
	"context"
	"encoding/binary"
	"errors"
	"fmt"
	"io"
	"math"
	"math/rand"
	"net"
	"sync"
	"time"

	"github.com/anyproto/any-sync/app/ldiff"
	"github.com/anyproto/any-sync/commonspace/headsync"
	"github.com/anyproto/any-sync/commonspace/object/accountdata"
	"github.com/anyproto/any-sync/commonspace/object/keyvalue/keyvaluestorage/innerstorage"
	"github.com/anyproto/any-sync/commonspace/spacesyncproto"
	"github.com/anyproto/any-sync/net/secureservice"
	"github.com/anyproto/any-sync/net/secureservice/handshake"
	"github.com/anyproto/any-sync/net/secureservice/handshake/handshakeproto"
	"github.com/anyproto/any-sync/util/crypto"

	"verifharness/engines/mutate"
	"verifharness/lib"
)

func init() {
	register(target{name: "kv.fromproto", per: 400, quick: 12, thorough: 1200, run: runKVFromProto})
	register(target{name: "headsync", per: 300, quick: 12, thorough: 1000, run: runHeadSync})
	register(target{name: "ldiff.hostile-remote", per: 60, quick: 16, thorough: 600, run: runHostileRemote})
	register(target{name: "handshake", per: 300, quick: 16, thorough: 1400, run: runHandshake})
}

func newKeys(r *rand.Rand) *accountdata.AccountKeys {
	sign, _, err := crypto.GenerateEd25519Key(rngReader{r})
	if err != nil {
		panic(err)
	}
	peerKey, _, err := crypto.GenerateEd25519Key(rngReader{r})
	if err != nil {
		panic(err)
	}
	return accountdata.New(peerKey, sign)
}

// ---------------------------------------------------------------- key-value element decode

// signedKeyValue builds a StoreKeyValue exactly like keyvaluestorage.Storage.Set does.
func signedKeyValue(keys *accountdata.AccountKeys, innerBytes []byte, key string) *spacesyncproto.StoreKeyValue {
	peerSig, _ := keys.PeerKey.Sign(innerBytes)
	idSig, _ := keys.SignKey.Sign(innerBytes)
	return &spacesyncproto.StoreKeyValue{
		KeyPeerId:         key + "-" + keys.PeerKey.GetPublic().PeerId(),
		Value:             innerBytes,
		IdentitySignature: idSig,
		PeerSignature:     peerSig,
	}
}

func keyValueInner(r *rand.Rand, keys *accountdata.AccountKeys, key, aclHead string, val []byte, ts int64) []byte {
	pk, _ := keys.PeerKey.GetPublic().Marshall()
	ik, _ := keys.SignKey.GetPublic().Marshall()
	inner := &spacesyncproto.StoreKeyInner{Peer: pk, Identity: ik, Value: val, TimestampMicro: ts, AclHeadId: aclHead, Key: key}
	b, _ := inner.MarshalVT()
	return b
}

func runKVFromProto(c *lib.Case, g *guard, n int) {
	r := c.Rng
	keys := newKeys(r)
	keys2 := newKeys(r)
	var wires, inners [][]byte
	for i := 0; i < 4; i++ {
		val := make([]byte, r.Intn(200))
		r.Read(val)
		k := keys
		if i%2 == 1 {
			k = keys2
		}
		inner := keyValueInner(r, k, fmt.Sprintf("key%d", i), "bafyrei"+randId(r, 52), val, 1700000000000000+int64(i))
		inners = append(inners, inner)
		b, _ := signedKeyValue(k, inner, fmt.Sprintf("key%d", i)).MarshalVT()
		wires = append(wires, b)
	}
	for i := 0; i < n; i++ {
		var m mutate.Mutant
		x := r.Intn(100)
		switch {
		case x < 45:
			// mutate the signed inner value and sign it again with the author's own keys
			k := r.Intn(len(inners))
			ks := keys
			if k%2 == 1 {
				ks = keys2
			}
			m = mutate.Any(r, inners[k], inners[r.Intn(len(inners))])
			b, _ := signedKeyValue(ks, m.Data, fmt.Sprintf("key%d", k)).MarshalVT()
			m.Data = b
			m.Class = "resigned-inner:" + m.Class
		default:
			m = genInput(r, wires, false)
		}
		in := m.Data
		verify := i%5 != 4
		if !g.call("KeyValueFromProto", m, func() error {
			p := &spacesyncproto.StoreKeyValue{}
			if err := p.UnmarshalVT(in); err != nil {
				return err
			}
			kv, err := innerstorage.KeyValueFromProto(p, verify)
			if err != nil {
				return err
			}
			_ = kv.Proto()
			return nil
		}) {
			return
		}
	}
}

// ---------------------------------------------------------------- head sync range requests

func populatedDiff(r *rand.Rand, n int) ldiff.Diff {
	d := ldiff.New(2+r.Intn(15), 1+r.Intn(16))
	els := make([]ldiff.Element, 0, n)
	for i := 0; i < n; i++ {
		els = append(els, ldiff.Element{Id: "bafyrei" + randId(r, 20), Head: randId(r, 12)})
	}
	d.Set(els...)
	return d
}

func runHeadSync(c *lib.Case, g *guard, n int) {
	r := c.Rng
	d := populatedDiff(r, 150)
	empty := ldiff.New(16, 16)
	var corpus [][]byte
	mk := func(ranges ...*spacesyncproto.HeadSyncRange) {
		b, _ := (&spacesyncproto.HeadSyncRequest{SpaceId: "space." + randId(r, 6), Ranges: ranges, DiffType: spacesyncproto.DiffType_V3}).MarshalVT()
		corpus = append(corpus, b)
	}
	mk(&spacesyncproto.HeadSyncRange{From: 0, To: math.MaxUint64})
	mk(&spacesyncproto.HeadSyncRange{From: 0, To: math.MaxUint64, Elements: true, Limit: 10})
	mk(&spacesyncproto.HeadSyncRange{From: 0, To: math.MaxUint64 / 2}, &spacesyncproto.HeadSyncRange{From: math.MaxUint64/2 + 1, To: math.MaxUint64})
	var many []*spacesyncproto.HeadSyncRange
	for i := 0; i < 16; i++ {
		many = append(many, &spacesyncproto.HeadSyncRange{From: uint64(i) << 60, To: uint64(i+1)<<60 - 1, Elements: i%3 == 0})
	}
	mk(many...)
	ctx := context.Background()
	for i := 0; i < n; i++ {
		var m mutate.Mutant
		if r.Intn(5) == 0 {
			// arbitrary ranges: inverted, overlapping, single point, extreme limits
			var rs []*spacesyncproto.HeadSyncRange
			for k := 0; k < 1+r.Intn(20); k++ {
				a, b := r.Uint64(), r.Uint64()
				switch r.Intn(5) {
				case 0:
					a = b
				case 1:
					a, b = math.MaxUint64, 0
				case 2:
					a = 0
				}
				rs = append(rs, &spacesyncproto.HeadSyncRange{From: a, To: b, Elements: r.Intn(2) == 0, Limit: uint32(r.Uint64())})
			}
			b, _ := (&spacesyncproto.HeadSyncRequest{SpaceId: "s", Ranges: rs}).MarshalVT()
			m = mutate.Mutant{Data: b, Class: "arbitrary-ranges"}
		} else {
			m = genInput(r, corpus, false)
		}
		in := m.Data
		diff := d
		if i%7 == 6 {
			diff = empty
		}
		if !g.call("HandleRangeRequest", m, func() error {
			req := &spacesyncproto.HeadSyncRequest{}
			if err := req.UnmarshalVT(in); err != nil {
				return err
			}
			resp, err := headsync.HandleRangeRequest(ctx, diff, req)
			if err != nil {
				return err
			}
			_, err = resp.MarshalVT()
			return err
		}) {
			return
		}
	}
}

// ---------------------------------------------------------------- Diff / CompareDiff against a hostile Remote

// hostileRemote answers Ranges with inconsistent counts / hashes / element
// lists. It plays at most `budget` rounds and then fails the exchange, so the
// monitor measures what the local side does with the answers: it must not
// panic, must come back to the remote (or finish) within the watchdog after
// every answer, and must not allocate out of proportion to what the remote sent.
type hostileRemote struct {
	r        *rand.Rand
	local    ldiff.Diff
	mode     int
	budget   int
	rounds   int
	sent     int // bytes of "wire" the remote produced
	maxAsked int
	lastAt   time.Time
	maxGap   time.Duration
}

var errBudget = errors.New("hostile remote: round budget exhausted")

func (h *hostileRemote) Ranges(ctx context.Context, ranges []ldiff.Range, resBuf []ldiff.RangeResult) ([]ldiff.RangeResult, error) {
	now := time.Now()
	if !h.lastAt.IsZero() && now.Sub(h.lastAt) > h.maxGap {
		h.maxGap = now.Sub(h.lastAt)
	}
	defer func() { h.lastAt = time.Now() }()
	h.rounds++
	if len(ranges) > h.maxAsked {
		h.maxAsked = len(ranges)
	}
	if h.rounds > h.budget {
		return nil, errBudget
	}
	r := h.r
	out := resBuf[:0]
	var truth []ldiff.RangeResult
	if h.mode == 3 || h.mode == 6 {
		truth, _ = h.local.Ranges(ctx, ranges, nil)
	}
	nres := len(ranges)
	if h.mode == 5 && r.Intn(4) == 0 {
		nres += r.Intn(3) - 1
	}
	for i := 0; i < nres; i++ {
		var rr ldiff.RangeResult
		mode := h.mode
		if mode == 6 {
			mode = r.Intn(5)
		}
		switch mode {
		case 0: // always "many more, no elements, different hash"
			rr = ldiff.RangeResult{Hash: []byte{byte(r.Intn(256)), 1}, Count: 1000000}
		case 1: // count below the threshold but never any elements
			rr = ldiff.RangeResult{Hash: []byte{2, byte(r.Intn(256))}, Count: 1 + r.Intn(3)}
		case 2: // elements whose number disagrees with count
			rr = ldiff.RangeResult{Hash: []byte{3, byte(r.Intn(256))}, Count: r.Intn(50)}
			for k := 0; k < r.Intn(20); k++ {
				rr.Elements = append(rr.Elements, ldiff.Element{Id: "x" + randId(r, 6), Head: randId(r, 4)})
			}
		case 3: // truthful hash, lying count / negative count / nil hash
			if i < len(truth) {
				rr = truth[i]
			}
			rr.Count = []int{-1, 0, math.MaxInt32, rr.Count + 1, -rr.Count}[r.Intn(5)]
			if r.Intn(3) == 0 {
				rr.Hash = nil
			}
		case 4: // duplicated / empty ids, consistent count
			k := r.Intn(30)
			for j := 0; j < k; j++ {
				id := []string{"", "dup", "x" + randId(r, 3)}[r.Intn(3)]
				rr.Elements = append(rr.Elements, ldiff.Element{Id: id, Head: randId(r, 2)})
			}
			rr.Count = k
			rr.Hash = []byte{4, byte(r.Intn(256))}
		default:
			rr = ldiff.RangeResult{Hash: []byte{9}, Count: 7}
		}
		h.sent += 16 + len(rr.Hash)
		for _, e := range rr.Elements {
			h.sent += len(e.Id) + len(e.Head) + 4
		}
		out = append(out, rr)
	}
	return out, nil
}

func runHostileRemote(c *lib.Case, g *guard, n int) {
	r := c.Rng
	ctx := context.Background()
	for i := 0; i < n; i++ {
		local := populatedDiff(r, []int{0, 1, 5, 60, 400}[r.Intn(5)])
		mode := r.Intn(7)
		h := &hostileRemote{r: r, local: local, mode: mode, budget: 150}
		desc := mutate.Mutant{Data: []byte(fmt.Sprintf("mode=%d local=%d", mode, local.Len())), Class: fmt.Sprintf("hostile-remote.mode%d", mode)}
		sub := "Diff"
		if i%2 == 1 {
			sub = "CompareDiff"
		}
		g.postLen = func() int { return h.sent }
		// every round legitimately costs the local side one scan of its own
		// elements in the asked ranges (twice when the harness computes the truth)
		g.postExtra = func() uint64 { return uint64(h.rounds) * uint64(4096+400*local.Len()) }
		ok := g.call(sub, desc, func() error {
			var err error
			if sub == "Diff" {
				_, _, _, err = local.Diff(ctx, h)
			} else {
				_, _, _, _, err = local.(ldiff.CompareDiff).CompareDiff(ctx, h)
			}
			return err
		})
		g.postLen, g.postExtra = nil, nil
		if !ok {
			return
		}
		c.Count("ldiff.hostile-remote.rounds", int64(h.rounds))
		if h.rounds > h.budget {
			// the exchange did not end on its own within the budget: the remote can keep it
			// going for as long as it keeps answering (see FINDINGS O-C11-A); counted, not judged
			c.Count("ldiff.hostile-remote.round_budget_exhausted", 1)
			c.Count(fmt.Sprintf("ldiff.hostile-remote.round_budget_exhausted.mode%d", mode), 1)
		}
		if h.maxAsked > 4096 {
			c.Count("ldiff.hostile-remote.asked_over_4096_ranges", 1)
		}
	}
}

// ---------------------------------------------------------------- handshake frames

// scriptConn is the transport of a hostile peer: Read yields the scripted
// bytes and then EOF, Write swallows everything (optionally failing).
type scriptConn struct {
	in      []byte
	wrote   int
	failAt  int
	closed  bool
	chunked bool
}

func (s *scriptConn) Read(p []byte) (int, error) {
	if len(s.in) == 0 {
		return 0, io.EOF
	}
	n := len(p)
	if s.chunked && n > 3 {
		n = 3
	}
	if n > len(s.in) {
		n = len(s.in)
	}
	copy(p, s.in[:n])
	s.in = s.in[n:]
	return n, nil
}
func (s *scriptConn) Write(p []byte) (int, error) {
	s.wrote += len(p)
	if s.failAt > 0 && s.wrote > s.failAt {
		return 0, io.ErrClosedPipe
	}
	return len(p), nil
}
func (s *scriptConn) Close() error                       { s.closed = true; return nil }
func (s *scriptConn) LocalAddr() net.Addr                { return &net.TCPAddr{} }
func (s *scriptConn) RemoteAddr() net.Addr               { return &net.TCPAddr{} }
func (s *scriptConn) SetDeadline(t time.Time) error      { return nil }
func (s *scriptConn) SetReadDeadline(t time.Time) error  { return nil }
func (s *scriptConn) SetWriteDeadline(t time.Time) error { return nil }

// stallConn is a peer that sends its scripted bytes and then neither sends more nor closes: Read parks
// until the local side closes the connection. The handshake is then run under a short context deadline,
// as the transports do; after the call has returned the harness waits until the library's own worker
// goroutine has left the connection (its pending Read woke up and it either wrote its error ack or
// closed) - a worker that touches recycled state at that point takes the whole process down
// (added after seeded change C11-5 was missed: every scripted peer used to end in EOF).
type stallConn struct {
	mu       sync.Mutex
	in       []byte
	chunked  bool
	closed   chan struct{}
	isClosed bool
	parked   bool          // a Read is (or was) parked waiting for the close
	left     chan struct{} // closed when the parked Read has returned and the reader came back with Write/Close, or never parked
	leftOnce sync.Once
}

func newStallConn(in []byte, chunked bool) *stallConn {
	return &stallConn{in: in, chunked: chunked, closed: make(chan struct{}), left: make(chan struct{})}
}

func (s *stallConn) Read(p []byte) (int, error) {
	s.mu.Lock()
	if len(s.in) > 0 {
		n := len(p)
		if s.chunked && n > 3 {
			n = 3
		}
		if n > len(s.in) {
			n = len(s.in)
		}
		copy(p, s.in[:n])
		s.in = s.in[n:]
		s.mu.Unlock()
		return n, nil
	}
	s.parked = true
	s.mu.Unlock()
	<-s.closed
	return 0, io.ErrClosedPipe
}
func (s *stallConn) after() {
	s.mu.Lock()
	p, c := s.parked, s.isClosed
	s.mu.Unlock()
	if p && c {
		s.leftOnce.Do(func() { close(s.left) })
	}
}
func (s *stallConn) Write(p []byte) (int, error) {
	s.mu.Lock()
	c := s.isClosed
	s.mu.Unlock()
	s.after()
	if c {
		return 0, io.ErrClosedPipe
	}
	return len(p), nil
}
func (s *stallConn) Close() error {
	s.mu.Lock()
	first := !s.isClosed
	s.isClosed = true
	s.mu.Unlock()
	if first {
		close(s.closed)
	} else {
		s.after()
	}
	return nil
}
func (s *stallConn) LocalAddr() net.Addr                { return &net.TCPAddr{} }
func (s *stallConn) RemoteAddr() net.Addr               { return &net.TCPAddr{} }
func (s *stallConn) SetDeadline(t time.Time) error      { return nil }
func (s *stallConn) SetReadDeadline(t time.Time) error  { return nil }
func (s *stallConn) SetWriteDeadline(t time.Time) error { return nil }

func frame(tp byte, payload []byte) []byte {
	b := []byte{tp, 0, 0, 0, 0}
	binary.LittleEndian.PutUint32(b[1:], uint32(len(payload)))
	return append(b, payload...)
}

func runHandshake(c *lib.Case, g *guard, n int) {
	r := c.Rng
	us, them := newKeys(r), newKeys(r)
	const proto = 8
	compat := []uint32{7, 8, 9}
	noVerify, peerSign := secureservice.VerifNewCheckers(proto, compat, "verif:v1", us)
	_, theirSign := secureservice.VerifNewCheckers(proto, compat, "verif:peer", them)
	theirCred, _ := theirSign.MakeCredentials(us.PeerId).MarshalVT()
	skipCred, _ := (&handshakeproto.Credentials{Type: handshakeproto.CredentialsType_SkipVerify, Version: proto, ClientVersion: "x"}).MarshalVT()
	ackOk, _ := (&handshakeproto.Ack{Error: handshakeproto.Error_Null}).MarshalVT()
	ackBad, _ := (&handshakeproto.Ack{Error: handshakeproto.Error_InvalidCredentials}).MarshalVT()
	protoMsg, _ := (&handshakeproto.Proto{Proto: handshakeproto.ProtoType_DRPC, Encodings: []handshakeproto.Encoding{handshakeproto.Encoding_Snappy, handshakeproto.Encoding_None}}).MarshalVT()
	// payload corpora (mutated inside a well-formed frame) and whole transcripts (mutated as bytes)
	credPayloads := [][]byte{theirCred, skipCred}
	transcripts := [][]byte{
		append(frame(1, theirCred), frame(2, ackOk)...),
		append(frame(1, skipCred), frame(2, ackOk)...),
		append(frame(1, theirCred), frame(2, ackBad)...),
		frame(2, ackBad),
		append(frame(3, protoMsg), frame(2, ackOk)...),
		frame(3, protoMsg),
	}
	ctx := context.Background()
	for i := 0; i < n; i++ {
		var m mutate.Mutant
		x := r.Intn(100)
		switch {
		case x < 35:
			// hostile payload inside correct framing
			pm := genInput(r, credPayloads, false)
			tp := byte(1)
			if i%4 >= 2 {
				pm = genInput(r, [][]byte{protoMsg, ackOk}, false)
				tp = 3
			}
			b := frame(tp, pm.Data)
			if r.Intn(2) == 0 {
				b = append(b, frame(2, [][]byte{ackOk, ackBad, pm.Data}[r.Intn(3)])...)
			}
			m = mutate.Mutant{Data: b, Class: "framed:" + pm.Class}
		case x < 50:
			// header games: type and declared size
			sz := []uint32{0, 1, 200 * 1024, 200*1024 + 1, 1 << 24, math.MaxUint32, uint32(r.Intn(4096))}[r.Intn(7)]
			b := []byte{byte(r.Intn(6)), 0, 0, 0, 0}
			binary.LittleEndian.PutUint32(b[1:], sz)
			tail := make([]byte, r.Intn(300))
			r.Read(tail)
			m = mutate.Mutant{Data: append(b, tail...), Class: "frame-header"}
		default:
			m = genInput(r, transcripts, false)
			m.Class = "transcript:" + m.Class
		}
		in := m.Data
		if r.Intn(6) == 0 {
			// the peer stalls (often in the middle of a frame) instead of closing; the call runs under a deadline
			cut := len(in)
			if cut > 0 && r.Intn(3) != 0 {
				cut = r.Intn(cut + 1)
			}
			sc := newStallConn(append([]byte(nil), in[:cut]...), r.Intn(3) == 0)
			m.Class = "stalled-peer:" + m.Class
			cc := peerSign
			if r.Intn(4) == 0 {
				cc = noVerify
			}
			var sub string
			var sf func(ctx context.Context) error
			switch i % 4 {
			case 0:
				sub = "IncomingHandshake"
				sf = func(ctx context.Context) error {
					_, err := handshake.IncomingHandshake(ctx, sc, them.PeerId, cc)
					return err
				}
			case 1:
				sub = "OutgoingHandshake"
				sf = func(ctx context.Context) error {
					_, err := handshake.OutgoingHandshake(ctx, sc, them.PeerId, cc)
					return err
				}
			case 2:
				sub = "IncomingProtoHandshake"
				sf = func(ctx context.Context) error {
					_, err := handshake.IncomingProtoHandshake(ctx, sc, handshake.ProtoChecker{AllowedProtoTypes: []handshakeproto.ProtoType{handshakeproto.ProtoType_DRPC},
						SupportedEncodings: []handshakeproto.Encoding{handshakeproto.Encoding_Snappy}})
					return err
				}
			default:
				sub = "OutgoingProtoHandshake"
				sf = func(ctx context.Context) error {
					_, err := handshake.OutgoingProtoHandshake(ctx, sc, &handshakeproto.Proto{Proto: handshakeproto.ProtoType_DRPC, Encodings: []handshakeproto.Encoding{handshakeproto.Encoding_Snappy}})
					return err
				}
			}
			ok := g.call(sub+".stalled-peer", m, func() error {
				dctx, cancel := context.WithTimeout(context.Background(), 20*time.Millisecond)
				defer cancel()
				err := sf(dctx)
				// the deadline closed the connection: give the library's worker the chance to come back from its Read
				sc.mu.Lock()
				parked := sc.parked
				sc.mu.Unlock()
				if parked {
					select {
					case <-sc.left:
						c.Count("handshake.stalled_peer.worker_seen_leaving_after_deadline", 1)
					case <-time.After(2 * time.Second):
						c.Count("handshake.stalled_peer.worker_not_seen_leaving", 1)
					}
				}
				c.Count("handshake.stalled_peer.calls", 1)
				return err
			})
			if !ok {
				return
			}
			continue
		}
		conn := &scriptConn{in: append([]byte(nil), in...), chunked: r.Intn(3) == 0}
		if r.Intn(10) == 0 {
			conn.failAt = 1 + r.Intn(64)
		}
		cc := peerSign
		if r.Intn(4) == 0 {
			cc = noVerify
		}
		var sub string
		var f func() error
		switch i % 4 {
		case 0:
			sub = "IncomingHandshake"
			f = func() error { _, err := handshake.IncomingHandshake(ctx, conn, them.PeerId, cc); return err }
		case 1:
			sub = "OutgoingHandshake"
			f = func() error { _, err := handshake.OutgoingHandshake(ctx, conn, them.PeerId, cc); return err }
		case 2:
			sub = "IncomingProtoHandshake"
			f = func() error {
				_, err := handshake.IncomingProtoHandshake(ctx, conn, handshake.ProtoChecker{AllowedProtoTypes: []handshakeproto.ProtoType{handshakeproto.ProtoType_DRPC},
					SupportedEncodings: []handshakeproto.Encoding{handshakeproto.Encoding_Snappy}})
				return err
			}
		default:
			sub = "OutgoingProtoHandshake"
			f = func() error {
				_, err := handshake.OutgoingProtoHandshake(ctx, conn, &handshakeproto.Proto{Proto: handshakeproto.ProtoType_DRPC, Encodings: []handshakeproto.Encoding{handshakeproto.Encoding_Snappy}})
				return err
			}
		}
		if !g.call(sub, m, f) {
			return
		}
	}
}
