// Package c11: hostile or malformed peer input is accepted or rejected with an
// error — it never panics the process, never hangs, and never causes
// allocation unrelated to the input's size. Every network-facing parser /
// applier is a named target with a corpus of valid messages built by the real
// builders; the mutate engine derives labelled hostile variants; a per-call
// monitor checks panic / watchdog / TotalAlloc.
package c11

import (
	"io"
	"math/rand"
	"runtime"
	"sync"
	"time"

	"verifharness/lib"
)

type Prop struct{}

func (Prop) ID() string    { return "C11" }
func (Prop) Level() string { return "exploration" }
func (Prop) Rule() string {
	return "each workload is one parser/applier entry point (target) fed, per case, a batch of inputs derived by the PRNG from a corpus of valid messages built by the real builders: byte-level mutants (flip/set/truncate/extend/splice/delete/insert/dup), protobuf-structure-aware mutants (drop/dup/reorder field, varint/fixed/length-prefix edits, bytes field -> empty/1 byte/shorter-than-header/garbage/grown, swap equal-typed fields within or across messages, wire-type/field-number edits, deep nesting, field truncation) applied at the outer frame and — re-signed by a legitimate author and re-addressed by CID where the format is signed — at every inner layer, plus pure random byte strings of 0..4096 bytes. Oracle per call: no panic, return within 20 s (+40 s grace), TotalAlloc delta <= 8 MiB + 512 x len(input). Accept vs reject is counted, not judged. An input is non-trivial when it was executed at a target; distinct = (target, mutation class, outcome string)."
}
func (Prop) Assumptions() []string {
	return []string{
		"inputs are delivered at the exported entry points the transport/sync layers call, assembled from wire fields the way the call sites do (no nil wrapper structs a peer cannot cause)",
		"signed formats: deep mutants are re-signed by a legitimate author (a hostile but authorised member/admin, or the space owner), never by forging another account's signature",
		"ciphertext and nonce bytes, timestamps and ephemeral keys come from crypto/rand and time.Now inside the real builders, so replay reproduces the mutation sequence, not the exact bytes; every violation carries the exact input in hex",
		"the allocation monitor reads the cumulative allocated-bytes counter of the whole worker process (runtime/metrics /gc/heap/allocs:bytes, the non-stop-the-world twin of MemStats.TotalAlloc; GC independent) around a call that runs alone",
	}
}

// target is one workload.
type target struct {
	name     string
	per      int // inputs per case
	quick    int // cases in the quick tier
	thorough int // cases in the thorough tier
	run      func(c *lib.Case, g *guard, n int)
	memMB    int
	batches  int
	minNT    int
	heavy    bool
}

var targets []target

func register(t target) {
	if t.per == 0 {
		t.per = 200
	}
	if t.minNT == 0 {
		t.minNT = 3
	}
	targets = append(targets, t)
}

func (Prop) Plan(tier string) []lib.Workload {
	var out []lib.Workload
	for _, t := range allTargets() {
		n := t.quick
		if tier == "thorough" {
			n = t.thorough
		}
		if n == 0 {
			continue
		}
		b := t.batches
		if b == 0 {
			b = 4
			if tier == "thorough" {
				b = 8
				if t.heavy {
					// database-backed targets: more, shorter batches keep all cores busy until the end
					b = 16
				}
			}
		}
		out = append(out, lib.Workload{Name: t.name, Cases: n, Batches: b, MinNontrivial: t.minNT, MemLimitMB: t.memMB,
			CaseTimeout: 15 * time.Minute, BatchTimeout: 120 * time.Minute})
		if t.name == "crypto" || t.name == "acl.addressed" {
			// a tenth of the inputs of the cheap / most exposed targets also run under -race (checkptr)
			rn := n / 10
			if rn < 1 {
				rn = 1
			}
			out = append(out, lib.Workload{Name: t.name + ".race", Cases: rn, Batches: 2, Race: true, MinNontrivial: 1, MemLimitMB: t.memMB,
				CaseTimeout: 20 * time.Minute, BatchTimeout: 120 * time.Minute})
		}
	}
	return out
}

func allTargets() []target { return targets }

var procsOnce sync.Once

func (Prop) RunCase(c *lib.Case) {
	// a worker runs one call at a time; few Ps keep the stop-the-world reads of
	// MemStats around every call cheap (16 workers share the machine)
	procsOnce.Do(func() { runtime.GOMAXPROCS(2) })
	name := c.Workload
	if len(name) > 5 && name[len(name)-5:] == ".race" {
		name = name[:len(name)-5]
	}
	for _, t := range allTargets() {
		if t.name == name {
			g := newGuard(c, t.name)
			t.run(c, g, t.per)
			g.finish()
			return
		}
	}
	c.Inconclusive("unknown workload " + c.Workload)
}

// rngReader makes key generation a function of the case PRNG.
type rngReader struct{ r *rand.Rand }

func (r rngReader) Read(p []byte) (int, error) { return r.r.Read(p) }

var _ io.Reader = rngReader{}

func pickBytes(r *rand.Rand, corpus [][]byte) []byte { return corpus[r.Intn(len(corpus))] }
