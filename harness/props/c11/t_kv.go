package c11

import (
	"context"
	"encoding/binary"
	"errors"
	"fmt"
	"io"
	"math"
	"time"

	"storj.io/drpc"

	"github.com/anyproto/any-sync/app"
	"github.com/anyproto/any-sync/commonspace/object/accountdata"
	"github.com/anyproto/any-sync/commonspace/object/keyvalue/keyvaluestorage"
	"github.com/anyproto/any-sync/commonspace/object/keyvalue/keyvaluestorage/innerstorage"
	"github.com/anyproto/any-sync/commonspace/object/tree/treechangeproto"
	"github.com/anyproto/any-sync/commonspace/pubsub"
	"github.com/anyproto/any-sync/commonspace/pubsub/pubsubproto"
	"github.com/anyproto/any-sync/commonspace/settings"
	"github.com/anyproto/any-sync/commonspace/spacesyncproto"
	"github.com/anyproto/any-sync/net/peer"
	"github.com/anyproto/any-sync/testutil/accounttest"
	"github.com/anyproto/any-sync/util/crypto"

	"verifharness/engines/mutate"
	"verifharness/lib"
)

func init() {
	register(target{heavy: true, name: "kv.setraw", per: 120, quick: 16, thorough: 1200, run: runKVSetRaw})
	register(target{name: "settings.delete", per: 300, quick: 8, thorough: 800, run: runSettingsDelete})
	register(target{name: "pubsub", per: 150, quick: 16, thorough: 1600, run: runPubSub})
}

// ---------------------------------------------------------------- key-value storage SetRaw

type kvSyncStub struct{ n int }

func (k *kvSyncStub) Broadcast(ctx context.Context, objectId string, keyValues ...innerstorage.KeyValue) error {
	k.n++
	return nil
}

// decryptingIndexer does what a client indexer does with stored values: decrypt them.
type decryptingIndexer struct{ decrypted, failed int }

func (d *decryptingIndexer) Init(a *app.App) error { return nil }
func (d *decryptingIndexer) Name() string          { return keyvaluestorage.IndexerCName }
func (d *decryptingIndexer) Index(dec keyvaluestorage.Decryptor, kvs ...innerstorage.KeyValue) error {
	for _, kv := range kvs {
		if _, err := dec(kv); err != nil {
			d.failed++
		} else {
			d.decrypted++
		}
	}
	return nil
}

func runKVSetRaw(c *lib.Case, g *guard, n int) {
	r := c.Rng
	fx := newSpaceFx(c)
	rp := fx.open(fx.owner)
	defer rp.close()
	idx := &decryptingIndexer{}
	st, err := keyvaluestorage.New(bg, "kv."+randId(r, 6), rp.db, rp.space.HeadStorage(), fx.owner, &kvSyncStub{}, rp.acl, idx)
	if err != nil {
		panic(err)
	}
	if err := st.Prepare(); err != nil {
		panic(err)
	}
	// a few local values, so that LWW comparison and the diff have content
	for i := 0; i < 3; i++ {
		if err := st.Set(bg, fmt.Sprintf("key%d", i), []byte("local")); err != nil {
			panic("local Set refused: " + err.Error())
		}
	}
	aclIds := []string{fx.payload.AclWithId.Id, fx.aclRecs[0].Id}
	authors := []*accountdata.AccountKeys{fx.writer, fx.owner, fx.reader, fx.outsider}
	clock := time.Now().UnixMicro()
	mkInner := func(k *accountdata.AccountKeys, key string) []byte {
		val := make([]byte, mutate.ShortLens[r.Intn(len(mutate.ShortLens))]+r.Intn(3)*40)
		r.Read(val)
		clock += int64(1 + r.Intn(1000))
		ts := clock
		switch r.Intn(8) {
		case 0:
			ts = math.MaxInt64
		case 1:
			ts = -1
		case 2:
			ts = 0
		}
		acl := aclIds[r.Intn(len(aclIds))]
		if r.Intn(6) == 0 {
			acl = "bafyrei" + randId(r, 52)
		}
		return keyValueInner(r, k, key, acl, val, ts)
	}
	var lastInner []byte
	for i := 0; i < n; i++ {
		nkv := 1 + r.Intn(4)
		var kvs []*spacesyncproto.StoreKeyValue
		label := "signed-batch"
		for j := 0; j < nkv; j++ {
			k := authors[r.Intn(len(authors))]
			key := fmt.Sprintf("key%d", r.Intn(6))
			inner := mkInner(k, key)
			if r.Intn(3) == 0 {
				m := mutate.Any(r, inner, lastInner)
				inner = m.Data
				label = "resigned-inner:" + m.Class
			}
			lastInner = inner
			kv := signedKeyValue(k, inner, key)
			switch r.Intn(8) {
			case 0:
				kv.KeyPeerId = "" // empty / relabelled slot
			case 1:
				kv.KeyPeerId = "key0-" + fx.owner.PeerKey.GetPublic().PeerId()
			}
			kvs = append(kvs, kv)
		}
		b, _ := (&spacesyncproto.StoreKeyValues{KeyValues: kvs}).MarshalVT()
		m := mutate.Mutant{Data: b, Class: label}
		if r.Intn(4) == 0 {
			m = mutate.Any(r, b, b)
			m.Class = "wire:" + m.Class
		}
		in := m.Data
		if !g.call("SetRaw", m, func() error {
			msg := &spacesyncproto.StoreKeyValues{}
			if err := msg.UnmarshalVT(in); err != nil {
				return err
			}
			return st.SetRaw(bg, msg.KeyValues...)
		}) {
			return
		}
		if i%10 == 9 {
			am := mutate.Mutant{Class: "read-back"}
			if !g.call("GetAll+Iterate", am, func() error {
				for k := 0; k < 6; k++ {
					if err := st.GetAll(bg, fmt.Sprintf("key%d", k), func(dec keyvaluestorage.Decryptor, values []innerstorage.KeyValue) error {
						for _, v := range values {
							_, _ = dec(v)
						}
						return nil
					}); err != nil {
						return err
					}
				}
				return st.Iterate(bg, func(dec keyvaluestorage.Decryptor, key string, values []innerstorage.KeyValue) (bool, error) {
					for _, v := range values {
						_, _ = dec(v)
					}
					return true, nil
				})
			}) {
				return
			}
		}
	}
	c.Count("kv.setraw.indexer_decrypted", int64(idx.decrypted))
	c.Count("kv.setraw.indexer_decrypt_failed", int64(idx.failed))
}

// ---------------------------------------------------------------- settings: delete-change verification

func runSettingsDelete(c *lib.Case, g *guard, n int) {
	r := c.Rng
	owner, other := newKeys(r), newKeys(r)
	ident, _ := owner.SignKey.GetPublic().Marshall()
	mkData := func(peerId string, extra bool) []byte {
		sd := &spacesyncproto.SettingsData{Content: []*spacesyncproto.SpaceSettingsContent{
			{Value: &spacesyncproto.SpaceSettingsContent_SpaceDelete{SpaceDelete: &spacesyncproto.SpaceDelete{DeleterPeerId: peerId}}}}}
		if extra {
			sd.Content = append(sd.Content, &spacesyncproto.SpaceSettingsContent{Value: &spacesyncproto.SpaceSettingsContent_ObjectDelete{ObjectDelete: &spacesyncproto.ObjectDelete{Id: "x"}}})
		}
		b, _ := sd.MarshalVT()
		return b
	}
	mkChange := func(data []byte) []byte {
		tc := &treechangeproto.TreeChange{TreeHeadIds: []string{"bafyrei" + randId(r, 52)}, AclHeadId: "bafyrei" + randId(r, 52), SnapshotBaseId: "bafyrei" + randId(r, 52),
			ChangesData: data, Timestamp: 1700000000, Identity: ident, DataType: ""}
		b, _ := tc.MarshalVT()
		return b
	}
	payloads := [][]byte{mkChange(mkData(owner.PeerId, false)), mkChange(mkData("", false)), mkChange(mkData(owner.PeerId, true))}
	var wires [][]byte
	for _, p := range payloads {
		ch := signChange(owner, p)
		b, _ := ch.MarshalVT()
		wires = append(wires, b)
	}
	for i := 0; i < n; i++ {
		var m mutate.Mutant
		x := r.Intn(100)
		switch {
		case x < 30:
			// the settings payload inside the change, re-signed by the owner
			dm := mutate.Any(r, mkData(owner.PeerId, r.Intn(2) == 0), mkData("p", true))
			b, _ := signChange(owner, mkChange(dm.Data)).MarshalVT()
			m = mutate.Mutant{Data: b, Class: "resigned-data:" + dm.Class}
		case x < 60:
			pm := mutate.Any(r, pickBytes(r, payloads), pickBytes(r, payloads))
			k := owner
			if r.Intn(6) == 0 {
				k = other
			}
			b, _ := signChange(k, pm.Data).MarshalVT()
			m = mutate.Mutant{Data: b, Class: "resigned-change:" + pm.Class}
		default:
			m = genInput(r, wires, false)
		}
		in := m.Data
		peerId := []string{owner.PeerId, "", other.PeerId}[r.Intn(3)]
		if !g.call("VerifyDeleteChange", m, func() error {
			raw := &treechangeproto.RawTreeChangeWithId{}
			if err := raw.UnmarshalVT(in); err != nil {
				return err
			}
			return settings.VerifyDeleteChange(raw, owner.SignKey.GetPublic(), peerId)
		}) {
			return
		}
	}
}

// ---------------------------------------------------------------- pubsub frames

type allowAll struct{}

func (allowAll) CheckMember(ctx context.Context, spaceId string, identity crypto.PubKey) error {
	return nil
}

type soleRelay struct{}

func (soleRelay) IsResponsible(spaceId string) bool             { return spaceId != "not-ours" }
func (soleRelay) IsResponsibleNode(spaceId, peerId string) bool { return peerId == "node-peer" }
func (soleRelay) OtherResponsiblePeers(ctx context.Context, spaceId string) ([]peer.Peer, error) {
	return nil, nil
}

type failingCrypto struct{}

func (failingCrypto) Encrypt(spaceId string, payload []byte) (string, []byte, error) {
	return "k", payload, nil
}
func (failingCrypto) Decrypt(spaceId, keyId string, encrypted []byte) ([]byte, error) {
	if len(encrypted) < 12 {
		return nil, errors.New("short")
	}
	return encrypted[12:], nil
}

// frameStream is the inbound PubSubStream of a hostile peer: MsgRecv decodes
// the scripted frames one by one (like drpcstream with the proto encoding),
// then reports EOF. Writes are swallowed.
type frameStream struct {
	ctx    context.Context
	frames [][]byte
	sent   int
}

func (f *frameStream) Context() context.Context { return f.ctx }
func (f *frameStream) MsgSend(msg drpc.Message, enc drpc.Encoding) error {
	f.sent++
	return nil
}
func (f *frameStream) MsgRecv(msg drpc.Message, enc drpc.Encoding) error {
	if len(f.frames) == 0 {
		return io.EOF
	}
	b := f.frames[0]
	f.frames = f.frames[1:]
	return msg.(*pubsubproto.PubSubMessage).UnmarshalVT(b)
}
func (f *frameStream) CloseSend() error { return nil }
func (f *frameStream) Close() error     { return nil }

func pubSignData(p *pubsubproto.Publish) []byte {
	buf := []byte("anysync:pubsub:v1")
	for _, f := range [][]byte{[]byte(p.SpaceId), []byte(p.Topic), p.MsgId, []byte(p.KeyId)} {
		buf = binary.LittleEndian.AppendUint32(buf, uint32(len(f)))
		buf = append(buf, f...)
	}
	buf = binary.LittleEndian.AppendUint64(buf, uint64(p.TimestampMilli))
	return append(buf, p.Payload...)
}

func runPubSub(c *lib.Case, g *guard, n int) {
	r := c.Rng
	start := func(node bool) (*app.App, pubsub.Service) {
		deps := pubsub.Deps{Membership: allowAll{}, Crypto: failingCrypto{}}
		if node {
			deps.Relay = soleRelay{}
		}
		svc := pubsub.New(deps)
		a := new(app.App)
		a.Register(accounttest.NewWithAcc(newKeys(r))).Register(svc)
		if err := a.Start(bg); err != nil {
			panic("pubsub service does not start: " + err.Error())
		}
		return a, svc
	}
	nodeApp, node := start(true)
	clientApp, client := start(false)
	defer nodeApp.Close(bg)
	defer clientApp.Close(bg)
	delivered := 0
	for _, pat := range []string{"chat/>", "acc/*", "a/b"} {
		if _, err := client.Subscribe("space1", pat, func(spaceId, topic string, identity crypto.PubKey, payload []byte) { delivered++ }); err != nil {
			panic(err)
		}
	}
	peerKeys := newKeys(r)
	identity, _ := peerKeys.SignKey.GetPublic().Marshall()
	acc := peerKeys.SignKey.GetPublic().Account()
	mkPublish := func() *pubsubproto.Publish {
		id := make([]byte, 16)
		r.Read(id)
		p := &pubsubproto.Publish{SpaceId: "space1", Topic: []string{"chat/room1", "a/b", "acc/" + acc, "acc/someone"}[r.Intn(4)], MsgId: id,
			Payload: []byte("hello-" + randId(r, 20)), TimestampMilli: time.Now().UnixMilli(), Identity: identity}
		if r.Intn(3) == 0 {
			p.KeyId = "key1"
		}
		p.Signature, _ = peerKeys.SignKey.Sign(pubSignData(p))
		return p
	}
	wrap := func(m *pubsubproto.PubSubMessage) []byte { b, _ := m.MarshalVT(); return b }
	seeds := func() [][]byte {
		return [][]byte{
			wrap(&pubsubproto.PubSubMessage{Content: &pubsubproto.PubSubMessage_Subscribe{Subscribe: &pubsubproto.Subscribe{SpaceId: "space1", Topics: []string{"chat/*", "acc/>", "a/b"}}}}),
			wrap(&pubsubproto.PubSubMessage{Content: &pubsubproto.PubSubMessage_Unsubscribe{Unsubscribe: &pubsubproto.Unsubscribe{SpaceId: "space1", Topics: []string{"chat/*"}}}}),
			wrap(&pubsubproto.PubSubMessage{Content: &pubsubproto.PubSubMessage_Unsubscribe{Unsubscribe: &pubsubproto.Unsubscribe{SpaceId: "space1"}}}),
			wrap(&pubsubproto.PubSubMessage{Content: &pubsubproto.PubSubMessage_Publish{Publish: mkPublish()}}),
			wrap(&pubsubproto.PubSubMessage{Content: &pubsubproto.PubSubMessage_Publish{Publish: mkPublish()}}),
			wrap(&pubsubproto.PubSubMessage{Content: &pubsubproto.PubSubMessage_Status{Status: &pubsubproto.Status{SpaceId: "space1", Topics: []string{"x"}, Code: pubsubproto.ErrCodes_InvalidTopic}}}),
		}
	}
	for i := 0; i < n; i++ {
		corpus := seeds()
		nf := 1 + r.Intn(5)
		var frames [][]byte
		var joined []byte
		label := ""
		for k := 0; k < nf; k++ {
			var m mutate.Mutant
			if r.Intn(3) == 0 {
				m = mutate.Mutant{Data: pickBytes(r, corpus), Class: "valid"}
			} else if r.Intn(4) == 0 {
				// hostile but well-signed publish: the author signs whatever it likes
				p := mkPublish()
				switch r.Intn(6) {
				case 0:
					p.Topic = randId(r, 3) + "//" + randId(r, 2)
				case 1:
					p.MsgId = p.MsgId[:r.Intn(16)]
				case 2:
					p.Payload = make([]byte, []int{0, 1, 11, 12, 64 * 1024, 64*1024 + 1}[r.Intn(6)])
				case 3:
					p.TimestampMilli = []int64{0, -1, math.MaxInt64, math.MinInt64}[r.Intn(4)]
				case 4:
					p.Relayed = true
				case 5:
					p.SpaceId = []string{"", "a/b", "not-ours"}[r.Intn(3)]
				}
				p.Signature, _ = peerKeys.SignKey.Sign(pubSignData(p))
				m = mutate.Mutant{Data: wrap(&pubsubproto.PubSubMessage{Content: &pubsubproto.PubSubMessage_Publish{Publish: p}}), Class: "signed-hostile-publish"}
			} else {
				m = genInput(r, corpus, false)
			}
			if label == "" || m.Class != "valid" {
				label = m.Class
			}
			frames = append(frames, m.Data)
			joined = append(joined, m.Data...)
		}
		m := mutate.Mutant{Data: joined, Class: label}
		svc, role := node, "node"
		if i%3 == 2 {
			svc, role = client, "client"
		}
		ctx := peer.CtxWithPeerId(bg, []string{"hostile-peer", "node-peer"}[r.Intn(2)])
		switch r.Intn(5) {
		case 0: // unverified inbound: no identity in the stream context
		case 1:
			ctx = peer.CtxWithIdentity(ctx, []byte("garbage"))
		default:
			ctx = peer.CtxWithIdentity(ctx, identity)
		}
		fs := &frameStream{ctx: ctx, frames: frames}
		if !g.call("HandleStream."+role, m, func() error {
			err := svc.HandleStream(fs)
			if errors.Is(err, io.EOF) {
				return nil // the scripted stream ended: every frame was handled
			}
			return err
		}) {
			return
		}
	}
	c.Count("pubsub.client_delivered", int64(delivered))
}
