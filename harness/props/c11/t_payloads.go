package c11

import (
	"math/rand"
	"strconv"

	"github.com/anyproto/any-sync/commonspace/object/tree/treechangeproto"
	"github.com/anyproto/any-sync/commonspace/spacepayloads"
	"github.com/anyproto/any-sync/commonspace/spacestorage"
	"github.com/anyproto/any-sync/commonspace/spacesyncproto"
	"github.com/anyproto/any-sync/consensus/consensusproto"
	"github.com/anyproto/any-sync/util/cidutil"
	"github.com/anyproto/any-sync/util/crypto"

	"verifharness/engines/mutate"
	"verifharness/lib"
)

func init() {
	register(target{name: "payloads", per: 300, quick: 16, thorough: 1400, run: runPayloads})
}

// spacePayloadOf marshals a storage payload the way SpacePush / SpacePull carry it.
func spacePayloadOf(p spacestorage.SpaceStorageCreatePayload) []byte {
	sp := &spacesyncproto.SpacePayload{
		SpaceHeader:            p.SpaceHeaderWithId,
		AclPayload:             p.AclWithId.Payload,
		AclPayloadId:           p.AclWithId.Id,
		SpaceSettingsPayload:   p.SpaceSettingsWithId.RawChange,
		SpaceSettingsPayloadId: p.SpaceSettingsWithId.Id,
	}
	b, err := sp.MarshalVT()
	if err != nil {
		panic(err)
	}
	return b
}

// validatePayloadBytes is the receiving side of SpacePull (spaceservice.go
// spacePullWithPeer / createSpaceStorage) and SpacePush: decode the wire
// message, assemble the create payload from its fields, validate.
func validatePayloadBytes(in []byte) error {
	sp := &spacesyncproto.SpacePayload{}
	if err := sp.UnmarshalVT(in); err != nil {
		return err
	}
	return spacepayloads.ValidateSpaceStorageCreatePayload(spacestorage.SpaceStorageCreatePayload{
		AclWithId:           &consensusproto.RawRecordWithId{Payload: sp.AclPayload, Id: sp.AclPayloadId},
		SpaceSettingsWithId: &treechangeproto.RawTreeChangeWithId{RawChange: sp.SpaceSettingsPayload, Id: sp.SpaceSettingsPayloadId},
		SpaceHeaderWithId:   sp.SpaceHeader,
	})
}

type payloadSeed struct {
	name    string
	payload spacestorage.SpaceStorageCreatePayload
	key     crypto.PrivKey
	wire    []byte
}

func buildPayloadSeeds(r *rand.Rand) []payloadSeed {
	mk := func() crypto.PrivKey {
		k, _, err := crypto.GenerateEd25519Key(rngReader{r})
		if err != nil {
			panic(err)
		}
		return k
	}
	var out []payloadSeed
	add := func(name string, p spacestorage.SpaceStorageCreatePayload, err error, key crypto.PrivKey) {
		if err != nil {
			panic("building valid payload " + name + ": " + err.Error())
		}
		s := payloadSeed{name: name, payload: p, key: key, wire: spacePayloadOf(p)}
		if err := validatePayloadBytes(s.wire); err != nil {
			panic("valid payload " + name + " rejected: " + err.Error())
		}
		out = append(out, s)
	}
	sign, master, meta := mk(), mk(), mk()
	rk := make([]byte, 32)
	r.Read(rk)
	readKey, _ := crypto.UnmarshallAESKey(rk)
	create := spacepayloads.SpaceCreatePayload{SigningKey: sign, SpaceType: "verif.space", ReplicationKey: uint64(r.Int63()), SpacePayload: []byte("payload"),
		MasterKey: master, ReadKey: readKey, MetadataKey: meta, Metadata: []byte("owner-meta")}
	p, err := spacepayloads.StoragePayloadForSpaceCreate(create)
	add("create-v0", p, err, sign)
	p, err = spacepayloads.StoragePayloadForSpaceCreateV1(create)
	add("create-v1", p, err, sign)
	sign2 := mk()
	derive := spacepayloads.SpaceDerivePayload{SigningKey: sign2, MasterKey: mk(), SpaceType: "verif.derived", SpacePayload: []byte("p")}
	p, err = spacepayloads.StoragePayloadForSpaceDerive(derive)
	add("derive-v0", p, err, sign2)
	p, err = spacepayloads.StoragePayloadForSpaceDeriveV1(derive)
	add("derive-v1", p, err, sign2)
	a, b := mk(), mk()
	p, err = spacepayloads.StoragePayloadForOneToOneSpace(a, b.GetPublic())
	if err == nil {
		// the one-to-one payload is signed by a derived shared key the harness does not hold: outer-layer mutants only
		add("one-to-one", p, err, nil)
	}
	return out
}

// resignedPayload rebuilds one inner layer of the payload from mutated bytes,
// signed by the space's own signing key (a hostile space creator) and
// re-addressed by CID, and returns the wire message.
func resignedPayload(r *rand.Rand, s payloadSeed, donor payloadSeed) (mutate.Mutant, bool) {
	if s.key == nil {
		return mutate.Mutant{}, false
	}
	p := s.payload
	layer := r.Intn(3)
	switch layer {
	case 0: // space header
		raw := &spacesyncproto.RawSpaceHeader{}
		if raw.UnmarshalVT(p.SpaceHeaderWithId.RawHeader) != nil {
			return mutate.Mutant{}, false
		}
		draw := &spacesyncproto.RawSpaceHeader{}
		_ = draw.UnmarshalVT(donor.payload.SpaceHeaderWithId.RawHeader)
		m := mutate.Any(r, raw.SpaceHeader, draw.SpaceHeader)
		sig, _ := s.key.Sign(m.Data)
		nb, _ := (&spacesyncproto.RawSpaceHeader{SpaceHeader: m.Data, Signature: sig}).MarshalVT()
		id, _ := cidutil.NewCidFromBytes(nb)
		h := &spacesyncproto.SpaceHeader{}
		repKey := uint64(0)
		if h.UnmarshalVT(m.Data) == nil {
			repKey = h.ReplicationKey
		}
		hdr := &spacesyncproto.RawSpaceHeaderWithId{RawHeader: nb, Id: id + "." + strconv.FormatUint(repKey, 36)}
		np := p
		np.SpaceHeaderWithId = hdr
		m.Data = spacePayloadOf(np)
		m.Class = "resigned-header:" + m.Class
		return m, true
	case 1: // acl root
		raw := &consensusproto.RawRecord{}
		if raw.UnmarshalVT(p.AclWithId.Payload) != nil {
			return mutate.Mutant{}, false
		}
		draw := &consensusproto.RawRecord{}
		_ = draw.UnmarshalVT(donor.payload.AclWithId.Payload)
		m := mutate.Any(r, raw.Payload, draw.Payload)
		sig, _ := s.key.Sign(m.Data)
		nb, _ := (&consensusproto.RawRecord{Payload: m.Data, Signature: sig}).MarshalVT()
		id, _ := cidutil.NewCidFromBytes(nb)
		np := p
		np.AclWithId = &consensusproto.RawRecordWithId{Payload: nb, Id: id}
		m.Data = spacePayloadOf(np)
		m.Class = "resigned-aclroot:" + m.Class
		return m, true
	default: // settings root
		raw := &treechangeproto.RawTreeChange{}
		if raw.UnmarshalVT(p.SpaceSettingsWithId.RawChange) != nil {
			return mutate.Mutant{}, false
		}
		draw := &treechangeproto.RawTreeChange{}
		_ = draw.UnmarshalVT(donor.payload.SpaceSettingsWithId.RawChange)
		m := mutate.Any(r, raw.Payload, draw.Payload)
		sig, _ := s.key.Sign(m.Data)
		nb, _ := (&treechangeproto.RawTreeChange{Payload: m.Data, Signature: sig}).MarshalVT()
		id, _ := cidutil.NewCidFromBytes(nb)
		np := p
		np.SpaceSettingsWithId = &treechangeproto.RawTreeChangeWithId{RawChange: nb, Id: id}
		m.Data = spacePayloadOf(np)
		m.Class = "resigned-settings:" + m.Class
		return m, true
	}
}

func runPayloads(c *lib.Case, g *guard, n int) {
	r := c.Rng
	seeds := buildPayloadSeeds(r)
	var wires [][]byte
	for _, s := range seeds {
		wires = append(wires, s.wire)
	}
	other, _, _ := crypto.GenerateEd25519Key(rngReader{r})
	for i := 0; i < n; i++ {
		s := seeds[r.Intn(len(seeds))]
		d := seeds[r.Intn(len(seeds))]
		var m mutate.Mutant
		x := r.Intn(100)
		switch {
		case x < 3:
			m = mutate.Mutant{Data: append([]byte(nil), s.wire...), Class: "valid"}
		case x < 10:
			m = mutate.Random(r, 2048)
		case x < 55:
			var ok bool
			if m, ok = resignedPayload(r, s, d); !ok {
				m = mutate.Any(r, s.wire, d.wire)
			}
		default:
			m = genInput(r, wires, false)
		}
		in := m.Data
		if i%3 == 2 {
			// the node-side header check (SpacePush): header alone, against the pushing identity
			ident := s.key
			if ident == nil || r.Intn(2) == 0 {
				ident = other
			}
			if !g.call("ValidateSpaceHeader", m, func() error {
				sp := &spacesyncproto.SpacePayload{}
				if err := sp.UnmarshalVT(in); err != nil {
					return err
				}
				var acl, settings []byte
				if r.Intn(2) == 0 {
					acl, settings = sp.AclPayload, sp.SpaceSettingsPayload
				}
				_, err := spacepayloads.ValidateSpaceHeader(sp.SpaceHeader, ident.GetPublic(), acl, settings)
				return err
			}) {
				return
			}
			continue
		}
		if !g.call("ValidateSpaceStorageCreatePayload", m, func() error { return validatePayloadBytes(in) }) {
			return
		}
	}
}
