package c11

import (
	"context"
	"encoding/binary"
	"fmt"
	"math/rand"

	"github.com/golang/snappy"
	"storj.io/drpc"

	"github.com/anyproto/any-sync/commonspace/object/tree/synctree/response"
	"github.com/anyproto/any-sync/commonspace/object/tree/treechangeproto"
	"github.com/anyproto/any-sync/commonspace/spacesyncproto"
	"github.com/anyproto/any-sync/commonspace/sync/objectsync/objectmessages"
	"github.com/anyproto/any-sync/net/rpc/encoding"

	"verifharness/engines/mutate"
	"verifharness/lib"
)

func init() {
	register(target{name: "snappy", per: 400, quick: 25, thorough: 2000, run: runSnappy})
}

// codecStream reaches the rpc layer's private codecs through the exported
// server-side wrapper: encoding.WrapHandler picks the snappy (or plain proto)
// encoding from the stream context and hands the inner handler a stream whose
// MsgRecv/MsgSend use it. The harness-owned stream below plays the transport:
// MsgRecv decodes the next inbound frame with the encoding it is given,
// exactly like drpcstream does.
type codecStream struct {
	ctx   context.Context
	frame []byte
	sent  []byte
}

func (s *codecStream) Context() context.Context { return s.ctx }
func (s *codecStream) MsgSend(msg drpc.Message, enc drpc.Encoding) (err error) {
	s.sent, err = enc.Marshal(msg)
	return
}
func (s *codecStream) MsgRecv(msg drpc.Message, enc drpc.Encoding) error {
	return enc.Unmarshal(s.frame, msg)
}
func (s *codecStream) CloseSend() error { return nil }
func (s *codecStream) Close() error     { return nil }

type codecHandler struct {
	do func(stream drpc.Stream) error
}

func (h *codecHandler) HandleRPC(stream drpc.Stream, rpc string) error { return h.do(stream) }

// codecUnmarshal decodes frame into msg through the wrapped handler.
func codecUnmarshal(snappy bool, frame []byte, msg drpc.Message) error {
	ctx := context.Background()
	if snappy {
		ctx = encoding.CtxWithSnappy(ctx)
	}
	st := &codecStream{ctx: ctx, frame: frame}
	h := encoding.WrapHandler(&codecHandler{do: func(stream drpc.Stream) error { return stream.MsgRecv(msg, nil) }})
	return h.HandleRPC(st, "verif")
}

func codecMarshal(snappy bool, msg drpc.Message) ([]byte, error) {
	ctx := context.Background()
	if snappy {
		ctx = encoding.CtxWithSnappy(ctx)
	}
	st := &codecStream{ctx: ctx}
	h := encoding.WrapHandler(&codecHandler{do: func(stream drpc.Stream) error { return stream.MsgSend(msg, nil) }})
	err := h.HandleRPC(st, "verif")
	return st.sent, err
}

func randId(r *rand.Rand, n int) string {
	const al = "abcdefghijklmnopqrstuvwxyz234567"
	b := make([]byte, n)
	for i := range b {
		b[i] = al[r.Intn(len(al))]
	}
	return string(b)
}

func sampleSyncMessages(r *rand.Rand) []drpc.Message {
	mkChange := func() *treechangeproto.RawTreeChangeWithId {
		b := make([]byte, 20+r.Intn(200))
		r.Read(b)
		return &treechangeproto.RawTreeChangeWithId{RawChange: b, Id: "bafyrei" + randId(r, 52)}
	}
	var chs []*treechangeproto.RawTreeChangeWithId
	for i := 0; i < 1+r.Intn(5); i++ {
		chs = append(chs, mkChange())
	}
	hu := treechangeproto.WrapHeadUpdate(&treechangeproto.TreeHeadUpdate{Heads: []string{chs[0].Id}, Changes: chs, SnapshotPath: []string{chs[0].Id}}, mkChange())
	huB, _ := hu.MarshalVT()
	fr := treechangeproto.WrapFullRequest(&treechangeproto.TreeFullSyncRequest{Heads: []string{chs[0].Id}, SnapshotPath: []string{chs[0].Id}}, nil)
	frB, _ := fr.MarshalVT()
	zeros := make([]byte, 3000) // compressible payload: a legitimate frame with high expansion
	return []drpc.Message{
		&spacesyncproto.ObjectSyncMessage{SpaceId: "space." + randId(r, 8), ObjectId: chs[0].Id, Payload: huB, ObjectType: spacesyncproto.ObjectType_Tree},
		&spacesyncproto.ObjectSyncMessage{SpaceId: "space." + randId(r, 8), ObjectId: chs[0].Id, Payload: frB, RequestId: randId(r, 10)},
		&spacesyncproto.ObjectSyncMessage{SpaceId: "s", ObjectId: "o", Payload: zeros},
		&spacesyncproto.HeadSyncRequest{SpaceId: "space." + randId(r, 8), DiffType: spacesyncproto.DiffType_V3,
			Ranges: []*spacesyncproto.HeadSyncRange{{From: 0, To: ^uint64(0), Limit: 16}, {From: 5, To: 500, Elements: true}}},
		&spacesyncproto.HeadSyncResponse{Results: []*spacesyncproto.HeadSyncResult{{Hash: []byte(randId(r, 32)), Count: 3,
			Elements: []*spacesyncproto.HeadSyncResultElement{{Id: chs[0].Id, Head: randId(r, 40)}}}}},
		&response.Response{SpaceId: "space." + randId(r, 8), ObjectId: chs[0].Id, Heads: []string{chs[0].Id}, Changes: chs, SnapshotPath: []string{chs[0].Id}, Root: mkChange()},
	}
}

// emptyLike returns a fresh receiver for the kind of message at index i of sampleSyncMessages.
func emptyLike(i int) drpc.Message {
	switch i {
	case 0:
		return &objectmessages.HeadUpdate{}
	case 1, 2:
		return &spacesyncproto.ObjectSyncMessage{}
	case 3:
		return &spacesyncproto.HeadSyncRequest{}
	case 4:
		return &spacesyncproto.HeadSyncResponse{}
	default:
		return &response.Response{}
	}
}

func runSnappy(c *lib.Case, g *guard, n int) {
	r := c.Rng
	msgs := sampleSyncMessages(r)
	var snappyCorpus, protoCorpus [][]byte
	for _, m := range msgs {
		b, err := codecMarshal(true, m)
		if err != nil {
			panic(fmt.Sprintf("snappy marshal of a valid message failed: %v", err))
		}
		snappyCorpus = append(snappyCorpus, b)
		p, err := codecMarshal(false, m)
		if err != nil {
			panic(err)
		}
		protoCorpus = append(protoCorpus, p)
	}
	// Probe (one fixed input per case): a 6-byte frame declaring 12 MiB of
	// decoded data. When the codec sizes its buffer from the declared length
	// (F-C11-2) the monitor fires here, and the rest of the case skips frames
	// declaring more than hugeDeclared: executing them costs up to 4 GiB of
	// zeroed memory per call in each of 16 workers and, on a loaded machine,
	// turns the same defect into watchdog hits. With a bounded codec they all run.
	probe := mutate.Mutant{Data: append(binary.AppendUvarint(nil, 12<<20), 0x00, 0x61), Class: "snappy.tiny-frame"}
	before := g.allocViolations
	g.call("snappy.Unmarshal", probe, func() error { return codecUnmarshal(true, probe.Data, &spacesyncproto.ObjectSyncMessage{}) })
	unbounded := g.allocViolations > before
	if unbounded {
		c.Count("snappy.probe_unbounded_alloc", 1)
	}
	const hugeDeclared = 16 << 20
	for i := 0; i < n; i++ {
		k := r.Intn(len(msgs))
		useSnappy := i%4 != 3
		corpus := protoCorpus
		sub := "proto.Unmarshal"
		if useSnappy {
			corpus = snappyCorpus
			sub = "snappy.Unmarshal"
		}
		var m mutate.Mutant
		x := r.Intn(100)
		switch {
		case x < 4:
			m = mutate.Mutant{Data: append([]byte(nil), corpus[k]...), Class: "valid"}
		case x < 14:
			m = mutate.Random(r, 4096)
		case useSnappy && x < 34:
			// snappy block header = uvarint(decoded length): rewrite only the declared length
			_, hl := binary.Uvarint(corpus[k])
			if hl <= 0 {
				hl = 0
			}
			decl := []uint64{0, 1, 1 << 16, 1 << 20, 9 << 20, 64 << 20, 1 << 28, 1 << 30, 1<<32 - 1, uint64(r.Int63n(1 << 32))}[r.Intn(10)]
			b := binary.AppendUvarint(nil, decl)
			b = append(b, corpus[k][hl:]...)
			m = mutate.Mutant{Data: b, Class: "snappy.declared-len"}
		case useSnappy && x < 44:
			// tiny frame: declared length + a few element bytes
			decl := uint64(1) << uint(10+r.Intn(22))
			b := binary.AppendUvarint(nil, decl)
			tail := make([]byte, r.Intn(6))
			r.Read(tail)
			m = mutate.Mutant{Data: append(b, tail...), Class: "snappy.tiny-frame"}
		case useSnappy && x < 60:
			m = mutate.Bytes(r, corpus[k], corpus[r.Intn(len(corpus))])
		default:
			// mutate the protobuf, then (for snappy) compress it like a hostile sender would
			pm := mutate.Any(r, protoCorpus[k], protoCorpus[r.Intn(len(protoCorpus))])
			if useSnappy {
				pm.Data = snappy.Encode(nil, pm.Data)
				pm.Class = "compressed:" + pm.Class
			}
			m = pm
		}
		in := m.Data
		if useSnappy && unbounded {
			if decl, hl := binary.Uvarint(in); hl > 0 && decl > hugeDeclared {
				c.Count("snappy.skipped_declaring_over_16MiB", 1)
				continue
			}
		}
		recv := emptyLike(k)
		if !g.call(sub, m, func() error { return codecUnmarshal(useSnappy, in, recv) }) {
			return
		}
	}
}
