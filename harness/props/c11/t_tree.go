package c11

import (
	"context"
	"errors"
	"fmt"
	"math/rand"
	"os"
	"path/filepath"

	anystore "github.com/anyproto/any-store"
	"google.golang.org/protobuf/proto"
	"storj.io/drpc"

	"github.com/anyproto/any-sync/commonspace/object/accountdata"
	"github.com/anyproto/any-sync/commonspace/object/acl/list"
	"github.com/anyproto/any-sync/commonspace/object/acl/recordverifier"
	"github.com/anyproto/any-sync/commonspace/object/tree/objecttree"
	"github.com/anyproto/any-sync/commonspace/object/tree/synctree"
	"github.com/anyproto/any-sync/commonspace/object/tree/synctree/response"
	"github.com/anyproto/any-sync/commonspace/object/tree/treechangeproto"
	"github.com/anyproto/any-sync/commonspace/object/tree/treestorage"
	"github.com/anyproto/any-sync/commonspace/spacepayloads"
	"github.com/anyproto/any-sync/commonspace/spacestorage"
	"github.com/anyproto/any-sync/commonspace/spacesyncproto"
	"github.com/anyproto/any-sync/commonspace/sync/objectsync/objectmessages"
	"github.com/anyproto/any-sync/commonspace/sync/syncdeps"
	"github.com/anyproto/any-sync/commonspace/syncstatus"
	"github.com/anyproto/any-sync/consensus/consensusproto"
	"github.com/anyproto/any-sync/net/peer"
	"github.com/anyproto/any-sync/util/cidutil"
	"github.com/anyproto/any-sync/util/crypto"

	"verifharness/engines/mutate"
	"verifharness/lib"
)

func init() {
	register(target{heavy: true, name: "tree.addraw", per: 120, quick: 24, thorough: 1500, run: func(c *lib.Case, g *guard, n int) { runTree(c, g, n, "addraw") }})
	register(target{heavy: true, name: "synctree.handlers", per: 120, quick: 24, thorough: 1500, run: func(c *lib.Case, g *guard, n int) { runTree(c, g, n, "handlers") }})
	register(target{heavy: true, name: "synctree.join", per: 80, quick: 16, thorough: 600, run: func(c *lib.Case, g *guard, n int) { runTree(c, g, n, "join") }})
}

var bg = context.Background()

type rawCh = treechangeproto.RawTreeChangeWithId

// spaceFx is one space (payload, ACL records, tree root) shared by the replicas of a case.
type spaceFx struct {
	r                               *rand.Rand
	dir                             string
	payload                         spacestorage.SpaceStorageCreatePayload
	spaceId                         string
	owner, writer, reader, outsider *accountdata.AccountKeys
	aclRecs                         []*consensusproto.RawRecordWithId
	root                            *rawCh
	encrypted                       bool
	nrep                            int
	clock                           int64
}

type replica struct {
	fx     *spaceFx
	keys   *accountdata.AccountKeys
	db     anystore.DB
	space  spacestorage.SpaceStorage
	acl    list.AclList
	tree   synctree.SyncTree
	client *stubClient
}

// stubClient is the harness-owned SyncClient: outbound traffic is counted and
// dropped; a new-tree request is answered by the scripted hostile responder.
type stubClient struct {
	synctree.RequestFactory
	broadcasts, queued int
	responder          func(ctx context.Context, req syncdeps.Request, collector syncdeps.ResponseCollector) error
}

func (s *stubClient) Broadcast(ctx context.Context, hu *objectmessages.HeadUpdate) error {
	s.broadcasts++
	return nil
}
func (s *stubClient) QueueRequest(ctx context.Context, req syncdeps.Request) error {
	s.queued++
	return nil
}
func (s *stubClient) SendTreeRequest(ctx context.Context, req syncdeps.Request, collector syncdeps.ResponseCollector) error {
	if s.responder == nil {
		return errors.New("no peer")
	}
	return s.responder(ctx, req, collector)
}

func (r *replica) UpdateHeads(id string, heads []string)    {}
func (r *replica) Update(tree objecttree.ObjectTree) error  { return nil }
func (r *replica) Rebuild(tree objecttree.ObjectTree) error { return nil }
func (r *replica) GetResponsiblePeers(ctx context.Context) ([]peer.Peer, error) {
	return nil, errors.New("no responsible peers in the harness")
}

func (r *replica) deps() synctree.BuildDeps {
	return synctree.BuildDeps{SpaceId: r.fx.spaceId, SyncClient: r.client, HeadNotifiable: r, Listener: r, AclList: r.acl, SpaceStorage: r.space,
		OnClose: func(id string) {}, SyncStatus: syncstatus.NewNoOpSyncStatus(), PeerGetter: r, BuildObjectTree: objecttree.BuildObjectTree}
}

func (r *replica) close() {
	if r.tree != nil {
		_ = r.tree.Close()
	}
	if r.db != nil {
		_ = r.db.Close()
	}
}

func newSpaceFx(c *lib.Case) *spaceFx {
	r := c.Rng
	fx := &spaceFx{r: r, dir: c.TmpDir, owner: newKeys(r), writer: newKeys(r), reader: newKeys(r), outsider: newKeys(r), encrypted: r.Intn(2) == 0}
	mk := func() crypto.PrivKey { k, _, _ := crypto.GenerateEd25519Key(rngReader{r}); return k }
	rk := make([]byte, 32)
	r.Read(rk)
	readKey, _ := crypto.UnmarshallAESKey(rk)
	p, err := spacepayloads.StoragePayloadForSpaceCreate(spacepayloads.SpaceCreatePayload{SigningKey: fx.owner.SignKey, SpaceType: "verif.space", ReplicationKey: 10,
		SpacePayload: []byte("payload"), MasterKey: mk(), ReadKey: readKey, MetadataKey: mk(), Metadata: []byte("owner-meta")})
	if err != nil {
		panic(err)
	}
	fx.payload, fx.spaceId = p, p.SpaceHeaderWithId.Id
	// the owner's first replica builds the ACL record and the tree root
	o := fx.open(fx.owner)
	o.acl.Lock()
	rec, err := o.acl.RecordBuilder().BuildAccountsAdd(list.AccountsAddPayload{Additions: []list.AccountAdd{
		{Identity: fx.writer.SignKey.GetPublic(), Permissions: list.AclPermissionsWriter, Metadata: []byte("w")},
		{Identity: fx.reader.SignKey.GetPublic(), Permissions: list.AclPermissionsReader, Metadata: []byte("r")}}})
	if err != nil {
		panic(err)
	}
	raw, _ := rec.MarshalVT()
	id, _ := cidutil.NewCidFromBytes(raw)
	rw := &consensusproto.RawRecordWithId{Payload: raw, Id: id}
	if err := o.acl.AddRawRecord(rw); err != nil {
		panic(err)
	}
	o.acl.Unlock()
	fx.aclRecs = append(fx.aclRecs, rw)
	fx.root, err = objecttree.CreateObjectTreeRoot(objecttree.ObjectTreeCreatePayload{PrivKey: fx.owner.SignKey, ChangeType: "verif.tree", ChangePayload: []byte("root"),
		SpaceId: fx.spaceId, IsEncrypted: fx.encrypted, Seed: []byte(randId(r, 12)), Timestamp: 1700000000}, o.acl)
	if err != nil {
		panic(err)
	}
	o.close()
	return fx
}

// open creates a fresh replica database of the space for the given account.
func (fx *spaceFx) open(keys *accountdata.AccountKeys) *replica {
	fx.nrep++
	dir := filepath.Join(fx.dir, fmt.Sprintf("rep%d", fx.nrep))
	os.MkdirAll(dir, 0o755)
	db, err := anystore.Open(bg, filepath.Join(dir, "space.db"), &anystore.Config{SQLiteConnectionOptions: map[string]string{"synchronous": "off"}})
	if err != nil {
		panic(err)
	}
	rp := &replica{fx: fx, keys: keys, db: db}
	rp.space, err = spacestorage.Create(bg, db, fx.payload)
	if err != nil {
		panic(err)
	}
	aclSt, err := rp.space.AclStorage()
	if err != nil {
		panic(err)
	}
	rp.acl, err = list.BuildAclListWithIdentity(keys, aclSt, recordverifier.NewValidateFull())
	if err != nil {
		panic(err)
	}
	for _, rec := range fx.aclRecs {
		if err := rp.acl.AddRawRecord(rec); err != nil {
			panic(err)
		}
	}
	rp.client = &stubClient{RequestFactory: synctree.NewRequestFactory(fx.spaceId)}
	return rp
}

func (r *replica) putTree() {
	t, err := synctree.PutSyncTree(bg, treestorage.TreeStorageCreatePayload{RootRawChange: r.fx.root, Changes: []*rawCh{r.fx.root}, Heads: []string{r.fx.root.Id}}, r.deps())
	if err != nil {
		panic(err)
	}
	r.tree = t
}

// add performs a local edit by the given account and returns the new raw change.
func (r *replica) add(author *accountdata.AccountKeys, snapshot bool, size int) *rawCh {
	fx := r.fx
	fx.clock++
	data := make([]byte, size)
	fx.r.Read(data)
	r.tree.Lock()
	defer r.tree.Unlock()
	res, err := r.tree.AddContent(bg, objecttree.SignableChangeContent{Data: data, Key: author.SignKey, IsSnapshot: snapshot, ShouldBeEncrypted: fx.encrypted,
		Timestamp: 1700000000 + fx.clock, DataType: "verif"})
	if err != nil {
		panic("valid local edit refused: " + err.Error())
	}
	return &rawCh{RawChange: res.Added[0].RawChange, Id: res.Added[0].Id}
}

func (r *replica) addRaw(chs []*rawCh, heads []string) error {
	r.tree.Lock()
	defer r.tree.Unlock()
	_, err := r.tree.AddRawChanges(bg, objecttree.RawChangesPayload{NewHeads: heads, RawChanges: chs})
	return err
}

// treeWorld: a victim replica holding `known` changes and a set of valid
// changes it has not seen yet (built on a donor replica by legitimate authors).
type treeWorld struct {
	fx      *spaceFx
	victim  *replica
	donor   *replica
	known   []*rawCh // on the victim (without the root)
	fresh   []*rawCh // valid, unseen by the victim, parents first
	authors map[string]*accountdata.AccountKeys
	snaps   []string
	aclIds  []string
}

func newTreeWorld(c *lib.Case, victimHasTree bool) *treeWorld {
	fx := newSpaceFx(c)
	r := fx.r
	w := &treeWorld{fx: fx, authors: map[string]*accountdata.AccountKeys{}}
	w.donor = fx.open(fx.writer)
	w.donor.putTree()
	w.victim = fx.open(fx.owner)
	if victimHasTree {
		w.victim.putTree()
	}
	pick := func() *accountdata.AccountKeys {
		if r.Intn(2) == 0 {
			return fx.owner
		}
		return fx.writer
	}
	nKnown := 3 + r.Intn(8)
	for i := 0; i < nKnown; i++ {
		a := pick()
		snap := i > 0 && r.Intn(5) == 0
		ch := w.donor.add(a, snap, r.Intn(120))
		w.authors[ch.Id] = a
		if snap {
			w.snaps = append(w.snaps, ch.Id)
		}
		w.known = append(w.known, ch)
	}
	if victimHasTree {
		if err := w.victim.addRaw(w.known, w.donor.tree.Heads()); err != nil {
			panic("victim refused valid changes: " + err.Error())
		}
	}
	nFresh := 3 + r.Intn(6)
	for i := 0; i < nFresh; i++ {
		a := pick()
		snap := r.Intn(6) == 0
		ch := w.donor.add(a, snap, r.Intn(120))
		w.authors[ch.Id] = a
		if snap {
			w.snaps = append(w.snaps, ch.Id)
		}
		w.fresh = append(w.fresh, ch)
	}
	w.aclIds = []string{fx.payload.AclWithId.Id, fx.aclRecs[0].Id}
	return w
}

func (w *treeWorld) close() {
	w.victim.close()
	w.donor.close()
}

func treeChangeOf(ch *rawCh) (payload []byte, ok bool) {
	raw := &treechangeproto.RawTreeChange{}
	if raw.UnmarshalVT(ch.RawChange) != nil {
		return nil, false
	}
	return raw.Payload, true
}

// signChange wraps TreeChange bytes into a raw change signed by author and addressed by CID.
func signChange(author *accountdata.AccountKeys, payload []byte) *rawCh {
	sig, _ := author.SignKey.Sign(payload)
	b, _ := (&treechangeproto.RawTreeChange{Payload: payload, Signature: sig}).MarshalVT()
	id, _ := cidutil.NewCidFromBytes(b)
	return &rawCh{RawChange: b, Id: id}
}

func (w *treeWorld) someId() string {
	r := w.fx.r
	all := append(append([]*rawCh{}, w.known...), w.fresh...)
	switch r.Intn(8) {
	case 0:
		return w.fx.root.Id
	case 1:
		return "bafyrei" + randId(r, 52) // unknown
	case 2:
		return ""
	case 3:
		if len(w.snaps) > 0 {
			return w.snaps[r.Intn(len(w.snaps))]
		}
	}
	return all[r.Intn(len(all))].Id
}

// forgedChange hand-assembles a TreeChange with hostile graph references,
// correctly signed by a legitimate account.
func (w *treeWorld) forgedChange() (*rawCh, string) {
	r, fx := w.fx.r, w.fx
	author := []*accountdata.AccountKeys{fx.writer, fx.writer, fx.owner, fx.reader, fx.outsider}[r.Intn(5)]
	ident, _ := author.SignKey.GetPublic().Marshall()
	tc := &treechangeproto.TreeChange{AclHeadId: w.aclIds[r.Intn(len(w.aclIds))], SnapshotBaseId: w.someId(), Timestamp: 1700000000 + int64(r.Intn(1000)),
		Identity: ident, IsSnapshot: r.Intn(4) == 0, DataType: "verif"}
	kind := []string{"dangling-parent", "duplicate-parents", "many-parents", "no-parents", "root-parent", "snapshot-games"}[r.Intn(6)]
	switch kind {
	case "dangling-parent":
		tc.TreeHeadIds = []string{"bafyrei" + randId(r, 52), w.someId()}
	case "duplicate-parents":
		id := w.someId()
		tc.TreeHeadIds = []string{id, id, id}
	case "many-parents":
		for i := 0; i < 2+r.Intn(40); i++ {
			tc.TreeHeadIds = append(tc.TreeHeadIds, w.someId())
		}
	case "no-parents":
	case "root-parent":
		tc.TreeHeadIds = []string{fx.root.Id}
	case "snapshot-games":
		tc.TreeHeadIds = []string{w.someId()}
		tc.IsSnapshot = true
		tc.SnapshotBaseId = w.someId()
	}
	switch r.Intn(4) {
	case 0:
		tc.AclHeadId = "bafyrei" + randId(r, 52)
	case 1:
		tc.ReadKeyId = w.someId()
	case 2:
		tc.ReadKeyId = w.aclIds[r.Intn(len(w.aclIds))]
	}
	tc.ChangesData = make([]byte, mutate.ShortLens[r.Intn(len(mutate.ShortLens))])
	r.Read(tc.ChangesData)
	b, _ := tc.MarshalVT()
	return signChange(author, b), "forged:" + kind
}

// hostileBatch produces a list of raw changes + heads + snapshot path and the label of what was done.
func (w *treeWorld) hostileBatch() (chs []*rawCh, heads, path []string, label string) {
	r := w.fx.r
	donorHeads := w.donor.tree.Heads()
	valid := func() []*rawCh { return append([]*rawCh{}, w.fresh[:1+r.Intn(len(w.fresh))]...) }
	x := r.Intn(100)
	switch {
	case x < 4:
		return append([]*rawCh{}, w.fresh...), donorHeads, nil, "valid"
	case x < 40:
		// one change re-built from mutated TreeChange bytes, signed by its own author
		chs = valid()
		k := r.Intn(len(chs))
		seed := chs[k]
		p, _ := treeChangeOf(seed)
		dp, _ := treeChangeOf(w.fresh[r.Intn(len(w.fresh))])
		m := mutate.Any(r, p, dp)
		author := w.authors[seed.Id]
		if r.Intn(8) == 0 {
			author = []*accountdata.AccountKeys{w.fx.reader, w.fx.outsider}[r.Intn(2)]
			m.Class += "+author"
		}
		forged := signChange(author, m.Data)
		chs[k] = forged
		heads = []string{forged.Id}
		if r.Intn(2) == 0 {
			heads = donorHeads
		}
		return chs, heads, nil, "resigned:" + m.Class
	case x < 65:
		chs = valid()
		f, kind := w.forgedChange()
		pos := r.Intn(len(chs) + 1)
		chs = append(chs[:pos:pos], append([]*rawCh{f}, chs[pos:]...)...)
		heads = []string{f.Id}
		if r.Intn(3) == 0 {
			heads = append(heads, w.someId(), w.someId())
		}
		if r.Intn(3) == 0 {
			path = []string{w.someId(), w.someId()}
		}
		return chs, heads, path, kind
	case x < 80:
		// valid changes, hostile envelope: wrong / missing / duplicated heads, shuffled or partial batch, id swaps
		chs = valid()
		switch r.Intn(5) {
		case 0:
			r.Shuffle(len(chs), func(i, j int) { chs[i], chs[j] = chs[j], chs[i] })
			label = "envelope:shuffled"
		case 1:
			chs = chs[len(chs)/2:]
			label = "envelope:missing-ancestors"
		case 2:
			chs = append(chs, chs...)
			label = "envelope:duplicated"
		case 3:
			if len(chs) > 1 {
				chs[0] = &rawCh{RawChange: chs[0].RawChange, Id: chs[1].Id}
			}
			label = "envelope:id-swap"
		default:
			chs = append(chs, &rawCh{Id: w.someId()}, &rawCh{RawChange: []byte{}, Id: w.someId()}, w.fx.root)
			label = "envelope:empty-or-root-entries"
		}
		heads = []string{w.someId(), w.someId()}
		path = []string{w.someId()}
		return chs, heads, path, label
	default:
		// raw bytes of one change mutated without re-signing, CID recomputed or not
		chs = valid()
		k := r.Intn(len(chs))
		m := mutate.Any(r, chs[k].RawChange, w.fresh[r.Intn(len(w.fresh))].RawChange)
		id := chs[k].Id
		if r.Intn(2) == 0 {
			id, _ = cidutil.NewCidFromBytes(m.Data)
		}
		chs[k] = &rawCh{RawChange: m.Data, Id: id}
		return chs, []string{id}, nil, "raw:" + m.Class
	}
}

func syncMessage(fx *spaceFx, objectId string, tm *treechangeproto.TreeSyncMessage) []byte {
	p, _ := tm.MarshalVT()
	b, _ := (&spacesyncproto.ObjectSyncMessage{SpaceId: fx.spaceId, ObjectId: objectId, Payload: p, ObjectType: spacesyncproto.ObjectType_Tree}).MarshalVT()
	return b
}

// outerMutant mutates the wire message itself (ObjectSyncMessage / its TreeSyncMessage payload).
func outerMutant(r *rand.Rand, wire []byte, donor []byte, label string) mutate.Mutant {
	switch r.Intn(10) {
	case 0:
		return mutate.Random(r, 4096)
	case 1, 2, 3:
		m := mutate.Any(r, wire, donor)
		m.Class = "wire:" + m.Class
		return m
	case 4, 5:
		osm := &spacesyncproto.ObjectSyncMessage{}
		if osm.UnmarshalVT(wire) == nil {
			d := &spacesyncproto.ObjectSyncMessage{}
			_ = d.UnmarshalVT(donor)
			m := mutate.Any(r, osm.Payload, d.Payload)
			osm.Payload = m.Data
			b, _ := osm.MarshalVT()
			return mutate.Mutant{Data: b, Class: "payload:" + m.Class, Path: m.Path}
		}
	}
	return mutate.Mutant{Data: wire, Class: label}
}

type noopUpdater struct{}

func (noopUpdater) UpdateQueueSize(size uint64, msgType int, add bool) {}

func exerciseTree(t objecttree.ObjectTree) error {
	t.Lock()
	defer t.Unlock()
	n := 0
	err := t.IterateRoot(func(change *objecttree.Change, decrypted []byte) (any, error) { return decrypted, nil }, func(change *objecttree.Change) bool {
		n++
		return n < 10000
	})
	_, _ = t.SnapshotPath()
	_ = t.Heads()
	return err
}

func runTree(c *lib.Case, g *guard, n int, mode string) {
	w := newTreeWorld(c, mode != "join")
	defer func() { w.close() }()
	r := w.fx.r
	fx := w.fx
	treeId := fx.root.Id
	ctx := peer.CtxWithPeerId(bg, "hostile-peer")
	// legitimate cost of one call depends on the size of the victim's tree (rebuild from storage, full responses)
	stateCost := func() uint64 { return uint64(64<<10) * uint64(len(w.known)+len(w.fresh)+8) }
	var lastWire []byte
	for i := 0; i < n; i++ {
		chs, heads, path, label := w.hostileBatch()
		headsBefore := fmt.Sprint(w.victim.treeHeads())
		switch mode {
		case "addraw":
			b, _ := (&treechangeproto.TreeHeadUpdate{Heads: heads, Changes: chs, SnapshotPath: path}).MarshalVT()
			m := mutate.Mutant{Data: b, Class: label}
			if r.Intn(6) == 0 {
				m = mutate.Any(r, b, lastWire)
				m.Class = "wire:" + m.Class
			}
			lastWire = b
			in := m.Data
			g.allocExtra = stateCost()
			if !g.call("AddRawChanges", m, func() error {
				hu := &treechangeproto.TreeHeadUpdate{}
				if err := hu.UnmarshalVT(in); err != nil {
					return err
				}
				return w.victim.addRawPayload(objecttree.RawChangesPayload{NewHeads: hu.Heads, RawChanges: hu.Changes, SnapshotPath: hu.SnapshotPath})
			}) {
				return
			}
		case "handlers":
			switch i % 3 {
			case 0:
				wire := syncMessage(fx, treeId, treechangeproto.WrapHeadUpdate(&treechangeproto.TreeHeadUpdate{Heads: heads, Changes: chs, SnapshotPath: path}, fx.root))
				m := outerMutant(r, wire, lastWire, label)
				lastWire = wire
				in := m.Data
				g.allocExtra = stateCost()
				if !g.call("HandleHeadUpdate", m, func() error {
					osm := &spacesyncproto.ObjectSyncMessage{}
					if err := osm.UnmarshalVT(in); err != nil {
						return err
					}
					hu := &objectmessages.HeadUpdate{}
					if err := hu.SetProtoMessage(osm); err != nil {
						return err
					}
					_, err := w.victim.tree.HandleHeadUpdate(ctx, syncstatus.NewNoOpSyncStatus(), drpc.Message(hu))
					return err
				}) {
					return
				}
			case 1:
				req := &treechangeproto.TreeFullSyncRequest{Heads: heads, SnapshotPath: path, Probe: r.Intn(8) == 0}
				if r.Intn(3) == 0 {
					req.Changes = chs
				}
				if r.Intn(4) == 0 {
					req.Heads = nil
				}
				wire := syncMessage(fx, treeId, treechangeproto.WrapFullRequest(req, fx.root))
				m := outerMutant(r, wire, lastWire, "request:"+label)
				lastWire = wire
				in := m.Data
				g.allocExtra = 4 * stateCost()
				if !g.call("HandleStreamRequest", m, func() error {
					osm := &spacesyncproto.ObjectSyncMessage{}
					if err := osm.UnmarshalVT(in); err != nil {
						return err
					}
					rq := objectmessages.NewByteRequest("hostile-peer", osm.SpaceId, osm.ObjectId, osm.Payload)
					_, err := w.victim.tree.HandleStreamRequest(ctx, rq, noopUpdater{}, func(resp proto.Message) error {
						_, merr := resp.(*spacesyncproto.ObjectSyncMessage).MarshalVT()
						return merr
					})
					return err
				}) {
					return
				}
			default:
				wire := syncMessage(fx, treeId, treechangeproto.WrapFullResponse(&treechangeproto.TreeFullSyncResponse{Heads: heads, Changes: chs, SnapshotPath: path}, fx.root))
				m := outerMutant(r, wire, lastWire, "response:"+label)
				lastWire = wire
				in := m.Data
				g.allocExtra = stateCost()
				if !g.call("HandleResponse", m, func() error {
					osm := &spacesyncproto.ObjectSyncMessage{}
					if err := osm.UnmarshalVT(in); err != nil {
						return err
					}
					col := w.victim.tree.ResponseCollector()
					resp := col.NewResponse().(*response.Response)
					if err := resp.SetProtoMessage(osm); err != nil {
						return err
					}
					return col.CollectResponse(ctx, "hostile-peer", treeId, resp)
				}) {
					return
				}
			}
		case "join":
			// the victim has no local copy and fetches the tree from the hostile peer: every
			// batch of the response stream is a wire message decoded like the request manager does
			var batches [][]byte
			all := append(append([]*rawCh{}, w.known...), w.fresh...)
			root := fx.root
			switch r.Intn(6) {
			case 0:
				root = nil
			case 1:
				root = chs[0]
			}
			nb := 1 + r.Intn(3)
			for b := 0; b < nb; b++ {
				part := chs
				if b == 0 && r.Intn(2) == 0 {
					part = append(append([]*rawCh{}, all[:r.Intn(len(all)+1)]...), chs...)
				}
				wire := syncMessage(fx, treeId, treechangeproto.WrapFullResponse(&treechangeproto.TreeFullSyncResponse{Heads: heads, Changes: part, SnapshotPath: path}, root))
				m := outerMutant(r, wire, lastWire, "response:"+label)
				lastWire = wire
				batches = append(batches, m.Data)
				label = m.Class
			}
			if r.Intn(12) == 0 {
				// the genuine full tree (must be accepted)
				wire := syncMessage(fx, treeId, treechangeproto.WrapFullResponse(&treechangeproto.TreeFullSyncResponse{Heads: w.donor.tree.Heads(), Changes: all}, fx.root))
				batches, label = [][]byte{wire}, "valid-full-tree"
			}
			var joined []byte
			for _, b := range batches {
				joined = append(joined, b...)
			}
			m := mutate.Mutant{Data: joined, Class: label}
			w.victim.client.responder = func(ctx context.Context, req syncdeps.Request, collector syncdeps.ResponseCollector) error {
				for _, b := range batches {
					osm := &spacesyncproto.ObjectSyncMessage{}
					if err := osm.UnmarshalVT(b); err != nil {
						return err
					}
					resp := collector.NewResponse().(*response.Response)
					if err := resp.SetProtoMessage(osm); err != nil {
						return err
					}
					if err := collector.CollectResponse(ctx, req.PeerId(), req.ObjectId(), resp); err != nil {
						return err
					}
				}
				return nil
			}
			g.allocExtra = 4 * stateCost()
			var built synctree.SyncTree
			if !g.call("BuildSyncTreeOrGetRemote", m, func() error {
				t, err := synctree.BuildSyncTreeOrGetRemote(ctx, treeId, w.victim.deps())
				built = t
				return err
			}) {
				return
			}
			if built != nil {
				// the victim now holds a tree built from the hostile stream: read it back, then start over with a fresh victim
				am := m
				am.Class = "accepted:" + m.Class
				if !g.call("iterate-after-join", am, func() error { return exerciseTree(built) }) {
					return
				}
				_ = built.Close()
				w.victim.close()
				w.victim = fx.open(fx.owner)
				c.Count(g.target+".joined", 1)
			}
			continue
		}
		if fmt.Sprint(w.victim.treeHeads()) != headsBefore {
			c.Count(g.target+".state_advanced", 1)
			am := mutate.Mutant{Data: nil, Class: "accepted:" + label}
			g.allocExtra = stateCost()
			if !g.call("iterate-after-accept", am, func() error { return exerciseTree(w.victim.tree) }) {
				return
			}
		}
	}
}

func (r *replica) treeHeads() []string {
	if r.tree == nil {
		return nil
	}
	r.tree.Lock()
	defer r.tree.Unlock()
	return append([]string{}, r.tree.Heads()...)
}

func (r *replica) addRawPayload(p objecttree.RawChangesPayload) error {
	r.tree.Lock()
	defer r.tree.Unlock()
	_, err := r.tree.AddRawChanges(bg, p)
	return err
}
