package c07

import (
	"bytes"
	"context"
	"fmt"
	"os"
	"os/exec"
	"runtime/debug"
	"strconv"
	"strings"
	"time"

	"github.com/anyproto/any-sync/app/ldiff"

	"verifharness/engines/ldiffkit"
	"verifharness/lib"
)

// The "degenerate" workload leaves the stated assumption "ids are at least
// 2^12 apart in the hash space": ids with identical or adjacent xxhash64
// values (constructed, xxhash64 is not collision resistant). The expected
// failure mode is a fatal stack overflow, which cannot be recovered in
// process, so every case runs in a child process of its own (this binary,
// single-case mode) and the parent judges the child's output.

type degCase struct {
	class   string
	df, thr int
	gap     uint64 // distance between consecutive hashes (0 = identical)
	n       int    // number of ids
	base    uint64
}

func degCases(tier string) []degCase {
	cs := []degCase{
		{"colliding-hashes-above-threshold", 2, 1, 0, 2, 0x1234567890abcdef},
		{"colliding-hashes-above-threshold", 16, 1, 0, 2, 0x8234567890abcdef},
		{"colliding-hashes-above-threshold", 32, 3, 0, 4, 0xf234567890abcde0},
		{"colliding-hashes-above-threshold", 32, 256, 0, 257, 0x0234567890abcde1},
		{"colliding-hashes-at-threshold", 32, 256, 0, 256, 0x0234567890abcde1},
		{"adjacent-hashes-power-of-two-factor", 2, 1, 1, 2, 0x1234567890abcdee},
		{"adjacent-hashes-power-of-two-factor", 16, 1, 1, 3, 0x1234567890abcdee},
		{"adjacent-hashes-odd-factor", 3, 1, 1, 2, 0x1234567890abcdef},
		{"adjacent-hashes-odd-factor", 5, 2, 1, 3, 0x7234567890abcdef},
		{"adjacent-hashes-odd-factor", 7, 1, 2, 2, 0xa234567890abcdef},
		{"hashes-closer-than-factor", 32, 1, 3, 2, 0x5234567890abcde0},
		{"hashes-closer-than-factor", 64, 2, 5, 3, 0x5234567890abcdc0},
	}
	if tier != "thorough" {
		return cs
	}
	for _, df := range []int{2, 3, 4, 5, 7, 8, 16, 32, 64} {
		for _, thr := range []int{1, 2, 4} {
			cs = append(cs, degCase{"colliding-hashes-above-threshold", df, thr, 0, thr + 1, 0x3333567890abcdef ^ uint64(df)<<40})
			cs = append(cs, degCase{"adjacent-hashes", df, thr, 1, thr + 1, 0x4444567890abcdef ^ uint64(df)<<40})
		}
	}
	return cs
}

const degEnv = "VERIF_C07_DEGENERATE_CHILD"

func runDegenerate(c *lib.Case, r *reporter) {
	dc := degCases(c.Tier)[c.Index]
	if os.Getenv(degEnv) == "1" {
		degChild(dc)
		return
	}
	c.Eval(1)
	c.Nontrivial(fmt.Sprintf("%s/%d/%d/%d", dc.class, dc.df, dc.thr, c.Index))
	self, err := os.Executable()
	if err != nil {
		c.Inconclusive("cannot find own executable: " + err.Error())
		return
	}
	ctx, cancel := context.WithTimeout(context.Background(), 300*time.Second)
	defer cancel()
	cmd := exec.CommandContext(ctx, self, "-tier", c.Tier, "-w", "degenerate", "-case", strconv.Itoa(c.Index))
	cmd.Env = append(os.Environ(), degEnv+"=1", "GOTRACEBACK=single")
	var out bytes.Buffer
	cmd.Stdout, cmd.Stderr = &out, &out
	_ = cmd.Run()
	s := out.String()
	stage := "set"
	if strings.Contains(s, "DEG-STAGE set-done") {
		stage = "diff"
	}
	input := map[string]any{"class": dc.class, "divide_factor": dc.df, "threshold": dc.thr, "ids": dc.n, "hash_distance": dc.gap,
		"first_hash": fmt.Sprintf("%016x", dc.base), "stage": stage}
	c.Count("degenerate."+dc.class, 1)
	tailOut := s
	if len(tailOut) > 1500 {
		tailOut = tailOut[:1500]
	}
	switch {
	case strings.Contains(s, "DEG-RESULT ok"):
		c.Count("degenerate.handled_correctly", 1)
	case strings.Contains(s, "fatal error: stack overflow"):
		r.violation("degenerate:stack-overflow-in-"+stage+":"+dc.class, "unbounded recursion (fatal stack overflow, not recoverable) on ids with identical/adjacent xxhash64 values",
			map[string]any{"input": input, "child_output": tailOut})
	case ctx.Err() != nil:
		// wall-clock only: not a verdict
		c.Inconclusive(fmt.Sprintf("degenerate child did not finish within 300 s (stage %s): %v", stage, input))
	case strings.Contains(s, "DEG-RESULT "):
		i := strings.Index(s, "DEG-RESULT ")
		res := strings.SplitN(s[i+len("DEG-RESULT "):], "\n", 2)[0]
		r.violation("degenerate:"+res+":"+dc.class, "wrong behaviour on ids with identical/adjacent xxhash64 values", map[string]any{"input": input, "child_output": tailOut})
	case strings.Contains(s, "panic: "):
		r.violation("degenerate:panic-in-"+stage+":"+dc.class, "panic on ids with identical/adjacent xxhash64 values", map[string]any{"input": input, "child_output": tailOut})
	default:
		c.Inconclusive("degenerate child ended without a result: " + tailOut)
	}
}

// degChild runs in the child process; it prints DEG- marker lines.
func degChild(dc degCase) {
	debug.SetMaxStack(8 << 20) // a runaway recursion ends in seconds; correct code recurses at most one frame per subdivision level
	m := map[string]string{}
	for i := 0; i < dc.n; i++ {
		id, ok := ldiffkit.IdWithHash(dc.base+uint64(i)*dc.gap, uint64(i+1))
		if !ok {
			fmt.Println("DEG-RESULT harness-cannot-build-id")
			return
		}
		m[id] = "head-0"
	}
	half := map[string]string{}
	for i, id := range ldiffkit.SortedIds(m) {
		if i%2 == 0 {
			half[id] = m[id]
		}
	}
	pr := params{dc.df, dc.thr}
	res := "ok"
	func() {
		defer func() {
			if v := recover(); v != nil {
				res = "panic"
				fmt.Printf("panic: %v\n%s\n", v, debug.Stack())
			}
		}()
		full := &side{m: m, idx: ldiff.New(pr.df, pr.thr)}
		for _, e := range ldiffkit.Elements(m) {
			full.idx.Set(e)
		}
		part := &side{m: half, idx: build(half, pr, nil, 0)}
		fmt.Println("DEG-STAGE set-done")
		for _, dir := range [][2]*side{{full, part}, {part, full}, {full, full}} {
			for _, cb := range inprocCombos {
				o := runCombo(dir[0], dir[1], pr, cb, false)
				if o.err != nil {
					if o.rec.Tripped {
						res = "diff-no-termination"
						if !o.rec.Repeat {
							res = "diff-step-watchdog"
						}
					} else {
						res = "diff-error"
					}
					return
				}
				if ps := judge(o, setDifference(dir[0].m, dir[1].m), cb); len(ps) > 0 {
					res = "diff-" + ps[0].kind
					return
				}
			}
		}
	}()
	fmt.Println("DEG-RESULT " + res)
}
