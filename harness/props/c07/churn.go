package c07

import (
	"math/rand"

	"github.com/anyproto/any-sync/app/ldiff"

	"verifharness/engines/ldiffkit"
)

// churn: the local index is grown through clustered insert / remove / re-insert phases inside
// nested canonical ranges, so that divided ranges merge over several levels and are divided again
// elsewhere, and is then diffed against a peer that still holds some of the removed ids (and lacks
// some of the kept ones). A range structure that keeps anything from its history (stale sub-range
// hashes, drifted counts) then answers for ids the index no longer / not yet holds.
// (Added after seeded change C07-2 - stale level-3 hashes after a two-level merge - was caught by
// C08 only: the generated pairs of C07 never produced a merge cascade followed by re-division.)
func genChurn(rng *rand.Rand) *pairCase {
	prs := []params{{2, 1}, {2, 2}, {3, 2}, {4, 2}, {4, 4}, {16, 4}, {16, 16}, {32, 8}}
	pr := prs[rng.Intn(len(prs))]
	d := ldiff.New(pr.df, pr.thr)
	local := map[string]string{}
	removedIds := map[string]string{}
	salt := uint64(rng.Int63())
	mk := func(r ldiffkit.Rng) string {
		span := r.To - r.From
		h := r.From
		if span > 0 {
			h += uint64(rng.Int63()) % span
		}
		salt++
		id, ok := ldiffkit.IdWithHash(h, salt)
		if !ok {
			return ldiffkit.RandomId(rng)
		}
		return id
	}
	set := func(id string) {
		h := ldiffkit.RandomHead(rng)
		local[id] = h
		delete(removedIds, id)
		d.Set(ldiff.Element{Id: id, Head: h})
	}
	remove := func(id string) {
		if h, ok := local[id]; ok {
			removedIds[id] = h
			delete(local, id)
		}
		_ = d.RemoveId(id)
	}
	phases := 1 + rng.Intn(3)
	var shape []map[string]any
	for ph := 0; ph < phases; ph++ {
		// nested path: parent P at depth dp-1, cluster range C at depth dp, the cluster sits in ONE child of C
		dp := 1 + rng.Intn(3)
		r := ldiffkit.Top
		var parent ldiffkit.Rng
		okPath := true
		for k := 0; k < dp; k++ {
			parts := ldiffkit.Split(r, pr.df)
			if len(parts) == 0 {
				okPath = false
				break
			}
			parent = r
			r = parts[rng.Intn(len(parts))]
		}
		if !okPath {
			continue
		}
		sub := ldiffkit.Split(r, pr.df)
		if len(sub) == 0 {
			continue
		}
		clusterRng := sub[rng.Intn(len(sub))]
		k := pr.thr + 1 + rng.Intn(3)
		var cluster []string
		for i := 0; i < k; i++ {
			id := mk(clusterRng)
			cluster = append(cluster, id)
			set(id)
		}
		// remove part (often just enough to fall back to the threshold) or all of the cluster
		nrem := 1
		switch rng.Intn(4) {
		case 0:
			nrem = k
		case 1:
			nrem = 1 + rng.Intn(k)
		}
		rng.Shuffle(len(cluster), func(i, j int) { cluster[i], cluster[j] = cluster[j], cluster[i] })
		for _, id := range cluster[:nrem] {
			remove(id)
		}
		// re-insert elsewhere under the same parent (outside the cluster range), sometimes inside it again
		nadd := 1 + rng.Intn(pr.thr+2)
		sibs := ldiffkit.Split(parent, pr.df)
		for i := 0; i < nadd && len(sibs) > 0; i++ {
			tgt := sibs[rng.Intn(len(sibs))]
			if rng.Intn(5) == 0 {
				tgt = r
			}
			set(mk(tgt))
		}
		shape = append(shape, map[string]any{"depth": dp, "cluster": k, "removed": nrem, "re_added": nadd})
	}
	// a few unrelated ids
	for i := rng.Intn(12); i > 0; i-- {
		set(ldiffkit.RandomId(rng))
	}
	// the peer: still holds most of the removed ids, lacks / differs on a few of the kept ones
	remote := map[string]string{}
	for id, h := range local {
		switch x := rng.Intn(20); {
		case x == 0:
		case x == 1:
			remote[id] = ldiffkit.RandomHead(rng)
		default:
			remote[id] = h
		}
	}
	for id, h := range removedIds {
		if rng.Intn(10) < 7 {
			remote[id] = h
		}
	}
	lm := map[string]string{}
	for k, v := range local {
		lm[k] = v
	}
	return &pairCase{class: "churn", pr: pr, desc: map[string]any{"phases": shape, "local": len(lm), "remote": len(remote), "removed_before_diff": len(removedIds)},
		local:  &side{m: lm, idx: d},
		remote: &side{m: remote, idx: build(remote, pr, rng, rng.Intn(4))}}
}
